/-
  Lemmas for `Tranp.Model.LadderT`: the reference parser of `expression` (operators + conditional expression + lambda +
  parentheses that re-enter `expression`) reads back every normal form; minimal parenthesisation; lark shape vs CPython reading.
-/
import Tranp.Model.LadderT
import Tranp.Lemmas.Ladder

namespace Tranp.Ladder
open Tranp Tranp.Prec

/-- the words of `expression` / `lambdadef` are operators of no level of the table -/
structure KwFree (L : Ops) : Prop where
  binIf : L.bin kwIf = none
  binElse : L.bin kwElse = none
  preLambda : L.pre kwLambda = none

/-! ## one-step unfoldings -/

theorem parseTest_succ (L : Ops) (f ts) :
    parseTest L (f + 1) ts =
      if ts.head? = some (.op kwLambda) then
        match parseParams ts.tail with
        | (ps, .op c :: rest) =>
          if c = kwColon then
            match parseTest L f rest with
            | some (body, rest') => some (.lam ps body, rest')
            | none => none
          else none
        | _ => none
      else
        match parseExprT L f 0 ts with
        | some (b, .op o :: rest) =>
          if o = kwIf then
            match parseExprT L f 0 rest with
            | some (c, .op o2 :: rest2) =>
              if o2 = kwElse then
                match parseTest L f rest2 with
                | some (e, rest3) => some (.ifExp b c e, rest3)
                | none => none
              else none
            | _ => none
          else some (b, .op o :: rest)
        | some (b, rest) => some (b, rest)
        | none => none := by
  simp only [parseTest]; rfl

theorem parsePrimaryT_atom (L : Ops) (f m n rest) :
    parsePrimaryT L (f + 1) m (.atom n :: rest) = some (.atom n, rest) := by simp only [parsePrimaryT]
theorem parsePrimaryT_lp (L : Ops) (f m rest) :
    parsePrimaryT L (f + 1) m (.lp :: rest) =
      match parseTest L f rest with
      | some (t, .rp :: rest') => some (.paren t, rest')
      | _ => none := by simp only [parsePrimaryT]; rfl
theorem parsePrimaryT_op (L : Ops) (f m o rest) :
    parsePrimaryT L (f + 1) m (.op o :: rest) =
      match L.pre o with
      | some k =>
        if m ≤ k then
          match parseExprT L f k rest with
          | some (e, rest') => some (.pre o e, rest')
          | none => none
        else none
      | none => none := by simp only [parsePrimaryT]; rfl
theorem parsePrimaryT_rp (L : Ops) (f m rest) : parsePrimaryT L (f + 1) m (.rp :: rest) = none := by
  simp only [parsePrimaryT]
theorem parsePrimaryT_nil (L : Ops) (f m) : parsePrimaryT L (f + 1) m [] = none := by simp only [parsePrimaryT]
theorem parseExprT_succ (L : Ops) (f m ts) :
    parseExprT L (f + 1) m ts =
      match parsePrimaryT L f m ts with
      | some (l, rest) => parseLoopT L f m l rest
      | none => none := by simp only [parseExprT]; rfl
theorem parseLoopT_op (L : Ops) (f m acc o rest) :
    parseLoopT L (f + 1) m acc (.op o :: rest) =
      match L.bin o with
      | some k =>
        if m ≤ k then
          match parseExprT L f (k + 1) rest with
          | some (r, rest') => parseLoopT L f m (.bin o acc r) rest'
          | none => none
        else some (acc, .op o :: rest)
      | none => some (acc, .op o :: rest) := by simp only [parseLoopT]; rfl
theorem parseLoopT_other (L : Ops) (f m acc ts) (h : ∀ o rest, ts ≠ .op o :: rest) :
    parseLoopT L (f + 1) m acc ts = some (acc, ts) := by
  cases ts with
  | nil => simp only [parseLoopT]
  | cons t rest =>
    cases t with
    | op o => exact absurd rfl (h o rest)
    | _ => simp only [parseLoopT]

/-! ## fuel monotonicity -/

theorem fuelT_mono_step (L : Ops) : ∀ f,
    (∀ ts x, parseTest L f ts = some x → parseTest L (f + 1) ts = some x) ∧
    (∀ m ts x, parsePrimaryT L f m ts = some x → parsePrimaryT L (f + 1) m ts = some x) ∧
    (∀ m ts x, parseExprT L f m ts = some x → parseExprT L (f + 1) m ts = some x) ∧
    (∀ m acc ts x, parseLoopT L f m acc ts = some x → parseLoopT L (f + 1) m acc ts = some x) := by
  intro f
  induction f with
  | zero => simp [parseTest, parsePrimaryT, parseExprT, parseLoopT]
  | succ f ih =>
    obtain ⟨ihT, ihP, ihE, ihL⟩ := ih
    refine ⟨?_, ?_, ?_, ?_⟩
    · intro ts x h
      rw [parseTest_succ] at h ⊢
      by_cases hl : ts.head? = some (.op kwLambda)
      · simp only [hl, if_true] at h ⊢
        split at h
        · next ps c rest hp =>
          split at h
          · next hc =>
            split at h
            · next body rest' hb => simp only [hc, if_true, ihT _ _ hb]; exact h
            · simp at h
          · simp at h
        · simp at h
      · simp only [hl, if_false] at h ⊢
        split at h
        · next b o rest hb =>
          rw [ihE _ _ _ hb]
          simp only
          split at h
          · next ho =>
            simp only [ho, if_true]
            split at h
            · next c o2 rest2 hc =>
              rw [ihE _ _ _ hc]
              simp only
              split at h
              · next ho2 =>
                simp only [ho2, if_true]
                split at h
                · next e rest3 he => rw [ihT _ _ he]; exact h
                · simp at h
              · simp at h
            · simp at h
          · next ho => simp only [ho, if_false]; exact h
        · next b rest hno hb =>
          rw [ihE _ _ _ hb]
          cases h
          split
          · next b' o rest' heq =>
            simp only [Option.some.injEq, Prod.mk.injEq] at heq
            exact absurd heq.2 (hno o rest')
          · next b' rest' _ heq => simp only [Option.some.injEq, Prod.mk.injEq] at heq; rw [heq.1, heq.2]
          · next heq => simp at heq
        · simp at h
    · intro m ts x h
      match ts with
      | [] => simp [parsePrimaryT_nil] at h
      | .rp :: rest => simp [parsePrimaryT_rp] at h
      | .atom n :: rest => rw [parsePrimaryT_atom] at h ⊢; exact h
      | .lp :: rest =>
        rw [parsePrimaryT_lp] at h ⊢
        split at h
        · next t rest' ht => rw [ihT _ _ ht]; exact h
        · simp at h
      | .op o :: rest =>
        rw [parsePrimaryT_op] at h ⊢
        split at h
        · next k hk =>
          split at h
          · next hm =>
            split at h
            · next e rest' he => simp only [hm, if_true, ihE _ _ _ he]; exact h
            · simp at h
          · simp at h
        · simp at h
    · intro m ts x h
      rw [parseExprT_succ] at h ⊢
      split at h
      · next l rest hp => rw [ihP _ _ _ hp]; exact ihL _ _ _ _ h
      · simp at h
    · intro m acc ts x h
      by_cases hts : ∃ o rest, ts = .op o :: rest
      · obtain ⟨o, rest, rfl⟩ := hts
        rw [parseLoopT_op] at h ⊢
        split at h
        · next k hk =>
          split at h
          · next hm =>
            split at h
            · next r rest' he => simp only [hm, if_true, ihE _ _ _ he]; exact ihL _ _ _ _ h
            · simp at h
          · next hm => simp only [hm, if_false]; exact h
        · exact h
      · have hts' : ∀ o rest, ts ≠ .op o :: rest := fun o rest he => hts ⟨o, rest, he⟩
        rw [parseLoopT_other _ _ _ _ _ hts'] at h ⊢
        exact h

theorem parseTest_fuel_mono (L : Ops) {f f' ts x} (hle : f ≤ f') (h : parseTest L f ts = some x) :
    parseTest L f' ts = some x := by
  induction hle with
  | refl => exact h
  | step _ ih => exact (fuelT_mono_step L _).1 _ _ ih

theorem parseExprT_fuel_mono (L : Ops) {f f' m ts x} (hle : f ≤ f') (h : parseExprT L f m ts = some x) :
    parseExprT L f' m ts = some x := by
  induction hle with
  | refl => exact h
  | step _ ih => exact (fuelT_mono_step L _).2.2.1 _ _ _ ih

theorem parseLoopT_fuel_mono (L : Ops) {f f' m acc ts x} (hle : f ≤ f') (h : parseLoopT L f m acc ts = some x) :
    parseLoopT L f' m acc ts = some x := by
  induction hle with
  | refl => exact h
  | step _ ih => exact (fuelT_mono_step L _).2.2.2 _ _ _ _ ih

theorem parseLoopT_stop (L : Ops) (f m acc ts) (h : stopsAt L m ts) :
    parseLoopT L (f + 1) m acc ts = some (acc, ts) := by
  by_cases hts : ∃ o rest, ts = .op o :: rest
  · obtain ⟨o, rest, rfl⟩ := hts
    rw [parseLoopT_op]
    split
    · next k hk =>
      have := h k hk
      simp [Nat.not_le.mpr this]
    · rfl
  · exact parseLoopT_other _ _ _ _ _ (fun o rest he => hts ⟨o, rest, he⟩)

/-! ## completeness: a normal form is read back -/

def okAtT (L : Ops) (m : Nat) (t : TExpr) : Bool :=
  match headT t with
  | some h => okAt L m h
  | none => false

/-- what may follow a whole `expression`: no infix operator of the table and not `if` -/
def testStop (L : Ops) (rest : List Tok) : Prop := stopsAt L 0 rest ∧ rest.head? ≠ some (.op kwIf)

theorem slotOkT_elim (L : Ops) {p s c} (h : slotOkT L p s c = true) : ∃ hd, headT c = some hd ∧ slotOk L p s hd = true := by
  unfold slotOkT at h
  cases hc : headT c with
  | none => rw [hc] at h; cases h
  | some hd => rw [hc] at h; exact ⟨hd, rfl, h⟩

theorem isOrTest_elim (L : Ops) {t} (h : isOrTest L t = true) : ∃ hd, headT t = some hd ∧ okAt L 0 hd = true := by
  unfold isOrTest at h
  cases hc : headT t with
  | none => rw [hc] at h; cases h
  | some hd => rw [hc] at h; exact ⟨hd, rfl, h⟩

theorem okAt_zero_of_nfT (L : Ops) {t hd} (hn : nfT L t = true) (hh : headT t = some hd) : okAt L 0 hd = true := by
  cases t with
  | atom n => simp [headT] at hh; subst hh; rfl
  | paren t => simp [headT] at hh; subst hh; rfl
  | ifExp b c e => simp [headT] at hh
  | lam ps body => simp [headT] at hh
  | bin o l r =>
    simp [headT] at hh; subst hh
    simp only [nfT, Bool.and_eq_true] at hn
    obtain ⟨hd', _, hs⟩ := slotOkT_elim L hn.1.1.1
    simp only [slotOk] at hs
    simp only [okAt]
    split
    · simp
    · next hno => rw [hno] at hs; simp at hs
  | pre o e =>
    simp [headT] at hh; subst hh
    simp only [nfT, Bool.and_eq_true] at hn
    obtain ⟨hd', _, hs⟩ := slotOkT_elim L hn.1
    simp only [slotOk] at hs
    simp only [okAt]
    split
    · simp
    · next hno => rw [hno] at hs; simp at hs

theorem head_ne_lambda (L : Ops) (K : KwFree L) : ∀ (t : TExpr) (hd : Head) (rest : List Tok),
    nfT L t = true → headT t = some hd → (printT t ++ rest).head? ≠ some (.op kwLambda) := by
  intro t
  induction t with
  | atom n => intro hd rest _ _; simp [printT]
  | paren t _ => intro hd rest _ _; simp [printT]
  | ifExp b c e _ _ _ => intro hd rest _ hh; simp [headT] at hh
  | lam ps body _ => intro hd rest _ hh; simp [headT] at hh
  | pre o e _ =>
    intro hd rest hn _
    simp only [nfT, Bool.and_eq_true] at hn
    obtain ⟨hd', _, hs⟩ := slotOkT_elim L hn.1
    simp only [printT, List.cons_append, List.head?_cons, ne_eq, Option.some.injEq, Tok.op.injEq]
    intro ho
    rw [ho] at hs
    simp [slotOk, K.preLambda] at hs
  | bin o l r ihl _ =>
    intro hd rest hn _
    simp only [nfT, Bool.and_eq_true] at hn
    obtain ⟨hl, hhl, _⟩ := slotOkT_elim L hn.1.1.1
    have := ihl hl (.op o :: (printT r ++ rest)) hn.1.2 hhl
    simpa [printT, List.append_assoc] using this

theorem parseParams_print (ps : List Nat) (rest : List Tok) :
    parseParams (printParams ps ++ .op kwColon :: rest) = (ps, .op kwColon :: rest) := by
  have hne : kwColon ≠ kwComma := by decide
  match ps with
  | [] => simp [printParams, parseParams]
  | [p] =>
    simp only [printParams, List.cons_append, List.nil_append]
    cases rest with
    | nil => simp [parseParams]
    | cons t rest' =>
      cases t <;> simp [parseParams, hne]
  | p :: q :: ps' =>
    have ih := parseParams_print (q :: ps') rest
    simp only [printParams, List.cons_append] at ih ⊢
    cases hq : printParams (q :: ps') with
    | nil => cases ps' <;> simp [printParams] at hq
    | cons t ts =>
      have ht : t = .atom q := by cases ps' <;> simp [printParams] at hq <;> exact hq.1.symm
      subst ht
      rw [hq] at ih
      simp only [List.cons_append] at ih ⊢
      simp only [parseParams, if_true, ih]

theorem printParams_length (ps : List Nat) : (printParams ps).length ≤ 2 * ps.length := by
  match ps with
  | [] => simp [printParams]
  | [p] => simp [printParams]
  | p :: q :: ps' =>
    have := printParams_length (q :: ps')
    simp only [printParams, List.length_cons] at this ⊢
    omega

/-- the two statements proved together by induction on the term -/
structure Complete (L : Ops) (t : TExpr) : Prop where
  expr : ∀ (hd : Head) (m f : Nat) (rest : List Tok) (x : TExpr × List Tok),
    headT t = some hd → nfT L t = true → okAt L m hd = true → stops L hd rest →
    parseLoopT L f m t rest = some x →
    parseExprT L (f + 2 * (printT t).length) m (printT t ++ rest) = some x
  test : ∀ (f : Nat) (rest : List Tok), nfT L t = true → testStop L rest → 2 * (printT t).length + 2 ≤ f →
    parseTest L f (printT t ++ rest) = some (t, rest)

/-- an `or_test` at a place where a whole `expression` is expected -/
theorem test_of_expr (L : Ops) (K : KwFree L) (t : TExpr) (hd : Head) (hh : headT t = some hd)
    (he : ∀ (m f : Nat) (rest : List Tok) (x : TExpr × List Tok),
      nfT L t = true → okAt L m hd = true → stops L hd rest →
      parseLoopT L f m t rest = some x →
      parseExprT L (f + 2 * (printT t).length) m (printT t ++ rest) = some x)
    (f : Nat) (rest : List Tok) (hn : nfT L t = true) (hs : testStop L rest) (hf : 2 * (printT t).length + 2 ≤ f) :
    parseTest L f (printT t ++ rest) = some (t, rest) := by
  obtain ⟨g, rfl⟩ : ∃ g, f = g + 1 := ⟨f - 1, by omega⟩
  rw [parseTest_succ]
  have hl := head_ne_lambda L K t hd rest hn hh
  simp only [hl, if_false]
  have h0 := okAt_zero_of_nfT L hn hh
  have hexpr : parseExprT L g 0 (printT t ++ rest) = some (t, rest) :=
    parseExprT_fuel_mono L (by omega)
      (he 0 1 rest (t, rest) hn h0 (stops_of_okAt L h0 hs.1) (parseLoopT_stop L 0 0 t rest hs.1))
  rw [hexpr]
  split
  · next b o rest' heq =>
    simp only [Option.some.injEq, Prod.mk.injEq] at heq
    obtain ⟨rfl, hr⟩ := heq
    have : o ≠ kwIf := by
      intro ho; apply hs.2; rw [hr, ho]; rfl
    simp [this, hr]
  · next b rest' _ heq =>
    simp only [Option.some.injEq, Prod.mk.injEq] at heq
    rw [heq.1, heq.2]
  · next heq => simp at heq

theorem complete (L : Ops) (K : KwFree L) : ∀ t : TExpr, Complete L t := by
  intro t
  induction t with
  | atom n =>
    have he : ∀ (m f : Nat) (rest : List Tok) (x : TExpr × List Tok),
        nfT L (.atom n) = true → okAt L m .leaf = true → stops L .leaf rest →
        parseLoopT L f m (.atom n) rest = some x →
        parseExprT L (f + 2 * (printT (.atom n)).length) m (printT (.atom n) ++ rest) = some x := by
      intro m f rest x _ _ _ h
      have e1 : f + 2 * (printT (.atom n)).length = (f + 1) + 1 := by simp [printT]
      rw [e1, parseExprT_succ]
      simp only [printT, List.cons_append, List.nil_append]
      cases f with
      | zero => simp [parseLoopT] at h
      | succ g =>
        rw [parsePrimaryT_atom]
        exact parseLoopT_fuel_mono L (by omega) h
    exact ⟨fun hd m f rest x hh => by simp [headT] at hh; subst hh; exact he m f rest x,
      test_of_expr L K _ .leaf rfl he⟩
  | paren t ih =>
    have he : ∀ (m f : Nat) (rest : List Tok) (x : TExpr × List Tok),
        nfT L (.paren t) = true → okAt L m .leaf = true → stops L .leaf rest →
        parseLoopT L f m (.paren t) rest = some x →
        parseExprT L (f + 2 * (printT (.paren t)).length) m (printT (.paren t) ++ rest) = some x := by
      intro m f rest x hnf _ _ h
      simp only [nfT] at hnf
      have e1 : f + 2 * (printT (.paren t)).length = ((f + 2 * (printT t).length + 2) + 1) + 1 := by
        simp [printT]; omega
      have e2 : printT (.paren t) ++ rest = .lp :: (printT t ++ .rp :: rest) := by simp [printT]
      rw [e1, e2, parseExprT_succ, parsePrimaryT_lp]
      have hin : parseTest L (f + 2 * (printT t).length + 2) (printT t ++ .rp :: rest) = some (t, .rp :: rest) :=
        ih.test _ _ hnf ⟨trivial, by simp⟩ (by omega)
      rw [hin]
      exact parseLoopT_fuel_mono L (by omega) h
    exact ⟨fun hd m f rest x hh => by simp [headT] at hh; subst hh; exact he m f rest x,
      test_of_expr L K _ .leaf rfl he⟩
  | bin o l r ihl ihr =>
    have he : ∀ (m f : Nat) (rest : List Tok) (x : TExpr × List Tok),
        nfT L (.bin o l r) = true → okAt L m (.bin o) = true → stops L (.bin o) rest →
        parseLoopT L f m (.bin o l r) rest = some x →
        parseExprT L (f + 2 * (printT (.bin o l r)).length) m (printT (.bin o l r) ++ rest) = some x := by
      intro m f rest x hnf hok hst h
      simp only [nfT, Bool.and_eq_true] at hnf
      obtain ⟨⟨⟨hl, hr⟩, hnl⟩, hnr⟩ := hnf
      obtain ⟨hdl, hhl, hsl⟩ := slotOkT_elim L hl
      obtain ⟨hdr, hhr, hsr⟩ := slotOkT_elim L hr
      cases hk : L.bin o with
      | none => simp [slotOk, hk] at hsl
      | some k =>
        simp only [slotOk, hk] at hsl hsr
        have hm : m ≤ k := by simpa [okAt, hk] using hok
        have hsrest : stopsAt L (k + 1) rest := hst (k + 1) (by simp [rb, hk])
        have e1 : f + 2 * (printT (.bin o l r)).length = (f + 2 * (printT r).length + 2) + 2 * (printT l).length := by
          simp [printT]; omega
        have e2 : printT (.bin o l r) ++ rest = printT l ++ (.op o :: (printT r ++ rest)) := by simp [printT]
        rw [e1, e2]
        apply ihl.expr hdl m _ _ x hhl hnl (okAt_of_okL L hm hsl) (stops_of_okL L hsl hk)
        have e3 : f + 2 * (printT r).length + 2 = (f + 1 + 2 * (printT r).length) + 1 := by omega
        rw [e3, parseLoopT_op, hk]
        simp only [hm, if_true]
        have hin : parseExprT L (f + 1 + 2 * (printT r).length) (k + 1) (printT r ++ rest) = some (r, rest) :=
          ihr.expr hdr (k + 1) (f + 1) rest (r, rest) hhr hnr hsr (stops_of_okAt L hsr hsrest)
            (parseLoopT_stop L f (k + 1) r rest hsrest)
        rw [hin]
        exact parseLoopT_fuel_mono L (by omega) h
    exact ⟨fun hd m f rest x hh => by simp [headT] at hh; subst hh; exact he m f rest x,
      test_of_expr L K _ (.bin o) rfl he⟩
  | pre o e ih =>
    have he : ∀ (m f : Nat) (rest : List Tok) (x : TExpr × List Tok),
        nfT L (.pre o e) = true → okAt L m (.pre o) = true → stops L (.pre o) rest →
        parseLoopT L f m (.pre o e) rest = some x →
        parseExprT L (f + 2 * (printT (.pre o e)).length) m (printT (.pre o e) ++ rest) = some x := by
      intro m f rest x hnf hok hst h
      simp only [nfT, Bool.and_eq_true] at hnf
      obtain ⟨hs, hne⟩ := hnf
      obtain ⟨hde, hhe, hse⟩ := slotOkT_elim L hs
      cases hk : L.pre o with
      | none => simp [slotOk, hk] at hse
      | some k =>
        simp only [slotOk, hk] at hse
        have hm : m ≤ k := by simpa [okAt, hk] using hok
        have hsrest : stopsAt L k rest := hst k (by simp [rb, hk])
        have e1 : f + 2 * (printT (.pre o e)).length = ((f + 2 * (printT e).length) + 1) + 1 := by
          simp [printT]; omega
        have e2 : printT (.pre o e) ++ rest = .op o :: (printT e ++ rest) := by simp [printT]
        rw [e1, e2, parseExprT_succ, parsePrimaryT_op, hk]
        simp only [hm, if_true]
        cases f with
        | zero => simp [parseLoopT] at h
        | succ g =>
          have hin : parseExprT L (g + 1 + 2 * (printT e).length) k (printT e ++ rest) = some (e, rest) :=
            ih.expr hde k (g + 1) rest (e, rest) hhe hne hse (stops_of_okAt L hse hsrest)
              (parseLoopT_stop L g k e rest hsrest)
          rw [hin]
          exact parseLoopT_fuel_mono L (by omega) h
    exact ⟨fun hd m f rest x hh => by simp [headT] at hh; subst hh; exact he m f rest x,
      test_of_expr L K _ (.pre o) rfl he⟩
  | ifExp b c e ihb ihc ihe =>
    refine ⟨fun hd m f rest x hh => by simp [headT] at hh, ?_⟩
    intro f rest hnf hs hf
    simp only [nfT, Bool.and_eq_true] at hnf
    obtain ⟨⟨⟨⟨hob, hoc⟩, hnb⟩, hnc⟩, hne⟩ := hnf
    obtain ⟨hdb, hhb, h0b⟩ := isOrTest_elim L hob
    obtain ⟨hdc, hhc, h0c⟩ := isOrTest_elim L hoc
    obtain ⟨g, rfl⟩ : ∃ g, f = g + 1 := ⟨f - 1, by omega⟩
    have hlen : (printT (.ifExp b c e)).length = (printT b).length + (printT c).length + (printT e).length + 2 := by
      simp [printT]; omega
    have e2 : printT (.ifExp b c e) ++ rest =
        printT b ++ (.op kwIf :: (printT c ++ (.op kwElse :: (printT e ++ rest)))) := by simp [printT]
    rw [e2, parseTest_succ]
    have hl := head_ne_lambda L K b hdb (.op kwIf :: (printT c ++ (.op kwElse :: (printT e ++ rest)))) hnb hhb
    simp only [hl, if_false]
    have hsIf : ∀ ts, stopsAt L 0 (.op kwIf :: ts) := fun ts k hk => by rw [K.binIf] at hk; cases hk
    have hsElse : ∀ ts, stopsAt L 0 (.op kwElse :: ts) := fun ts k hk => by rw [K.binElse] at hk; cases hk
    have hb : parseExprT L g 0 (printT b ++ (.op kwIf :: (printT c ++ (.op kwElse :: (printT e ++ rest)))))
        = some (b, .op kwIf :: (printT c ++ (.op kwElse :: (printT e ++ rest)))) :=
      parseExprT_fuel_mono L (by omega)
        (ihb.expr hdb 0 1 _ _ hhb hnb h0b (stops_of_okAt L h0b (hsIf _)) (parseLoopT_stop L 0 0 b _ (hsIf _)))
    rw [hb]
    simp only [if_true]
    have hc : parseExprT L g 0 (printT c ++ (.op kwElse :: (printT e ++ rest)))
        = some (c, .op kwElse :: (printT e ++ rest)) :=
      parseExprT_fuel_mono L (by omega)
        (ihc.expr hdc 0 1 _ _ hhc hnc h0c (stops_of_okAt L h0c (hsElse _)) (parseLoopT_stop L 0 0 c _ (hsElse _)))
    rw [hc]
    simp only [if_true]
    rw [ihe.test g rest hne hs (by omega)]
  | lam ps body ih =>
    refine ⟨fun hd m f rest x hh => by simp [headT] at hh, ?_⟩
    intro f rest hnf hs hf
    simp only [nfT] at hnf
    obtain ⟨g, rfl⟩ : ∃ g, f = g + 1 := ⟨f - 1, by omega⟩
    have hlen : (printT (.lam ps body)).length = (printParams ps).length + (printT body).length + 2 := by
      simp [printT]; omega
    have e2 : printT (.lam ps body) ++ rest =
        .op kwLambda :: (printParams ps ++ .op kwColon :: (printT body ++ rest)) := by simp [printT]
    rw [e2, parseTest_succ]
    simp only [List.head?_cons, if_true, List.tail_cons, parseParams_print]
    rw [ih.test g rest hnf hs (by omega)]

/-- **Round trip for `expression`.** Every term that carries parentheses wherever the table and the shape of `expression`
    need them (and possibly more) is read back from its printed form — right-nested conditionals, conditionals in lambda
    bodies, lambdas in the branches, any redundant parentheses. -/
theorem parseT_printT (L : Ops) (K : KwFree L) (t : TExpr) (h : nfT L t = true) : parseT L (printT t) = some t := by
  have := (complete L K t).test (2 * (printT t).length + 2) [] h ⟨trivial, by simp⟩ (Nat.le_refl _)
  simp only [List.append_nil] at this
  simp only [parseT, this]

/-! ## lark's shape read the CPython way (terms of `expression`) -/

theorem toLarkT_bin (I : InfoT) (o l r) :
    toLarkT I (.bin o l r) =
      .tree (I.toInfo.binName o) (chainT I (I.toInfo.binName o) l ++ [I.toInfo.binOpTree o, toLarkT I r]) := by
  simp only [toLarkT]
theorem toLarkT_pre (I : InfoT) (o e) :
    toLarkT I (.pre o e) = .tree (I.toInfo.preName o) [I.toInfo.preOpTree o, toLarkT I e] := by simp only [toLarkT]
theorem toLarkT_paren (I : InfoT) (e) :
    toLarkT I (.paren e) = .tree ['g','r','o','u','p','_','e','x','p','r'] [toLarkT I e] := by simp only [toLarkT]
theorem toLarkT_atom (I : InfoT) (n) : toLarkT I (.atom n) = I.atomTree n := by simp only [toLarkT]
theorem toLarkT_ifExp (I : InfoT) (b c e) :
    toLarkT I (.ifExp b c e) =
      .tree ['t','e','r','n','a','r','y','_','t','e','s','t'] [toLarkT I b, toLarkT I c, toLarkT I e] := by simp only [toLarkT]
theorem toLarkT_lam (I : InfoT) (ps body) :
    toLarkT I (.lam ps body) = .tree ['l','a','m','b','d','a','d','e','f'] [lambdaParamsTree I ps, toLarkT I body] := by
  simp only [toLarkT]

theorem chainT_bin (I : InfoT) (name o l r) :
    chainT I name (.bin o l r) =
      if I.toInfo.binName o = name then chainT I name l ++ [I.toInfo.binOpTree o, toLarkT I r] else [toLarkT I (.bin o l r)] := by
  simp only [chainT, toLarkT]
theorem chainT_pre (I : InfoT) (name o e) : chainT I name (.pre o e) = [toLarkT I (.pre o e)] := by simp only [chainT, toLarkT]
theorem chainT_paren (I : InfoT) (name e) : chainT I name (.paren e) = [toLarkT I (.paren e)] := by simp only [chainT, toLarkT]
theorem chainT_atom (I : InfoT) (name n) : chainT I name (.atom n) = [toLarkT I (.atom n)] := by simp only [chainT, toLarkT]
theorem chainT_ifExp (I : InfoT) (name b c e) : chainT I name (.ifExp b c e) = [toLarkT I (.ifExp b c e)] := by
  simp only [chainT, toLarkT]
theorem chainT_lam (I : InfoT) (name ps body) : chainT I name (.lam ps body) = [toLarkT I (.lam ps body)] := by
  simp only [chainT, toLarkT]

theorem astOfT_bin (I : InfoT) (o l r) :
    astOfT I (.bin o l r) = match pyKind o with
      | .bool _ => .boolOp o (boolOperandsT I o l ++ [astOfT I r])
      | .compare => .compare (cmpPartsT I l).1 ((cmpPartsT I l).2.1 ++ [o]) ((cmpPartsT I l).2.2 ++ [astOfT I r])
      | _ => .binOp o (astOfT I l) (astOfT I r) := by
  simp only [astOfT]
  cases pyKind o <;> rfl

theorem boolOperandsT_bin (I : InfoT) (o o' l r) :
    boolOperandsT I o (.bin o' l r) =
      if sameLevel o' o then boolOperandsT I o l ++ [astOfT I r] else [astOfT I (.bin o' l r)] := by
  simp only [boolOperandsT, astOfT]
theorem boolOperandsT_other (I : InfoT) (o e) (h : ∀ o' l r, e ≠ .bin o' l r) :
    boolOperandsT I o e = [astOfT I e] := by
  cases e with
  | bin o' l r => exact absurd rfl (h o' l r)
  | atom n => simp only [boolOperandsT, astOfT]
  | paren e => simp only [boolOperandsT, astOfT]
  | pre o' e => simp only [boolOperandsT, astOfT]
  | ifExp b c e => simp only [boolOperandsT, astOfT]
  | lam ps body => simp only [boolOperandsT, astOfT]

theorem cmpPartsT_bin (I : InfoT) (o' l r) :
    cmpPartsT I (.bin o' l r) =
      if pyKind o' = .compare then
        ((cmpPartsT I l).1, (cmpPartsT I l).2.1 ++ [o'], (cmpPartsT I l).2.2 ++ [astOfT I r])
      else (astOfT I (.bin o' l r), [], []) := by
  simp only [cmpPartsT, astOfT]
  cases pyKind o' <;> simp
theorem cmpPartsT_other (I : InfoT) (e) (h : ∀ o' l r, e ≠ .bin o' l r) :
    cmpPartsT I e = (astOfT I e, [], []) := by
  cases e with
  | bin o' l r => exact absurd rfl (h o' l r)
  | atom n => simp only [cmpPartsT, astOfT]
  | paren e => simp only [cmpPartsT, astOfT]
  | pre o' e => simp only [cmpPartsT, astOfT]
  | ifExp b c e => simp only [cmpPartsT, astOfT]
  | lam ps body => simp only [cmpPartsT, astOfT]

/-! ### the folding lemma -/

/-- the statements proved together by induction on the term -/
structure FoldsT (I : InfoT) (S : List Head) (e : TExpr) : Prop where
  main : toAst (toLarkT I e) = astOfT I e
  arith : ∀ name tail, kindOfName name = .arith →
    foldArith (toAstList (chainT I name e) ++ tail) = goArith (astOfT I e) tail
  bool : ∀ o₀ tail, Head.bin o₀ ∈ S →
    foldBool (toAstList (chainT I (I.toInfo.binName o₀) e) ++ tail) = goBool (boolOperandsT I o₀ e) tail
  cmp : ∀ o₀ tail, Head.bin o₀ ∈ S → pyKind o₀ = .compare →
    foldCmp (toAstList (chainT I (I.toInfo.binName o₀) e) ++ tail) =
      (goCmp (cmpPartsT I e).2.1 (cmpPartsT I e).2.2 tail).map
        fun p => ((cmpPartsT I e).1, p.1, p.2)

/-- the three chain statements for a term that starts no chain of its own -/
theorem foldsT_of_single (I : InfoT) (S : List Head) (e : TExpr)
    (hmain : toAst (toLarkT I e) = astOfT I e)
    (hchain : ∀ name, chainT I name e = [toLarkT I e])
    (hnb : ∀ o' l r, e ≠ .bin o' l r) : FoldsT I S e := by
  refine ⟨hmain, ?_, ?_, ?_⟩
  · intro name tail _
    simp [hchain, toAstList, hmain, foldArith]
  · intro o₀ tail _
    simp [hchain, toAstList, hmain, foldBool, boolOperandsT_other _ _ _ hnb]
  · intro o₀ tail _ _
    simp [hchain, toAstList, hmain, foldCmp, cmpPartsT_other _ _ hnb]

theorem foldsT (I : InfoT) (S : List Head) (F : Facts I.toInfo S) :
    ∀ e : TExpr, (∀ h ∈ headsT e, h ∈ S) → FoldsT I S e := by
  intro e
  induction e with
  | atom n =>
    intro _
    exact foldsT_of_single I S _ (by rw [toLarkT_atom]; simp only [astOfT]; exact toAst_of_isLeafTree _ (F.atoms n))
      (fun name => chainT_atom I name n) (by intro _ _ _ h; cases h)
  | paren e ih =>
    intro hv
    have ihe := ih (by simpa [headsT] using hv)
    refine foldsT_of_single I S _ ?_ (fun name => chainT_paren I name e) (by intro _ _ _ h; cases h)
    rw [toLarkT_paren]
    simp only [toAst, toAstList, astOfT, ihe.main]
    simp [build, kindOfName]
  | pre o e ih =>
    intro hv
    have ho : Head.pre o ∈ S := hv _ (by simp [headsT])
    have ihe := ih (fun h hh => hv h (by simp [headsT, hh]))
    refine foldsT_of_single I S _ ?_ (fun name => chainT_pre I name o e) (by intro _ _ _ h; cases h)
    rw [toLarkT_pre]
    simp only [toAst, toAstList, astOfT, ihe.main]
    have : toAst (I.toInfo.preOpTree o) = .leaf (I.toInfo.preOpTree o) := by simp [Info.preOpTree, anonTok, toAst]
    rw [this]
    simp [build, F.preKind o ho, F.preOpCode o ho]
  | ifExp b c e ihb ihc ihe =>
    intro hv
    have hb := ihb (fun h hh => hv h (by simp [headsT, hh]))
    have hc := ihc (fun h hh => hv h (by simp [headsT, hh]))
    have he := ihe (fun h hh => hv h (by simp [headsT, hh]))
    refine foldsT_of_single I S _ ?_ (fun name => chainT_ifExp I name b c e) (by intro _ _ _ h; cases h)
    rw [toLarkT_ifExp]
    simp only [toAst, toAstList, astOfT, hb.main, hc.main, he.main]
    simp [build, kindOfName]
  | lam ps body ih =>
    intro hv
    have hbody := ih (by simpa [headsT] using hv)
    refine foldsT_of_single I S _ ?_ (fun name => chainT_lam I name ps body) (by intro _ _ _ h; cases h)
    rw [toLarkT_lam]
    simp only [toAst, toAstList, astOfT, hbody.main]
    have hp : toAst (lambdaParamsTree I ps) = .leaf (lambdaParamsTree I ps) := by
      unfold lambdaParamsTree
      split
      · simp [toAst]
      · simp [toAst, build, kindOfName]
    rw [hp]
    have hch : (lambdaParamsTree I ps).children = ps.map I.paramTree := by
      unfold lambdaParamsTree
      split
      · next h => simp at h; simp [h, AstPath.Entry.children]
      · simp [AstPath.Entry.children]
    simp [build, kindOfName, hch]
  | bin o l r ihl ihr =>
    intro hv
    have ho : Head.bin o ∈ S := hv _ (by simp [headsT])
    have hl := ihl (fun h hh => hv h (by simp [headsT, hh]))
    have hr := ihr (fun h hh => hv h (by simp [headsT, hh]))
    have hopl : toAst (I.toInfo.binOpTree o) = .leaf (I.toInfo.binOpTree o) := toAst_of_isLeafTree _ (F.binOpLeaf o ho)
    have hcode := F.binOpCode o ho
    have hkind := F.binKind o ho
    -- the converted children of the node's own chain
    have hkids : toAstList (chainT I (I.toInfo.binName o) l ++ [I.toInfo.binOpTree o, toLarkT I r]) =
        toAstList (chainT I (I.toInfo.binName o) l) ++ [.leaf (I.toInfo.binOpTree o), astOfT I r] := by
      rw [toAstList_append]; simp [toAstList, hopl, hr.main]
    have hmain : toAst (toLarkT I (.bin o l r)) = astOfT I (.bin o l r) := by
      rw [toLarkT_bin, astOfT_bin]
      simp only [toAst]
      rw [hkids]
      rcases F.pyKindOk o ho with hk | hk | hk
      · rw [build_arith (hkind.trans hk), hl.arith _ _ (hkind.trans hk), hk]
        simp [goArith, hcode]
      · rw [build_cmp (hkind.trans hk), hl.cmp o _ ho hk, hk]
        simp [goCmp, hcode]
      · rw [build_bool (hkind.trans hk), hl.bool o _ ho, hk]
        simp [goBool]
    refine ⟨hmain, ?_, ?_, ?_⟩
    · intro name tail hname
      rw [chainT_bin]
      split
      · next heq =>
        have hk : pyKind o = .arith := by rw [← hkind, heq, hname]
        rw [toAstList_append, List.append_assoc, hl.arith name _ hname, astOfT_bin, hk]
        simp [toAstList, hopl, hr.main, goArith, hcode]
      · simp [toAstList, hmain, foldArith]
    · intro o₀ tail ho₀
      rw [chainT_bin, boolOperandsT_bin]
      have hs := F.sameRule o₀ o ho₀ ho
      by_cases heq : I.toInfo.binName o = I.toInfo.binName o₀
      · have hsl : sameLevel o o₀ = true := by rw [← hs]; simp [heq]
        simp only [heq, if_true, hsl]
        rw [toAstList_append, List.append_assoc, hl.bool o₀ _ ho₀]
        simp [toAstList, hopl, hr.main, goBool]
      · have hsl : sameLevel o o₀ = false := by rw [← hs]; simp [heq]
        simp [heq, hsl, toAstList, hmain, foldBool]
    · intro o₀ tail ho₀ hk₀
      rw [chainT_bin, cmpPartsT_bin]
      have hs := F.sameRule o₀ o ho₀ ho
      by_cases heq : I.toInfo.binName o = I.toInfo.binName o₀
      · have hsl : sameLevel o o₀ = true := by rw [← hs]; simp [heq]
        have hk : pyKind o = .compare := (sameLevel_compare hk₀).mp hsl
        simp only [heq, if_true, hk]
        rw [toAstList_append, List.append_assoc, hl.cmp o₀ _ ho₀ hk₀]
        simp [toAstList, hopl, hr.main, goCmp, hcode]
      · have hsl : sameLevel o o₀ = false := by rw [← hs]; simp [heq]
        have hk : ¬ pyKind o = .compare := by
          intro hk
          have := (sameLevel_compare hk₀).mpr hk
          rw [hsl] at this; cases this
        simp [heq, hk, toAstList, hmain, foldCmp]

/-- **Chain / left-nest lemma**: reading lark's flat chains the way CPython's `ast` folds them gives CPython's reading of
    the operator term itself. -/
theorem toAst_toLarkT (I : InfoT) (S : List Head) (F : Facts I.toInfo S) (e : TExpr) (hv : ∀ h ∈ headsT e, h ∈ S) :
    toAst (toLarkT I e) = astOfT I e :=
  (foldsT I S F e hv).main

/-! ## parentheses added by `normalizeT` do not change CPython's reading -/

theorem astOfT_wrapT (I : InfoT) (b : Bool) (e : TExpr) : astOfT I (wrapT b e) = astOfT I e := by
  cases b <;> simp [wrapT, astOfT]

theorem boolOperandsT_paren (I : InfoT) (o : Nat) (e : TExpr) :
    boolOperandsT I o (.paren e) = [astOfT I e] := by simp only [boolOperandsT]

theorem cmpPartsT_paren (I : InfoT) (e : TExpr) :
    cmpPartsT I (.paren e) = (astOfT I e, [], []) := by simp only [cmpPartsT]

structure NormInvT (I : InfoT) (e : TExpr) : Prop where
  main : astOfT I (normalizeT pyOps e) = astOfT I e
  bool : ∀ o, boolOperandsT I o (normalizeT pyOps e) = boolOperandsT I o e
  cmp : cmpPartsT I (normalizeT pyOps e) = cmpPartsT I e

theorem normInvT_of_single (I : InfoT) (e : TExpr) (hmain : astOfT I (normalizeT pyOps e) = astOfT I e)
    (hnb : ∀ o' l r, e ≠ .bin o' l r) (hnb' : ∀ o' l r, normalizeT pyOps e ≠ .bin o' l r) : NormInvT I e :=
  ⟨hmain, fun o => by rw [boolOperandsT_other _ _ _ hnb, boolOperandsT_other _ _ _ hnb', hmain],
    by rw [cmpPartsT_other _ _ hnb, cmpPartsT_other _ _ hnb', hmain]⟩

theorem normInvT (I : InfoT) : ∀ e : TExpr, knownT pyOps e = true → NormInvT I e := by
  intro e
  induction e with
  | atom n => intro _; exact ⟨rfl, fun _ => rfl, rfl⟩
  | paren e ih =>
    intro hk
    have h := ih (by simpa [knownT] using hk)
    exact normInvT_of_single I _ (by simp only [normalizeT, astOfT, h.main])
      (by intro _ _ _ h; cases h) (by intro _ _ _ h; simp [normalizeT] at h)
  | pre o e ih =>
    intro hk
    simp only [knownT, Bool.and_eq_true] at hk
    have h := ih hk.2
    exact normInvT_of_single I _ (by simp only [normalizeT, astOfT, astOfT_wrapT, h.main])
      (by intro _ _ _ h; cases h) (by intro _ _ _ h; simp [normalizeT] at h)
  | ifExp b c e ihb ihc ihe =>
    intro hk
    simp only [knownT, Bool.and_eq_true] at hk
    have hb := ihb hk.1.1
    have hc := ihc hk.1.2
    have he := ihe hk.2
    exact normInvT_of_single I _ (by simp only [normalizeT, astOfT, astOfT_wrapT, hb.main, hc.main, he.main])
      (by intro _ _ _ h; cases h) (by intro _ _ _ h; simp [normalizeT] at h)
  | lam ps body ih =>
    intro hk
    have h := ih (by simpa [knownT] using hk)
    exact normInvT_of_single I _ (by simp only [normalizeT, astOfT, h.main])
      (by intro _ _ _ h; cases h) (by intro _ _ _ h; simp [normalizeT] at h)
  | bin o l r ihl ihr =>
    intro hk
    simp only [knownT, Bool.and_eq_true, Option.isSome_iff_exists] at hk
    obtain ⟨⟨⟨k, hok⟩, hkl⟩, hkr⟩ := hk
    have hl := ihl hkl
    have hr := ihr hkr
    -- the (possibly wrapped) left operand contributes the same operands / comparison parts to any chain on o's level
    have hboolL : ∀ o₁, sameLevel o o₁ = true →
        boolOperandsT I o₁ (wrapT (slotOkT pyOps (.bin o) .left l) (normalizeT pyOps l)) = boolOperandsT I o₁ l := by
      intro o₁ hs
      cases hsl : slotOkT pyOps (.bin o) .left l with
      | true => simpa [wrapT] using hl.bool o₁
      | false =>
        simp only [wrapT, Bool.false_eq_true, if_false, boolOperandsT_paren, hl.main]
        cases l with
        | bin o' l' r' =>
          simp only [knownT, Bool.and_eq_true, Option.isSome_iff_exists] at hkl
          obtain ⟨⟨⟨k', hok'⟩, _⟩, _⟩ := hkl
          have hlt := left_wrapped_level (by simpa [slotOkT, headT] using hsl) hok hok'
          have : sameLevel o' o₁ = false := by
            simp only [sameLevel, beq_iff_eq] at hs
            simp only [sameLevel, ← hs, hok, hok']
            simp; omega
          rw [boolOperandsT_bin, this]; simp
        | atom n => simp only [boolOperandsT, astOfT]
        | paren e => simp only [boolOperandsT, astOfT]
        | pre o' e => simp only [boolOperandsT, astOfT]
        | ifExp b c e => simp only [boolOperandsT, astOfT]
        | lam ps body => simp only [boolOperandsT, astOfT]
    have hcmpL : pyKind o = .compare →
        cmpPartsT I (wrapT (slotOkT pyOps (.bin o) .left l) (normalizeT pyOps l)) = cmpPartsT I l := by
      intro hkc
      cases hsl : slotOkT pyOps (.bin o) .left l with
      | true => simpa [wrapT] using hl.cmp
      | false =>
        simp only [wrapT, Bool.false_eq_true, if_false, cmpPartsT_paren, hl.main]
        cases l with
        | bin o' l' r' =>
          simp only [knownT, Bool.and_eq_true, Option.isSome_iff_exists] at hkl
          obtain ⟨⟨⟨k', hok'⟩, _⟩, _⟩ := hkl
          have hlt := left_wrapped_level (by simpa [slotOkT, headT] using hsl) hok hok'
          have hk3 : k = 3 := by
            have := (pyKind_compare_iff o).mp hkc
            rw [hok] at this; exact Option.some.inj this
          have : ¬ pyKind o' = .compare := by
            intro hc
            have := (pyKind_compare_iff o').mp hc
            rw [hok'] at this
            have := Option.some.inj this
            omega
          rw [cmpPartsT_bin]; simp [this]
        | atom n => simp only [cmpPartsT, astOfT]
        | paren e => simp only [cmpPartsT, astOfT]
        | pre o' e => simp only [cmpPartsT, astOfT]
        | ifExp b c e => simp only [cmpPartsT, astOfT]
        | lam ps body => simp only [cmpPartsT, astOfT]
    have hmain : astOfT I (normalizeT pyOps (.bin o l r)) = astOfT I (.bin o l r) := by
      simp only [normalizeT]
      rw [astOfT_bin, astOfT_bin]
      cases hkd : pyKind o with
      | bool b => simp only [hboolL o (sameLevel_refl o), astOfT_wrapT, hr.main]
      | compare => simp only [hcmpL hkd, astOfT_wrapT, hr.main]
      | leaf => simp only [astOfT_wrapT, hl.main, hr.main]
      | group => simp only [astOfT_wrapT, hl.main, hr.main]
      | unary => simp only [astOfT_wrapT, hl.main, hr.main]
      | arith => simp only [astOfT_wrapT, hl.main, hr.main]
      | ifexp => simp only [astOfT_wrapT, hl.main, hr.main]
      | lambda => simp only [astOfT_wrapT, hl.main, hr.main]
    refine ⟨hmain, ?_, ?_⟩
    · intro o₁
      have hn : normalizeT pyOps (.bin o l r) = .bin o (wrapT (slotOkT pyOps (.bin o) .left l) (normalizeT pyOps l))
          (wrapT (slotOkT pyOps (.bin o) .right r) (normalizeT pyOps r)) := by simp only [normalizeT]
      rw [boolOperandsT_bin]
      conv => lhs; rw [hn, boolOperandsT_bin]
      cases hs : sameLevel o o₁ with
      | true => simp only [if_true, hboolL o₁ hs, astOfT_wrapT, hr.main]
      | false => simp only [Bool.false_eq_true, if_false, ← hn, hmain]
    · have hn : normalizeT pyOps (.bin o l r) = .bin o (wrapT (slotOkT pyOps (.bin o) .left l) (normalizeT pyOps l))
          (wrapT (slotOkT pyOps (.bin o) .right r) (normalizeT pyOps r)) := by simp only [normalizeT]
      rw [cmpPartsT_bin]
      conv => lhs; rw [hn, cmpPartsT_bin]
      by_cases hkc : pyKind o = .compare
      · simp only [hkc, if_true, hcmpL hkc, astOfT_wrapT, hr.main]
      · simp only [hkc, if_false, ← hn, hmain]

/-- parentheses that `pyTable` adds do not change CPython's reading -/
theorem astOfT_normalizeT (I : InfoT) (e : TExpr) (hk : knownT pyOps e = true) :
    astOfT I (normalizeT pyOps e) = astOfT I e :=
  (normInvT I e hk).main

/-! ## minimal parenthesisation and the two tables -/

theorem headT_normalizeT (L : Ops) (t : TExpr) : headT (normalizeT L t) = headT t := by
  cases t <;> simp [normalizeT, headT]

theorem nfT_wrapT (L : Ops) (b : Bool) (t : TExpr) : nfT L (wrapT b t) = nfT L t := by
  cases b <;> simp [wrapT, nfT]

theorem headsT_wrapT (b : Bool) (t : TExpr) : headsT (wrapT b t) = headsT t := by
  cases b <;> simp [wrapT, headsT]

theorem headsT_normalizeT (L : Ops) (t : TExpr) : headsT (normalizeT L t) = headsT t := by
  induction t with
  | atom n => rfl
  | paren t ih => simpa [normalizeT, headsT] using ih
  | bin o l r ihl ihr => simp [normalizeT, headsT, headsT_wrapT, ihl, ihr]
  | pre o e ih => simp [normalizeT, headsT, headsT_wrapT, ih]
  | ifExp b c e ihb ihc ihe => simp [normalizeT, headsT, headsT_wrapT, ihb, ihc, ihe]
  | lam ps body ih => simpa [normalizeT, headsT] using ih

/-- after wrapping, the slot is fine: the bare child was, or it now sits behind parentheses -/
theorem slotOkT_wrapT (L : Ops) (p : Head) (s : Side) (c c' : TExpr) (hh : headT c' = headT c)
    (hleaf : slotOk L p s .leaf = true) : slotOkT L p s (wrapT (slotOkT L p s c) c') = true := by
  cases hc : slotOkT L p s c with
  | true => simp only [wrapT, if_true]; simpa [slotOkT, hh] using hc
  | false => simpa [wrapT, slotOkT, headT] using hleaf

theorem isOrTest_wrapT (L : Ops) (b b' : TExpr) (hh : headT b' = headT b) :
    isOrTest L (wrapT (isOrTest L b) b') = true := by
  cases hc : isOrTest L b with
  | true => simp only [wrapT, if_true]; simpa [isOrTest, hh] using hc
  | false => simp [wrapT, isOrTest, headT, okAt]

theorem nfT_normalizeT (L : Ops) (t : TExpr) (hk : knownT L t = true) : nfT L (normalizeT L t) = true := by
  induction t with
  | atom n => rfl
  | paren t ih => simpa [normalizeT, nfT] using ih (by simpa [knownT] using hk)
  | bin o l r ihl ihr =>
    simp only [knownT, Bool.and_eq_true, Option.isSome_iff_exists] at hk
    obtain ⟨⟨⟨k, ho⟩, hl⟩, hr⟩ := hk
    simp only [normalizeT, nfT, nfT_wrapT, Bool.and_eq_true]
    exact ⟨⟨⟨slotOkT_wrapT L _ _ l _ (headT_normalizeT L l) (slotOk_leaf_left L ho),
      slotOkT_wrapT L _ _ r _ (headT_normalizeT L r) (slotOk_leaf_right L ho)⟩, ihl hl⟩, ihr hr⟩
  | pre o e ih =>
    simp only [knownT, Bool.and_eq_true, Option.isSome_iff_exists] at hk
    obtain ⟨⟨k, ho⟩, he⟩ := hk
    simp only [normalizeT, nfT, nfT_wrapT, Bool.and_eq_true]
    exact ⟨slotOkT_wrapT L _ _ e _ (headT_normalizeT L e) (slotOk_leaf_operand L ho), ih he⟩
  | ifExp b c e ihb ihc ihe =>
    simp only [knownT, Bool.and_eq_true] at hk
    simp only [normalizeT, nfT, nfT_wrapT, Bool.and_eq_true]
    exact ⟨⟨⟨⟨isOrTest_wrapT L b _ (headT_normalizeT L b), isOrTest_wrapT L c _ (headT_normalizeT L c)⟩,
      ihb hk.1.1⟩, ihc hk.1.2⟩, ihe hk.2⟩
  | lam ps body ih => simpa [normalizeT, nfT] using ih (by simpa [knownT] using hk)

theorem knownT_of_headsT (L : Ops) (t : TExpr) (h : ∀ x ∈ headsT t, knownHead L x = true) : knownT L t = true := by
  induction t with
  | atom n => rfl
  | paren t ih => exact ih (by simpa [headsT] using h)
  | bin o l r ihl ihr =>
    simp only [headsT, List.mem_cons, List.mem_append] at h
    simp only [knownT, Bool.and_eq_true]
    exact ⟨⟨by simpa [knownHead] using h (.bin o) (Or.inl rfl), ihl (fun x hx => h x (Or.inr (Or.inl hx)))⟩,
      ihr (fun x hx => h x (Or.inr (Or.inr hx)))⟩
  | pre o e ih =>
    simp only [headsT, List.mem_cons] at h
    simp only [knownT, Bool.and_eq_true]
    exact ⟨by simpa [knownHead] using h (.pre o) (Or.inl rfl), ih (fun x hx => h x (Or.inr hx))⟩
  | ifExp b c e ihb ihc ihe =>
    simp only [headsT, List.mem_append] at h
    simp only [knownT, Bool.and_eq_true]
    exact ⟨⟨ihb (fun x hx => h x (Or.inl (Or.inl hx))), ihc (fun x hx => h x (Or.inl (Or.inr hx)))⟩,
      ihe (fun x hx => h x (Or.inr hx))⟩
  | lam ps body ih => exact ih (by simpa [headsT] using h)

theorem headT_mem (t : TExpr) (hd : Head) (h : headT t = some hd) : hd = .leaf ∨ hd ∈ headsT t := by
  cases t <;> simp [headT] at h <;> subst h <;> simp [headsT]

/-- one slot / one `or_test` position carried from `L'` to `L` by the table-level check -/
theorem compat_slot (L' L : Ops) (S : List Head) (hc : tablesCompat L' L S = true) (p : Head) (s : Side) (c : Head)
    (hp : p ∈ S) (hcm : c = .leaf ∨ c ∈ S) (h : slotOk L' p s c = true) : slotOk L p s c = true := by
  simp only [tablesCompat, List.all_eq_true, Bool.or_eq_true, Bool.not_eq_true'] at hc
  have hside : s ∈ allSides := by cases s <;> simp [allSides]
  have hcm' : c ∈ Head.leaf :: S := by
    rcases hcm with h | h
    · simp [h]
    · exact List.mem_cons_of_mem _ h
  rcases hc p hp s hside c hcm' with h' | h'
  · rw [h] at h'; cases h'
  · exact h'

theorem compat_okAt0 (L' L : Ops) (S : List Head) (hc : tablesCompat L' L S = true) (hd : Head)
    (hm : hd = .leaf ∨ hd ∈ S) (h : okAt L' 0 hd = true) : okAt L 0 hd = true := by
  cases hd with
  | leaf => rfl
  | bin o =>
    have hmem : Head.bin o ∈ S := by rcases hm with h | h; cases h; exact h
    have h1 : slotOk L' (.bin o) .left .leaf = true := by
      simp only [okAt] at h
      split at h
      · next k hk => simp [slotOk, hk, okL]
      · cases h
    have h2 := compat_slot L' L S hc _ _ _ hmem (Or.inl rfl) h1
    simp only [slotOk] at h2
    simp only [okAt]
    split
    · simp
    · next hn => rw [hn] at h2; cases h2
  | pre o =>
    have hmem : Head.pre o ∈ S := by rcases hm with h | h; cases h; exact h
    have h1 : slotOk L' (.pre o) .operand .leaf = true := by
      simp only [okAt] at h
      split at h
      · next k hk => simp [slotOk, hk, okAt]
      · cases h
    have h2 := compat_slot L' L S hc _ _ _ hmem (Or.inl rfl) h1
    simp only [slotOk] at h2
    simp only [okAt]
    split
    · simp
    · next hn => rw [hn] at h2; cases h2

theorem compat_slotT (L' L : Ops) (S : List Head) (hc : tablesCompat L' L S = true) (p : Head) (s : Side) (c : TExpr)
    (hp : p ∈ S) (hv : ∀ h ∈ headsT c, h ∈ S) (h : slotOkT L' p s c = true) : slotOkT L p s c = true := by
  obtain ⟨hd, hh, hs⟩ := slotOkT_elim L' h
  have hm : hd = .leaf ∨ hd ∈ S := (headT_mem c hd hh).imp id (hv hd)
  simp only [slotOkT, hh]
  exact compat_slot L' L S hc p s hd hp hm hs

/-- over a vocabulary on which `L` lets every slot stay bare that `L'` does, `L'`-normal forms are `L`-normal forms -/
theorem nfT_of_tablesCompat (L' L : Ops) (S : List Head) (hc : tablesCompat L' L S = true) :
    ∀ t : TExpr, (∀ h ∈ headsT t, h ∈ S) → nfT L' t = true → nfT L t = true := by
  intro t
  induction t with
  | atom n => intro _ _; rfl
  | paren t ih => intro hv hn; exact ih (by simpa [headsT] using hv) (by simpa [nfT] using hn)
  | bin o l r ihl ihr =>
    intro hv hn
    simp only [headsT, List.mem_cons, List.mem_append] at hv
    simp only [nfT, Bool.and_eq_true] at hn ⊢
    obtain ⟨⟨⟨h1, h2⟩, h3⟩, h4⟩ := hn
    have hvl : ∀ h ∈ headsT l, h ∈ S := fun h hh => hv h (Or.inr (Or.inl hh))
    have hvr : ∀ h ∈ headsT r, h ∈ S := fun h hh => hv h (Or.inr (Or.inr hh))
    exact ⟨⟨⟨compat_slotT L' L S hc _ _ l (hv _ (Or.inl rfl)) hvl h1, compat_slotT L' L S hc _ _ r (hv _ (Or.inl rfl)) hvr h2⟩,
      ihl hvl h3⟩, ihr hvr h4⟩
  | pre o e ih =>
    intro hv hn
    simp only [headsT, List.mem_cons] at hv
    simp only [nfT, Bool.and_eq_true] at hn ⊢
    have hve : ∀ h ∈ headsT e, h ∈ S := fun h hh => hv h (Or.inr hh)
    exact ⟨compat_slotT L' L S hc _ _ e (hv _ (Or.inl rfl)) hve hn.1, ih hve hn.2⟩
  | ifExp b c e ihb ihc ihe =>
    intro hv hn
    simp only [headsT, List.mem_append] at hv
    simp only [nfT, Bool.and_eq_true] at hn ⊢
    obtain ⟨⟨⟨⟨h1, h2⟩, h3⟩, h4⟩, h5⟩ := hn
    have hvb : ∀ h ∈ headsT b, h ∈ S := fun h hh => hv h (Or.inl (Or.inl hh))
    have hvc : ∀ h ∈ headsT c, h ∈ S := fun h hh => hv h (Or.inl (Or.inr hh))
    have hve : ∀ h ∈ headsT e, h ∈ S := fun h hh => hv h (Or.inr hh)
    have tr : ∀ x : TExpr, (∀ h ∈ headsT x, h ∈ S) → isOrTest L' x = true → isOrTest L x = true := by
      intro x hvx hx
      obtain ⟨hd, hh, h0⟩ := isOrTest_elim L' hx
      simp only [isOrTest, hh]
      exact compat_okAt0 L' L S hc hd ((headT_mem x hd hh).imp id (hvx hd)) h0
    exact ⟨⟨⟨⟨tr b hvb h1, tr c hvc h2⟩, ihb hvb h3⟩, ihc hvc h4⟩, ihe hve h5⟩
  | lam ps body ih => intro hv hn; exact ih (by simpa [headsT] using hv) (by simpa [nfT] using hn)

/-- **Grouping theorem for `expression`, generic form.** -/
theorem rdParseTP_printMinT (I : InfoT) (S : List Head) (F : Facts I.toInfo S)
    (K : KwFree (ladderTable I.ladder).ops)
    (hc : tablesCompat pyOps (ladderTable I.ladder).ops S = true)
    (t : TExpr) (hv : ∀ h ∈ headsT t, h ∈ S) (hk : knownT pyOps t = true) :
    (rdParseTP I (printMinT pyOps t)).map toAst = some (astOfT I t) := by
  have hn : nfT pyOps (normalizeT pyOps t) = true := nfT_normalizeT pyOps t hk
  have hv' : ∀ h ∈ headsT (normalizeT pyOps t), h ∈ S := by rw [headsT_normalizeT]; exact hv
  have hp : parseT (ladderTable I.ladder).ops (printMinT pyOps t) = some (normalizeT pyOps t) :=
    parseT_printT _ K _ (nfT_of_tablesCompat pyOps _ S hc _ hv' hn)
  simp only [rdParseTP, hp, Option.map_some]
  rw [toAst_toLarkT I S F _ hv', astOfT_normalizeT _ _ hk]

/-! ## argument lists -/

theorem readArg_argTree (a : Arg) : readArg (argTree a) = some a := by
  cases a <;> simp [argTree, readArg]

/-- reading the `arguments` subtree gives back the argument list: kinds, labels, values and their order -/
theorem readArgs_argsTree (as : List Arg) : readArgs (argsTree as) = as := by
  simp only [readArgs, argsTree, AstPath.Entry.children]
  induction as with
  | nil => rfl
  | cons a as ih => simp [List.filterMap_cons, readArg_argTree, ih]

/-- hence CPython's two lists are the positional/starred and the named/`**` arguments of tranp's one list, each in order -/
theorem pyCallArgs_readArgs (as : List Arg) :
    pyCallArgs (readArgs (argsTree as)) = (as.filter Arg.isPositional, as.filter (fun a => !a.isPositional)) := by
  rw [readArgs_argsTree]; rfl

end Tranp.Ladder
