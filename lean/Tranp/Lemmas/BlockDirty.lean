/-
  Lemmas for property C18, part 2: `break_separator` on fragments with *arbitrary* simple quoted strings (brackets and the
  other quote kind inside strings). The scanner may then lose track of the nesting (a bracket inside a string is pushed
  and the closing quote no longer pops), but it only ever skips too much: a cut is made only while the closer stack is
  empty, and the stack is never empty inside a group or a string. The invariant `Shape` describes the stacks that can occur.
-/
import Tranp.Lemmas.Block

namespace Tranp.Block
open Tranp Tranp.Generated.BlockPairs

/-! ### `break_separator` as one left-to-right pass -/

/-- the closer stack after scanning `s` -/
def run (st : List Char) (s : Str) : List Char := s.foldl (skipStep allPairs) st

@[simp] theorem run_nil (st : List Char) : run st [] = st := rfl
@[simp] theorem run_cons (st : List Char) (c : Char) (cs : Str) : run st (c :: cs) = run (skipStep allPairs st c) cs := rfl
theorem run_append (st : List Char) (a b : Str) : run st (a ++ b) = run (run st a) b := by
  simp [run, List.foldl_append]

/-- before every character of `s` the stack is non-empty (the scanner stays inside `_skip_other_block`) -/
def NE : List Char → Str → Prop
  | _, [] => True
  | st, c :: cs => st ≠ [] ∧ NE (skipStep allPairs st c) cs

theorem NE_append (st : List Char) (a b : Str) : NE st (a ++ b) ↔ NE st a ∧ NE (run st a) b := by
  induction a generalizing st with
  | nil => simp [NE]
  | cons c a ih => simp [NE, ih, and_assoc]

/-- `break_separator` for a one-character delimiter as a single pass that carries the closer stack:
    `st = []` is the outer loop, `st ≠ []` is the inside of `_skip_other_block`. `cur` is `text[begin:index]`. -/
def fused (d : Char) : List Char → Str → Str → List Str → List Str
  | _, [], cur, blocks => if cur = [] then blocks else blocks ++ [strip cur]
  | st, c :: cs, cur, blocks =>
    if st = [] ∧ has openTokens c = false ∧ c = d ∧ cs ≠ [] then fused d [] cs [] (blocks ++ [strip cur])
    else if st = [] ∧ has openTokens c = false then fused d [] cs (cur ++ [c]) blocks
    else fused d (skipStep allPairs st c) cs (cur ++ [c]) blocks

theorem fused_skip (d : Char) : ∀ (s : Str) (st : List Char) (cur : Str) (blocks : List Str),
    (st ≠ [] ∨ ∃ c cs, s = c :: cs ∧ has openTokens c = true) →
    fused d st s cur blocks
      = fused d [] (s.drop (skipLen allPairs st s)) (cur ++ s.take (skipLen allPairs st s)) blocks := by
  intro s
  induction s with
  | nil => intro st cur blocks _; simp [skipLen, fused]
  | cons c cs ih =>
    intro st cur blocks h
    have hbr : ¬ (st = [] ∧ has openTokens c = false) := by
      rcases h with h | ⟨c', cs', he, ho⟩
      · exact fun h' => h h'.1
      · injection he with h1 h2; subst h1; simp [ho]
    have hbr' : ¬ (st = [] ∧ has openTokens c = false ∧ c = d ∧ cs ≠ []) := fun h' => hbr ⟨h'.1, h'.2.1⟩
    rw [fused, if_neg hbr', if_neg hbr, skipLen_cons]
    by_cases he : (skipStep allPairs st c).isEmpty
    · have : skipStep allPairs st c = [] := List.isEmpty_iff.mp he
      simp [this]
    · have hne : skipStep allPairs st c ≠ [] := fun h' => he (List.isEmpty_iff.mpr h')
      rw [if_neg he, ih _ _ _ (Or.inl hne)]
      have : 1 + skipLen allPairs (skipStep allPairs st c) cs = skipLen allPairs (skipStep allPairs st c) cs + 1 := by omega
      simp [this]

theorem sepLoop_fused (d : Char) : ∀ (fuel : Nat) (pre s : Str) (begin : Nat) (blocks : List Str),
    begin ≤ pre.length → s.length < fuel →
    sepLoop (pre ++ s) [d] fuel s pre.length begin blocks = .ok (fused d [] s (pre.drop begin) blocks) := by
  intro fuel
  induction fuel with
  | zero => intro _ s _ _ _ h; omega
  | succ n ih =>
    intro pre s begin blocks hb hf
    cases s with
    | nil =>
      simp only [sepLoop, List.append_nil, fused]
      have : slice pre begin pre.length = pre.drop begin := by simpa using slice_prefix pre [] begin
      rw [this]
      by_cases h : begin < pre.length
      · have : pre.drop begin ≠ [] := by simp; omega
        simp [h, this]
      · have : pre.drop begin = [] := by simp; omega
        simp [h, this]
    | cons c cs =>
      simp only [List.length_cons] at hf
      by_cases ho : has openTokens c = true
      · -- an opening bracket or quote: `_skip_other_block`
        have hk := skipLen_pos allPairs [] c cs
        generalize hm : skipLen allPairs [] (c :: cs) = m at hk
        have hsplit : c :: cs = (c :: cs).take m ++ (c :: cs).drop m := (List.take_append_drop m _).symm
        have hlen : ((c :: cs).take m).length = min m (cs.length + 1) := by simp
        rw [fused_skip d (c :: cs) [] _ _ (Or.inr ⟨c, cs, rfl, ho⟩), hm]
        simp only [sepLoop, ho, if_true, hm]
        have := ih (pre ++ (c :: cs).take m) ((c :: cs).drop m) begin blocks
          (by simp; omega) (by simp only [List.length_drop, List.length_cons]; omega)
        rw [List.append_assoc, ← hsplit] at this
        by_cases hle : m ≤ cs.length + 1
        · have hl2 : (pre ++ (c :: cs).take m).length = pre.length + m := by
            rw [List.length_append, hlen]; congr 1; omega
          rw [hl2] at this
          rw [this, List.drop_append_of_le_length hb]
        · -- the skip can not run past the end, but the model does not need to know: both sides see an empty rest
          have hd0 : (c :: cs).drop m = [] := by simp; omega
          have ht0 : (c :: cs).take m = c :: cs := by
            apply List.take_of_length_le; simp only [List.length_cons]; omega
          rw [hd0, ht0] at this ⊢
          cases n with
          | zero => omega
          | succ n' =>
            simp only [sepLoop] at this ⊢
            rw [List.drop_append_of_le_length hb] at this
            simp only [fused]
            have hs1 : slice (pre ++ c :: cs) begin (pre.length + m) = slice (pre ++ c :: cs) begin (pre ++ c :: cs).length := by
              simp only [slice]
              rw [List.take_of_length_le (by simp; omega), List.take_of_length_le (by simp)]
            have hlt : (begin < pre.length + m) ↔ (begin < (pre ++ c :: cs).length) := by
              simp; omega
            simp only [hs1, hlt]
            simpa [fused] using this
      · -- an ordinary character
        have ho' : has openTokens c = false := by simpa using ho
        have htext : pre ++ c :: cs = (pre ++ [c]) ++ cs := by simp
        simp only [sepLoop, ho', Bool.false_eq_true, if_false]
        have hst : Str.startsWith (c :: cs) [d] = decide (c = d) := by simp [Str.startsWith]
        have hlen' : (pre.length + [d].length < (pre ++ c :: cs).length) ↔ cs ≠ [] := by
          simp only [List.length_append, List.length_cons, List.length_nil]
          constructor
          · intro h h'; subst h'; simp at h
          · intro h; have := List.length_pos_iff.mpr h; omega
        by_cases hcut : c = d ∧ cs ≠ []
        · rw [if_pos ⟨hcut.1, hlen'.mpr hcut.2, by rw [hst]; simp [hcut.1]⟩]
          rw [fused, if_pos ⟨rfl, ho', hcut.1, hcut.2⟩]
          have hs : slice (pre ++ c :: cs) begin pre.length = pre.drop begin := slice_prefix pre _ begin
          rw [hs, htext]
          have := ih (pre ++ [c]) cs (pre ++ [c]).length (blocks ++ [strip (pre.drop begin)]) (Nat.le_refl _) (by omega)
          simp only [List.length_append, List.length_cons, List.length_nil] at this ⊢
          rw [this]
          simp
        · have : ¬ (c = d ∧ pre.length + [d].length < (pre ++ c :: cs).length ∧ Str.startsWith (c :: cs) [d] = true) :=
            fun h => hcut ⟨h.1, hlen'.mp h.2.1⟩
          rw [if_neg this, fused, if_neg (fun h => hcut ⟨h.2.2.1, h.2.2.2⟩), if_pos ⟨rfl, ho'⟩, htext]
          have := ih (pre ++ [c]) cs begin blocks (by simp; omega) (by omega)
          simp only [List.length_append, List.length_cons, List.length_nil] at this
          rw [this, List.drop_append_of_le_length hb]

/-- `break_separator` with a one-character delimiter is the single pass `fused`, for every text. -/
theorem breakSeparator_fused (d : Char) (text : Str) : breakSeparator text [d] = .ok (fused d [] text [] []) := by
  have := sepLoop_fused d (text.length + 1) [] text 0 [] (by simp) (by omega)
  simpa [breakSeparator] using this

theorem fused_NE (d : Char) : ∀ (s : Str) (st : List Char) (rest cur : Str) (blocks : List Str), NE st s →
    fused d st (s ++ rest) cur blocks = fused d (run st s) rest (cur ++ s) blocks := by
  intro s
  induction s with
  | nil => intro st rest cur blocks _; simp
  | cons c cs ih =>
    intro st rest cur blocks h
    obtain ⟨h1, h2⟩ := h
    rw [List.cons_append, fused, if_neg (fun h => h1 h.1), if_neg (fun h => h1 h.1), ih _ _ _ _ h2]
    simp

/-! ### the stacks that occur outside strings -/

/-- `Shape st n`: the closer stack `st` (top first) is a sequence of blocks, each either the closer of a bracket group or a
    "sealed" block `q X q` (a quote, non-empty junk without that quote pushed from inside a string, the quote again);
    at least `n` of the single closers are there (`n` = number of groups that are really open). -/
inductive Shape : List Char → Nat → Prop
  | nil : Shape [] 0
  | closer (k : BK) {st : List Char} {n : Nat} : Shape st n → Shape (k.close :: st) (n + 1)
  | extra (k : BK) {st : List Char} {n : Nat} : Shape st n → Shape (k.close :: st) n
  | sealed (q : QK) (X : List Char) {st : List Char} {n : Nat} :
      (∀ x ∈ X, x ≠ q.ch) → X ≠ [] → Shape st n → Shape (q.ch :: (X ++ q.ch :: st)) n

theorem Shape.weaken {st : List Char} {n : Nat} (h : Shape st (n + 1)) : Shape st n := by
  generalize hm : n + 1 = m at h
  induction h generalizing n with
  | nil => omega
  | closer k h' _ => injection hm with hm; subst hm; exact .extra k h'
  | extra k _ ih => exact .extra k (ih hm)
  | sealed q X hx hne _ ih => exact .sealed q X hx hne (ih hm)

theorem Shape.ne_nil {st : List Char} {n : Nat} (h : Shape st (n + 1)) : st ≠ [] := by
  cases h <;> simp

theorem Shape.head_ne_open {st : List Char} {n : Nat} (h : Shape st n) (k : BK) : st.head? ≠ some k.open := by
  cases h with
  | nil => simp
  | closer k' _ => simp [close_ne_open]
  | extra k' _ => simp [close_ne_open]
  | sealed q X _ _ _ => simp [(quote_ne_bk q k).1]

/-- a true opening bracket always pushes its closer -/
theorem Shape.push {st : List Char} {n : Nat} (h : Shape st n) (k : BK) :
    skipStep allPairs st k.open = k.close :: st ∧ Shape (k.close :: st) (n + 1) := by
  refine ⟨?_, .closer k h⟩
  simp only [skipStep, classify_open, if_neg (h.head_ne_open k)]

/-- a true closing bracket pops its closer when that is on top and otherwise does nothing; either way one group less is open -/
theorem Shape.pop {st : List Char} {n : Nat} (h : Shape st (n + 1)) (k : BK) :
    Shape (skipStep allPairs st k.close) n := by
  have hstep : ∀ st : List Char, skipStep allPairs st k.close = if st.head? = some k.close then st.tail else st := by
    intro st; simp [skipStep, classify_close]
  rw [hstep]
  generalize hm : n + 1 = m at h
  cases h with
  | nil => omega
  | closer k' h' =>
    injection hm with hm; subst hm
    by_cases hk : k'.close = k.close
    · simp [hk, h']
    · simp only [List.head?_cons, Option.some.injEq, hk, if_false]; exact .extra k' h'
  | extra k' h' =>
    subst hm
    by_cases hk : k'.close = k.close
    · simp only [List.head?_cons, hk, if_true, List.tail_cons]; exact h'.weaken
    · simp only [List.head?_cons, Option.some.injEq, hk, if_false]; exact (Shape.extra k' h').weaken
  | sealed q X hx hne h' =>
    subst hm
    have : q.ch ≠ k.close := (quote_ne_bk q k).2
    simp only [List.head?_cons, Option.some.injEq, this, if_false]
    exact (Shape.sealed q X hx hne h').weaken

/-! ### inside a string: the quote below protects the rest of the stack -/

theorem classify_opener_mem (ps : List (Char × Char)) (c cl : Char) (h : classify ps c = .opener cl) : (c, cl) ∈ ps := by
  induction ps with
  | nil => simp [classify] at h
  | cons p ps ih =>
    obtain ⟨o, cl'⟩ := p
    simp only [classify] at h
    split at h
    · injection h with h; subst h; simp_all
    · split at h
      · cases h
      · exact List.mem_cons_of_mem _ (ih h)

theorem opener_closer_ne_quote (c cl : Char) (q : QK) (h : classify allPairs c = .opener cl) (hc : c ≠ q.ch) : cl ≠ q.ch := by
  have := classify_opener_mem allPairs c cl h
  simp only [allPairs, List.mem_cons, Prod.mk.injEq, List.not_mem_nil, or_false] at this
  rcases this with ⟨_, rfl⟩ | ⟨_, rfl⟩ | ⟨_, rfl⟩ | ⟨_, rfl⟩ | ⟨rfl, rfl⟩ | ⟨rfl, rfl⟩
  · cases q <;> decide
  · cases q <;> decide
  · cases q <;> decide
  · cases q <;> decide
  · exact hc
  · exact hc

theorem protected_step (q : QK) (Y below : List Char) (c : Char) (hY : ∀ x ∈ Y, x ≠ q.ch) (hc : c ≠ q.ch) :
    ∃ Y', (∀ x ∈ Y', x ≠ q.ch) ∧ skipStep allPairs (Y ++ q.ch :: below) c = Y' ++ q.ch :: below := by
  unfold skipStep
  split
  · exact ⟨Y, hY, rfl⟩
  · rename_i k hk
    by_cases hh : (Y ++ q.ch :: below).head? = some c
    · rw [if_pos hh]
      cases Y with
      | nil => simp at hh; exact absurd hh.symm hc
      | cons y Y0 => exact ⟨Y0, fun x hx => hY x (by simp [hx]), by simp⟩
    · rw [if_neg hh]
      split
      · rename_i cl hcl
        refine ⟨cl :: Y, ?_, by simp⟩
        intro x hx
        simp only [List.mem_cons] at hx
        rcases hx with rfl | hx
        · exact opener_closer_ne_quote c _ q hcl hc
        · exact hY x hx
      · exact ⟨Y, hY, rfl⟩

theorem protected_run (q : QK) (below : List Char) : ∀ (body : Str) (Y : List Char),
    (∀ x ∈ Y, x ≠ q.ch) → (∀ c ∈ body, c ≠ q.ch) →
    ∃ Y', (∀ x ∈ Y', x ≠ q.ch) ∧ run (Y ++ q.ch :: below) body = Y' ++ q.ch :: below ∧ NE (Y ++ q.ch :: below) body := by
  intro body
  induction body with
  | nil => intro Y hY _; exact ⟨Y, hY, rfl, trivial⟩
  | cons c cs ih =>
    intro Y hY hb
    obtain ⟨Y1, hY1, h1⟩ := protected_step q Y below c hY (hb c (by simp))
    obtain ⟨Y', hY', h2, h3⟩ := ih Y1 hY1 (fun x hx => hb x (by simp [hx]))
    refine ⟨Y', hY', ?_, ?_⟩
    · rw [run_cons, h1, h2]
    · exact ⟨by simp, by rw [h1]; exact h3⟩

/-- A whole simple quoted string, started from a stack that can occur outside strings: the stack is never empty before a
    body character or the closing quote, and afterwards it is again a stack that can occur outside strings. -/
theorem Shape.string {st : List Char} {n : Nat} (h : Shape st n) (q : QK) (body : Str) (hb : ∀ c ∈ body, c ≠ q.ch) :
    NE (skipStep allPairs st q.ch) (body ++ [q.ch]) ∧ Shape (run (skipStep allPairs st q.ch) (body ++ [q.ch])) n := by
  have hstep : ∀ st : List Char, skipStep allPairs st q.ch = if st.head? = some q.ch then st.tail else q.ch :: st := by
    intro st; simp [skipStep, classify_quote]
  -- after the opening quote the stack is `Y ++ q :: below` with `q ∉ Y` and `below` a stack that can occur outside strings
  have hopen : ∃ Y below, (∀ x ∈ Y, x ≠ q.ch) ∧ Shape below n ∧ skipStep allPairs st q.ch = Y ++ q.ch :: below := by
    rw [hstep]
    by_cases hh : st.head? = some q.ch
    · rw [if_pos hh]
      cases h with
      | nil => simp at hh
      | closer k _ => simp at hh; exact absurd hh (quote_ne_bk q k).2.symm
      | extra k _ => simp at hh; exact absurd hh (quote_ne_bk q k).2.symm
      | sealed q' X hx hne h' =>
        simp at hh
        have : q' = q := by cases q <;> cases q' <;> simp_all [QK.ch]
        subst this
        exact ⟨X, _, hx, h', rfl⟩
    · rw [if_neg hh]; exact ⟨[], st, by simp, h, rfl⟩
  obtain ⟨Y, below, hY, hbelow, heq⟩ := hopen
  obtain ⟨Y', hY', hrun, hne⟩ := protected_run q below body Y hY hb
  rw [heq, NE_append, run_append, hrun]
  refine ⟨⟨hne, ⟨by simp, trivial⟩⟩, ?_⟩
  simp only [run_cons, run_nil, hstep]
  cases Y' with
  | nil => simpa using hbelow
  | cons y Y0 =>
    have : y ≠ q.ch := hY' y (by simp)
    simp only [List.cons_append, List.head?_cons, Option.some.injEq, this, if_false]
    exact .sealed q (y :: Y0) hY' (by simp) hbelow

/-! ### fragments with arbitrary simple strings -/

@[simp] theorem simple_nil : Frag.Simple .nil := by simp [Frag.Simple, Frag.wf]

@[simp] theorem simple_atom (c : Char) (r : Frag) :
    Frag.Simple (.atom c r) ↔ has Frag.special c = false ∧ Frag.Simple r := by
  simp [Frag.Simple, Frag.wf]

@[simp] theorem simple_str (q : QK) (b : Str) (r : Frag) :
    Frag.Simple (.str q b r) ↔ (∀ c ∈ b, c ≠ q.ch) ∧ Frag.Simple r := by
  simp [Frag.Simple, Frag.wf]

@[simp] theorem simple_group (k : BK) (i r : Frag) :
    Frag.Simple (.group k i r) ↔ Frag.Simple i ∧ Frag.Simple r := by
  simp [Frag.Simple, Frag.wf]

/-- Inside a group (`n + 1` groups open) a whole fragment is scanned without the stack ever becoming empty, and the
    stack afterwards is again one that can occur with `n + 1` open groups. -/
theorem Shape.inner (f : Frag) : ∀ {st : List Char} {n : Nat}, Shape st (n + 1) → Frag.Simple f →
    NE st f.render ∧ Shape (run st f.render) (n + 1) := by
  induction f with
  | nil => intro st n h _; exact ⟨trivial, h⟩
  | atom c r ih =>
    intro st n h hf
    rw [simple_atom] at hf
    have := ih h hf.2
    simp only [Frag.render, NE, run_cons, skipStep_plain st c hf.1]
    exact ⟨⟨h.ne_nil, this.1⟩, this.2⟩
  | str q b r ih =>
    intro st n h hf
    rw [simple_str] at hf
    obtain ⟨h1, h2⟩ := h.string q b hf.1
    obtain ⟨h3, h4⟩ := ih h2 hf.2
    have e : (Frag.str q b r).render = q.ch :: ((b ++ [q.ch]) ++ r.render) := by simp [Frag.render]
    rw [e]
    refine ⟨⟨h.ne_nil, ?_⟩, ?_⟩
    · rw [NE_append]; exact ⟨h1, h3⟩
    · rw [run_cons, run_append]; exact h4
  | group k i r ihi ihr =>
    intro st n h hf
    rw [simple_group] at hf
    obtain ⟨hp1, hp2⟩ := h.push k
    obtain ⟨h1, h2⟩ := ihi hp2 hf.1
    have h3 := h2.pop k
    obtain ⟨h4, h5⟩ := ihr h3 hf.2
    have e : (Frag.group k i r).render = k.open :: (i.render ++ (k.close :: r.render)) := by simp [Frag.render]
    rw [e]
    simp only [NE, run_cons, NE_append, run_append, hp1]
    exact ⟨⟨h.ne_nil, h1, h2.ne_nil, h4⟩, h5⟩

theorem fused_nil (d : Char) (st : List Char) (cur : Str) (blocks : List Str) :
    fused d st [] cur blocks = if cur = [] then blocks else blocks ++ [strip cur] := by
  simp [fused]

/-- At top level (no group open): the scan of a fragment with arbitrary simple strings cuts only at top-level atoms. -/
theorem fused_frag (d : Char) (f : Frag) : ∀ {st : List Char}, Shape st 0 → Frag.Simple f →
    ∃ fs : List Frag, fs ≠ [] ∧ Frag.join d fs = f ∧
      ∀ (cur : Str) (blocks : List Str),
        fused d st f.render cur blocks = blocks ++ (if cur = [] ∧ f = .nil then [] else headMap cur fs) := by
  induction f with
  | nil =>
    intro st _ _
    refine ⟨[.nil], by simp, rfl, ?_⟩
    intro cur blocks
    by_cases h : cur = [] <;> simp [Frag.render, fused_nil, headMap, h]
  | atom c r ih =>
    intro st h hf
    rw [simple_atom] at hf
    have hno := not_open_of_plain c hf.1
    by_cases hcut : st = [] ∧ c = d ∧ r ≠ .nil
    · obtain ⟨hst, hcd, hr⟩ := hcut
      subst hst
      obtain ⟨fs, hne, hj, hfs⟩ := ih Shape.nil hf.2
      obtain ⟨p, ps, rfl⟩ := List.exists_cons_of_ne_nil hne
      refine ⟨.nil :: p :: ps, by simp, ?_, ?_⟩
      · simp [Frag.join, hj, hcd]
      · intro cur blocks
        have hrr : r.render ≠ [] := mt (render_eq_nil r).mp hr
        rw [Frag.render, fused, if_pos ⟨rfl, hno, hcd, hrr⟩, hfs]
        simp [hr, headMap, Frag.render]
    · -- no cut: the character joins the current piece (either a non-delimiter, or the last character, or an over-skip)
      have hstep : ∀ cur blocks, fused d st (c :: r.render) cur blocks = fused d st r.render (cur ++ [c]) blocks := by
        intro cur blocks
        rw [fused]
        have h1 : ¬ (st = [] ∧ has openTokens c = false ∧ c = d ∧ r.render ≠ []) := by
          intro ⟨a, _, b, e⟩
          exact hcut ⟨a, b, fun h' => e ((render_eq_nil r).mpr h')⟩
        rw [if_neg h1]
        by_cases hs : st = []
        · subst hs; rw [if_pos ⟨rfl, hno⟩]
        · rw [if_neg (fun h' => hs h'.1), skipStep_plain st c hf.1]
      obtain ⟨fs, hne, hj, hfs⟩ := ih h hf.2
      obtain ⟨p, ps, rfl⟩ := List.exists_cons_of_ne_nil hne
      refine ⟨.atom c p :: ps, by simp, by rw [join_cons_atom, hj], ?_⟩
      intro cur blocks
      rw [Frag.render, hstep, hfs]
      simp [headMap, Frag.render]
  | str q b r ih =>
    intro st h hf
    rw [simple_str] at hf
    obtain ⟨h1, h2⟩ := h.string q b hf.1
    obtain ⟨fs, hne, hj, hfs⟩ := ih h2 hf.2
    obtain ⟨p, ps, rfl⟩ := List.exists_cons_of_ne_nil hne
    refine ⟨.str q b p :: ps, by simp, by rw [join_cons_str, hj], ?_⟩
    intro cur blocks
    have e : (Frag.str q b r).render = q.ch :: ((b ++ [q.ch]) ++ r.render) := by simp [Frag.render]
    have ho := open_qk q
    rw [e, fused, if_neg (by simp [ho]), if_neg (by simp [ho]), fused_NE d _ _ _ _ _ h1, hfs]
    simp [headMap, Frag.render]
  | group k i r _ ihr =>
    intro st h hf
    rw [simple_group] at hf
    obtain ⟨hp1, hp2⟩ := h.push k
    obtain ⟨h1, h2⟩ := Shape.inner i hp2 hf.1
    have h3 := h2.pop k
    obtain ⟨fs, hne, hj, hfs⟩ := ihr h3 hf.2
    obtain ⟨p, ps, rfl⟩ := List.exists_cons_of_ne_nil hne
    refine ⟨.group k i p :: ps, by simp, by rw [join_cons_group, hj], ?_⟩
    intro cur blocks
    have e : (Frag.group k i r).render = k.open :: ((i.render ++ [k.close]) ++ r.render) := by simp [Frag.render]
    have ho := open_bk k
    have hne' : NE (k.close :: st) (i.render ++ [k.close]) := by
      rw [NE_append]; exact ⟨h1, h2.ne_nil, trivial⟩
    rw [e, fused, if_neg (by simp [ho]), if_neg (by simp [ho]), hp1, fused_NE d _ _ _ _ _ hne', run_append, run_cons, run_nil, hfs]
    simp [headMap, Frag.render]

theorem wf_append (p : Char → Bool) (f g : Frag) : Frag.wf p (f ++ g) = (Frag.wf p f && Frag.wf p g) := by
  induction f with
  | nil => simp [Frag.wf]
  | atom c r ih => simp [Frag.wf, ih, Bool.and_assoc]
  | str q b r ih => simp [Frag.wf, ih, Bool.and_assoc]
  | group k i r _ ih => simp [Frag.wf, ih, Bool.and_assoc]

theorem wf_of_join (p : Char → Bool) (d : Char) (fs : List Frag) (h : Frag.wf p (Frag.join d fs) = true) :
    ∀ f ∈ fs, Frag.wf p f = true := by
  induction fs with
  | nil => simp
  | cons f fs ih =>
    cases fs with
    | nil => simpa [Frag.join] using h
    | cons g gs =>
      simp only [Frag.join, wf_append, Frag.wf, Bool.and_eq_true] at h
      intro x hx
      simp only [List.mem_cons] at hx
      rcases hx with rfl | hx
      · exact h.1
      · exact ih h.2.2 x (by simpa using hx)

/-- `break_separator` on a fragment with arbitrary simple quoted strings: the pieces are the texts of fragments `f₁ … fₙ`
    with `f = f₁ d f₂ d … fₙ` at top level — every cut is a top-level delimiter, the pieces rejoin to the text up to
    blanks and each piece is balanced. (Not every top-level delimiter needs to be a cut.) -/
theorem breakSeparator_simple (d : Char) (f : Frag) (hf : Frag.Simple f) (hne : f ≠ .nil) :
    ∃ fs : List Frag, Frag.join d fs = f ∧ (∀ p ∈ fs, Frag.Simple p) ∧
      breakSeparator f.render [d] = .ok (fs.map fun p => strip p.render) := by
  obtain ⟨fs, _, hj, hfs⟩ := fused_frag d f Shape.nil hf
  refine ⟨fs, hj, ?_, ?_⟩
  · exact wf_of_join _ d fs (by rw [hj]; exact hf)
  · rw [breakSeparator_fused, hfs]
    simp [hne, headMap_nil]

/-- `DecoratorHelper._parse` on `path(args)` when the strings of `args` are arbitrary simple strings: the argument pieces are
    still the texts of top-level comma-separated fragments of `args` (possibly fewer than there are commas). -/
theorem decoParse_simple (path : Str) (args : Frag) (hp : ∀ x ∈ path, x ≠ '(') (ha : Frag.Simple args) (hne : args ≠ .nil) :
    ∃ fs : List Frag, Frag.join ',' fs = args ∧ (∀ p ∈ fs, Frag.Simple p) ∧
      decoParse (path ++ '(' :: (args.render ++ [')']))
        = .ok (path, decoArgs (fs.map fun p => strip p.render), args.render) := by
  obtain ⟨fs, hj, hs, hb⟩ := breakSeparator_simple ',' args ha hne
  refine ⟨fs, hj, hs, ?_⟩
  have h1 : slice (path ++ '(' :: (args.render ++ [')'])) 0 path.length = path := slice_front _ _
  have h2 : slice (path ++ '(' :: (args.render ++ [')'])) (path.length + 1) ((path ++ '(' :: (args.render ++ [')'])).length - 1)
      = args.render := by
    have : (path ++ '(' :: (args.render ++ [')'])).length - 1 = path.length + 1 + args.render.length := by
      simp; omega
    rw [this]; exact slice_middle _ _ _ _
  simp only [decoParse, find_char '(' path _ hp, h1, h2, hb]
  rfl

end Tranp.Block
