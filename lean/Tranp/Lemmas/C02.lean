/-
  Definitions and helper lemmas for Props/C02.lean that mention the generated tables
  (`Generated/GrammarLadder.lean`, `Generated/ResolverTable.lean`).
-/
import Tranp.Lemmas.Ladder
import Tranp.Model.Classify
import Tranp.Generated.GrammarLadder
import Tranp.Generated.ResolverTable

namespace Tranp.C02
open Tranp Tranp.Prec Tranp.Ladder Tranp.Classify
open Tranp.Generated.GrammarLadder (ladder compOps)

/-! ## the supported operator vocabulary -/

/-- operator codes occurring in the generated ladder -/
def ladderCodes : List Nat := tableCodes (ladderTable ladder)

/-- CPython's table restricted to the operators the ladder has -/
def pySupported : Prec.Table := restrictTable (fun o => ladderCodes.contains o) pyTable

/-- the ladder's table without the operators CPython 3 does not have (`<>`) -/
def ladderPython : Prec.Table := restrictTable (fun o => !(codes nonPython).contains o) (ladderTable ladder)

/-- infix / prefix operator heads of the common language of CPython and grammar.lark -/
def supportedHeads : List Head := pySupported.heads

/-- the reference parser's parameters: generated ladder + atom subtrees -/
def infoOf (a : Nat → LarkTree) : Info := ⟨ladder, compOps, a⟩

theorem known_of_heads (L : Ops) (e : Expr) (h : ∀ x ∈ heads e, knownHead L x = true) : known L e = true := by
  induction e with
  | atom n => rfl
  | paren e ih => exact ih (by simpa [heads] using h)
  | bin o l r ihl ihr =>
    simp only [heads, List.mem_cons, List.mem_append] at h
    simp only [known, Bool.and_eq_true]
    exact ⟨⟨by simpa [knownHead] using h (.bin o) (Or.inl rfl), ihl (fun x hx => h x (Or.inr (Or.inl hx)))⟩,
      ihr (fun x hx => h x (Or.inr (Or.inr hx)))⟩
  | pre o e ih =>
    simp only [heads, List.mem_cons] at h
    simp only [known, Bool.and_eq_true]
    exact ⟨by simpa [knownHead] using h (.pre o) (Or.inl rfl), ih (fun x hx => h x (Or.inr hx))⟩

/-! ## classification: the Python-side specification of function kinds -/

/-- innermost enclosing `class_def_raw` / `function_def_raw` of a position (its own tag excluded) -/
def nearestScope (tags : List Str) : Option Str :=
  (tags.dropLast.reverse.find? fun t => t == c!"class_def_raw" || t == c!"function_def_raw")

def inClass (f : FuncFeat) : Bool := nearestScope f.tags == some c!"class_def_raw"
def inFunction (f : FuncFeat) : Bool := nearestScope f.tags == some c!"function_def_raw"
/-- `… class_def_raw . block . function_def`: a statement of the class body itself -/
def directlyInClass (f : FuncFeat) : Bool := fromEnd f.tags 3 == some c!"class_def_raw"

def hasDeco (d : Str) (f : FuncFeat) : Bool := f.decorators.contains d
def selfFirst (f : FuncFeat) : Bool := f.firstParam == some c!"self"
def hasTag (t : Str) (f : FuncFeat) : Bool := f.tags.contains t

/-- the kind Python's semantics gives a `def`: decided by where it stands and how it is decorated -/
def pyFuncClass (f : FuncFeat) : FuncClass :=
  if inClass f then
    if hasDeco c!"classmethod" f then .classMethod
    else if isConstructor f then .constructor
    else if hasDeco c!"staticmethod" f then .function
    else .method
  else if inFunction f then .closure
  else .function

/-- the coding conventions under which tranp's name-based tests coincide with Python's semantics -/
structure Conventional (f : FuncFeat) : Prop where
  /-- `@classmethod` is the outermost decorator -/
  cmFirst : hasDeco c!"classmethod" f = true → isClassMethod f = true
  /-- functions of a class are statements of the class body (not nested in `if`/`try` blocks) … -/
  direct : inClass f = true → directlyInClass f = true
  /-- … (and a statement of a class body has that class as nearest scope: true of every real path) -/
  directOnly : directlyInClass f = true → inClass f = true
  /-- outside classes nothing is decorated `classmethod`, called `__init__`, or takes `self` first -/
  outside : inClass f = false →
    hasDeco c!"classmethod" f = false ∧ isConstructor f = false ∧ selfFirst f = false
  /-- inside a class the first parameter is `self` exactly for the non-static, non-class methods -/
  selfRule : inClass f = true → hasDeco c!"classmethod" f = false →
    (selfFirst f = true ↔ hasDeco c!"staticmethod" f = false)
  /-- a def whose nearest scope is a function has a scope in its path and is not a class-body statement (true of every real path) -/
  hasScope : inFunction f = true →
    (hasTag c!"class_def_raw" f || hasTag c!"function_def_raw" f) = true ∧ directlyInClass f = false
  /-- a def with no enclosing scope has none in its path (true of every real path) -/
  noScope : inClass f = false → inFunction f = false →
    hasTag c!"class_def_raw" f = false ∧ hasTag c!"function_def_raw" f = false

theorem isMethod_eq (f : FuncFeat) : isMethod f = (!isConstructor f && selfFirst f) := rfl

theorem isClosure_eq (f : FuncFeat) :
    isClosure f =
      (!(!hasTag c!"class_def_raw" f && !hasTag c!"function_def_raw" f) &&
        !(!(!hasTag c!"class_def_raw" f && !hasTag c!"function_def_raw" f) && directlyInClass f)) := rfl

theorem isClassMethod_hasDeco (f : FuncFeat) (h : isClassMethod f = true) : hasDeco c!"classmethod" f = true := by
  simp only [isClassMethod, beq_iff_eq] at h
  simp only [hasDeco, List.contains_iff_mem]
  cases hd : f.decorators with
  | nil => rw [hd] at h; simp at h
  | cons x xs => rw [hd] at h; simp at h; simp [h]

theorem isClassMethod_iff (f : FuncFeat) : isClassMethod f = true ↔ f.decorators.head? = some c!"classmethod" := by
  simp [isClassMethod]

theorem isConstructor_iff (f : FuncFeat) : isConstructor f = true ↔ f.name = c!"__init__" := by
  simp [isConstructor]

theorem isMethod_iff (f : FuncFeat) :
    isMethod f = true ↔ f.name ≠ c!"__init__" ∧ f.firstParam = some c!"self" := by
  simp [isMethod]

theorem isClosure_iff (f : FuncFeat) :
    isClosure f = true ↔
      (f.tags.contains c!"class_def_raw" = true ∨ f.tags.contains c!"function_def_raw" = true)
      ∧ fromEnd f.tags 3 ≠ some c!"class_def_raw" := by
  simp only [isClosure]
  cases h1 : f.tags.contains c!"class_def_raw" <;> cases h2 : f.tags.contains c!"function_def_raw"
    <;> cases h3 : (fromEnd f.tags 3 == some c!"class_def_raw") <;> simp_all

/-- rows of the generated resolver table -/
def rowOf (tag : Str) : Option (List (Str × Str)) :=
  (Generated.ResolverTable.table.find? fun row => row.1 == tag).map (·.2)

end Tranp.C02
