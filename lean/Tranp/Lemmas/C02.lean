/-
  Definitions and helper lemmas for Props/C02.lean that mention the generated tables
  (`Generated/GrammarLadder.lean`, `Generated/ResolverTable.lean`).
-/
import Tranp.Lemmas.Ladder
import Tranp.Lemmas.LadderT
import Tranp.Model.Classify
import Tranp.Generated.GrammarLadder
import Tranp.Generated.ResolverTable
import Tranp.Generated.GrammarParents
import Tranp.Generated.MatchFeatures

namespace Tranp.C02
open Tranp Tranp.Prec Tranp.Ladder Tranp.Classify
open Tranp.Generated.GrammarLadder (ladder compOps)

/-! ## the generated constants of the `match_feature` methods -/

/-- the `i`-th string constant of `Class.method` as translate/gen_match_features.py read it off the code (`[]` when absent) -/
def constAt (key : Str) (i : Nat) : Str :=
  match Generated.MatchFeatures.consts.find? (fun r => r.1 == key) with
  | some r => r.2.getD i []
  | none => []

/-! ## class kinds: the base list of a class definition -/

section ClassKinds
open Tranp.AstPath

theorem mapM_ok_of_forall {α β ε : Type} (f : α → Except ε β) (g : α → β) :
    ∀ xs : List α, (∀ x ∈ xs, f x = .ok (g x)) → xs.mapM f = .ok (xs.map g) := by
  intro xs
  induction xs with
  | nil => intro _; rfl
  | cons x xs ih =>
    intro h
    have hx := h x (by simp)
    have hxs := ih (fun y hy => h y (by simp [hy]))
    simp [List.mapM_cons, hx, hxs, bind, Except.bind, pure, Except.pure]

/-- the entries of a base list that are bases (`InheritArgument`s) -/
def baseEntries (ia : Entry) : List Entry := ia.children.filter (fun c => c.name == c!"typed_argvalue")

/-- every base starts with a type expression (what grammar.lark's `typed_argvalue` guarantees) -/
def basesWf (ia : Entry) : Bool := (baseEntries ia).all fun inh => match inh.children.head? with
  | some t => typeTags.contains t.name
  | none => false

/-- `class_type.tokens` of every base, in order -/
def baseNames (ia : Entry) : List Str := (baseEntries ia).map fun inh => match inh.children.head? with
  | some t => tokens t
  | none => []

/-- the kind Python's reading gives a class: an enumeration iff the bare name `Enum` is one of its bases -/
def pyClassKind (bases : List Str) : Str := if bases.contains c!"Enum" then c!"Enum" else c!"Class"

/-- example entries: a base `n`, a class definition with the given base list -/
def tv (n : Str) : Entry := .tree c!"typed_argvalue" [.tree c!"typed_var" [.token c!"NAME" n]]
def cls2 (bases : List Entry) : Entry :=
  .tree c!"class_def" [.tree c!"class_def_raw" [.token c!"NAME" c!"B", .tree c!"inherit_arguments" bases, .tree c!"block" []]]

end ClassKinds

/-! ## the supported operator vocabulary -/

/-- operator codes occurring in the generated ladder -/
def ladderCodes : List Nat := tableCodes (ladderTable ladder)

/-- CPython's table restricted to the operators the ladder has -/
def pySupported : Prec.Table := restrictTable (fun o => ladderCodes.contains o) pyTable

/-- the ladder's table without the operators CPython 3 does not have (`<>`) -/
def ladderPython : Prec.Table := restrictTable (fun o => !(codes nonPython).contains o) (ladderTable ladder)

/-- infix / prefix operator heads of the common language of CPython and grammar.lark -/
def supportedHeads : List Head := pySupported.heads

/-- the reference parser's parameters: generated ladder + atom subtrees -/
def infoOf (a : Nat → LarkTree) : Info := ⟨ladder, compOps, a⟩

/-- parameters of the reference parser for `expression`: generated ladder + atom and lambda-parameter subtrees -/
def infoTOf (a p : Nat → LarkTree) : InfoT := ⟨ladder, compOps, a, p⟩

/-- a comparison chain `first o₁ e₁ o₂ e₂ …` as the (bare, left-nested) operator term -/
def chainExpr (first : Expr) : List (Nat × Expr) → Expr
  | [] => first
  | (o, e) :: rest => chainExpr (.bin o first e) rest

theorem chainExpr_snoc (first : Expr) (steps : List (Nat × Expr)) (o : Nat) (e : Expr) :
    chainExpr first (steps ++ [(o, e)]) = .bin o (chainExpr first steps) e := by
  induction steps generalizing first with
  | nil => rfl
  | cons s steps ih => simp [chainExpr, ih]

theorem cmpParts_chainExpr (a : Nat → LarkTree) (steps : List (Nat × Expr)) (hops : ∀ s ∈ steps, pyKind s.1 = .compare) :
    ∀ acc : Expr, cmpParts a (chainExpr acc steps) =
      ((cmpParts a acc).1, (cmpParts a acc).2.1 ++ steps.map (·.1), (cmpParts a acc).2.2 ++ steps.map (fun s => astOf a s.2)) := by
  induction steps with
  | nil => intro acc; simp [chainExpr]
  | cons s steps ih =>
    intro acc
    have hs : pyKind s.1 = .compare := hops s (by simp)
    rw [chainExpr, ih (fun x hx => hops x (by simp [hx])), cmpParts_bin]
    simp [hs, List.append_assoc]

theorem known_of_heads (L : Ops) (e : Expr) (h : ∀ x ∈ heads e, knownHead L x = true) : known L e = true := by
  induction e with
  | atom n => rfl
  | paren e ih => exact ih (by simpa [heads] using h)
  | bin o l r ihl ihr =>
    simp only [heads, List.mem_cons, List.mem_append] at h
    simp only [known, Bool.and_eq_true]
    exact ⟨⟨by simpa [knownHead] using h (.bin o) (Or.inl rfl), ihl (fun x hx => h x (Or.inr (Or.inl hx)))⟩,
      ihr (fun x hx => h x (Or.inr (Or.inr hx)))⟩
  | pre o e ih =>
    simp only [heads, List.mem_cons] at h
    simp only [known, Bool.and_eq_true]
    exact ⟨by simpa [knownHead] using h (.pre o) (Or.inl rfl), ih (fun x hx => h x (Or.inr hx))⟩

/-! ## classification: the Python-side specification of function kinds -/

def isScopeTag (t : Str) : Bool := t == c!"class_def_raw" || t == c!"function_def_raw"

/-- innermost enclosing `class_def_raw` / `function_def_raw` of a position (its own tag excluded) -/
def nearestScope (tags : List Str) : Option Str := tags.dropLast.reverse.find? isScopeTag

def inClass (f : FuncFeat) : Bool := nearestScope f.tags == some c!"class_def_raw"
def inFunction (f : FuncFeat) : Bool := nearestScope f.tags == some c!"function_def_raw"
def hasDeco (d : Str) (f : FuncFeat) : Bool := f.decorators.contains d
def selfFirst (f : FuncFeat) : Bool := f.firstParam == some c!"self"
def hasTag (t : Str) (f : FuncFeat) : Bool := f.tags.contains t
def nameIsInit (f : FuncFeat) : Bool := f.name == c!"__init__"

/-- the kind Python's semantics gives a `def`: decided by where it stands and how it is decorated -/
def pyFuncClass (f : FuncFeat) : FuncClass :=
  if inClass f then
    if hasDeco c!"classmethod" f then .classMethod
    else if nameIsInit f then .constructor
    else if hasDeco c!"staticmethod" f then .function
    else .method
  else if inFunction f then .closure
  else .function

/-- the shape every real `function_def` path has: own tag `function_def`, and the parent element (`block` or `file_input`)
    is not itself a scope tag -/
def PathShape (f : FuncFeat) : Prop :=
  fromEnd f.tags 1 = some c!"function_def" ∧ ∀ t, fromEnd f.tags 2 = some t → isScopeTag t = false

/-- what is still convention after fix e2c3e47 (the name-based tests that remain in `match_feature`) -/
structure Conventional (f : FuncFeat) : Prop where
  /-- `@classmethod` is only written on functions of a class (`ClassMethod.match_feature` does not look at the position) -/
  cmInClass : hasDeco c!"classmethod" f = true → inClass f = true
  /-- functions of a class are statements of the class body, not nested in `if` / `try` blocks of it
      (`_in_class_block` wants `class_def_raw.block.function_def`) -/
  direct : inClass f = true → inClassBlock f = true
  /-- inside a class the first parameter is called `self` exactly for the instance methods
      (`Method.match_feature` recognises an instance method by that name) -/
  selfRule : inClass f = true → hasDeco c!"classmethod" f = false → nameIsInit f = false →
    (selfFirst f = true ↔ hasDeco c!"staticmethod" f = false)

theorem pathShape_of (f : FuncFeat) (h1 : fromEnd f.tags 1 = some c!"function_def") (b : Str)
    (h2 : fromEnd f.tags 2 = some b) (hb : isScopeTag b = false) : PathShape f :=
  ⟨h1, fun t ht => by rw [h2] at ht; cases ht; exact hb⟩

theorem isConstructor_eq (f : FuncFeat) : isConstructor f = (inClassBlock f && nameIsInit f) := rfl
theorem isMethod_eq (f : FuncFeat) : isMethod f = (inClassBlock f && (!nameIsInit f && selfFirst f)) := rfl
theorem isClassMethod_eq (f : FuncFeat) : isClassMethod f = hasDeco c!"classmethod" f := rfl

theorem isClosure_eq (f : FuncFeat) :
    isClosure f =
      (!(!hasTag c!"class_def_raw" f && !hasTag c!"function_def_raw" f) &&
        !(!(!hasTag c!"class_def_raw" f && !hasTag c!"function_def_raw" f) && inClassBlock f)) := rfl

theorem fromEnd_reverse (r : List Str) (k : Nat) : fromEnd r.reverse (k + 1) = r[k]? := by
  unfold fromEnd
  simp only [List.length_reverse, Nat.succ_ne_zero, false_or]
  by_cases h : r.length < k + 1
  · simp [h]; omega
  · simp only [h, if_false]
    rw [List.getElem?_reverse (by omega)]
    congr 1; omega

/-- the structural facts about real paths that relate the two ways of looking at the position -/
theorem path_facts (f : FuncFeat) (hs : PathShape f) :
    (inClassBlock f = true → inClass f = true)
    ∧ (inFunction f = true → (hasTag c!"class_def_raw" f || hasTag c!"function_def_raw" f) = true ∧ inClassBlock f = false)
    ∧ (inClass f = false → inFunction f = false → hasTag c!"class_def_raw" f = false ∧ hasTag c!"function_def_raw" f = false) := by
  obtain ⟨r, hr⟩ : ∃ r, f.tags = r.reverse := ⟨f.tags.reverse, by simp⟩
  obtain ⟨h1, h2⟩ := hs
  simp only [inClassBlock, inClass, inFunction, hasTag, nearestScope, hr, List.dropLast_reverse, List.reverse_reverse] at *
  rw [fromEnd_reverse] at h1
  rw [fromEnd_reverse]
  have h2' : ∀ t, r[1]? = some t → isScopeTag t = false := by
    intro t ht; apply h2; rw [fromEnd_reverse]; exact ht
  have hc : isScopeTag c!"class_def_raw" = true := by decide
  have hf : isScopeTag c!"function_def_raw" = true := by decide
  have hne : (c!"class_def_raw" : Str) ≠ c!"function_def_raw" := by decide
  match r, h1, h2' with
  | [], h1, _ => simp at h1
  | [a], h1, _ =>
    simp at h1; subst h1
    simp
  | a :: b :: rest, h1, h2' =>
    simp at h1; subst h1
    have hb : isScopeTag b = false := h2' b (by simp)
    simp only [List.tail_cons, List.find?_cons, hb]
    refine ⟨?_, ?_, ?_⟩
    · intro hd
      cases rest with
      | nil => simp at hd
      | cons c rest' =>
        simp at hd; subst hd
        simp [hc]
    · intro hfn
      simp only [beq_iff_eq] at hfn
      have hmem := List.mem_of_find?_eq_some hfn
      refine ⟨?_, ?_⟩
      · simp only [Bool.or_eq_true, List.contains_iff_mem, List.mem_reverse, List.mem_cons]
        exact Or.inr (Or.inr (Or.inr hmem))
      · cases rest with
        | nil => simp at hfn
        | cons c rest' =>
          simp only [List.find?_cons] at hfn
          by_cases hcs : isScopeTag c = true
          · simp only [hcs] at hfn
            have : c = c!"function_def_raw" := Option.some.inj hfn
            subst this
            simp
          · have hcs' : isScopeTag c = false := by simpa using hcs
            have : c ≠ c!"class_def_raw" := by
              intro h; rw [h, hc] at hcs'; cases hcs'
            simp [this]
    · intro hic hif
      have hnone : rest.find? isScopeTag = none := by
        cases hfd : rest.find? isScopeTag with
        | none => rfl
        | some x =>
          have hx := List.find?_some hfd
          simp only [isScopeTag, Bool.or_eq_true, beq_iff_eq] at hx
          rcases hx with rfl | rfl
          · simp [hfd] at hic
          · simp [hfd] at hif
      rw [List.find?_eq_none] at hnone
      have hbc : b ≠ c!"class_def_raw" := by intro h; rw [h, hc] at hb; cases hb
      have hbf : b ≠ c!"function_def_raw" := by intro h; rw [h, hf] at hb; cases hb
      have hrc : c!"class_def_raw" ∉ rest := fun h => by have := hnone _ h; rw [hc] at this; exact this rfl
      have hrf : c!"function_def_raw" ∉ rest := fun h => by have := hnone _ h; rw [hf] at this; exact this rfl
      have hac : (c!"function_def" : Str) ≠ c!"class_def_raw" := by decide
      have haf : (c!"function_def" : Str) ≠ c!"function_def_raw" := by decide
      simp [hbc.symm, hbf.symm, hrc, hrf, hac.symm, haf.symm]

theorem isClassMethod_iff (f : FuncFeat) : isClassMethod f = true ↔ c!"classmethod" ∈ f.decorators := by
  simp [isClassMethod]

theorem isConstructor_iff (f : FuncFeat) :
    isConstructor f = true ↔ fromEnd f.tags 3 = some c!"class_def_raw" ∧ f.name = c!"__init__" := by
  simp [isConstructor, inClassBlock]

theorem isMethod_iff (f : FuncFeat) :
    isMethod f = true ↔
      fromEnd f.tags 3 = some c!"class_def_raw" ∧ f.name ≠ c!"__init__" ∧ f.firstParam = some c!"self" := by
  simp [isMethod, inClassBlock]

theorem isClosure_iff (f : FuncFeat) :
    isClosure f = true ↔
      (f.tags.contains c!"class_def_raw" = true ∨ f.tags.contains c!"function_def_raw" = true)
      ∧ fromEnd f.tags 3 ≠ some c!"class_def_raw" := by
  simp only [isClosure]
  cases h1 : f.tags.contains c!"class_def_raw" <;> cases h2 : f.tags.contains c!"function_def_raw"
    <;> cases h3 : (fromEnd f.tags 3 == some c!"class_def_raw") <;> simp_all

/-- rows of the generated resolver table -/
def rowOf (tag : Str) : Option (List (Str × Str)) :=
  (Generated.ResolverTable.table.find? fun row => row.1 == tag).map (·.2)

/-! ## declaration vs reference: the positions of a bare identifier in the modelled statement forms -/

/-- the role a name occurrence has for Python: a binding (declaration), the binding of a class variable, a use, a label -/
inductive Role where
  | decl | classVar | ref | label
deriving DecidableEq, Repr

def roleOf : NameClass → Role
  | .declClassVar => .classVar
  | .argumentLabel => .label
  | .var => .ref
  | .classRef => .ref
  | .thisRef => .ref
  | _ => .decl

/-- where a bare identifier can stand in the statement forms the model covers; the enclosing context (module, blocks, class
    and function bodies, outer expressions) is an arbitrary tag list in front of the suffix -/
inductive NamePos where
  | assignTarget            -- `x = …`, `x, y = …`            assign . assign_namelist . var
  | annTarget               -- `x: T = …`, `x: T`             anno_assign . assign_namelist . var
  | classVarTarget (anno : Bool)   -- `x: ClassVar[T] = …` / `x: ClassVar = …`
  | augTarget               -- `x += …`                        aug_assign . assign_namelist . var
  | typeAliasTarget         -- `A: TypeAlias = T`              class_assign . assign_namelist . var
  | typeVarTarget           -- `T = TypeVar('T')`              template_assign . assign_namelist . var
  | forTarget               -- `for x in …`                    for_stmt . for_namelist . name
  | compTarget              -- `[… for x in …]`                comp_for . for_namelist . name
  | withAs                  -- `with … as x`                   with_item . name
  | exceptAs                -- `except E as x`                 except_clause . name
  | lambdaParam             -- `lambda x: …`                   lambdaparams . name
  | param                   -- `def f(x: T = …)`               typedparam . name
  | defName                 -- `def f(…)`                      function_def_raw . name
  | className               -- `class C…`                      class_def_raw . name
  | importedName            -- `from m import x [as y]`        import_as_name . name
  | kwLabel                 -- `f(x=…)`                        argvalue . name
  | attrName                -- `e.x`                           getattr . name
  | valueOf (stmt : Str)    -- the whole operand of a statement / clause: `… = x`, `return x`, `if x:` …   stmt . var
  | inExpr (p2 p1 : Str)    -- deeper inside an expression: two enclosing tags, then var
deriving DecidableEq, Repr

def NamePos.suffix : NamePos → List Str
  | .assignTarget => [c!"assign", c!"assign_namelist", c!"var"]
  | .annTarget => [c!"anno_assign", c!"assign_namelist", c!"var"]
  | .classVarTarget true => [c!"class_var_anno_assign", c!"assign_namelist", c!"var"]
  | .classVarTarget false => [c!"class_var_assign", c!"assign_namelist", c!"var"]
  | .augTarget => [c!"aug_assign", c!"assign_namelist", c!"var"]
  | .typeAliasTarget => [c!"class_assign", c!"assign_namelist", c!"var"]
  | .typeVarTarget => [c!"template_assign", c!"assign_namelist", c!"var"]
  | .forTarget => [c!"for_stmt", c!"for_namelist", c!"name"]
  | .compTarget => [c!"comp_for", c!"for_namelist", c!"name"]
  | .withAs => [c!"with_item", c!"name"]
  | .exceptAs => [c!"except_clause", c!"name"]
  | .lambdaParam => [c!"lambdaparams", c!"name"]
  | .param => [c!"typedparam", c!"name"]
  | .defName => [c!"function_def_raw", c!"name"]
  | .className => [c!"class_def_raw", c!"name"]
  | .importedName => [c!"import_as_name", c!"name"]
  | .kwLabel => [c!"argvalue", c!"name"]
  | .attrName => [c!"getattr", c!"name"]
  | .valueOf stmt => [stmt, c!"var"]
  | .inExpr p2 p1 => [p2, p1, c!"var"]

/-- CPython: `Name(ctx=Store)` of a binding statement / clause, parameters, def / class / import names are bindings;
    the target of an augmented assignment re-binds an existing name (no declaration); everything else is a use -/
def NamePos.pyRole : NamePos → Role
  | .assignTarget => .decl
  | .annTarget => .decl
  | .classVarTarget _ => .classVar
  | .augTarget => .ref
  | .typeAliasTarget => .decl
  | .typeVarTarget => .decl
  | .forTarget => .decl
  | .compTarget => .decl
  | .withAs => .decl
  | .exceptAs => .decl
  | .lambdaParam => .decl
  | .param => .decl
  | .defName => .decl
  | .className => .decl
  | .importedName => .decl
  | .kwLabel => .label
  | .attrName => .ref
  | .valueOf _ => .ref
  | .inExpr _ _ => .ref

/-- the tags under which grammar.lark lists the targets of a statement (`assign_namelist` in every generated pattern) -/
def namelistTags : List Str :=
  [Generated.DeclMatchers.localNamelist, Generated.DeclMatchers.forwardNamelist, Generated.DeclMatchers.altNamelist] ++
    Generated.DeclMatchers.classVarParents.filterMap (fun p => p[1]?)

/-- side conditions of a position: value / expression positions are not target lists -/
def NamePos.wf : NamePos → Bool
  | .valueOf stmt => !namelistTags.contains stmt
  | .inExpr _ p1 => !namelistTags.contains p1
  | _ => true

/-- the model's class of the identifier at a position below context `ctx` -/
def classAt (ctx : List Str) (pos : NamePos) (toks : Str) (recv : Bool) : NameClass :=
  let f : NameFeat := ⟨ctx ++ pos.suffix, toks, recv⟩
  if pos.suffix.getLast? = some c!"name" then nameClass f else varClass f

theorem fromEnd_append (ctx suf : List Str) (k : Nat) (hk : k ≤ suf.length) : fromEnd (ctx ++ suf) k = fromEnd suf k := by
  unfold fromEnd
  by_cases h0 : k = 0
  · simp [h0]
  · have h1 : ¬ (ctx ++ suf).length < k := by simp; omega
    have h2 : ¬ suf.length < k := by omega
    simp only [h0, h1, h2, false_or, if_false]
    rw [List.getElem?_append_right (by simp; omega)]
    congr 1
    simp; omega

theorem lastIndexOf_eq_fromEnd (xs : List Str) (x : Str) (k : Nat) (hk : 1 ≤ k) (hkl : k ≤ xs.length)
    (h : lastIndexOf xs x = (xs.length : Int) - k) : fromEnd xs k = some x := by
  unfold lastIndexOf at h
  split at h
  · next i hi =>
    obtain ⟨hlt, hp, _⟩ := List.findIdx?_eq_some_iff_getElem.mp hi
    simp only [List.length_reverse] at hlt
    have hik : i = k - 1 := by omega
    unfold fromEnd
    have h0 : ¬ (k = 0 ∨ xs.length < k) := by omega
    simp only [h0, if_false]
    have : xs.reverse[i] = x := by simpa using hp
    rw [List.getElem_reverse] at this
    rw [List.getElem?_eq_getElem (by omega)]
    simp only [Option.some.injEq]
    rw [← this]
    congr 1
    omega
  · omega

/-! ### evaluating the path tests below an arbitrary context -/

theorem fe1_1 (ctx : List Str) (a : Str) : fromEnd (ctx ++ [a]) 1 = some a := by
  rw [fromEnd_append _ _ _ (by simp)]; simp [fromEnd]
theorem fe2_1 (ctx : List Str) (a b : Str) : fromEnd (ctx ++ [a, b]) 1 = some b := by
  rw [fromEnd_append _ _ _ (by simp)]; simp [fromEnd]
theorem fe2_2 (ctx : List Str) (a b : Str) : fromEnd (ctx ++ [a, b]) 2 = some a := by
  rw [fromEnd_append _ _ _ (by simp)]; simp [fromEnd]
theorem fe3_1 (ctx : List Str) (a b c : Str) : fromEnd (ctx ++ [a, b, c]) 1 = some c := by
  rw [fromEnd_append _ _ _ (by simp)]; simp [fromEnd]
theorem fe3_2 (ctx : List Str) (a b c : Str) : fromEnd (ctx ++ [a, b, c]) 2 = some b := by
  rw [fromEnd_append _ _ _ (by simp)]; simp [fromEnd]
theorem fe3_3 (ctx : List Str) (a b c : Str) : fromEnd (ctx ++ [a, b, c]) 3 = some a := by
  rw [fromEnd_append _ _ _ (by simp)]; simp [fromEnd]
theorem dl2 (ctx : List Str) (a b : Str) : (ctx ++ [a, b]).dropLast = ctx ++ [a] := by
  rw [List.dropLast_append_of_ne_nil (by simp)]; rfl
theorem dl3 (ctx : List Str) (a b c : Str) : (ctx ++ [a, b, c]).dropLast = ctx ++ [a, b] := by
  rw [List.dropLast_append_of_ne_nil (by simp)]; rfl

theorem forward_false (f : NameFeat)
    (h : fromEnd f.tags 3 ≠ some Generated.DeclMatchers.forwardAssign ∨ fromEnd f.tags 2 ≠ some Generated.DeclMatchers.forwardNamelist) :
    isDeclThisVarForward f = false := by
  unfold isDeclThisVarForward
  split
  · rfl
  · split
    · rfl
    · rcases h with h | h <;> simp [h]

theorem alt_false_of_parent (f : NameFeat) (h : f.parentTag ≠ some Generated.DeclMatchers.altNamelist) :
    inDeclAltClassType f = false := by
  unfold inDeclAltClassType
  simp [h]

theorem alt_false_of_third (f : NameFeat) (hl : 3 ≤ f.tags.length)
    (h : ∀ t ∈ Generated.DeclMatchers.altAssigns, fromEnd f.tags 3 ≠ some t) : inDeclAltClassType f = false := by
  unfold inDeclAltClassType
  split
  · rfl
  · simp only [List.any_eq_false, beq_iff_eq]
    intro t ht heq
    exact h t ht (lastIndexOf_eq_fromEnd f.tags t 3 (by omega) hl (by simpa using heq))

/-- the generated `DeclableMatcher` constants as they are today (everything below is re-decided when primary.py changes one) -/
theorem matcherFacts :
    Generated.DeclMatchers.localAssigns = [c!"assign", c!"anno_assign"]
    ∧ Generated.DeclMatchers.localNamelist = c!"assign_namelist"
    ∧ Generated.DeclMatchers.forwardAssign = c!"anno_assign" ∧ Generated.DeclMatchers.forwardNamelist = c!"assign_namelist"
    ∧ Generated.DeclMatchers.altNamelist = c!"assign_namelist"
    ∧ Generated.DeclMatchers.altAssigns = [c!"class_assign", c!"template_assign"]
    ∧ Generated.DeclMatchers.classVarParents = [[c!"class_var_assign", c!"assign_namelist"], [c!"class_var_anno_assign", c!"assign_namelist"]]
    ∧ Generated.DeclMatchers.nameOnlyParents = [c!"for_namelist", c!"except_clause", c!"with_item", c!"lambdaparams"]
    ∧ Generated.DeclMatchers.nameTag = c!"name" ∧ Generated.DeclMatchers.paramParent = c!"typedparam"
    ∧ Generated.DeclMatchers.classTypeParents = [c!"class_def_raw", c!"function_def_raw"]
    ∧ Generated.DeclMatchers.importParent = c!"import_as_name"
    ∧ Generated.DeclMatchers.localExcluded = [c!"cls", c!"self"]
    ∧ namelistTags = [c!"assign_namelist", c!"assign_namelist", c!"assign_namelist", c!"assign_namelist", c!"assign_namelist"] := by
  decide +kernel

theorem varClass_ref_of (f : NameFeat) (h1 : isDeclClassVar f = false) (h2 : isDeclThisVarForward f = false)
    (h3 : isDeclLocalVar f = false) (h4 : inDeclAltClassType f = false) : roleOf (varClass f) = .ref := by
  simp only [varClass, h1, h2, h3, h4, Bool.false_eq_true, if_false]
  split
  · rfl
  · split <;> rfl

/-- `is_decl_class_var` three levels down: only the statement tag and the target-list tag matter -/
theorem classVar3 (ctx : List Str) (a b toks : Str) (recv : Bool) :
    isDeclClassVar ⟨ctx ++ [a, b, c!"var"], toks, recv⟩ =
      ((a == c!"class_var_assign" && b == c!"assign_namelist") || (a == c!"class_var_anno_assign" && b == c!"assign_namelist")) := by
  simp only [isDeclClassVar, matcherFacts.2.2.2.2.2.2.1, dl3, endsWith2, fe2_1, fe2_2, List.any_cons, List.any_nil, Bool.or_false]
  simp

theorem local3 (ctx : List Str) (a b toks : Str) (recv : Bool) :
    isDeclLocalVar ⟨ctx ++ [a, b, c!"var"], toks, recv⟩ =
      (((a == c!"assign" && b == c!"assign_namelist") || (a == c!"anno_assign" && b == c!"assign_namelist"))
        && !isClassOrThis toks && AstPath.dsnElemCounts toks == 1) := by
  have hlt : (NameFeat.mk (ctx ++ [a, b, c!"var"]) toks recv).lastTag = some c!"var" := fe3_1 ctx a b _
  have hne : (some c!"var" == some Generated.DeclMatchers.nameTag) = false := by decide
  simp only [isDeclLocalVar, hlt, hne, Bool.and_false, Bool.false_eq_true, if_false, matcherFacts.1, matcherFacts.2.1, dl3, endsWith2,
    fe2_1, fe2_2, List.any_cons, List.any_nil, Bool.or_false]
  simp

theorem classVar2_false (ctx : List Str) (stmt toks : Str) (recv : Bool) (hs : stmt ≠ c!"assign_namelist") :
    isDeclClassVar ⟨ctx ++ [stmt, c!"var"], toks, recv⟩ = false := by
  have hb : (stmt == c!"assign_namelist") = false := by simpa using hs
  simp only [isDeclClassVar, matcherFacts.2.2.2.2.2.2.1, dl2, endsWith2, fe1_1, List.any_cons, List.any_nil, Bool.or_false]
  simp [hs]

theorem local2_false (ctx : List Str) (stmt toks : Str) (recv : Bool) (hs : stmt ≠ c!"assign_namelist") :
    isDeclLocalVar ⟨ctx ++ [stmt, c!"var"], toks, recv⟩ = false := by
  have hlt : (NameFeat.mk (ctx ++ [stmt, c!"var"]) toks recv).lastTag = some c!"var" := fe2_1 ctx stmt _
  have hne : (some c!"var" == some Generated.DeclMatchers.nameTag) = false := by decide
  simp only [isDeclLocalVar, hlt, hne, Bool.and_false, Bool.false_eq_true, if_false, matcherFacts.1, matcherFacts.2.1, dl2, endsWith2,
    fe1_1, List.any_cons, List.any_nil, Bool.or_false]
  simp [hs]

/-! ## the order of the candidates of `function_def` -/

/-- `match_feature` of each candidate class -/
def accepts : FuncClass → FuncFeat → Bool
  | .classMethod, f => isClassMethod f
  | .constructor, f => isConstructor f
  | .method, f => isMethod f
  | .closure, f => isClosure f
  | .function, _ => true

/-- `NodeResolver.resolve` over an arbitrary registration order -/
def firstOf (order : List FuncClass) (f : FuncFeat) : FuncClass := (order.find? fun c => accepts c f).getD .function

/-- the registration orders that classify like the shipped one: `ClassMethod` before the three classes it overlaps with,
    the always-accepting `Function` last; `Constructor`, `Method`, `Closure` are pairwise disjoint and may come in any order -/
def okOrders : List (List FuncClass) := [
  [.classMethod, .constructor, .method, .closure, .function], [.classMethod, .constructor, .closure, .method, .function],
  [.classMethod, .method, .constructor, .closure, .function], [.classMethod, .method, .closure, .constructor, .function],
  [.classMethod, .closure, .constructor, .method, .function], [.classMethod, .closure, .method, .constructor, .function]]

/-- the registered order of `function_def` read from the generated resolver table -/
def generatedFuncOrderOk : Bool :=
  okOrders.any fun o => (rowOf c!"function_def").map (fun r => r.map (·.1)) == some (o.map FuncClass.name)

/-! ## registration order of the other multi-candidate tags -/

theorem find_first_of_precedes {α : Type} [DecidableEq α] (p : α → Bool) :
    ∀ (order : List α) (c : α), c ∈ order → p c = true →
      (∀ c' ∈ order, p c' = true → c' ≠ c → order.idxOf c < order.idxOf c') → order.find? p = some c := by
  intro order
  induction order with
  | nil => intro c hc; cases hc
  | cons x xs ih =>
    intro c hc hp hprec
    by_cases hx : x = c
    · subst hx; simp [List.find?_cons, hp]
    · have hpx : p x = false := by
        cases hpx : p x with
        | false => rfl
        | true =>
          have := hprec x (by simp) hpx hx
          simp [List.idxOf_cons, hx] at this
      have hcx : c ∈ xs := by
        rcases List.mem_cons.mp hc with h | h
        · exact absurd h.symm hx
        · exact h
      simp only [List.find?_cons, hpx]
      apply ih c hcx hp
      intro c' hc' hp' hne
      have := hprec c' (List.mem_cons_of_mem _ hc') hp' hne
      have hc'x : ¬ x = c' := by rintro rfl; rw [hpx] at hp'; cases hp'
      have e1 : (x == c) = false := by simpa using hx
      have e2 : (x == c') = false := by simpa using hc'x
      simp only [List.idxOf_cons, e1, e2, cond_false] at this
      omega

theorem find_none_of_all_false {α : Type} (p : α → Bool) (order : List α) (h : ∀ c ∈ order, p c = false) :
    order.find? p = none := by
  rw [List.find?_eq_none]; intro c hc; simp [h c hc]

theorem fromEnd_dropLast (xs : List Str) (k : Nat) (hk : 1 ≤ k) : fromEnd xs.dropLast k = fromEnd xs (k + 1) := by
  obtain ⟨r, rfl⟩ : ∃ r, xs = r.reverse := ⟨xs.reverse, by simp⟩
  obtain ⟨j, rfl⟩ : ∃ j, k = j + 1 := ⟨k - 1, by omega⟩
  rw [List.dropLast_reverse, fromEnd_reverse, fromEnd_reverse]
  cases r <;> simp

/-- `match_feature` of the candidates of tag `name` (the fallback `Var` accepts everything) -/
def acceptsName : NameClass → NameFeat → Bool
  | .argumentLabel, f => isArgumentLabel f
  | .declClassParam, f => isParamClass f
  | .declThisParam, f => isParamThis f
  | .declParam, f => isParam f
  | .declLocalVar, f => isDeclLocalVar f
  | .typesName, f => inDeclClassType f
  | .importName, f => inDeclImport f
  | .var, _ => true
  | _, _ => false

def nameCandidates : List NameClass :=
  [.argumentLabel, .declClassParam, .declThisParam, .declParam, .declLocalVar, .typesName, .importName]

def firstOfName (order : List NameClass) (f : NameFeat) : NameClass := (order.find? fun c => acceptsName c f).getD .var

/-- `match_feature` of the candidates of tag `var` -/
def acceptsVar : NameClass → NameFeat → Bool
  | .declClassVar, f => isDeclClassVar f
  | .declThisVarForward, f => isDeclThisVarForward f
  | .declLocalVar, f => isDeclLocalVar f
  | .altTypesName, f => inDeclAltClassType f
  | .classRef, f => f.tokens == c!"cls"
  | .thisRef, f => f.tokens == c!"self"
  | .var, _ => true
  | _, _ => false

def varCandidates : List NameClass := [.declClassVar, .declThisVarForward, .declLocalVar, .altTypesName, .classRef, .thisRef]

def firstOfVar (order : List NameClass) (f : NameFeat) : NameClass := (order.find? fun c => acceptsVar c f).getD .var

/-- the pairs of `var` candidates that can accept the same node, in their registered order -/
def varBefore : List (NameClass × NameClass) :=
  [(.declThisVarForward, .declLocalVar), (.declClassVar, .classRef), (.declClassVar, .thisRef),
   (.declThisVarForward, .classRef), (.declThisVarForward, .thisRef), (.altTypesName, .classRef), (.altTypesName, .thisRef)]

/-- what `is_decl_local_var` says about the parent tag -/
theorem local_parent (f : NameFeat) (h : isDeclLocalVar f = true) :
    f.parentTag = some c!"for_namelist" ∨ f.parentTag = some c!"except_clause" ∨ f.parentTag = some c!"with_item"
      ∨ f.parentTag = some c!"lambdaparams" ∨ f.parentTag = some c!"assign_namelist" := by
  obtain ⟨f1, f2, _, _, _, _, _, f8, _⟩ := matcherFacts
  unfold isDeclLocalVar at h
  simp only [f8, f1, f2, List.any_cons, List.any_nil, Bool.or_false] at h
  split at h
  · next hb =>
    simp only [Bool.and_eq_true, Bool.or_eq_true, beq_iff_eq] at hb
    rcases hb.1 with h' | h' | h' | h'
    · exact Or.inl h'
    · exact Or.inr (Or.inl h')
    · exact Or.inr (Or.inr (Or.inl h'))
    · exact Or.inr (Or.inr (Or.inr (Or.inl h')))
  · simp only [Bool.and_eq_true, Bool.or_eq_true, endsWith2, beq_iff_eq] at h
    have : fromEnd f.tags.dropLast 1 = some c!"assign_namelist" := by
      rcases h.1.1 with h' | h' <;> exact h'.2
    rw [fromEnd_dropLast _ _ (by omega)] at this
    exact Or.inr (Or.inr (Or.inr (Or.inr this)))

/-! ### what each `var` candidate says about the statement tag three levels up -/

theorem classVar_third (f : NameFeat) (h : isDeclClassVar f = true) :
    fromEnd f.tags 3 = some c!"class_var_assign" ∨ fromEnd f.tags 3 = some c!"class_var_anno_assign" := by
  have f7 := matcherFacts.2.2.2.2.2.2.1
  unfold isDeclClassVar at h
  simp only [f7, List.any_cons, List.any_nil, Bool.or_false, Bool.or_eq_true, endsWith2, Bool.and_eq_true, beq_iff_eq] at h
  rcases h with h | h
  · left; rw [← fromEnd_dropLast _ _ (by omega)]; exact h.1
  · right; rw [← fromEnd_dropLast _ _ (by omega)]; exact h.1

theorem forward_third (f : NameFeat) (h : isDeclThisVarForward f = true) : fromEnd f.tags 3 = some c!"anno_assign" := by
  have f3 := matcherFacts.2.2.1
  unfold isDeclThisVarForward at h
  split at h
  · cases h
  · split at h
    · cases h
    · simp only [Bool.and_eq_true, beq_iff_eq, f3] at h
      exact h.1.1.1.1

theorem local_third (f : NameFeat) (hv : f.lastTag = some c!"var") (h : isDeclLocalVar f = true) :
    (fromEnd f.tags 3 = some c!"assign" ∨ fromEnd f.tags 3 = some c!"anno_assign") ∧ isClassOrThis f.tokens = false := by
  obtain ⟨f1, f2, _, _, _, _, _, _, f9, _⟩ := matcherFacts
  unfold isDeclLocalVar at h
  have hne : (f.lastTag == some Generated.DeclMatchers.nameTag) = false := by rw [hv, f9]; decide
  simp only [hne, Bool.and_false, Bool.false_eq_true, if_false, f1, f2, List.any_cons, List.any_nil, Bool.or_false, Bool.and_eq_true,
    Bool.or_eq_true, endsWith2, beq_iff_eq, Bool.not_eq_true'] at h
  refine ⟨?_, h.1.2⟩
  rcases h.1.1 with h' | h'
  · left; rw [← fromEnd_dropLast _ _ (by omega)]; exact h'.1
  · right; rw [← fromEnd_dropLast _ _ (by omega)]; exact h'.1

theorem alt_third (f : NameFeat) (h : inDeclAltClassType f = true) :
    fromEnd f.tags 3 = some c!"class_assign" ∨ fromEnd f.tags 3 = some c!"template_assign" ∨ fromEnd f.tags 3 = none := by
  have f6 := matcherFacts.2.2.2.2.2.1
  by_cases hl : 3 ≤ f.tags.length
  · unfold inDeclAltClassType at h
    split at h
    · cases h
    · simp only [f6, List.any_cons, List.any_nil, Bool.or_false, Bool.or_eq_true, beq_iff_eq] at h
      rcases h with h | h
      · exact Or.inl (lastIndexOf_eq_fromEnd _ _ 3 (by omega) hl (by simpa using h))
      · exact Or.inr (Or.inl (lastIndexOf_eq_fromEnd _ _ 3 (by omega) hl (by simpa using h)))
  · right; right
    unfold fromEnd
    simp; omega

/-- the last occurrence of `a` in `ctx ++ [a, b, c]` is the third element from the end -/
theorem lastIndexOf_third (ctx : List Str) (a b c : Str) (hb : b ≠ a) (hc : c ≠ a) :
    lastIndexOf (ctx ++ [a, b, c]) a = ((ctx ++ [a, b, c]).length : Int) - 3 := by
  unfold lastIndexOf
  have h : (ctx ++ [a, b, c]).reverse.findIdx? (· == a) = some 2 := by
    simp [List.findIdx?_cons, hb, hc]
  rw [h]
  simp

/-- `in_decl_alt_class_type` accepts a target of the grammar's two alternative assignment statements -/
theorem alt3 (ctx : List Str) (a toks : Str) (recv : Bool) (ha : a ∈ Generated.DeclMatchers.altAssigns) :
    inDeclAltClassType ⟨ctx ++ [a, c!"assign_namelist", c!"var"], toks, recv⟩ = true := by
  have f5 := matcherFacts.2.2.2.2.1
  have f6 := matcherFacts.2.2.2.2.2.1
  have hne : a ≠ c!"assign_namelist" ∧ a ≠ c!"var" := by
    rw [f6] at ha
    simp at ha
    rcases ha with rfl | rfl <;> decide
  unfold inDeclAltClassType
  have hp : (NameFeat.mk (ctx ++ [a, c!"assign_namelist", c!"var"]) toks recv).parentTag = some c!"assign_namelist" := fe3_2 ctx _ _ _
  simp only [hp, f5, bne_self_eq_false, Bool.false_eq_true, if_false, List.any_eq_true, beq_iff_eq]
  exact ⟨a, ha, lastIndexOf_third ctx a _ _ (Ne.symm hne.1) (Ne.symm hne.2)⟩

/-! ## the grammar's parent / child relation between tree tags (generated from lark's compiled rules) -/

def inGrammar (p ch : Str) : Bool := Generated.GrammarParents.rel.contains (p, ch)

def parentsOf (ch : Str) : List Str := (Generated.GrammarParents.rel.filter (·.2 == ch)).map (·.1)

def pathInGrammar : List Str → Bool
  | a :: b :: rest => inGrammar a b && pathInGrammar (b :: rest)
  | _ => true

/-- the positions with a fixed path suffix -/
def fixedPositions : List NamePos :=
  [.assignTarget, .annTarget, .classVarTarget true, .classVarTarget false, .augTarget, .typeAliasTarget, .typeVarTarget, .forTarget,
   .compTarget, .withAs, .exceptAs, .lambdaParam, .param, .defName, .className, .importedName, .kwLabel, .attrName]

/-- parents of a `name` node that bind nothing and label nothing: the `var` node itself (classified one level up), import paths,
    type expressions, `raise … from name` -/
def otherNameParents : List Str := [c!"dotted_name", c!"raise_stmt", c!"typed_getattr", c!"typed_var", c!"var"]

theorem mem_parentsOf {p ch : Str} (h : inGrammar p ch = true) : p ∈ parentsOf ch := by
  unfold inGrammar at h
  unfold parentsOf
  have hm : (p, ch) ∈ Generated.GrammarParents.rel := by simpa using h
  exact List.mem_map.mpr ⟨(p, ch), List.mem_filter.mpr ⟨hm, by simp⟩, rfl⟩

end Tranp.C02
