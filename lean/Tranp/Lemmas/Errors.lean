/-
  Helper lemmas for property C07 (exception flow). Facts about the generated class tables are proved by exhausting the tables.
-/
import Tranp.Model.Errors

namespace Tranp.Errors
open Tranp Tranp.Generated.ErrorsTable

/-! ### the generated hierarchy -/

/-- the fuel of `Atom.mro` is sufficient: every chain reaches the root class -/
theorem mro_ends_in_root (a : Atom) : a.mro.getLast? = some (.bi .BaseException) := by
  cases a with
  | err n => cases n <;> rfl
  | bi b => cases b <;> rfl

/-- every member of `Errors` derives from `Errors.Error` -/
theorem err_isA_Error (n : ErrName) : (Atom.err n).isA (.err .Error) = true := by
  cases n <;> rfl

/-- no member of `Errors` customises its constructor: `e.__class__(node)` is a valid call -/
theorem err_ctor1 (n : ErrName) : (Cls.atom (.err n)).ctor1 = true := by
  cases n <;> rfl

theorem atom_Error_isA_Exception (a : Atom) (h : a.isA (.err .Error) = true) : a.isA (.bi .Exception) = true := by
  cases a with
  | err n => cases n <;> first | rfl | exact absurd h (by decide)
  | bi b => cases b <;> first | rfl | exact absurd h (by decide)

theorem atom_TypeError_isA_Exception (a : Atom) (h : a.isA (.bi .TypeError) = true) : a.isA (.bi .Exception) = true := by
  cases a with
  | err n => cases n <;> first | rfl | exact absurd h (by decide)
  | bi b => cases b <;> first | rfl | exact absurd h (by decide)

theorem atom_AssertionError_isA_Exception (a : Atom) (h : a.isA (.bi .AssertionError) = true) : a.isA (.bi .Exception) = true := by
  cases a with
  | err n => cases n <;> first | rfl | exact absurd h (by decide)
  | bi b => cases b <;> first | rfl | exact absurd h (by decide)

theorem atom_Syntax_isA_Error (a : Atom) (h : a.isA (.err .Syntax) = true) : a.isA (.err .Error) = true := by
  cases a with
  | err n => cases n <;> first | rfl | exact absurd h (by decide)
  | bi b => cases b <;> first | rfl | exact absurd h (by decide)

theorem atom_KeyboardInterrupt_not_Exception (a : Atom) (h : a.isA (.bi .KeyboardInterrupt) = true) : a.isA (.bi .Exception) = false := by
  cases a with
  | err n => cases n <;> first | rfl | exact absurd h (by decide)
  | bi b => cases b <;> first | rfl | exact absurd h (by decide)

/-! ### lifting table facts to arbitrary (user-defined, multiply inheriting) classes -/

mutual
theorem Cls.isA_lift (t t' : Atom) (hat : ∀ a : Atom, a.isA t = true → a.isA t' = true) :
    ∀ c : Cls, c.isA t = true → c.isA t' = true
  | .atom a, h => by
    simp only [Cls.isA] at h ⊢
    exact hat a h
  | .user _ bs _, h => by
    simp only [Cls.isA] at h ⊢
    exact Cls.anyIsA_lift t t' hat bs h
theorem Cls.anyIsA_lift (t t' : Atom) (hat : ∀ a : Atom, a.isA t = true → a.isA t' = true) :
    ∀ cs : List Cls, Cls.anyIsA cs t = true → Cls.anyIsA cs t' = true
  | [], h => by simp [Cls.anyIsA] at h
  | c :: cs, h => by
    simp only [Cls.anyIsA, Bool.or_eq_true] at h ⊢
    cases h with
    | inl h1 => exact Or.inl (Cls.isA_lift t t' hat c h1)
    | inr h2 => exact Or.inr (Cls.anyIsA_lift t t' hat cs h2)
end

/-- a member of the application hierarchy is an `Exception` — for every class, user-defined ones included -/
theorem inHierarchy_isException (x : Exc) (h : x.inHierarchy = true) : x.isException = true :=
  Cls.isA_lift _ _ atom_Error_isA_Exception x.cls h

theorem not_exception_not_hierarchy (x : Exc) (h : x.isException = false) : x.cls.isA (.err .Error) = false := by
  cases hh : x.cls.isA (.err .Error) with
  | false => rfl
  | true =>
    have := inHierarchy_isException x hh
    simp [h] at this

theorem not_exception_not_TypeError (x : Exc) (h : x.isException = false) : x.cls.isA (.bi .TypeError) = false := by
  cases hh : x.cls.isA (.bi .TypeError) with
  | false => rfl
  | true =>
    have := Cls.isA_lift _ _ atom_TypeError_isA_Exception x.cls hh
    simp [Exc.isException] at h
    simp [h] at this

theorem not_exception_not_AssertionError (x : Exc) (h : x.isException = false) : x.cls.isA (.bi .AssertionError) = false := by
  cases hh : x.cls.isA (.bi .AssertionError) with
  | false => rfl
  | true =>
    have := Cls.isA_lift _ _ atom_AssertionError_isA_Exception x.cls hh
    simp [Exc.isException] at h
    simp [h] at this

/-! ### the `try` statements of Procedure -/

/-- what leaves `__emit`'s try statement is in the hierarchy, or is the handler's own non-`Exception` exception,
    or the handler raised an `Errors.Error` subclass that cannot be rebuilt from one argument -/
theorem propagate_emit (x : Exc) (hctor : x.inHierarchy = true → x.arg0 = .other → x.cls.ctor1 = true) :
    (propagate emitHandlers x).inHierarchy = true ∨ (propagate emitHandlers x = x ∧ x.isException = false) := by
  simp only [emitHandlers, propagate]
  by_cases h1 : x.cls.isA (.bi .TypeError) = true
  · simp only [h1, if_true, runAction]
    exact Or.inl rfl
  · simp only [h1]
    by_cases h2 : x.cls.isA (.err .Error) = true
    · simp only [h2, if_true, runAction]
      by_cases h3 : x.arg0 = .other
      · simp only [h3, if_true]
        have hc := hctor h2 h3
        simp only [hc, if_true]
        exact Or.inl h2
      · simp only [h3]
        exact Or.inl h2
    · simp only [h2]
      by_cases h4 : x.cls.isA (.bi .Exception) = true
      · simp only [h4, if_true, runAction]
        exact Or.inl rfl
      · simp only [h4]
        refine Or.inr ⟨by simp, ?_⟩
        simpa [Exc.isException] using h4

/-- without raising properties `__make_event` can only fail by the empty-stack assertion -/
theorem makeEventRaw_error (ps : List PropSpec) (hps : ∀ x, PropSpec.raises x ∉ ps) :
    ∀ (h : Nat) (y : Exc), makeEventRaw h ps = .error y → y.cls.isA (.bi .AssertionError) = true ∧ y.inHierarchy = false := by
  induction ps with
  | nil => intro h y hy; simp [makeEventRaw] at hy
  | cons p ps ih =>
    have hps' : ∀ x, PropSpec.raises x ∉ ps := fun x hx => hps x (List.mem_cons_of_mem _ hx)
    intro h y hy
    cases p with
    | single =>
      simp only [makeEventRaw] at hy
      split at hy
      · cases hy; exact ⟨rfl, rfl⟩
      · exact ih hps' _ _ hy
    | list n =>
      simp only [makeEventRaw] at hy
      split at hy
      · cases hy; exact ⟨rfl, rfl⟩
      · exact ih hps' _ _ hy
    | raises x => exact absurd List.mem_cons_self (hps x)

/-- an `AssertionError` leaving `__make_event` / `__exec_impl` becomes `Errors.Logic` -/
theorem propagate_assert (hs : List Handler) (hhs : hs = [⟨.bi .AssertionError, .wrap .Logic .node⟩]) (y : Exc)
    (hy : y.cls.isA (.bi .AssertionError) = true) : (propagate hs y).inHierarchy = true := by
  subst hhs
  simp [propagate, hy, runAction, Exc.inHierarchy, Exc.ofErr, Cls.isA]
  rfl

/-- exceptions that are not `AssertionError`s pass `__make_event` / `__exec_impl` unchanged -/
theorem propagate_assert_other (hs : List Handler) (hhs : hs = [⟨.bi .AssertionError, .wrap .Logic .node⟩]) (y : Exc)
    (hy : y.cls.isA (.bi .AssertionError) = false) : propagate hs y = y := by
  subst hhs
  simp [propagate, hy]

/-! ### Python list indexing -/

/-- `xs[i]` is defined exactly for `-len(xs) ≤ i < len(xs)` -/
theorem pyIndex_ok_iff {α : Type} (xs : List α) (i : Int) :
    (∃ v, pyIndex xs i = .ok v) ↔ (-(xs.length : Int) ≤ i ∧ i < xs.length) := by
  unfold pyIndex pyNorm
  by_cases hneg : i < 0
  · simp only [hneg, if_true]
    by_cases hk : (xs.length : Int) + i < 0
    · simp only [hk, if_true]
      constructor
      · intro ⟨v, h⟩; cases h
      · intro ⟨h1, h2⟩; omega
    · simp only [hk, if_false]
      have hlt : ((xs.length : Int) + i).toNat < xs.length := by omega
      rw [List.getElem?_eq_getElem hlt]
      constructor
      · intro _; omega
      · intro _; exact ⟨_, rfl⟩
  · simp only [hneg, if_false]
    by_cases hlt : i.toNat < xs.length
    · rw [List.getElem?_eq_getElem hlt]
      constructor
      · intro _; omega
      · intro _; exact ⟨_, rfl⟩
    · have hnone : xs[i.toNat]? = none := List.getElem?_eq_none (by omega)
      rw [hnone]
      constructor
      · intro ⟨v, h⟩; cases h
      · intro ⟨h1, h2⟩; omega

end Tranp.Errors
