/-
  Helper lemmas for property C08, abstract layer: every function of Model/Scope.lean commutes with an injective map of
  the names (`Key.map r`, `Tbl.map r`, …), and the generic transport lemma for the declaration-merging loop.
-/
import Tranp.Model.Scope

namespace Tranp.Scope
open Tranp

set_option linter.unusedSectionVars false

instance {ε α : Type} [DecidableEq ε] [DecidableEq α] : DecidableEq (Except ε α)
  | .ok a, .ok b => if h : a = b then isTrue (by rw [h]) else isFalse (by intro e; cases e; exact h rfl)
  | .error a, .error b => if h : a = b then isTrue (by rw [h]) else isFalse (by intro e; cases e; exact h rfl)
  | .ok _, .error _ => isFalse (by intro e; cases e)
  | .error _, .ok _ => isFalse (by intro e; cases e)

instance instResDec {M N : Type} [DecidableEq M] [DecidableEq N] : DecidableEq (Except Err (Option (Hit M N))) :=
  inferInstance

/-! ### association lists -/

theorem lookup_map {K V K' V' : Type} [DecidableEq K] [DecidableEq K'] (f : K → K') (g : V → V')
    (hf : Function.Injective f) (db : List (K × V)) (k : K) :
    lookup (db.map (fun kv => (f kv.1, g kv.2))) (f k) = (lookup db k).map g := by
  induction db with
  | nil => rfl
  | cons kv rest ih =>
    simp only [List.map_cons, lookup]
    by_cases h : kv.1 = k
    · simp [h]
    · have : f kv.1 ≠ f k := fun e => h (hf e)
      simp [h, this, ih]

/-- the same under injectivity on the keys that occur (used by the string codec, which is injective on well-formed keys only) -/
theorem lookup_map_on {K V K' V' : Type} [DecidableEq K] [DecidableEq K'] (f : K → K') (g : V → V')
    (P : K → Prop) (hf : ∀ a b, P a → P b → f a = f b → a = b) (db : List (K × V)) (k : K)
    (hdb : ∀ kv ∈ db, P kv.1) (hk : P k) :
    lookup (db.map (fun kv => (f kv.1, g kv.2))) (f k) = (lookup db k).map g := by
  induction db with
  | nil => rfl
  | cons kv rest ih =>
    simp only [List.map_cons, lookup]
    by_cases h : kv.1 = k
    · simp [h]
    · have : f kv.1 ≠ f k := fun e => h (hf _ _ (hdb kv (by simp)) hk e)
      simp [h, this, ih (fun x hx => hdb x (by simp [hx]))]

/-- `isPrefixOf` with the `BEq` instance the model uses (from `DecidableEq`) -/
theorem isPrefixOf_iff {α : Type} [DecidableEq α] (p l : List α) : p.isPrefixOf l = true ↔ ∃ t, l = p ++ t := by
  rw [List.isPrefixOf_iff_prefix]
  constructor
  · rintro ⟨t, ht⟩; exact ⟨t, ht.symm⟩
  · rintro ⟨t, ht⟩; exact ⟨t, ht.symm⟩

theorem isPrefixOf_map {α β : Type} [DecidableEq α] [DecidableEq β] (r : α → β) (hr : Function.Injective r) :
    ∀ p l : List α, (p.map r).isPrefixOf (l.map r) = p.isPrefixOf l
  | [], _ => by simp [List.isPrefixOf]
  | _ :: _, [] => by simp [List.isPrefixOf]
  | a :: as, b :: bs => by
    simp only [List.map_cons, List.isPrefixOf, isPrefixOf_map r hr as bs]
    by_cases h : a = b
    · subst h; simp
    · have h' : r a ≠ r b := fun e => h (hr e)
      have e1 : (a == b) = false := by simpa using h
      have e2 : (r a == r b) = false := by simpa using h'
      rw [e1, e2]

theorem pathPrefix_iff {α : Type} [DecidableEq α] (p l : List α) : pathPrefix p l = true ↔ ∃ t, l = p ++ t := by
  unfold pathPrefix; exact isPrefixOf_iff p l

theorem pathPrefix_map {α β : Type} [DecidableEq α] [DecidableEq β] (r : α → β) (hr : Function.Injective r) (p l : List α) :
    pathPrefix (p.map r) (l.map r) = pathPrefix p l := by
  unfold pathPrefix; exact isPrefixOf_map r hr p l

theorem pathPrefix_nil {α : Type} [DecidableEq α] (l : List α) : pathPrefix [] l = true := by
  unfold pathPrefix; simp [List.isPrefixOf]

theorem pathPrefix_cons_nil {α : Type} [DecidableEq α] (x : α) (xs : List α) : pathPrefix (x :: xs) [] = false := by
  unfold pathPrefix; simp [List.isPrefixOf]

theorem pathPrefix_cons_cons {α : Type} [DecidableEq α] (x y : α) (xs ys : List α) :
    pathPrefix (x :: xs) (y :: ys) = (decide (x = y) && pathPrefix xs ys) := by
  unfold pathPrefix
  by_cases h : x = y <;> simp [List.isPrefixOf, h]

/-! ### the action of a renaming -/

section
variable {M N N' : Type} [DecidableEq M] [DecidableEq N] [DecidableEq N']
variable (r : N → N') (hr : Function.Injective r)

theorem List.map_injective' {α β : Type} (f : α → β) (hf : Function.Injective f) : Function.Injective (List.map f) := by
  intro a b h
  induction a generalizing b with
  | nil => cases b <;> simp_all
  | cons x xs ih =>
    cases b with
    | nil => simp at h
    | cons y ys =>
      simp only [List.map_cons, List.cons.injEq] at h
      rw [hf h.1, ih h.2]

include hr in
theorem Key.map_injective : Function.Injective (Key.map (M := M) r) := by
  intro a b h
  cases a; cases b
  simp only [Key.map, Key.mk.injEq] at h ⊢
  exact ⟨h.1, List.map_injective' r hr h.2⟩

@[simp] theorem Key.map_join (k : Key M N) (e : List N) : (k.join e).map r = (k.map r).join (e.map r) := by
  simp [Key.map, Key.join]

@[simp] theorem Key.map_mod (k : Key M N) : (k.map r).mod = k.mod := rfl
@[simp] theorem Key.map_path (k : Key M N) : (k.map r).path = k.path.map r := rfl
@[simp] theorem Sym.map_isClass (s : Sym M N) : (s.map r).isClass = s.isClass := rfl
@[simp] theorem Sym.map_isClassOrType (s : Sym M N) : (s.map r).isClassOrType = s.isClassOrType := rfl
@[simp] theorem Sym.map_typesPath (s : Sym M N) : (s.map r).typesPath = s.typesPath := rfl
@[simp] theorem Sym.map_typesMod (s : Sym M N) : (s.map r).typesMod = s.typesMod := rfl
@[simp] theorem Sym.map_importName (s : Sym M N) : (s.map r).importName = s.importName.map r := rfl
@[simp] theorem Sym.map_inherits (s : Sym M N) : (s.map r).inherits = s.inherits.map (List.map r) := rfl

include hr in
theorem get?_map (db : Tbl M N) (k : Key M N) : (Tbl.map r db).get? (k.map r) = (db.get? k).map (Sym.map r) := by
  unfold Tbl.get? Tbl.map
  exact lookup_map (Key.map r) (Sym.map r) (Key.map_injective r hr) db k

include hr in
theorem has_map (db : Tbl M N) (k : Key M N) : (Tbl.map r db).has (k.map r) = db.has k := by
  unfold Tbl.has
  rw [get?_map r hr]
  cases db.get? k <;> rfl

include hr in
theorem allowScope_map (db : Tbl M N) (node : NodeInfo M N) (scope : Key M N) :
    allowScope (Tbl.map r db) (node.map r) (scope.map r) = allowScope db node scope := by
  unfold allowScope
  rw [get?_map r hr]
  simp only [NodeInfo.map, Key.map_path, List.length_map]
  cases db.get? scope <;> simp

theorem prefixes_map (k : Key M N) : prefixes (k.map r) = (prefixes k).map (Key.map r) := by
  unfold prefixes
  simp only [Key.map_path, List.length_map, Key.map_mod, List.map_reverse, List.map_map]
  congr 1
  apply List.map_congr_left
  intro i _
  simp [Key.map, List.map_take]

include hr in
theorem makeScopes_map (db : Tbl M N) (node : NodeInfo M N) :
    makeScopes (Tbl.map r db) (node.map r) = (makeScopes db node).map (Key.map r) := by
  unfold makeScopes
  have : (node.map r).scope = node.scope.map r := rfl
  rw [this, prefixes_map, List.filter_map]
  congr 1
  apply List.filter_congr
  intro s _
  simp [allowScope_map r hr]

include hr in
theorem findRawRecursive_map (db : Tbl M N) (elems : List N) (scope : Key M N) :
    findRawRecursive (Tbl.map r db) (elems.map r) (scope.map r) = (findRawRecursive db elems scope).map (Hit.map r) := by
  induction elems generalizing scope with
  | nil =>
    simp only [List.map_nil, findRawRecursive, get?_map r hr]
    cases db.get? scope <;> simp [Hit.map]
  | cons e rest ih =>
    simp only [List.map_cons, findRawRecursive, get?_map r hr]
    cases hg : db.get? scope with
    | none => simp
    | some raw =>
      simp only [Option.map_some]
      have hjoin : (scope.map r).join [r e] = (scope.join [e]).map r := by simp
      rw [hjoin, has_map r hr]
      by_cases h1 : db.has (scope.join [e])
      · simp only [h1, if_true]
        exact ih _
      · simp only [h1, Sym.map_isClass]
        by_cases h2 : raw.isClass
        · simp only [h2, Bool.not_true, Sym.map_inherits]
          have hcand : ∀ inh : List N,
              (⟨(scope.map r).mod, (scope.map r).path.dropLast ++ inh.map r ++ [r e]⟩ : Key M N') =
                (⟨scope.mod, scope.path.dropLast ++ inh ++ [e]⟩ : Key M N).map r := by
            intro inh
            simp [Key.map, List.map_dropLast]
          rw [List.find?_map]
          have hfun : ((fun inh => (Tbl.map r db).has ⟨(scope.map r).mod, (scope.map r).path.dropLast ++ inh ++ [r e]⟩) ∘ List.map r)
              = fun inh => db.has ⟨scope.mod, scope.path.dropLast ++ inh ++ [e]⟩ := by
            funext inh
            simp only [Function.comp]
            rw [hcand, has_map r hr]
          rw [hfun]
          cases hf : raw.inherits.find? (fun inh => db.has ⟨scope.mod, scope.path.dropLast ++ inh ++ [e]⟩) with
          | none => simp
          | some inh =>
            simp only [Option.map_some]
            rw [hcand]
            exact ih _
        · simp [h2]

def Res.map (r : N → N') : Except Err (Option (Hit M N)) → Except Err (Option (Hit M N'))
  | .error e => .error e
  | .ok o => .ok (o.map (Hit.map r))

include hr in
theorem findImportedRaw_map (db : Tbl M N) (onMod : M) (name : List N) :
    findImportedRaw (Tbl.map r db) onMod (name.map r) = Res.map r (findImportedRaw db onMod name) := by
  cases name with
  | nil => rfl
  | cons e0 rest =>
    simp only [List.map_cons, findImportedRaw]
    have hk : (⟨onMod, [r e0]⟩ : Key M N') = (⟨onMod, [e0]⟩ : Key M N).map r := rfl
    rw [hk, get?_map r hr]
    cases db.get? ⟨onMod, [e0]⟩ with
    | none => rfl
    | some imp =>
      simp only [Option.map_some, Sym.map_importName, Sym.map_typesMod]
      cases imp.importName with
      | none => rfl
      | some d =>
        simp only [Option.map_some]
        have hk2 : (⟨imp.typesMod, [r d]⟩ : Key M N') = (⟨imp.typesMod, [d]⟩ : Key M N).map r := rfl
        rw [hk2, findRawRecursive_map r hr]
        rfl

include hr in
theorem findLibraryRaw_map (db : Tbl M N) (libs : List M) (name : List N) :
    findLibraryRaw (Tbl.map r db) libs (name.map r) = Res.map r (findLibraryRaw db libs name) := by
  cases name with
  | nil => simp only [List.map_nil, findLibraryRaw]; split <;> rfl
  | cons e0 rest =>
    simp only [List.map_cons, findLibraryRaw, Res.map]
    congr 1
    induction libs with
    | nil => rfl
    | cons m ms ih =>
      simp only [List.findSome?_cons]
      have hk : (⟨m, [r e0]⟩ : Key M N') = (⟨m, [e0]⟩ : Key M N).map r := rfl
      rw [hk, findRawRecursive_map r hr]
      cases findRawRecursive db rest ⟨m, [e0]⟩ with
      | none => simpa using ih
      | some h => simp

include hr in
theorem scopeHits_map (db : Tbl M N) (scopes : List (Key M N)) (name : List N) :
    scopeHits (Tbl.map r db) (scopes.map (Key.map r)) (name.map r) = (scopeHits db scopes name).map (Hit.map r) := by
  unfold scopeHits
  induction scopes with
  | nil => rfl
  | cons s rest ih =>
    simp only [List.map_cons, List.filterMap_cons]
    have hj : (s.map r).join (name.map r) = (s.join name).map r := by simp
    rw [hj, get?_map r hr]
    cases db.get? (s.join name) with
    | none => simpa using ih
    | some raw => simp [Hit.map, ih]

theorem option_filter_map {α β : Type} (f : α → β) (p : α → Bool) (q : β → Bool) (h : ∀ a, q (f a) = p a) (o : Option α) :
    (o.map f).filter q = (o.filter p).map f := by
  cases o with
  | none => rfl
  | some a => simp [Option.filter, h]

include hr in
theorem findFirst_map (db : Tbl M N) (libs : List M) (p : Hit M N → Bool) (p' : Hit M N' → Bool)
    (hp : ∀ h, p' (Hit.map r h) = p h) (scopes : List (Key M N)) (name : List N) :
    findFirst (Tbl.map r db) libs p' (scopes.map (Key.map r)) (name.map r) = Res.map r (findFirst db libs p scopes name) := by
  unfold findFirst
  rw [scopeHits_map r hr, List.find?_map]
  have hcomp : (p' ∘ Hit.map r) = p := by funext h; exact hp h
  rw [hcomp]
  cases (scopeHits db scopes name).find? p with
  | some x => rfl
  | none =>
    simp only [Option.map_none]
    cases scopes with
    | nil => rfl
    | cons s0 rest =>
      simp only [List.map_cons, Key.map_mod]
      rw [findImportedRaw_map r hr]
      cases findImportedRaw db s0.mod name with
      | error e => rfl
      | ok imp =>
        simp only [Res.map]
        rw [option_filter_map (Hit.map r) p p' hp]
        cases imp.filter p with
        | some x => rfl
        | none =>
          simp only [Option.map_none]
          rw [findLibraryRaw_map r hr]
          cases findLibraryRaw db libs name with
          | error e => rfl
          | ok lib =>
            simp only [Res.map]
            rw [option_filter_map (Hit.map r) p p' hp]

include hr in
theorem findBySymbolic_map (db : Tbl M N) (libs : List M) (node : NodeInfo M N) (name : List N) :
    findBySymbolic (Tbl.map r db) libs (node.map r) (name.map r) = Res.map r (findBySymbolic db libs node name) := by
  unfold findBySymbolic findRaw findRawForType
  rw [makeScopes_map r hr]
  have : (node.map r).isType = node.isType := rfl
  rw [this]
  split
  · exact findFirst_map r hr db libs _ _ (fun _ => rfl) _ _
  · exact findFirst_map r hr db libs _ _ (fun _ => rfl) _ _

include hr in
theorem findStandard_map (db : Tbl M N) (libs : List M) (word : N) :
    findStandard (Tbl.map r db) libs (r word) = Res.map r (findStandard db libs word) := by
  unfold findStandard findRaw
  have h1 : libs.map (fun m => (⟨m, []⟩ : Key M N')) = (libs.map (fun m => (⟨m, []⟩ : Key M N))).map (Key.map r) := by
    simp [Key.map]
  have h2 : [r word] = [word].map r := rfl
  rw [h1, h2]
  exact findFirst_map r hr db libs _ _ (fun _ => rfl) _ _

/-! ### scope / namespace / fullyname -/

theorem Anc.scopeName_map (a : Anc N) : (a.map r).scopeName = a.scopeName.map r := by
  unfold Anc.scopeName Anc.map
  cases h : a.domainName <;> simp

theorem scopeOf_map (mod : M) (chain : List (Anc N)) :
    scopeOf mod (chain.map (Anc.map r)) = (scopeOf mod chain).map r := by
  induction chain with
  | nil => rfl
  | cons p up ih =>
    simp only [List.map_cons, scopeOf]
    have : (p.map r).isScope = p.isScope := rfl
    rw [this, ih, Anc.scopeName_map]
    split <;> simp

theorem namespaceOf_map (mod : M) (chain : List (Anc N)) :
    namespaceOf mod (chain.map (Anc.map r)) = (namespaceOf mod chain).map r := by
  induction chain with
  | nil => rfl
  | cons p up ih =>
    simp only [List.map_cons, namespaceOf]
    have h1 : (p.map r).isNamespace = p.isNamespace := rfl
    have h2 : (p.map r).domainName = p.domainName.map r := rfl
    rw [h1, ih, h2]
    split <;> simp

theorem fullynameOf_map (mod : M) (chain : List (Anc N)) (isDomain : Bool) (dn : List N) (cls : N) (id : Int) :
    fullynameOf mod (chain.map (Anc.map r)) isDomain (dn.map r) (r cls) id =
      ((fullynameOf mod chain isDomain dn cls id).1.map r, (fullynameOf mod chain isDomain dn cls id).2) := by
  unfold fullynameOf
  rw [scopeOf_map]
  split <;> simp

end

/-! ### declaration merging: transport along a map that preserves the two tests -/

section
variable {V K V' K' : Type} [DecidableEq K] [DecidableEq K']
variable (key : V → K) (rel : V → V → Bool) (key' : V' → K') (rel' : V' → V' → Bool) (f : V → V')
variable (hkey : ∀ a b, (key' (f a) = key' (f b)) ↔ (key a = key b)) (hrel : ∀ a b, rel' (f a) (f b) = rel a b)

include hkey in
theorem any_key_map (acc : List V) (a : V) :
    (acc.map f).any (fun d => decide (key' d = key' (f a))) = acc.any (fun d => decide (key d = key a)) := by
  induction acc with
  | nil => rfl
  | cons x xs ih => simp only [List.map_cons, List.any_cons, ih]; congr 1; simp [hkey]

include hrel in
theorem any_rel_map (acc : List V) (a : V) :
    (acc.map f).any (fun d => rel' d (f a)) = acc.any (fun d => rel d a) := by
  induction acc with
  | nil => rfl
  | cons x xs ih => simp only [List.map_cons, List.any_cons, ih, hrel]

include hkey hrel in
theorem mergeOneG_map (acc : List V) (a : V) :
    mergeOneG key' rel' (acc.map f) (f a) = (mergeOneG key rel acc a).map f := by
  unfold mergeOneG
  rw [any_key_map key key' f hkey, any_rel_map rel rel' f hrel]
  split
  · rfl
  · split
    · rfl
    · simp

include hkey hrel in
theorem mergedG_map (decl add : List V) :
    mergedG key' rel' (decl.map f) (add.map f) = (mergedG key rel decl add).map f := by
  unfold mergedG
  induction add generalizing decl with
  | nil => rfl
  | cons a rest ih =>
    simp only [List.map_cons, List.foldl_cons]
    rw [mergeOneG_map key rel key' rel' f hkey hrel, ih]

include hkey in
theorem dictPutG_map (d : List V) (v : V) : dictPutG key' (d.map f) (f v) = (dictPutG key d v).map f := by
  unfold dictPutG
  rw [any_key_map key key' f hkey]
  split
  · simp only [List.map_map]
    apply List.map_congr_left
    intro x _
    simp only [Function.comp]
    by_cases h : key x = key v
    · have : key' (f x) = key' (f v) := (hkey x v).2 h
      simp [h, this]
    · have : ¬ key' (f x) = key' (f v) := fun e => h ((hkey x v).1 e)
      simp [h, this]
  · simp

include hkey in
theorem dictOfG_map (vs : List V) : dictOfG key' (vs.map f) = (dictOfG key vs).map f := by
  unfold dictOfG
  have : ∀ d : List V, (vs.map f).foldl (dictPutG key') (d.map f) = (vs.foldl (dictPutG key) d).map f := by
    induction vs with
    | nil => intro d; rfl
    | cons v rest ih =>
      intro d
      simp only [List.map_cons, List.foldl_cons]
      rw [dictPutG_map key key' f hkey, ih]
  exact this []

include hkey hrel in
theorem ownFold_map (own : List (List V)) (acc : List V) :
    (own.map (List.map f)).foldl (fun a syms => mergedG key' rel' a (dictOfG key' syms)) (acc.map f) =
      (own.foldl (fun a syms => mergedG key rel a (dictOfG key syms)) acc).map f := by
  induction own generalizing acc with
  | nil => rfl
  | cons o rest ih =>
    simp only [List.map_cons, List.foldl_cons]
    rw [dictOfG_map key key' f hkey, mergedG_map key rel key' rel' f hkey hrel, ih]

include hkey hrel

mutual
theorem collectStmtG_map (acc : List V) (s : Stmt V) :
    collectStmtG key' rel' (acc.map f) (Stmt.map f s) = (collectStmtG key rel acc s).map f := by
  match s with
  | .mk own blocks =>
    simp only [Stmt.map, collectStmtG]
    rw [ownFold_map key rel key' rel' f hkey hrel]
    exact collectBlocksG_map _ blocks
theorem collectBlocksG_map (acc : List V) (bs : List (List (Stmt V))) :
    collectBlocksG key' rel' (acc.map f) (Stmt.mapBlocks f bs) = (collectBlocksG key rel acc bs).map f := by
  match bs with
  | [] => simp [Stmt.mapBlocks, collectBlocksG]
  | b :: rest =>
    simp only [Stmt.mapBlocks, collectBlocksG]
    have hb := collectBlockG_map [] b
    simp only [List.map_nil] at hb
    rw [hb, mergedG_map key rel key' rel' f hkey hrel]
    exact collectBlocksG_map _ rest
theorem collectBlockG_map (acc : List V) (ss : List (Stmt V)) :
    collectBlockG key' rel' (acc.map f) (Stmt.mapBlock f ss) = (collectBlockG key rel acc ss).map f := by
  match ss with
  | [] => simp [Stmt.mapBlock, collectBlockG]
  | s :: rest =>
    simp only [Stmt.mapBlock, collectBlockG]
    rw [collectStmtG_map acc s]
    exact collectBlockG_map _ rest
end

end

/-! ### the two tests of `_merged` under an injective renaming -/

section
variable {M N N' : Type} [DecidableEq M] [DecidableEq N] [DecidableEq N']

theorem DVar.map_key_iff (r : N → N') (hr : Function.Injective r) (a b : DVar M N) :
    (a.map r).fullyname = (b.map r).fullyname ↔ a.fullyname = b.fullyname := by
  constructor
  · intro h; exact Key.map_injective r hr h
  · intro h; simp [DVar.map, h]

theorem related_map (r : N → N') (hr : Function.Injective r) (d a : DVar M N) :
    related (d.map r) (a.map r) = related d a := by
  unfold related DVar.map
  simp only [Key.map_mod, Key.map_path]
  have h1 : (d.domainName.map r = a.domainName.map r) ↔ (d.domainName = a.domainName) :=
    ⟨fun h => List.map_injective' r hr h, fun h => by rw [h]⟩
  simp only [pathPrefix_map r hr]
  congr 1
  exact decide_eq_decide.2 h1

end

/-! ### the same transport, for a map that preserves the two tests only on a subset `P` (string codec: well-formed,
     prefix-free declarations) -/

section
variable {V K V' K' : Type} [DecidableEq K] [DecidableEq K']
variable (key : V → K) (rel : V → V → Bool) (key' : V' → K') (rel' : V' → V' → Bool) (f : V → V') (P : V → Prop)
variable (hkey : ∀ a b, P a → P b → ((key' (f a) = key' (f b)) ↔ (key a = key b)))
variable (hrel : ∀ a b, P a → P b → rel' (f a) (f b) = rel a b)

include hkey in
theorem any_key_map_on (acc : List V) (a : V) (hacc : ∀ x ∈ acc, P x) (ha : P a) :
    (acc.map f).any (fun d => decide (key' d = key' (f a))) = acc.any (fun d => decide (key d = key a)) := by
  induction acc with
  | nil => rfl
  | cons x xs ih =>
    simp only [List.map_cons, List.any_cons, ih (fun y hy => hacc y (by simp [hy]))]
    congr 1
    exact decide_eq_decide.2 (hkey x a (hacc x (by simp)) ha)

include hrel in
theorem any_rel_map_on (acc : List V) (a : V) (hacc : ∀ x ∈ acc, P x) (ha : P a) :
    (acc.map f).any (fun d => rel' d (f a)) = acc.any (fun d => rel d a) := by
  induction acc with
  | nil => rfl
  | cons x xs ih =>
    simp only [List.map_cons, List.any_cons, ih (fun y hy => hacc y (by simp [hy])), hrel x a (hacc x (by simp)) ha]

include hkey hrel in
theorem mergeOneG_map_on (acc : List V) (a : V) (hacc : ∀ x ∈ acc, P x) (ha : P a) :
    mergeOneG key' rel' (acc.map f) (f a) = (mergeOneG key rel acc a).map f := by
  unfold mergeOneG
  rw [any_key_map_on key key' f P hkey acc a hacc ha, any_rel_map_on rel rel' f P hrel acc a hacc ha]
  split
  · rfl
  · split
    · rfl
    · simp

theorem mergeOneG_mem (acc : List V) (a : V) : ∀ x ∈ mergeOneG key rel acc a, x ∈ acc ∨ x = a := by
  intro x hx
  unfold mergeOneG at hx
  split at hx
  · exact Or.inl hx
  · split at hx
    · exact Or.inl hx
    · simp at hx; exact hx

include hkey hrel in
theorem mergedG_map_on (decl add : List V) (hd : ∀ x ∈ decl, P x) (ha : ∀ x ∈ add, P x) :
    mergedG key' rel' (decl.map f) (add.map f) = (mergedG key rel decl add).map f := by
  unfold mergedG
  induction add generalizing decl with
  | nil => rfl
  | cons a rest ih =>
    simp only [List.map_cons, List.foldl_cons]
    rw [mergeOneG_map_on key rel key' rel' f P hkey hrel decl a hd (ha a (by simp))]
    apply ih
    · intro x hx
      rcases mergeOneG_mem key rel decl a x hx with h | h
      · exact hd x h
      · rw [h]; exact ha a (by simp)
    · intro x hx; exact ha x (by simp [hx])

theorem mergedG_all (decl add : List V) (hd : ∀ x ∈ decl, P x) (ha : ∀ x ∈ add, P x) :
    ∀ x ∈ mergedG key rel decl add, P x := by
  unfold mergedG
  induction add generalizing decl with
  | nil => exact hd
  | cons a rest ih =>
    simp only [List.foldl_cons]
    apply ih
    · intro x hx
      rcases mergeOneG_mem key rel decl a x hx with h | h
      · exact hd x h
      · rw [h]; exact ha a (by simp)
    · intro x hx; exact ha x (by simp [hx])

theorem dictPutG_all (d : List V) (v : V) (hd : ∀ x ∈ d, P x) (hv : P v) : ∀ x ∈ dictPutG key d v, P x := by
  intro x hx
  unfold dictPutG at hx
  split at hx
  · obtain ⟨y, hy, hxy⟩ := List.mem_map.1 hx
    split at hxy
    · rw [← hxy]; exact hv
    · rw [← hxy]; exact hd y hy
  · rcases List.mem_append.1 hx with h | h
    · exact hd x h
    · simp at h; rw [h]; exact hv

theorem dictOfG_all (vs : List V) (hv : ∀ x ∈ vs, P x) : ∀ x ∈ dictOfG key vs, P x := by
  unfold dictOfG
  have : ∀ d : List V, (∀ x ∈ d, P x) → ∀ x ∈ vs.foldl (dictPutG key) d, P x := by
    induction vs with
    | nil => intro d hd; exact hd
    | cons v rest ih =>
      intro d hd
      simp only [List.foldl_cons]
      exact ih (fun x hx => hv x (by simp [hx])) _ (dictPutG_all key P d v hd (hv v (by simp)))
  exact this [] (by intro x hx; simp at hx)

include hkey in
theorem dictPutG_map_on (d : List V) (v : V) (hd : ∀ x ∈ d, P x) (hv : P v) :
    dictPutG key' (d.map f) (f v) = (dictPutG key d v).map f := by
  unfold dictPutG
  rw [any_key_map_on key key' f P hkey d v hd hv]
  split
  · simp only [List.map_map]
    apply List.map_congr_left
    intro x hx
    simp only [Function.comp]
    by_cases h : key x = key v
    · have : key' (f x) = key' (f v) := (hkey x v (hd x hx) hv).2 h
      simp [h, this]
    · have : ¬ key' (f x) = key' (f v) := fun e => h ((hkey x v (hd x hx) hv).1 e)
      simp [h, this]
  · simp

include hkey in
theorem dictOfG_map_on (vs : List V) (hv : ∀ x ∈ vs, P x) : dictOfG key' (vs.map f) = (dictOfG key vs).map f := by
  unfold dictOfG
  have : ∀ d : List V, (∀ x ∈ d, P x) →
      (vs.map f).foldl (dictPutG key') (d.map f) = (vs.foldl (dictPutG key) d).map f := by
    induction vs with
    | nil => intro d _; rfl
    | cons v rest ih =>
      intro d hd
      simp only [List.map_cons, List.foldl_cons]
      rw [dictPutG_map_on key key' f P hkey d v hd (hv v (by simp))]
      exact ih (fun x hx => hv x (by simp [hx])) _ (dictPutG_all key P d v hd (hv v (by simp)))
  exact this [] (by intro x hx; simp at hx)

theorem ownFold_all (own : List (List V)) (acc : List V) (hacc : ∀ x ∈ acc, P x) (ho : ∀ syms ∈ own, ∀ v ∈ syms, P v) :
    ∀ x ∈ own.foldl (fun a syms => mergedG key rel a (dictOfG key syms)) acc, P x := by
  induction own generalizing acc with
  | nil => exact hacc
  | cons o rest ih =>
    simp only [List.foldl_cons]
    exact ih _ (mergedG_all key rel P acc _ hacc (dictOfG_all key P o (ho o (by simp))))
      (fun syms hs => ho syms (by simp [hs]))

include hkey hrel in
theorem ownFold_map_on (own : List (List V)) (acc : List V) (hacc : ∀ x ∈ acc, P x) (ho : ∀ syms ∈ own, ∀ v ∈ syms, P v) :
    (own.map (List.map f)).foldl (fun a syms => mergedG key' rel' a (dictOfG key' syms)) (acc.map f) =
      (own.foldl (fun a syms => mergedG key rel a (dictOfG key syms)) acc).map f := by
  induction own generalizing acc with
  | nil => rfl
  | cons o rest ih =>
    have hoP := ho o (by simp)
    simp only [List.map_cons, List.foldl_cons]
    rw [dictOfG_map_on key key' f P hkey o hoP,
      mergedG_map_on key rel key' rel' f P hkey hrel acc _ hacc (dictOfG_all key P o hoP)]
    exact ih _ (mergedG_all key rel P acc _ hacc (dictOfG_all key P o hoP)) (fun syms hs => ho syms (by simp [hs]))

mutual
/-- every declaration of a statement tree satisfies `P` -/
def Stmt.All (P : V → Prop) : Stmt V → Prop
  | .mk own blocks => (∀ syms ∈ own, ∀ v ∈ syms, P v) ∧ Stmt.AllBlocks P blocks
def Stmt.AllBlocks (P : V → Prop) : List (List (Stmt V)) → Prop
  | [] => True
  | b :: bs => Stmt.AllBlock P b ∧ Stmt.AllBlocks P bs
def Stmt.AllBlock (P : V → Prop) : List (Stmt V) → Prop
  | [] => True
  | s :: ss => Stmt.All P s ∧ Stmt.AllBlock P ss
end

mutual
theorem collectStmtG_all (acc : List V) (s : Stmt V) (hacc : ∀ x ∈ acc, P x) (hs : Stmt.All P s) :
    ∀ x ∈ collectStmtG key rel acc s, P x := by
  match s with
  | .mk own blocks =>
    simp only [Stmt.All] at hs
    simp only [collectStmtG]
    exact collectBlocksG_all _ blocks (ownFold_all key rel P own acc hacc hs.1) hs.2
theorem collectBlocksG_all (acc : List V) (bs : List (List (Stmt V))) (hacc : ∀ x ∈ acc, P x) (hs : Stmt.AllBlocks P bs) :
    ∀ x ∈ collectBlocksG key rel acc bs, P x := by
  match bs with
  | [] => simpa [collectBlocksG] using hacc
  | b :: rest =>
    simp only [Stmt.AllBlocks] at hs
    simp only [collectBlocksG]
    exact collectBlocksG_all _ rest
      (mergedG_all key rel P acc _ hacc (collectBlockG_all [] b (by intro x hx; simp at hx) hs.1)) hs.2
theorem collectBlockG_all (acc : List V) (ss : List (Stmt V)) (hacc : ∀ x ∈ acc, P x) (hs : Stmt.AllBlock P ss) :
    ∀ x ∈ collectBlockG key rel acc ss, P x := by
  match ss with
  | [] => simpa [collectBlockG] using hacc
  | s :: rest =>
    simp only [Stmt.AllBlock] at hs
    simp only [collectBlockG]
    exact collectBlockG_all _ rest (collectStmtG_all acc s hacc hs.1) hs.2
end

include hkey hrel

mutual
theorem collectStmtG_map_on (acc : List V) (s : Stmt V) (hacc : ∀ x ∈ acc, P x) (hs : Stmt.All P s) :
    collectStmtG key' rel' (acc.map f) (Stmt.map f s) = (collectStmtG key rel acc s).map f := by
  match s with
  | .mk own blocks =>
    simp only [Stmt.All] at hs
    simp only [Stmt.map, collectStmtG]
    rw [ownFold_map_on key rel key' rel' f P hkey hrel own acc hacc hs.1]
    exact collectBlocksG_map_on _ blocks (ownFold_all key rel P own acc hacc hs.1) hs.2
theorem collectBlocksG_map_on (acc : List V) (bs : List (List (Stmt V))) (hacc : ∀ x ∈ acc, P x) (hs : Stmt.AllBlocks P bs) :
    collectBlocksG key' rel' (acc.map f) (Stmt.mapBlocks f bs) = (collectBlocksG key rel acc bs).map f := by
  match bs with
  | [] => simp [Stmt.mapBlocks, collectBlocksG]
  | b :: rest =>
    simp only [Stmt.AllBlocks] at hs
    simp only [Stmt.mapBlocks, collectBlocksG]
    have hb := collectBlockG_map_on [] b (by intro x hx; simp at hx) hs.1
    simp only [List.map_nil] at hb
    have hball := collectBlockG_all key rel P [] b (by intro x hx; simp at hx) hs.1
    rw [hb, mergedG_map_on key rel key' rel' f P hkey hrel acc _ hacc hball]
    exact collectBlocksG_map_on _ rest (mergedG_all key rel P acc _ hacc hball) hs.2
theorem collectBlockG_map_on (acc : List V) (ss : List (Stmt V)) (hacc : ∀ x ∈ acc, P x) (hs : Stmt.AllBlock P ss) :
    collectBlockG key' rel' (acc.map f) (Stmt.mapBlock f ss) = (collectBlockG key rel acc ss).map f := by
  match ss with
  | [] => simp [Stmt.mapBlock, collectBlockG]
  | s :: rest =>
    simp only [Stmt.AllBlock] at hs
    simp only [Stmt.mapBlock, collectBlockG]
    rw [collectStmtG_map_on acc s hacc hs.1]
    exact collectBlockG_map_on _ rest (collectStmtG_all key rel P acc s hacc hs.1) hs.2
end

end

end Tranp.Scope
