/-
  Helper lemmas for property C09 (procedure stack machine).
-/
import Tranp.Model.Procedure

namespace Tranp.Procedure
open Tranp

set_option linter.unusedSectionVars false

/-! ### flattening under well-formedness -/

theorem dedupKey_of_nodup {α : Type} (l : List (Key × α)) (h : (l.map (·.1)).Nodup) : dedupKey l = l := by
  induction l with
  | nil => rfl
  | cons x xs ih =>
    obtain ⟨k, a⟩ := x
    simp only [List.map_cons, List.nodup_cons] at h
    simp only [dedupKey, ih h.2]
    congr 1
    rw [List.filter_eq_self]
    intro p hp
    have : p.1 ≠ k := fun e => h.1 (by rw [← e]; exact List.mem_map_of_mem hp)
    simpa using this

/-- the flattening of all properties' nodes when no key repeats -/
def proceduralFlat (ps : List PProp) : List PNode := (proceduralProps ps).flatMap (·.2)

@[simp] theorem proceduralFlat_nil : proceduralFlat [] = [] := rfl
@[simp] theorem proceduralFlat_one (k a n ps) :
    proceduralFlat (.one k a n :: ps) = procedural n ++ [n] ++ proceduralFlat ps := by
  simp [proceduralFlat, proceduralProps]
@[simp] theorem proceduralFlat_many (k a ns ps) :
    proceduralFlat (.many k a ns :: ps) = proceduralList ns ++ proceduralFlat ps := by
  simp [proceduralFlat, proceduralProps]

theorem proceduralProps_keys (ps : List PProp) : (proceduralProps ps).map (·.1) = ps.map PProp.key := by
  induction ps with
  | nil => rfl
  | cons p ps ih => cases p <;> simp [proceduralProps, PProp.key, ih]

theorem proceduralProps_eq_map (ps : List PProp) :
    proceduralProps ps = ps.map (fun p => (p.key, proceduralList p.nodes)) := by
  induction ps with
  | nil => rfl
  | cons p ps ih => cases p <;> simp [proceduralProps, PProp.key, PProp.nodes, proceduralList, ih]

theorem dedupKey_subset {α : Type} (l : List (Key × α)) : ∀ e ∈ dedupKey l, e ∈ l := by
  induction l with
  | nil => simp [dedupKey]
  | cons x xs ih =>
    obtain ⟨k, a⟩ := x
    intro e he
    simp only [dedupKey, List.mem_cons, List.mem_filter] at he
    rcases he with rfl | ⟨he, _⟩
    · simp
    · exact List.mem_cons_of_mem _ (ih e he)

/-- dropping the later occurrences of repeated keys changes nothing when whatever a repeated key carries is empty -/
theorem dedupKey_flatMap {α β : Type} (l : List (Key × α)) (f : α → List β)
    (h : ∀ e ∈ l, (l.map (·.1)).count e.1 > 1 → f e.2 = []) :
    (dedupKey l).flatMap (fun e => f e.2) = l.flatMap (fun e => f e.2) := by
  induction l with
  | nil => rfl
  | cons x xs ih =>
    obtain ⟨k, a⟩ := x
    have hxs : ∀ e ∈ xs, (xs.map (·.1)).count e.1 > 1 → f e.2 = [] := by
      intro e he hc
      apply h e (List.mem_cons_of_mem _ he)
      simp only [List.map_cons, List.count_cons]
      omega
    have hdrop : ∀ e ∈ xs, e.1 = k → f e.2 = [] := by
      intro e he hk
      apply h e (List.mem_cons_of_mem _ he)
      have : (xs.map (·.1)).count e.1 ≥ 1 := List.count_pos_iff.mpr (List.mem_map_of_mem he)
      simp only [List.map_cons, List.count_cons, hk, beq_self_eq_true, if_true]
      rw [hk] at this
      omega
    simp only [dedupKey, List.flatMap_cons]
    congr 1
    rw [← ih hxs]
    generalize hd : dedupKey xs = d
    have hdsub : ∀ e ∈ d, e ∈ xs := by rw [← hd]; exact dedupKey_subset xs
    clear hd ih
    induction d with
    | nil => rfl
    | cons y ys ihd =>
      simp only [List.filter_cons]
      have hys : ∀ e ∈ ys, e ∈ xs := fun e he => hdsub e (List.mem_cons_of_mem _ he)
      by_cases hy : y.1 = k
      · have := hdrop y (hdsub y (by simp)) hy
        simp [hy, this, ihd hys]
      · simp [hy, ihd hys]

/-- `WFNode`'s clause on repeated keys, for any list of properties -/
def DupEmpty (ps : List PProp) : Prop := ∀ p ∈ ps, (ps.map PProp.key).count p.key > 1 → p.nodes.isEmpty = true

theorem propExpand_of_dupEmpty (ps : List PProp) (h : DupEmpty ps) : propExpand ps = ps.flatMap PProp.nodes := by
  unfold propExpand
  have := dedupKey_flatMap (ps.map fun p => (p.key, p.nodes)) (fun ns => ns) (by
    intro e he hc
    obtain ⟨p, hp, rfl⟩ := List.mem_map.mp he
    have hk : (ps.map fun p => (p.key, p.nodes)).map (·.1) = ps.map PProp.key := by rw [List.map_map]; rfl
    rw [hk] at hc
    simpa using h p hp hc)
  simpa [List.flatMap_map] using this

theorem proceduralFlat_of_dupEmpty (ps : List PProp) (h : DupEmpty ps) :
    (dedupKey (proceduralProps ps)).flatMap (·.2) = proceduralFlat ps := by
  unfold proceduralFlat
  rw [proceduralProps_eq_map]
  exact dedupKey_flatMap (ps.map fun p => (p.key, proceduralList p.nodes)) (fun l => l) (by
    intro e he hc
    obtain ⟨p, hp, rfl⟩ := List.mem_map.mp he
    have hk : (ps.map fun p => (p.key, proceduralList p.nodes)).map (·.1) = ps.map PProp.key := by rw [List.map_map]; rfl
    rw [hk] at hc
    have : p.nodes = [] := by simpa using h p hp hc
    simp [this, proceduralList])

theorem proceduralFlat_of_no_nodes (ps : List PProp) (h : ps.flatMap PProp.nodes = []) : proceduralFlat ps = [] := by
  induction ps with
  | nil => rfl
  | cons p ps ih =>
    cases p with
    | one k a n => simp [PProp.nodes] at h
    | many k a ns =>
      simp only [List.flatMap_cons, PProp.nodes, List.append_eq_nil_iff] at h
      simp [h.1, proceduralList, ih h.2]

/-- For a well-formed node the flattening is exactly the flattening of its property nodes. -/
theorem procedural_of_WFNode (n : PNode) (h : WFNode n) : procedural n = proceduralFlat n.props := by
  obtain ⟨id, cls, t, props, under⟩ := n
  obtain ⟨h1, h2, h3, _⟩ := h
  simp only [PNode.terminal, PNode.props, PNode.under] at h1 h2 h3
  simp only [procedural, PNode.props]
  cases t with
  | true =>
    have : props.flatMap PProp.nodes = [] := by simpa using h1 rfl
    simp [proceduralFlat_of_no_nodes props this]
  | false =>
    simp only [Bool.false_eq_true, if_false]
    split
    · rename_i he
      have hu : under = [] := by simpa using h2 rfl he
      have : props.flatMap PProp.nodes = [] := by
        rw [← propExpand_of_dupEmpty props h3]; simpa using he
      simp [hu, proceduralList, proceduralFlat_of_no_nodes props this]
    · exact proceduralFlat_of_dupEmpty props h3

/-! ### the loop over the flattened list -/

section machine
variable {R : Type}

theorem run_append (nested : St R → PNode → St R × Except Err R) (hs : Handlers R) (st : St R) (l1 l2 : List PNode) :
    run nested hs st (l1 ++ l2) =
      match run nested hs st l1 with
      | (st', .ok ()) => run nested hs st' l2
      | (st', .error e) => (st', .error e) := by
  induction l1 generalizing st with
  | nil => simp [run]
  | cons n ns ih =>
    simp only [List.cons_append, run]
    cases hp : processNode nested hs st n with
    | mk st' res =>
      cases res with
      | error e => simp
      | ok u => cases u; simp [ih]

theorem run_append_ok (nested : St R → PNode → St R × Except Err R) (hs : Handlers R) (st st' : St R) (l1 l2 : List PNode)
    (h : run nested hs st l1 = (st', .ok ())) : run nested hs st (l1 ++ l2) = run nested hs st' l2 := by
  rw [run_append, h]

theorem run_append_err (nested : St R → PNode → St R × Except Err R) (hs : Handlers R) (st : St R) (l1 l2 : List PNode) (e : Err)
    (h : (run nested hs st l1).2 = .error e) : (run nested hs st (l1 ++ l2)).2 = .error e := by
  rw [run_append]
  cases hr : run nested hs st l1 with
  | mk st' res =>
    rw [hr] at h
    simp only at h
    subst h
    rfl

/-! ### `__make_event` pops exactly what the properties' nodes pushed -/

theorem popN_exact (xs fr : List R) : popN xs.length (xs ++ fr) = (fr, some xs) := by
  induction xs with
  | nil => simp [popN]
  | cons x xs ih => simp [popN, ih]

theorem makeEventLoop_append (props : List PProp) (l1 l2 : List PProp) (fr : List R) (acc : Event R) :
    makeEventLoop props (l1 ++ l2) fr acc =
      match makeEventLoop props l1 fr acc with
      | (fr', .ok acc') => makeEventLoop props l2 fr' acc'
      | (fr', .error e) => (fr', .error e) := by
  induction l1 generalizing fr acc with
  | nil => simp [makeEventLoop]
  | cons q qs ih =>
    simp only [List.cons_append, makeEventLoop]
    split
    · split
      · rfl
      · split
        · rfl
        · exact ih _ _
    · split
      · split
        · rfl
        · exact ih _ _
      · split
        · rfl
        · exact ih _ _

/-- the shape of an event agrees with the shape of the properties: same keys, single ↔ single, list ↔ list of equal length -/
def Shape : List PProp → Event R → Prop
  | [], [] => True
  | .one k _ _ :: ps, (k', .one _) :: es => k = k' ∧ Shape ps es
  | .many k _ ns :: ps, (k', .many rs) :: es => k = k' ∧ rs.length = ns.length ∧ Shape ps es
  | _, _ => False

theorem Shape.keys {ps : List PProp} {es : Event R} (h : Shape ps es) : es.map (·.1) = ps.map PProp.key := by
  induction ps generalizing es with
  | nil => cases es <;> simp_all [Shape]
  | cons p ps ih =>
    cases es with
    | nil => cases p <;> simp [Shape] at h
    | cons e es =>
      obtain ⟨k', v⟩ := e
      cases p <;> cases v <;> simp [Shape] at h
      · simp [PProp.key, h.1, ih h.2]
      · simp [PProp.key, h.1, ih h.2.2]

theorem lookupProp_mem (props : List PProp) (k : Key) (q : PProp) (h : lookupProp props k = some q) :
    q ∈ props ∧ q.key = k := by
  unfold lookupProp at h
  exact ⟨List.mem_of_find?_eq_some h, by simpa using List.find?_some h⟩

theorem lookupProp_of_count_one (props : List PProp) (p : PProp) (hp : p ∈ props)
    (hc : (props.map PProp.key).count p.key ≤ 1) : lookupProp props p.key = some p := by
  induction props with
  | nil => simp at hp
  | cons q qs ih =>
    simp only [List.map_cons, List.count_cons] at hc
    rcases List.mem_cons.mp hp with rfl | hq
    · simp [lookupProp]
    · have hpos : (qs.map PProp.key).count p.key ≥ 1 := List.count_pos_iff.mpr (List.mem_map_of_mem hq)
      have hne : ¬ q.key = p.key := by
        intro e
        simp [e] at hc
        omega
      have hf : lookupProp (q :: qs) p.key = lookupProp qs p.key := by
        simp [lookupProp, hne]
      rw [hf]
      apply ih hq
      simp [hne] at hc
      exact hc

/-- what `__make_event` reads through the key (`getattr`) is as good as the entry itself -/
def Interch (q p : PProp) : Prop := q.annList = p.annList ∧ q.isMany = p.isMany ∧ q.nodes.length = p.nodes.length

theorem interch_of_WF (props : List PProp) (h3 : DupEmpty props) (h4 : ∀ p ∈ props, p.annList = p.isMany)
    (p : PProp) (hp : p ∈ props) : Interch ((lookupProp props p.key).getD p) p := by
  by_cases hc : (props.map PProp.key).count p.key ≤ 1
  · rw [lookupProp_of_count_one props p hp hc]; exact ⟨rfl, rfl, rfl⟩
  · have hc' : (props.map PProp.key).count p.key > 1 := by omega
    cases hl : lookupProp props p.key with
    | none => exact ⟨rfl, rfl, rfl⟩
    | some q =>
      obtain ⟨hq, hk⟩ := lookupProp_mem props p.key q hl
      have hpn : p.nodes = [] := by simpa using h3 p hp hc'
      have hqn : q.nodes = [] := by simpa using h3 q hq (by rw [hk]; exact hc')
      have hp4 := h4 p hp
      have hq4 := h4 q hq
      cases p <;> cases q <;> simp_all [PProp.nodes, PProp.isMany, PProp.annList, Interch]

/-- Core of the alignment argument: popping in reversed property order from a frame whose top part is the results of
    the properties' nodes (in push order) yields exactly the per-property event and leaves the rest of the frame. -/
theorem makeEventLoop_exact (props : List PProp) (ps : List PProp) (evs : Event R) (fr : List R) (acc : Event R)
    (hsh : Shape ps evs)
    (hlk : ∀ p ∈ ps, Interch ((lookupProp props p.key).getD p) p)
    (hann : ∀ p ∈ ps, p.annList = p.isMany) :
    makeEventLoop props ps.reverse (evs.flat.reverse ++ fr) acc =
      (fr, .ok (evs.reverse.foldl (fun a kv => dictSet a kv.1 kv.2) acc)) := by
  induction ps generalizing evs fr with
  | nil =>
    cases evs with
    | nil => simp [makeEventLoop, Event.flat]
    | cons e es => simp [Shape] at hsh
  | cons p ps ih =>
    cases evs with
    | nil => cases p <;> simp [Shape] at hsh
    | cons e es =>
      obtain ⟨k', v⟩ := e
      have hlp := hlk p (by simp)
      have hap := hann p (by simp)
      have ih' := fun (es : Event R) fr hsh => ih es fr hsh (fun q hq => hlk q (by simp [hq]))
        (fun q hq => hann q (by simp [hq]))
      rw [List.reverse_cons, makeEventLoop_append]
      cases p with
      | one k a n =>
        cases v with
        | many rs => simp [Shape] at hsh
        | one r =>
          simp only [Shape] at hsh
          obtain ⟨rfl, hsh⟩ := hsh
          have hfl : (Event.flat ((k, EvVal.one r) :: es)).reverse ++ fr = (Event.flat es).reverse ++ (r :: fr) := by
            simp [Event.flat, EvVal.flat]
          rw [hfl, ih' es (r :: fr) hsh]
          simp only [PProp.annList, PProp.isMany] at hap
          subst hap
          obtain ⟨h1, h2, _⟩ := hlp
          simp only [PProp.key] at h1 h2
          simp only [makeEventLoop, PProp.key]
          cases hq : (lookupProp props k).getD (PProp.one k false n) with
          | one k2 a2 n2 =>
            rw [hq] at h1
            simp only [PProp.annList] at h1
            subst h1
            simp [List.foldl_append]
          | many k2 a2 ns2 => rw [hq] at h2; simp [PProp.isMany] at h2
      | many k a ns =>
        cases v with
        | one r => simp [Shape] at hsh
        | many rs =>
          simp only [Shape] at hsh
          obtain ⟨rfl, hlen, hsh⟩ := hsh
          have hfl : (Event.flat ((k, EvVal.many rs) :: es)).reverse ++ fr = (Event.flat es).reverse ++ (rs.reverse ++ fr) := by
            simp [Event.flat, EvVal.flat]
          rw [hfl, ih' es (rs.reverse ++ fr) hsh]
          simp only [PProp.annList, PProp.isMany] at hap
          subst hap
          obtain ⟨h1, h2, h3⟩ := hlp
          simp only [PProp.key] at h1 h2 h3
          simp only [makeEventLoop, PProp.key]
          cases hq : (lookupProp props k).getD (PProp.many k true ns) with
          | one k2 a2 n2 => rw [hq] at h2; simp [PProp.isMany] at h2
          | many k2 a2 ns2 =>
            rw [hq] at h1 h3
            simp only [PProp.annList] at h1
            subst h1
            simp only [PProp.nodes] at h3
            have hpop : popN ns2.length (rs.reverse ++ fr) = (fr, some rs.reverse) := by
              have := popN_exact rs.reverse fr
              rwa [List.length_reverse, hlen, ← h3] at this
            simp [hpop, List.foldl_append]

/-- `__make_event` of a well-formed node on a frame topped by its property nodes' results. -/
theorem makeEvent_exact (n : PNode) (hwf : WFNode n) (evs : Event R) (fr : List R) (hsh : Shape n.props evs) :
    makeEvent n (evs.flat.reverse ++ fr) = (fr, .ok (refEvent evs)) := by
  obtain ⟨_, _, h3, hann⟩ := hwf
  have := makeEventLoop_exact n.props n.props evs fr [] hsh
    (fun p hp => interch_of_WF n.props h3 hann p hp) hann
  simpa [makeEvent, refEvent] using this

end machine

section machine
variable {R : Type}

/-! ### handler programs -/

/-- `nested` (the machine's `self.exec`) computes what `dn` (the reference) says, on well-formed roots, from every state -/
def NestedSim (nested : St R → PNode → St R × Except Err R) (dn : PNode → Except Err R) : Prop :=
  ∀ root, WF root → ∀ st,
    (∀ r, dn root = .ok r → nested st root = (st, .ok r)) ∧
    (∀ e, dn root = .error e → (nested st root).2 = .error e)

theorem runProg_sim (nested : St R → PNode → St R × Except Err R) (dn : PNode → Except Err R)
    (hN : NestedSim nested dn) (prog : HProg R) (hg : prog.Good WF) (st : St R) :
    (∀ r, denoteProg dn prog = .ok r → runProg nested st prog = (st, .ok r)) ∧
    (∀ e, denoteProg dn prog = .error e → (runProg nested st prog).2 = .error e) := by
  induction hg generalizing st with
  | ret r => simp [denoteProg, runProg]
  | fail e => simp [denoteProg, runProg]
  | call root k hP _ ih =>
    obtain ⟨hok, herr⟩ := hN root hP st
    cases hd : dn root with
    | ok r =>
      simp only [denoteProg, hd, runProg, hok r hd]
      exact ih r st
    | error e =>
      have := herr e hd
      cases hn : nested st root with
      | mk st' res =>
        rw [hn] at this
        simp only at this
        subst this
        simp [denoteProg, hd, runProg, hn]

theorem denoteList_length (dn : PNode → Except Err R) (hs : Handlers R) (cs : List PNode) (rs : List R)
    (h : denoteList dn hs cs = .ok rs) : rs.length = cs.length := by
  induction cs generalizing rs with
  | nil => simp [denoteList] at h; simp [← h]
  | cons c cs ih =>
    simp only [denoteList] at h
    split at h
    · simp at h
    · split at h
      · simp at h
      · rename_i rs' hrs
        simp at h
        subst h
        simp [ih rs' hrs]

/-! ### the simulation: the stack machine computes the reference semantics -/

section sim
variable (nested : St R → PNode → St R × Except Err R) (dn : PNode → Except Err R) (hs : Handlers R)
variable (hN : NestedSim nested dn) (hH : hs.Good WF)
include hN hH

/-- processing one node on a frame topped by its property results -/
theorem processNode_sim (n : PNode) (hwf : WFNode n) (evs : Event R) (hsh : Shape n.props evs) (fr : List R) (rest : St R)
    (hdp : denoteProps dn hs n.props = .ok evs) :
    (∀ r, denote dn hs n = .ok r →
      processNode nested hs ((evs.flat.reverse ++ fr) :: rest) n = ((r :: fr) :: rest, .ok ())) ∧
    (∀ e, denote dn hs n = .error e →
      (processNode nested hs ((evs.flat.reverse ++ fr) :: rest) n).2 = .error e) := by
  obtain ⟨id, cls, t, props, under⟩ := n
  simp only [PNode.props] at hdp hsh
  have hme := makeEvent_exact (PNode.mk id cls t props under) hwf evs fr hsh
  simp only [denote, hdp, processNode, PNode.cls]
  cases hf : hs.find cls with
  | none => simp
  | some h =>
    simp only [hme]
    obtain ⟨hok, herr⟩ := runProg_sim nested dn hN (h (PNode.mk id cls t props under) (refEvent evs))
      (hH cls h hf _ _) (fr :: rest)
    constructor
    · intro r hr
      simp [hok r hr]
    · intro e he
      have := herr e he
      cases hrp : runProg nested (fr :: rest) (h (PNode.mk id cls t props under) (refEvent evs)) with
      | mk st2 res =>
        rw [hrp] at this
        simp only at this
        subst this
        rfl

mutual
theorem node_sim (n : PNode) (hwf : ∀ m ∈ visited n, WFNode m) (fr : List R) (rest : St R) :
    (∀ r, denote dn hs n = .ok r → run nested hs (fr :: rest) (visited n) = ((r :: fr) :: rest, .ok ())) ∧
    (∀ e, denote dn hs n = .error e → (run nested hs (fr :: rest) (visited n)).2 = .error e) := by
  match n with
  | .mk id cls t props under =>
    have hn : WFNode (.mk id cls t props under) := hwf _ (by simp [visited])
    have hv : visited (.mk id cls t props under) = proceduralFlat props ++ [.mk id cls t props under] := by
      simp [visited, procedural_of_WFNode _ hn, PNode.props]
    have hsub : ∀ m ∈ proceduralFlat props, WFNode m := fun m hm => hwf m (by rw [hv]; simp [hm])
    obtain ⟨pok, perr⟩ := props_sim props hsub fr rest
    rw [hv]
    cases hdp : denoteProps dn hs props with
    | error e =>
      have hd : denote dn hs (.mk id cls t props under) = .error e := by simp [denote, hdp]
      constructor
      · intro r hr; rw [hd] at hr; cases hr
      · intro e' he'
        rw [hd] at he'; cases he'
        exact run_append_err _ _ _ _ _ _ (perr e hdp)
    | ok evs =>
      obtain ⟨hrun, hsh⟩ := pok evs hdp
      obtain ⟨nok, nerr⟩ := processNode_sim nested dn hs hN hH (.mk id cls t props under) hn evs hsh fr rest hdp
      rw [run_append_ok _ _ _ _ _ _ hrun]
      constructor
      · intro r hr
        simp [run, nok r hr]
      · intro e he
        have := nerr e he
        simp only [run]
        cases hp : processNode nested hs ((evs.flat.reverse ++ fr) :: rest) (.mk id cls t props under) with
        | mk st' res =>
          rw [hp] at this
          simp only at this
          subst this
          rfl
theorem list_sim (cs : List PNode) (hwf : ∀ m ∈ proceduralList cs, WFNode m) (fr : List R) (rest : St R) :
    (∀ rs, denoteList dn hs cs = .ok rs →
      run nested hs (fr :: rest) (proceduralList cs) = ((rs.reverse ++ fr) :: rest, .ok ())) ∧
    (∀ e, denoteList dn hs cs = .error e → (run nested hs (fr :: rest) (proceduralList cs)).2 = .error e) := by
  match cs with
  | [] => simp [denoteList, proceduralList, run]
  | c :: cs =>
    have hpl : proceduralList (c :: cs) = visited c ++ proceduralList cs := by simp [proceduralList, visited]
    rw [hpl] at hwf ⊢
    obtain ⟨cok, cerr⟩ := node_sim c (fun m hm => hwf m (by simp [hm])) fr rest
    cases hdc : denote dn hs c with
    | error e =>
      simp only [denoteList, hdc]
      constructor
      · intro rs h; cases h
      · intro e' h; cases h
        exact run_append_err _ _ _ _ _ _ (cerr e hdc)
    | ok r =>
      rw [run_append_ok _ _ _ _ _ _ (cok r hdc)]
      obtain ⟨lok, lerr⟩ := list_sim cs (fun m hm => hwf m (by simp [hm])) (r :: fr) rest
      cases hdl : denoteList dn hs cs with
      | error e =>
        simp only [denoteList, hdc, hdl]
        constructor
        · intro rs h; cases h
        · intro e' h; cases h
          exact lerr e hdl
      | ok rs =>
        simp only [denoteList, hdc, hdl]
        constructor
        · intro rs' h; cases h
          rw [lok rs hdl]; simp
        · intro e' h; cases h
theorem props_sim (ps : List PProp) (hwf : ∀ m ∈ proceduralFlat ps, WFNode m) (fr : List R) (rest : St R) :
    (∀ evs, denoteProps dn hs ps = .ok evs →
      run nested hs (fr :: rest) (proceduralFlat ps) = ((evs.flat.reverse ++ fr) :: rest, .ok ()) ∧ Shape ps evs) ∧
    (∀ e, denoteProps dn hs ps = .error e → (run nested hs (fr :: rest) (proceduralFlat ps)).2 = .error e) := by
  match ps with
  | [] => simp [denoteProps, run, Event.flat, Shape]
  | .one k a c :: ps =>
    have hpl : proceduralFlat (.one k a c :: ps) = visited c ++ proceduralFlat ps := by simp [visited]
    rw [hpl] at hwf ⊢
    obtain ⟨cok, cerr⟩ := node_sim c (fun m hm => hwf m (by simp [hm])) fr rest
    cases hdc : denote dn hs c with
    | error e =>
      simp only [denoteProps, hdc]
      constructor
      · intro rs h; cases h
      · intro e' h; cases h
        exact run_append_err _ _ _ _ _ _ (cerr e hdc)
    | ok r =>
      rw [run_append_ok _ _ _ _ _ _ (cok r hdc)]
      obtain ⟨pok, perr⟩ := props_sim ps (fun m hm => hwf m (by simp [hm])) (r :: fr) rest
      cases hdl : denoteProps dn hs ps with
      | error e =>
        simp only [denoteProps, hdc, hdl]
        constructor
        · intro rs h; cases h
        · intro e' h; cases h
          exact perr e hdl
      | ok evs =>
        simp only [denoteProps, hdc, hdl]
        constructor
        · intro evs' h; cases h
          obtain ⟨h1, h2⟩ := pok evs hdl
          rw [h1]
          simp [Event.flat, EvVal.flat, Shape, h2]
        · intro e' h; cases h
  | .many k a cs :: ps =>
    have hpl : proceduralFlat (.many k a cs :: ps) = proceduralList cs ++ proceduralFlat ps := by simp
    rw [hpl] at hwf ⊢
    obtain ⟨cok, cerr⟩ := list_sim cs (fun m hm => hwf m (by simp [hm])) fr rest
    cases hdc : denoteList dn hs cs with
    | error e =>
      simp only [denoteProps, hdc]
      constructor
      · intro rs h; cases h
      · intro e' h; cases h
        exact run_append_err _ _ _ _ _ _ (cerr e hdc)
    | ok rs =>
      rw [run_append_ok _ _ _ _ _ _ (cok rs hdc)]
      obtain ⟨pok, perr⟩ := props_sim ps (fun m hm => hwf m (by simp [hm])) (rs.reverse ++ fr) rest
      cases hdl : denoteProps dn hs ps with
      | error e =>
        simp only [denoteProps, hdc, hdl]
        constructor
        · intro rs h; cases h
        · intro e' h; cases h
          exact perr e hdl
      | ok evs =>
        simp only [denoteProps, hdc, hdl]
        constructor
        · intro evs' h; cases h
          obtain ⟨h1, h2⟩ := pok evs hdl
          rw [h1]
          simp [Event.flat, EvVal.flat, Shape, h2, denoteList_length dn hs cs rs hdc]
        · intro e' h; cases h
end

/-! ### the event built for every visited node -/

/-- in state `s` (whose lower frames are `rest`) the event built for `n` is exactly the reference event of `n`,
    it consumes exactly the results of `n`'s own property nodes, and nothing else of the frame -/
def EventAt (n : PNode) (s : St R) (rest : St R) : Prop :=
  ∃ evs fr', denoteProps dn hs n.props = .ok evs ∧ s = (evs.flat.reverse ++ fr') :: rest ∧
    makeEvent n (evs.flat.reverse ++ fr') = (fr', .ok (refEvent evs))

omit hN hH in
theorem split_append {α : Type} (A B pre post : List α) (n : α) (h : A ++ B = pre ++ n :: post) :
    (∃ post1, A = pre ++ n :: post1 ∧ post = post1 ++ B) ∨ (∃ pre2, pre = A ++ pre2 ∧ B = pre2 ++ n :: post) := by
  rcases List.append_eq_append_iff.mp h with ⟨a', h1, h2⟩ | ⟨c', h1, h2⟩
  · exact Or.inr ⟨a', h1, h2⟩
  · cases c' with
    | nil => exact Or.inr ⟨[], by simpa using h1.symm, by simpa using h2.symm⟩
    | cons x xs =>
      simp only [List.cons_append, List.cons.injEq] at h2
      obtain ⟨rfl, rfl⟩ := h2
      exact Or.inl ⟨xs, h1, rfl⟩

omit hN hH in
theorem run_ok_of_append_ok (st s : St R) (A pre2 : List PNode) (h : run nested hs st (A ++ pre2) = (s, .ok ())) :
    ∃ s1, run nested hs st A = (s1, .ok ()) ∧ run nested hs s1 pre2 = (s, .ok ()) := by
  rw [run_append] at h
  cases hr : run nested hs st A with
  | mk s1 res =>
    rw [hr] at h
    cases res with
    | error e => simp at h
    | ok u => cases u; exact ⟨s1, rfl, h⟩

mutual
theorem event_node (m : PNode) (hwf : ∀ x ∈ visited m, WFNode x) (fr : List R) (rest : St R)
    (pre post : List PNode) (n : PNode) (hsplit : visited m = pre ++ n :: post) (s : St R)
    (hrun : run nested hs (fr :: rest) pre = (s, .ok ())) : EventAt dn hs n s rest := by
  match m with
  | .mk id cls t props under =>
    have hn : WFNode (.mk id cls t props under) := hwf _ (by simp [visited])
    have hv : visited (.mk id cls t props under) = proceduralFlat props ++ [.mk id cls t props under] := by
      simp [visited, procedural_of_WFNode _ hn, PNode.props]
    have hsub : ∀ x ∈ proceduralFlat props, WFNode x := fun x hx => hwf x (by rw [hv]; simp [hx])
    rw [hv] at hsplit
    rcases split_append _ _ _ _ _ hsplit with ⟨post1, h1, _⟩ | ⟨pre2, h1, h2⟩
    · exact event_props props hsub fr rest pre post1 n h1 s hrun
    · cases pre2 with
      | cons x xs =>
        have := congrArg List.length h2
        simp at this
      | nil =>
        simp only [List.nil_append, List.cons.injEq] at h2
        obtain ⟨rfl, _⟩ := h2
        simp only [List.append_nil] at h1
        subst h1
        obtain ⟨pok, perr⟩ := props_sim nested dn hs hN hH props hsub fr rest
        cases hdp : denoteProps dn hs props with
        | error e =>
          have := perr e hdp
          rw [hrun] at this
          cases this
        | ok evs =>
          obtain ⟨h1, hsh⟩ := pok evs hdp
          rw [hrun] at h1
          cases h1
          exact ⟨evs, fr, hdp, rfl, makeEvent_exact _ hn evs fr hsh⟩
theorem event_list (cs : List PNode) (hwf : ∀ x ∈ proceduralList cs, WFNode x) (fr : List R) (rest : St R)
    (pre post : List PNode) (n : PNode) (hsplit : proceduralList cs = pre ++ n :: post) (s : St R)
    (hrun : run nested hs (fr :: rest) pre = (s, .ok ())) : EventAt dn hs n s rest := by
  match cs with
  | [] => simp [proceduralList] at hsplit
  | c :: cs =>
    have hpl : proceduralList (c :: cs) = visited c ++ proceduralList cs := by simp [proceduralList, visited]
    rw [hpl] at hwf hsplit
    rcases split_append _ _ _ _ _ hsplit with ⟨post1, h1, _⟩ | ⟨pre2, h1, h2⟩
    · exact event_node c (fun x hx => hwf x (by simp [hx])) fr rest pre post1 n h1 s hrun
    · subst h1
      obtain ⟨s1, hr1, hr2⟩ := run_ok_of_append_ok nested hs _ _ _ _ hrun
      obtain ⟨cok, cerr⟩ := node_sim nested dn hs hN hH c (fun x hx => hwf x (by simp [hx])) fr rest
      cases hdc : denote dn hs c with
      | error e =>
        have := cerr e hdc
        rw [hr1] at this
        cases this
      | ok r =>
        have := cok r hdc
        rw [hr1] at this
        cases this
        exact event_list cs (fun x hx => hwf x (by simp [hx])) (r :: fr) rest pre2 post n h2 s hr2
theorem event_props (ps : List PProp) (hwf : ∀ x ∈ proceduralFlat ps, WFNode x) (fr : List R) (rest : St R)
    (pre post : List PNode) (n : PNode) (hsplit : proceduralFlat ps = pre ++ n :: post) (s : St R)
    (hrun : run nested hs (fr :: rest) pre = (s, .ok ())) : EventAt dn hs n s rest := by
  match ps with
  | [] => simp at hsplit
  | .one k a c :: ps =>
    have hpl : proceduralFlat (.one k a c :: ps) = visited c ++ proceduralFlat ps := by simp [visited]
    rw [hpl] at hwf hsplit
    rcases split_append _ _ _ _ _ hsplit with ⟨post1, h1, _⟩ | ⟨pre2, h1, h2⟩
    · exact event_node c (fun x hx => hwf x (by simp [hx])) fr rest pre post1 n h1 s hrun
    · subst h1
      obtain ⟨s1, hr1, hr2⟩ := run_ok_of_append_ok nested hs _ _ _ _ hrun
      obtain ⟨cok, cerr⟩ := node_sim nested dn hs hN hH c (fun x hx => hwf x (by simp [hx])) fr rest
      cases hdc : denote dn hs c with
      | error e =>
        have := cerr e hdc
        rw [hr1] at this
        cases this
      | ok r =>
        have := cok r hdc
        rw [hr1] at this
        cases this
        exact event_props ps (fun x hx => hwf x (by simp [hx])) (r :: fr) rest pre2 post n h2 s hr2
  | .many k a cs :: ps =>
    have hpl : proceduralFlat (.many k a cs :: ps) = proceduralList cs ++ proceduralFlat ps := by simp
    rw [hpl] at hwf hsplit
    rcases split_append _ _ _ _ _ hsplit with ⟨post1, h1, _⟩ | ⟨pre2, h1, h2⟩
    · exact event_list cs (fun x hx => hwf x (by simp [hx])) fr rest pre post1 n h1 s hrun
    · subst h1
      obtain ⟨s1, hr1, hr2⟩ := run_ok_of_append_ok nested hs _ _ _ _ hrun
      obtain ⟨cok, cerr⟩ := list_sim nested dn hs hN hH cs (fun x hx => hwf x (by simp [hx])) fr rest
      cases hdc : denoteList dn hs cs with
      | error e =>
        have := cerr e hdc
        rw [hr1] at this
        cases this
      | ok rs =>
        have := cok rs hdc
        rw [hr1] at this
        cases this
        exact event_props ps (fun x hx => hwf x (by simp [hx])) (rs.reverse ++ fr) rest pre2 post n h2 s hr2
end

/-- one `exec` (with `nested` for the handlers' own `exec` calls) computes the reference result and restores the stacks -/
theorem execWith_sim (root : PNode) (hwf : WF root) (st : St R) :
    (∀ r, denote dn hs root = .ok r → execWith nested hs st root = (st, .ok r)) ∧
    (∀ e, denote dn hs root = .error e → (execWith nested hs st root).2 = .error e) := by
  obtain ⟨nok, nerr⟩ := node_sim nested dn hs hN hH root hwf [] st
  constructor
  · intro r hr
    simp [execWith, execImpl, nok r hr]
  · intro e he
    have := nerr e he
    simp only [execWith, execImpl]
    cases hrun : run nested hs ([] :: st) (visited root) with
    | mk st1 res =>
      rw [hrun] at this
      simp only at this
      subst this
      rfl

end sim

/-- the same for the budgeted `exec`, by induction on the nesting budget -/
theorem exec_sim (hs : Handlers R) (hH : hs.Good WF) (fuel : Nat) : NestedSim (exec hs fuel) (denoteF hs fuel) := by
  induction fuel with
  | zero =>
    intro root _ st
    simp [exec, denoteF]
  | succ fuel ih =>
    intro root hwf st
    exact execWith_sim (exec hs fuel) (denoteF hs fuel) hs ih hH root hwf st

/-! ### frame isolation (no well-formedness needed) -/

/-- a successful `nested` run gives the stacks back exactly as it found them -/
def NestedFrame (nested : St R → PNode → St R × Except Err R) : Prop :=
  ∀ st root st' r, nested st root = (st', .ok r) → st' = st

theorem runProg_frame (nested : St R → PNode → St R × Except Err R) (hF : NestedFrame nested)
    (prog : HProg R) (hg : prog.Good (fun _ => True)) (st st' : St R) (r : R)
    (h : runProg nested st prog = (st', .ok r)) : st' = st := by
  induction hg generalizing st with
  | ret r' => simp [runProg] at h; exact h.1.symm
  | fail e => simp [runProg] at h
  | call root k _ _ ih =>
    simp only [runProg] at h
    cases hn : nested st root with
    | mk s1 res =>
      rw [hn] at h
      cases res with
      | error e => simp at h
      | ok r1 =>
        have := hF st root s1 r1 hn
        subst this
        exact ih r1 _ h

theorem processNode_frame (nested : St R → PNode → St R × Except Err R) (hF : NestedFrame nested)
    (hs : Handlers R) (hH : hs.Good (fun _ => True)) (fr : List R) (rest : St R) (n : PNode) (s : St R)
    (h : processNode nested hs (fr :: rest) n = (s, .ok ())) : ∃ fr', s = fr' :: rest := by
  simp only [processNode] at h
  cases hf : hs.find n.cls with
  | none => rw [hf] at h; simp at h
  | some hd =>
    rw [hf] at h
    simp only at h
    cases hme : makeEvent n fr with
    | mk fr1 res =>
      rw [hme] at h
      cases res with
      | error e => simp at h
      | ok ev =>
        simp only at h
        cases hrp : runProg nested (fr1 :: rest) (hd n ev) with
        | mk s2 res2 =>
          rw [hrp] at h
          cases res2 with
          | error e => simp at h
          | ok r =>
            have := runProg_frame nested hF _ (hH _ _ hf n ev) _ _ _ hrp
            subst this
            simp at h
            exact ⟨r :: fr1, h.symm⟩

theorem run_frame (nested : St R → PNode → St R × Except Err R) (hF : NestedFrame nested)
    (hs : Handlers R) (hH : hs.Good (fun _ => True)) (l : List PNode) (fr : List R) (rest : St R) (s : St R)
    (h : run nested hs (fr :: rest) l = (s, .ok ())) : ∃ fr', s = fr' :: rest := by
  induction l generalizing fr with
  | nil => simp [run] at h; exact ⟨fr, h.symm⟩
  | cons n ns ih =>
    simp only [run] at h
    cases hp : processNode nested hs (fr :: rest) n with
    | mk s1 res =>
      rw [hp] at h
      cases res with
      | error e => simp at h
      | ok u =>
        cases u
        obtain ⟨fr1, rfl⟩ := processNode_frame nested hF hs hH fr rest n s1 hp
        exact ih fr1 h

theorem execWith_frame (nested : St R → PNode → St R × Except Err R) (hF : NestedFrame nested)
    (hs : Handlers R) (hH : hs.Good (fun _ => True)) : NestedFrame (execWith nested hs) := by
  intro st root st' r h
  simp only [execWith, execImpl] at h
  cases hrun : run nested hs ([] :: st) (visited root) with
  | mk s1 res =>
    rw [hrun] at h
    cases res with
    | error e => simp at h
    | ok u =>
      cases u
      obtain ⟨fr1, rfl⟩ := run_frame nested hF hs hH _ _ _ _ hrun
      simp only at h
      match fr1, h with
      | [], h => simp at h
      | [x], h => simp at h; exact h.1.symm
      | _ :: _ :: _, h => simp at h

theorem exec_frame (hs : Handlers R) (hH : hs.Good (fun _ => True)) (fuel : Nat) : NestedFrame (exec hs fuel) := by
  induction fuel with
  | zero => intro st root st' r h; simp [exec] at h
  | succ fuel ih => exact execWith_frame (exec hs fuel) ih hs hH

end machine

end Tranp.Procedure
