/-
  Lemmas for property C18, part 4: the loops of `_analyze_entry`, `_parse`, `_parse_block` finish on EVERY text
  (two-character `brackets`, any delimiter set): every iteration either ends its loop or moves the index forward.
  Consequence: `parse`, `parse_bracket`, `parse_pair` never exhaust the model's fuel.
-/
import Tranp.Lemmas.Block

namespace Tranp.Block
open Tranp Tranp.Generated.BlockPairs

theorem skipLen_le (toks : List (Char × Char)) : ∀ (s : Str) (st : List Char), skipLen toks st s ≤ s.length := by
  intro s
  induction s with
  | nil => intro st; simp [skipLen]
  | cons c cs ih =>
    intro st
    rw [skipLen_cons]
    split
    · simp
    · have := ih (skipStep toks st c); simp only [List.length_cons]; omega

/-- where an answer of the scan may point: a block / element position inside the scanned part, `End` at its end -/
def AnaBound (lo hi : Nat) : Ana → Prop
  | .block _ ik => lo ≤ ik ∧ ik < hi
  | .element _ ik => lo ≤ ik ∧ ik < hi
  | .fin i => i = hi

theorem anaBound_mono {lo lo' hi : Nat} {a : Ana} (h : AnaBound lo' hi a) (hl : lo ≤ lo') : AnaBound lo hi a := by
  cases a <;> simp only [AnaBound] at h ⊢ <;> omega

theorem anaLoop_bound (b0 : Char) (E : Str) (other : List (Char × Char)) : ∀ (fuel : Nat) (s : Str) (idx eb : Nat),
    s.length < fuel → ∃ a, anaLoop b0 E other fuel s idx eb = .ok a ∧ AnaBound idx (idx + s.length) a := by
  intro fuel
  induction fuel with
  | zero => intro s _ _ h; omega
  | succ n ih =>
    intro s idx eb h
    cases s with
    | nil => exact ⟨.fin idx, by simp [anaLoop], by simp [AnaBound]⟩
    | cons c cs =>
      simp only [List.length_cons] at h
      simp only [anaLoop]
      split
      · have h1 := skipLen_pos other [] c cs
        have h2 := skipLen_le other (c :: cs) []
        simp only [List.length_cons] at h2
        obtain ⟨a, ha, hb⟩ := ih ((c :: cs).drop (skipLen other [] (c :: cs))) (idx + skipLen other [] (c :: cs)) eb
          (by simp only [List.length_drop, List.length_cons]; omega)
        refine ⟨a, ha, ?_⟩
        have : idx + skipLen other [] (c :: cs) + ((c :: cs).drop (skipLen other [] (c :: cs))).length = idx + (c :: cs).length := by
          simp only [List.length_drop, List.length_cons]; omega
        rw [this] at hb
        exact anaBound_mono hb (by omega)
      · split
        · exact ⟨_, rfl, by simp [AnaBound]⟩
        · split
          · exact ⟨_, rfl, by simp [AnaBound]⟩
          · obtain ⟨a, ha, hb⟩ := ih cs (idx + 1) (if has [' ', '\n', '\t'] c then idx + 1 else eb) (by omega)
            refine ⟨a, ha, ?_⟩
            have : idx + 1 + cs.length = idx + (c :: cs).length := by simp only [List.length_cons]; omega
            rw [this] at hb
            exact anaBound_mono hb (by omega)

/-- when the first character is neither the opening bracket nor an end token, the answer lies strictly behind it -/
theorem anaLoop_bound_strict (b0 : Char) (E : Str) (other : List (Char × Char)) (fuel : Nat) (c : Char) (cs : Str) (idx eb : Nat)
    (h : (c :: cs).length < fuel) (h0 : c ≠ b0) (hE : has E c = false) :
    ∃ a, anaLoop b0 E other fuel (c :: cs) idx eb = .ok a ∧ AnaBound (idx + 1) (idx + (c :: cs).length) a := by
  obtain ⟨n, rfl⟩ : ∃ n, fuel = n + 1 := ⟨fuel - 1, by omega⟩
  simp only [List.length_cons] at h
  simp only [anaLoop]
  split
  · have h1 := skipLen_pos other [] c cs
    have h2 := skipLen_le other (c :: cs) []
    simp only [List.length_cons] at h2
    obtain ⟨a, ha, hb⟩ := anaLoop_bound b0 E other n ((c :: cs).drop (skipLen other [] (c :: cs)))
      (idx + skipLen other [] (c :: cs)) eb (by simp only [List.length_drop, List.length_cons]; omega)
    refine ⟨a, ha, ?_⟩
    have : idx + skipLen other [] (c :: cs) + ((c :: cs).drop (skipLen other [] (c :: cs))).length = idx + (c :: cs).length := by
      simp only [List.length_drop, List.length_cons]; omega
    rw [this] at hb
    exact anaBound_mono hb (by omega)
  · simp only [if_false, hE, Bool.false_eq_true]
    obtain ⟨a, ha, hb⟩ := anaLoop_bound b0 E other n cs (idx + 1) (if has [' ', '\n', '\t'] c then idx + 1 else eb) (by omega)
    refine ⟨a, ha, ?_⟩
    have : idx + 1 + cs.length = idx + (c :: cs).length := by simp only [List.length_cons]; omega
    rw [this] at hb; exact hb

theorem drop_eq_cons_of_get (text : Str) (i : Nat) (c : Char) (h : text[i]? = some c) : text.drop i = c :: text.drop (i + 1) := by
  have hlt : i < text.length := by
    rcases Nat.lt_or_ge i text.length with h' | h'
    · exact h'
    · rw [List.getElem?_eq_none h'] at h; cases h
  rw [List.getElem?_eq_getElem hlt] at h
  injection h with h
  rw [← h]; exact (List.drop_eq_getElem_cons hlt)

/-- `_analyze_entry` at a position inside the text: always an answer; a block at or behind the position, an element
    strictly behind it, `End` at the position only on the closing bracket, otherwise at the end of the text. -/
theorem analyzeEntry_bound (text : Str) (o cl : Char) (D : Str) (begin : Nat) (c : Char) (hc : text[begin]? = some c) :
    ∃ a, analyzeEntry text [o, cl] D begin = .ok a ∧
      match a with
      | .block _ ik => begin ≤ ik ∧ ik < text.length
      | .element _ ik => begin < ik ∧ ik < text.length
      | .fin i => (i = begin ∧ c = cl) ∨ i = text.length := by
  have hlt : begin < text.length := by
    rcases Nat.lt_or_ge begin text.length with h' | h'
    · exact h'
    · rw [List.getElem?_eq_none h'] at hc; cases hc
  have hch : charAt text begin = .ok c := by simp [charAt, hc]
  have h0 : charAt [o, cl] 0 = .ok o := rfl
  have h1 : charAt [o, cl] 1 = .ok cl := rfl
  simp only [analyzeEntry, hch, h0, h1, bind, Except.bind, pure, Except.pure]
  by_cases hco : c = o
  · exact ⟨.block begin begin, by simp [hco], by simp; omega⟩
  · by_cases hcc : c = cl
    · exact ⟨.fin begin, by subst hcc; simp [hco], by simp [hcc]⟩
    · simp only [hco, hcc, if_false]
      by_cases hd : has D c = true
      · simp only [hd, if_true]
        obtain ⟨a, ha, hb⟩ := anaLoop_bound o ([o, cl] ++ D) (otherPairs [o, cl]) (text.length + 1) (text.drop (begin + 1)) (begin + 1) (begin + 1)
          (by simp only [List.length_drop]; omega)
        refine ⟨a, ha, ?_⟩
        have : begin + 1 + (text.drop (begin + 1)).length = text.length := by simp only [List.length_drop]; omega
        rw [this] at hb
        cases a <;> simp only [AnaBound] at hb ⊢ <;> first | omega | exact Or.inr hb
      · have hd' : has D c = false := by simpa using hd
        simp only [hd', Bool.false_eq_true, if_false]
        have hE : has ([o, cl] ++ D) c = false := by
          simp only [has, List.contains_eq_mem, List.mem_append, List.mem_cons, List.not_mem_nil, or_false,
            decide_eq_false_iff_not, not_or] at hd' ⊢
          exact ⟨⟨hco, hcc⟩, hd'⟩
        rw [drop_eq_cons_of_get text begin c hc]
        obtain ⟨a, ha, hb⟩ := anaLoop_bound_strict o ([o, cl] ++ D) (otherPairs [o, cl]) (text.length + 1) c (text.drop (begin + 1))
          begin begin (by simp only [List.length_cons, List.length_drop]; omega) hco hE
        refine ⟨a, ha, ?_⟩
        have : begin + (c :: text.drop (begin + 1)).length = text.length := by
          simp only [List.length_cons, List.length_drop]; omega
        rw [this] at hb
        cases a <;> simp only [AnaBound] at hb ⊢ <;> first | omega | exact Or.inr hb

/-- the result of `_parse` started at `index`: no fuel problem, never behind `index`, and strictly ahead unless the
    character at `index` is the closing bracket (or the text has ended) -/
def ParseOut (text : Str) (cl : Char) (index : Nat) : Except Err (Nat × List Entry) → Prop
  | .ok r => index ≤ r.1 ∧ (index < text.length → text[index]? ≠ some cl → index < r.1)
  | .error e => e ≠ .Fuel

/-- the result of `_parse_block` started at `index`: no fuel problem, strictly ahead unless the text has ended -/
def BlockOut (text : Str) (index : Nat) : Except Err (Nat × List Entry) → Prop
  | .ok r => index ≤ r.1 ∧ (index < text.length → index < r.1)
  | .error e => e ≠ .Fuel

theorem parse_block_total (text : Str) (o cl : Char) (D : Str) : ∀ (fuel : Nat),
    (∀ index depth acc, 2 * (text.length - index) + 2 ≤ fuel →
      ParseOut text cl index (parseLoop text [o, cl] D fuel index depth acc)) ∧
    (∀ index depth acc, 2 * (text.length - index) + 3 ≤ fuel →
      BlockOut text index (blockLoop text [o, cl] D fuel index depth acc)) := by
  intro fuel
  induction fuel with
  | zero => exact ⟨fun _ _ _ h => by omega, fun _ _ _ h => by omega⟩
  | succ n ih =>
    obtain ⟨ihP, ihB⟩ := ih
    constructor
    · intro index depth acc hfu
      rw [parseLoop]
      by_cases hlt : index < text.length
      · rw [if_pos hlt]
        obtain ⟨c, hc⟩ : ∃ c, text[index]? = some c := ⟨text[index], List.getElem?_eq_getElem hlt⟩
        obtain ⟨a, ha, hb⟩ := analyzeEntry_bound text o cl D index c hc
        simp only [ha, bind, Except.bind]
        cases a with
        | block eb ik =>
          simp only [] at hb ⊢
          have hB := ihB (ik + 1) depth [] (by omega)
          cases hbl : blockLoop text [o, cl] D n (ik + 1) depth [] with
          | error e => rw [hbl] at hB; simpa [ParseOut, BlockOut] using hB
          | ok r =>
            rw [hbl] at hB
            simp only [BlockOut] at hB
            have hP := ihP r.1 depth (acc ++ [Entry.mk eb r.1 depth .Block r.2]) (by omega)
            simp only []
            cases hpl : parseLoop text [o, cl] D n r.1 depth (acc ++ [Entry.mk eb r.1 depth .Block r.2]) with
            | error e => rw [hpl] at hP; simpa [ParseOut] using hP
            | ok r' =>
              rw [hpl] at hP
              simp only [ParseOut] at hP ⊢
              exact ⟨by omega, fun _ _ => by omega⟩
        | element eb ik =>
          simp only [] at hb ⊢
          have hP := ihP ik depth (acc ++ [Entry.mk eb ik depth .Element []]) (by omega)
          cases hpl : parseLoop text [o, cl] D n ik depth (acc ++ [Entry.mk eb ik depth .Element []]) with
          | error e => rw [hpl] at hP; simpa [ParseOut] using hP
          | ok r' =>
            rw [hpl] at hP
            simp only [ParseOut] at hP ⊢
            exact ⟨by omega, fun _ _ => by omega⟩
        | fin i =>
          simp only [] at hb ⊢
          simp only [ParseOut]
          rcases hb with ⟨rfl, rfl⟩ | rfl
          · exact ⟨Nat.le_refl _, fun _ h => absurd hc h⟩
          · exact ⟨by omega, fun _ _ => hlt⟩
      · rw [if_neg hlt]
        exact ⟨Nat.le_refl _, fun h => absurd h hlt⟩
    · intro index depth acc hfu
      rw [blockLoop]
      by_cases hlt : index < text.length
      · rw [if_pos hlt]
        obtain ⟨c, hc⟩ : ∃ c, text[index]? = some c := ⟨text[index], List.getElem?_eq_getElem hlt⟩
        have hch : charAt text index = .ok c := by simp [charAt, hc]
        have h1 : charAt [o, cl] 1 = .ok cl := rfl
        simp only [hch, h1, bind, Except.bind]
        by_cases hcc : c = cl
        · rw [if_pos hcc]; exact ⟨by omega, fun _ => by omega⟩
        · rw [if_neg hcc]
          have hP := ihP index (depth + 1) [] (by omega)
          cases hpl : parseLoop text [o, cl] D n index (depth + 1) [] with
          | error e => rw [hpl] at hP; simpa [ParseOut, BlockOut] using hP
          | ok r =>
            rw [hpl] at hP
            simp only [ParseOut] at hP
            have hstrict : index < r.1 := hP.2 hlt (by rw [hc]; intro h; injection h with h; exact hcc h)
            have hB := ihB r.1 depth (acc ++ r.2) (by omega)
            simp only []
            cases hbl : blockLoop text [o, cl] D n r.1 depth (acc ++ r.2) with
            | error e => rw [hbl] at hB; simpa [BlockOut] using hB
            | ok r' =>
              rw [hbl] at hB
              simp only [BlockOut] at hB ⊢
              exact ⟨by omega, fun _ => by omega⟩
      · rw [if_neg hlt]
        exact ⟨Nat.le_refl _, fun h => absurd h hlt⟩

/-- `parse` never exhausts the fuel: the loops of `_parse` / `_parse_block` / `_analyze_entry` finish on every text. -/
theorem parse_no_fuel (text : Str) (o cl : Char) (D : Str) : parse text [o, cl] D ≠ .error .Fuel := by
  have := (parse_block_total text o cl D (parseFuel text)).1 0 0 [] (by unfold parseFuel; omega)
  unfold parse
  cases hp : parseLoop text [o, cl] D (parseFuel text) 0 0 [] with
  | error e => rw [hp] at this; simpa [ParseOut, bind, Except.bind] using this
  | ok r =>
    obtain ⟨i, es⟩ := r
    simp only [bind, Except.bind]
    cases es <;> simp

theorem parsePair_no_fuel (text : Str) (o cl : Char) (D : Str) : parsePair text [o, cl] D ≠ .error .Fuel := by
  unfold parsePair
  cases hp : parse text [o, cl] D with
  | error e => simp only [bind, Except.bind]; intro h; injection h with h; exact parse_no_fuel text o cl D (by rw [hp, h])
  | ok r => simp [bind, Except.bind]

theorem analyzeEntry_no_fuel (text : Str) (o cl : Char) (D : Str) (begin : Nat) :
    analyzeEntry text [o, cl] D begin ≠ .error .Fuel := by
  cases hc : text[begin]? with
  | none => simp [analyzeEntry, charAt, hc, bind, Except.bind]
  | some c => obtain ⟨a, ha, _⟩ := analyzeEntry_bound text o cl D begin c hc; rw [ha]; simp

theorem bracketStep_no_fuel (text : Str) (o cl : Char) (acc : List Str) (e : Entry) :
    bracketStep text [o, cl] acc e ≠ .error .Fuel := by
  unfold bracketStep
  split
  · cases ha : analyzeEntry text [o, cl] [] e.begin with
    | error err => simp only [Except.bind]; intro h; injection h with h; exact analyzeEntry_no_fuel text o cl [] e.begin (by rw [ha, h])
    | ok a => cases a <;> simp [Except.bind]
  · simp

theorem parseBracket_no_fuel (text : Str) (o cl : Char) : parseBracket text [o, cl] ≠ .error .Fuel := by
  unfold parseBracket
  cases hp : parse text [o, cl] [] with
  | error e => simp only [Except.bind]; intro h; injection h with h; exact parse_no_fuel text o cl [] (by rw [hp, h])
  | ok root =>
    simp only [Except.bind]
    generalize root :: root.unders = l
    generalize ([] : List Str) = acc
    induction l generalizing acc with
    | nil => simp [List.foldlM, pure, Except.pure]
    | cons e l ih =>
      simp only [List.foldlM, bind, Except.bind]
      cases hs : bracketStep text [o, cl] acc e with
      | error err => simp only []; intro h; injection h with h; exact bracketStep_no_fuel text o cl acc e (by rw [hs, h])
      | ok acc' => exact ih acc'

end Tranp.Block
