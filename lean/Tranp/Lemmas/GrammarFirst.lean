/-
  Soundness of checked FIRST tables: the first terminal of every valid derivation lies in the table (property C16).
-/
import Tranp.Model.GrammarFirst

namespace Tranp.Gram

theorem mem_of_contains {l : List Nat} {x : Nat} (h : l.contains x = true) : x ∈ l := by simpa using h

theorem ok_rule {T : Tables} {g : Grammar} (h : T.ok g = true) {r : Rule} (hr : g.rules.contains r = true) : ruleOK T r = true := by
  simp only [Tables.ok, Bool.and_eq_true, List.all_eq_true] at h
  exact h.2 r (by simpa using hr)

theorem ok_term {T : Tables} {g : Grammar} (h : T.ok g = true) {t : Nat} (ht : g.terms.contains t = true) :
    T.nullable.contains t = false ∧ (T.firstOf t).contains t = true := by
  simp only [Tables.ok, Bool.and_eq_true, List.all_eq_true] at h
  have := h.1 t (by simpa using ht)
  simpa using this

mutual
/-- a derivation with an empty yield derives a nullable symbol -/
theorem nullable_of_empty (T : Tables) (g : Grammar) (hok : T.ok g = true) (d : Deriv) (hv : valid g d = true)
    (hy : yield d = []) : T.nullable.contains d.sym = true := by
  match d with
  | .leaf t => simp [yield] at hy
  | .node r cs =>
    simp only [valid, Bool.and_eq_true] at hv
    have hr := ok_rule hok hv.1.1
    simp only [ruleOK, Bool.and_eq_true] at hr
    have hall := nullable_of_emptyList T g hok cs hv.2 (by simpa [yield] using hy)
    have hrhs : (cs.map Deriv.sym) = r.rhs := by simpa using hv.1.2
    rw [hrhs] at hall
    have h1 := hr.1.1
    rw [hall] at h1
    simpa [Deriv.sym] using h1
theorem nullable_of_emptyList (T : Tables) (g : Grammar) (hok : T.ok g = true) (cs : List Deriv) (hv : validList g cs = true)
    (hy : yieldList cs = []) : (cs.map Deriv.sym).all (fun s => T.nullable.contains s) = true := by
  match cs with
  | [] => rfl
  | c :: rest =>
    simp only [validList, Bool.and_eq_true] at hv
    simp only [yieldList, List.append_eq_nil_iff] at hy
    have a := nullable_of_empty T g hok c hv.1 hy.1
    have b := nullable_of_emptyList T g hok rest hv.2 hy.2
    simp only [List.map_cons, List.all_cons, a, b, Bool.and_self]
end

mutual
/-- the first terminal a valid derivation yields is in FIRST of its symbol -/
theorem first_of_yield (T : Tables) (g : Grammar) (hok : T.ok g = true) (d : Deriv) (hv : valid g d = true)
    (t : Nat) (rest : List Nat) (hy : yield d = t :: rest) : t ∈ T.firstOf d.sym := by
  match d with
  | .leaf u =>
    simp only [yield, List.cons.injEq] at hy
    simp only [valid] at hv
    rw [← hy.1]
    exact mem_of_contains (ok_term hok hv).2
  | .node r cs =>
    simp only [valid, Bool.and_eq_true] at hv
    have hr := ok_rule hok hv.1.1
    simp only [ruleOK, Bool.and_eq_true] at hr
    have hrhs : (cs.map Deriv.sym) = r.rhs := by simpa using hv.1.2
    exact first_of_yieldList T g hok cs hv.2 (T.firstOf r.lhs) t rest (by simpa [yield] using hy) (by rw [hrhs]; exact hr.1.2)
theorem first_of_yieldList (T : Tables) (g : Grammar) (hok : T.ok g = true) (cs : List Deriv) (hv : validList g cs = true)
    (S : List Nat) (t : Nat) (rest : List Nat) (hy : yieldList cs = t :: rest)
    (hS : seqFirstOK T S (cs.map Deriv.sym) = true) : t ∈ S := by
  match cs with
  | [] => simp [yieldList] at hy
  | c :: more =>
    simp only [validList, Bool.and_eq_true] at hv
    simp only [List.map_cons, seqFirstOK, Bool.and_eq_true, List.all_eq_true] at hS
    cases hyc : yield c with
    | nil =>
      have hn := nullable_of_empty T g hok c hv.1 hyc
      simp only [hn, if_true] at hS
      exact first_of_yieldList T g hok more hv.2 S t rest (by simpa [yieldList, hyc] using hy) hS.2
    | cons u us =>
      have htu : t = u := by
        simp only [yieldList, hyc, List.cons_append, List.cons.injEq] at hy
        exact hy.1.symm
      have hu := first_of_yield T g hok c hv.1 u us hyc
      rw [htu]
      exact mem_of_contains (hS.1 u hu)
end

/-- The statement the span oracle uses: a valid derivation by a rule that builds a tree named `n` begins with a terminal of
    `nameFirst n`. -/
theorem first_of_named (T : Tables) (g : Grammar) (hok : T.ok g = true) (r : Rule) (cs : List Deriv)
    (hv : valid g (.node r cs) = true) (t : Nat) (rest : List Nat) (hy : yield (.node r cs) = t :: rest) :
    t ∈ T.nameFirstOf r.name := by
  simp only [valid, Bool.and_eq_true] at hv
  have hr := ok_rule hok hv.1.1
  simp only [ruleOK, Bool.and_eq_true] at hr
  have hrhs : (cs.map Deriv.sym) = r.rhs := by simpa using hv.1.2
  exact first_of_yieldList T g hok cs hv.2 _ t rest (by simpa [yield] using hy) (by rw [hrhs]; exact hr.2)

/-! ### mirror image -/

theorem mirror_sym (d : Deriv) : (mirror d).sym = d.sym := by
  cases d <;> simp [mirror, Deriv.sym, Rule.rev]

theorem mirrorList_map_sym (cs : List Deriv) : (mirrorList cs).map Deriv.sym = cs.map Deriv.sym := by
  induction cs with
  | nil => rfl
  | cons c rest ih => simp [mirrorList, mirror_sym, ih]

theorem yieldList_append (a b : List Deriv) : yieldList (a ++ b) = yieldList a ++ yieldList b := by
  induction a with
  | nil => rfl
  | cons c rest ih => simp [yieldList, ih]

theorem validList_append (g : Grammar) (a b : List Deriv) : validList g (a ++ b) = (validList g a && validList g b) := by
  induction a with
  | nil => simp [validList]
  | cons c rest ih => simp [validList, ih, Bool.and_assoc]

mutual
theorem yield_mirror (d : Deriv) : yield (mirror d) = (yield d).reverse := by
  match d with
  | .leaf t => rfl
  | .node r cs => simp only [mirror, yield]; exact yieldList_mirror_rev cs
theorem yieldList_mirror_rev (cs : List Deriv) : yieldList (mirrorList cs).reverse = (yieldList cs).reverse := by
  match cs with
  | [] => rfl
  | c :: rest =>
    simp only [mirrorList, List.reverse_cons, yieldList_append, yieldList, List.append_nil, List.reverse_append]
    rw [yieldList_mirror_rev rest, yield_mirror c]
end

mutual
theorem valid_mirror (g : Grammar) (d : Deriv) (h : valid g d = true) : valid g.rev (mirror d) = true := by
  match d with
  | .leaf t => simpa [mirror, valid, Grammar.rev] using h
  | .node r cs =>
    simp only [valid, Bool.and_eq_true] at h
    simp only [mirror, valid, Bool.and_eq_true]
    refine ⟨⟨?_, ?_⟩, ?_⟩
    · simp only [Grammar.rev, List.contains_eq_mem, List.mem_map, decide_eq_true_eq]
      exact ⟨r, by simpa using h.1.1, rfl⟩
    · have hrhs : cs.map Deriv.sym = r.rhs := by simpa using h.1.2
      simp [Rule.rev, List.map_reverse, mirrorList_map_sym, hrhs]
    · exact validList_mirror_rev g cs h.2
theorem validList_mirror_rev (g : Grammar) (cs : List Deriv) (h : validList g cs = true) :
    validList g.rev (mirrorList cs).reverse = true := by
  match cs with
  | [] => rfl
  | c :: rest =>
    simp only [validList, Bool.and_eq_true] at h
    simp only [mirrorList, List.reverse_cons, validList_append, validList, Bool.and_true, Bool.and_eq_true]
    exact ⟨validList_mirror_rev g rest h.2, valid_mirror g c h.1⟩
end

/-- a valid derivation by a rule that builds a tree named `n` ENDS with a terminal of `nameFirst n` of tables that pass the
    check for the reversed grammar -/
theorem last_of_named (T : Tables) (g : Grammar) (hok : T.ok g.rev = true) (r : Rule) (cs : List Deriv)
    (hv : valid g (.node r cs) = true) (t : Nat) (front : List Nat) (hy : yield (.node r cs) = front ++ [t]) :
    t ∈ T.nameFirstOf r.name := by
  have hv' := valid_mirror g _ hv
  have hy' : yield (mirror (.node r cs)) = t :: front.reverse := by rw [yield_mirror, hy]; simp
  simp only [mirror] at hv' hy'
  have := first_of_named T g.rev hok r.rev _ hv' t _ hy'
  simpa [Rule.rev] using this

end Tranp.Gram
