/-
  The beginning of the source as a layout position (C13): white space (blanks, blank lines — also an indentation of the first
  line) and comment-only lines in front of the first token do not change `Tokenizer.parse`. Built on `lexS_ws`,
  `lexS_comment` and the closed form of `post_filter` (`norm_lead`: a line break in front of everything does not matter).
-/
import Tranp.Lemmas.LexerTail

namespace Tranp.Lexer

/-- `norm` of a raw token list with one more token in front that is white space, a comment, or a line break -/
theorem norm_lead_insignificant (t : Nat × Str) (X : List (Nat × Str))
    (h : t.1 = T.whiteSpace ∨ t.1 = T.comment ∨ t.1 = T.lineBreak) :
    norm ((t :: X).map unsimp) = norm (X.map unsimp) := by
  obtain ⟨ty, s⟩ := t
  rcases h with h | h | h <;> simp only at h <;> subst h
  · unfold norm; rw [significant_ws_cons]
  · unfold norm; rw [significant_comment_cons]
  · unfold norm; rw [significant_lb_cons]; exact norm_lead _ rfl _

/-- **White space in front of the first token.** Any non-empty white space `w` — blanks, blank lines, an indentation of the
    first line — before a source that does not itself start with white space leaves `Tokenizer.parse` unchanged up to
    source maps. -/
theorem layout_leading_blank {d : TokenDef} (hr : layoutReady d) (w s : Str) {L : List (Nat × Str)}
    (hne : w ≠ []) (hall : ∀ c ∈ w, d.whiteSpace.contains c = true) (hs : headIn d.whiteSpace s = false)
    (hL : lexS d s = .ok L) :
    (tokenize d s).map (List.map simplify) = (tokenize d (w ++ s)).map (List.map simplify) := by
  obtain ⟨hw, hwl, ho, hd, hb⟩ := hr
  have l2 : lexS d (w ++ s) = .ok (((if Str.count '\n' w = 0 then T.whiteSpace else T.lineBreak), w) :: L) := by
    rw [lexS_ws hw ho w s hne hall hs, hL]; rfl
  apply tokenize_layout hw hd hb hL l2
  rw [norm_lead_insignificant _ L (by by_cases h : Str.count '\n' w = 0 <;> simp [h])]
  exact AllRel.refl LBsame.refl _

/-- **A comment-only line in front of the first token.** `opener body ⏎ w` (the comment, its newline, any further white space)
    before a source that does not start with white space leaves `Tokenizer.parse` unchanged up to source maps. -/
theorem layout_leading_comment {d : TokenDef} (hr : layoutReady d) (body w s : Str) (p : Str × Str) {L : List (Nat × Str)}
    (hf : firstOpen d.comment (p.1 ++ body ++ ('\n' :: w ++ s)) 0 = .ok p) (hb : '\n' ∉ body)
    (hall : ∀ c ∈ w, d.whiteSpace.contains c = true) (hs : headIn d.whiteSpace s = false) (hL : lexS d s = .ok L) :
    (tokenize d s).map (List.map simplify) = (tokenize d (p.1 ++ body ++ ('\n' :: w ++ s))).map (List.map simplify) := by
  obtain ⟨hw, hwl, ho, hd, hbl⟩ := hr
  have hnlws : d.whiteSpace.contains '\n' = true := by
    simp only [wfLayout, Bool.and_eq_true] at hwl; exact hwl.2
  have hall' : ∀ c ∈ '\n' :: w, d.whiteSpace.contains c = true := by
    intro c hc
    simp only [List.mem_cons] at hc
    cases hc with
    | inl h => rw [h]; exact hnlws
    | inr h => exact hall c h
  have hcnt : ¬ Str.count '\n' ('\n' :: w) = 0 := by rw [count_cons]; simp
  have l1 : lexS d ('\n' :: w ++ s) = .ok ((T.lineBreak, '\n' :: w) :: L) := by
    have := lexS_ws hw ho ('\n' :: w) s (by simp) hall' hs
    rw [this, hL]; simp [Except.map, hcnt]
  have l2 : lexS d (p.1 ++ body ++ ('\n' :: w ++ s)) = .ok ((T.comment, p.1 ++ body) :: (T.lineBreak, '\n' :: w) :: L) := by
    rw [lexS_comment hw hwl ho p body _ hf hb rfl, l1]; rfl
  apply tokenize_layout hw hd hbl hL l2
  rw [norm_lead_insignificant _ _ (Or.inr (Or.inl rfl)), norm_lead_insignificant _ _ (Or.inr (Or.inr rfl))]
  exact AllRel.refl LBsame.refl _

/-- decidable side check for the two leading rewrites: `pre` is white space, or the first comment opener + a body without
    newline + a newline + white space; the source does not start with white space and lexes -/
def leadOK (d : TokenDef) (pre s : Str) (p : Str × Str) : Bool :=
  !pre.isEmpty && !headIn d.whiteSpace s && (match lexS d s with | .ok _ => true | .error _ => false) &&
  (pre.all (fun c => d.whiteSpace.contains c) ||
    (Str.startsWith pre p.1 &&
      (let rest := pre.drop p.1.length
       let body := rest.takeWhile (fun c => c ≠ '\n')
       let after := rest.dropWhile (fun c => c ≠ '\n')
       match after with
       | [] => false
       | _ :: w => w.all (fun c => d.whiteSpace.contains c) && firstOpenIs d (p.1 ++ body ++ ('\n' :: w ++ s)) p)))

theorem takeWhile_ne_nl (l : Str) : '\n' ∉ l.takeWhile (fun c => c ≠ '\n') := by
  intro h
  have := takeWhile_all (fun c => decide (c ≠ '\n')) l '\n' h
  simp at this

theorem dropWhile_ne_nl_head : ∀ (l : Str) (c : Char) (w : Str), l.dropWhile (fun c => c ≠ '\n') = c :: w → c = '\n'
  | [], _, _, h => by simp at h
  | x :: xs, c, w, h => by
    by_cases hx : x = '\n'
    · subst hx
      simp [List.dropWhile] at h
      exact h.1.symm
    · have : (x :: xs).dropWhile (fun c => c ≠ '\n') = xs.dropWhile (fun c => c ≠ '\n') := by
        simp [List.dropWhile, hx]
      rw [this] at h
      exact dropWhile_ne_nl_head xs c w h

/-- **The beginning of the source, by position.** -/
theorem layout_lead_at {d : TokenDef} (hr : layoutReady d) (pre s : Str) (p : Str × Str) (h : leadOK d pre s p = true) :
    (tokenize d s).map (List.map simplify) = (tokenize d (pre ++ s)).map (List.map simplify) := by
  simp only [leadOK, Bool.and_eq_true, Bool.not_eq_true', Bool.or_eq_true] at h
  obtain ⟨⟨⟨h1, h2⟩, h3⟩, h4⟩ := h
  have hne : pre ≠ [] := by intro e; rw [e] at h1; simp at h1
  cases hL : lexS d s with
  | error e => rw [hL] at h3; cases h3
  | ok L =>
    cases h4 with
    | inl hws =>
      exact layout_leading_blank hr pre s hne (by simpa using hws) h2 hL
    | inr hc =>
      obtain ⟨hsw, hrest⟩ := hc
      obtain ⟨t, ht⟩ := (startsWith_iff_prefix _ _).mp hsw
      have hdrop : pre.drop p.1.length = t := by rw [ht]; simp
      rw [hdrop] at hrest
      have hsplit : t.takeWhile (fun c => c ≠ '\n') ++ t.dropWhile (fun c => c ≠ '\n') = t := List.takeWhile_append_dropWhile
      cases hafter : t.dropWhile (fun c => c ≠ '\n') with
      | nil => rw [hafter] at hrest; simp at hrest
      | cons c w =>
        rw [hafter] at hrest hsplit
        simp only [Bool.and_eq_true, List.all_eq_true] at hrest
        obtain ⟨hw, hf⟩ := hrest
        have hc : c = '\n' := dropWhile_ne_nl_head t c w hafter
        subst hc
        have := layout_leading_comment hr (t.takeWhile (fun c => c ≠ '\n')) w s p (firstOpenIs_sound hf) (takeWhile_ne_nl t) hw h2 hL
        have e : pre ++ s = p.1 ++ t.takeWhile (fun c => c ≠ '\n') ++ ('\n' :: w ++ s) := by
          rw [ht]
          conv => lhs; rw [← hsplit]
          simp [List.append_assoc]
        rw [e]; exact this

/-- layout equivalence of sources, all positions: the steps of `LayoutEqT` (between tokens, at line ends, the tail) and the
    rewrites in front of the first token -/
inductive LayoutEqAll (d : TokenDef) : Str → Str → Prop
  | eq {s s' : Str} : LayoutEqT d s s' → LayoutEqAll d s s'
  | lead (pre s : Str) (p : Str × Str) : leadOK d pre s p = true → LayoutEqAll d s (pre ++ s)
  | symm {s s' : Str} : LayoutEqAll d s s' → LayoutEqAll d s' s
  | trans {s s' s'' : Str} : LayoutEqAll d s s' → LayoutEqAll d s' s'' → LayoutEqAll d s s''

theorem LayoutEqAll.tokenize {d : TokenDef} (hr : layoutReady d) {s s' : Str} (h : LayoutEqAll d s s') :
    (tokenize d s).map (List.map simplify) = (tokenize d s').map (List.map simplify) := by
  induction h with
  | eq h => exact h.tokenize hr
  | lead pre s p h => exact layout_lead_at hr pre s p h
  | symm _ ih => exact ih.symm
  | trans _ _ ih1 ih2 => exact ih1.trans ih2

end Tranp.Lexer
