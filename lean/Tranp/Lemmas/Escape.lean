/-
  Lemmas about `decodeEsc` (Tranp/Model/Evaluator.lean): decoding a joined body in terms of the two bodies.
-/
import Tranp.Model.Evaluator

namespace Tranp.Evaluator
open Tranp

/-- what a body emits before the end-of-body flush -/
def emitted (st : DecState) : Str → Str
  | [] => []
  | c :: cs => (stepSt st c).1 ++ emitted (stepSt st c).2 cs

theorem decodeGo_append (st : DecState) (a b : Str) :
    decodeGo st (a ++ b) = emitted st a ++ decodeGo (endState st a) b := by
  induction a generalizing st with
  | nil => simp [emitted, endState]
  | cons c cs ih => simp [decodeGo, emitted, endState, ih, List.append_assoc]

theorem decodeGo_eq (st : DecState) (a : Str) : decodeGo st a = emitted st a ++ flushSt (endState st a) := by
  have h := decodeGo_append st a []
  simp only [List.append_nil] at h
  rw [h]; simp [decodeGo]

/-- a decoder that is not inside an escape the next body would continue can be restarted -/
theorem decodeGo_settled (st : DecState) (b : Str)
    (h : st = .normal ∨ ∃ v n, st = .oct v n ∧ (match b with | c :: _ => (octVal c).isSome = false | [] => True)) :
    decodeGo st b = flushSt st ++ decodeGo .normal b := by
  rcases h with rfl | ⟨v, n, rfl, hb⟩
  · simp [flushSt]
  · cases b with
    | nil => simp [decodeGo, flushSt]
    | cons c cs =>
      simp only at hb
      have hc : octVal c = none := by
        cases h : octVal c with
        | none => rfl
        | some d => simp [h] at hb
      simp [decodeGo, stepSt, hc, flushSt, stepNormal]

theorem unq_cat {l r : Str} (h : allowString l = true) : unq (cat l r) = unq l ++ unq r := by
  cases l with
  | nil => simp [allowString, Generated.EvalOps.longQuoteMinLen] at h
  | cons q rest => simp [cat, unq]

/-- the join law (stated as `C17.join_decodes`) -/
theorem join_decodes_core (l r : Str) (h : joinsEscape l r = false) : decodeEsc (l ++ r) = decodeEsc l ++ decodeEsc r := by
  unfold decodeEsc
  rw [decodeGo_append, decodeGo_eq .normal l, List.append_assoc]
  congr 1
  apply decodeGo_settled
  unfold joinsEscape at h
  cases hst : endState .normal l with
  | normal => exact Or.inl rfl
  | oct v n =>
    refine Or.inr ⟨v, n, rfl, ?_⟩
    rw [hst] at h
    cases r with
    | nil => trivial
    | cons c cs => simpa using h
  | backslash => rw [hst] at h; cases h
  | hex k need seen v => rw [hst] at h; cases h

/-- a body without backslash decodes to itself -/
theorem decode_id {raw : Str} (h : raw.contains '\\' = false) : decodeEsc raw = raw := by
  unfold decodeEsc
  induction raw with
  | nil => rfl
  | cons c cs ih =>
    simp only [List.contains_cons, Bool.or_eq_false_iff] at h
    have hc : c ≠ '\\' := by intro hc; subst hc; simp at h
    simp [decodeGo, stepSt, stepNormal, hc, ih h.2]

theorem contains_cons_false {x c : Char} {cs : Str} (hx : x ≠ c) (h : cs.contains c = false) : (x :: cs).contains c = false := by
  simp only [List.contains_eq_mem, List.mem_cons, decide_eq_false_iff_not, not_or] at *
  exact ⟨fun e => hx e.symm, h⟩

theorem contains_append_false {a b : Str} {c : Char} (ha : a.contains c = false) (hb : b.contains c = false) :
    (a ++ b).contains c = false := by
  simp only [List.contains_eq_mem, List.mem_append, decide_eq_false_iff_not, not_or] at *
  exact ⟨ha, hb⟩

end Tranp.Evaluator
