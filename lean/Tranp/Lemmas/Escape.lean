/-
  Lemmas about `decodeEsc` (Tranp/Model/Evaluator.lean): decoding a joined body in terms of the two bodies.
-/
import Tranp.Lemmas.Evaluator

namespace Tranp.Evaluator
open Tranp

/-- what a body emits before the end-of-body flush -/
def emitted (st : DecState) : Str → Str
  | [] => []
  | c :: cs => (stepSt st c).1 ++ emitted (stepSt st c).2 cs

theorem decodeGo_append (st : DecState) (a b : Str) :
    decodeGo st (a ++ b) = emitted st a ++ decodeGo (endState st a) b := by
  induction a generalizing st with
  | nil => simp [emitted, endState]
  | cons c cs ih => simp [decodeGo, emitted, endState, ih, List.append_assoc]

theorem decodeGo_eq (st : DecState) (a : Str) : decodeGo st a = emitted st a ++ flushSt (endState st a) := by
  have h := decodeGo_append st a []
  simp only [List.append_nil] at h
  rw [h]; simp [decodeGo]

/-- a decoder that is not inside an escape the next body would continue can be restarted -/
theorem decodeGo_settled (st : DecState) (b : Str)
    (h : st = .normal ∨ ∃ v n, st = .oct v n ∧ (match b with | c :: _ => (octVal c).isSome = false | [] => True)) :
    decodeGo st b = flushSt st ++ decodeGo .normal b := by
  rcases h with rfl | ⟨v, n, rfl, hb⟩
  · simp [flushSt]
  · cases b with
    | nil => simp [decodeGo, flushSt]
    | cons c cs =>
      simp only at hb
      have hc : octVal c = none := by
        cases h : octVal c with
        | none => rfl
        | some d => simp [h] at hb
      simp [decodeGo, stepSt, hc, flushSt, stepNormal]

theorem unq_cat {l r : Str} (h : allowString l = true) : unq (cat l r) = unq l ++ unq r := by
  cases l with
  | nil => simp [allowString, Generated.EvalOps.longQuoteMinLen] at h
  | cons q rest => simp [cat, unq]

end Tranp.Evaluator
