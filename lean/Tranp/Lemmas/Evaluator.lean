/-
  Lemmas for property C17 (Tranp/Props/C17.lean): the folder `execImpl` against CPython's `evalPy`.

  Shape of the argument.  `Good m R r v'` says: the folder's result `r` is a value similar to CPython's `v'`, or an error in
  the class `R`.  `sound_core` proves `Good m R (execImpl …) v'` whenever `evalPy … = ok v'`, by induction on the fuel
  (every recursive call of `execImpl` spends one unit), for every mode that cuts out H1, H2, H3, H5a and every `R` that
  contains the refusals (plus, when H4 / H5b are not cut out, the two wrapped Python errors they let through).
-/
import Tranp.Model.Evaluator
import Tranp.Lemmas.Escape
import Tranp.Lemmas.PyInt

namespace Tranp.Evaluator
open Tranp Tranp.Generated.EvalOps

variable {F : Type}

/-! ## results -/

/-- an application error that is not a wrapped Python exception (OperationNotAllowed, UnresolvedSymbol, whatever type inference
    raised) or the recursion limit. -/
def Refusal : Err → Prop
  | .fatal x => x = .recursionError
  | _ => True

/-- the folder's result against CPython's value `v'`: a similar value, or an error of class `R`. -/
def Good (m : Mode) (R : Err → Prop) (r : Except Err (V F)) (v' : V F) : Prop :=
  match r with
  | .ok v => Sim m v v'
  | .error er => R er

theorem Good.mono {m : Mode} {R R' : Err → Prop} (h : ∀ er, R er → R' er) {r : Except Err (V F)} {v' : V F} (hg : Good m R r v') : Good m R' r v' := by
  cases r with
  | ok v => exact hg
  | error er => exact h er hg

theorem tyErr_refusal (te : TyErr) : Refusal te.toErr := by
  cases te <;> simp [TyErr.toErr, Refusal]

/-! ## Except plumbing -/

theorem bind_ok_inv {ε α β : Type} {r : Except ε α} {f : α → Except ε β} {b : β} (h : r >>= f = .ok b) :
    ∃ a, r = .ok a ∧ f a = .ok b := by
  cases r with
  | ok a => exact ⟨a, rfl, h⟩
  | error e => cases h

theorem map_ok_inv {ε α β : Type} {r : Except ε α} {f : α → β} {b : β} (h : f <$> r = .ok b) :
    ∃ a, r = .ok a ∧ f a = b := by
  cases r with
  | ok a => exact ⟨a, rfl, by cases h; rfl⟩
  | error e => cases h

theorem map_ok_inv' {ε α β : Type} {r : Except ε α} {f : α → β} {b : β} (h : r.map f = .ok b) :
    ∃ a, r = .ok a ∧ f a = b := by
  cases r with
  | ok a => exact ⟨a, rfl, by cases h; rfl⟩
  | error e => cases h

/-! ## quoted strings -/

theorem quote_dq : isQuote '"' = true := by decide
theorem quote_sq : isQuote '\'' = true := by decide

theorem quoted_unq {s c : Str} (h : Quoted s c) : unq s = c := by
  obtain ⟨q, q', _, _, rfl⟩ := h
  simp [unq]

theorem quoted_cat {a b ca cb : Str} (ha : Quoted a ca) (hb : Quoted b cb) : Quoted (cat a b) (ca ++ cb) := by
  have ua := quoted_unq ha
  have ub := quoted_unq hb
  obtain ⟨q, q', hq, _, rfl⟩ := ha
  refine ⟨q, q, hq, hq, ?_⟩
  simp only [cat, ua, ub, List.append_assoc]

theorem quoted_dq (c : Str) : Quoted ('"' :: (c ++ ['"'])) c := ⟨'"', '"', quote_dq, quote_dq, rfl⟩

/-! ## the operator tables -/

/-- the ten operator tokens CPython's table knows. -/
theorem pyOp_cases {op : Str} {k : BinKind} (h : pyOpTable.lookup op = some k) :
    (op = ['+'] ∧ k = .add) ∨ (op = ['-'] ∧ k = .sub) ∨ (op = ['*'] ∧ k = .mult) ∨ (op = ['/'] ∧ k = .div) ∨ (op = ['%'] ∧ k = .mod)
    ∨ (op = ['|'] ∧ k = .bitOr) ∨ (op = ['^'] ∧ k = .bitXor) ∨ (op = ['&'] ∧ k = .bitAnd)
    ∨ (op = ['<', '<'] ∧ k = .lShift) ∨ (op = ['>', '>'] ∧ k = .rShift) := by
  unfold pyOpTable at h
  simp only [List.lookup] at h
  repeat (split at h; · simp_all)
  cases h

/-! ## one fold step -/

theorem step_cat (m : Mode) (ops : FloatOps F) {a b ca cb : Str} (ha : Sim (F := F) m (.str a) (.str ca)) (hb : Sim (F := F) m (.str b) (.str cb)) :
    Good m Refusal (step ops ['+'] (.str a) (.str b)) (.str (ca ++ cb)) := by
  cases ha with
  | str hqa hda hna =>
    cases hb with
    | str hqb hdb hnb =>
      by_cases h : (allowString a && allowString b) = true
      · by_cases hj : joinsEscape (unq a) (unq b) = true
        · simp [step, h, catSafe, hj, Except.map, Good, Refusal]
        · simp [step, h, catSafe, hj, Except.map, Good]
          refine Sim.str (quoted_cat hqa hqb) ?_ ?_
          · rw [quoted_unq hqa, quoted_unq hqb] at hj
            rw [join_decodes_core _ _ (by simpa using hj), hda, hdb]
          · intro hm; exact contains_append_false (hna hm) (hnb hm)
      · simp [step, h, Good, Refusal]

theorem step_div_int (m : Mode) (ops : FloatOps F) {a b : Int} {z : F} (h : ops.truediv a b = .ok z) :
    Good m Refusal (step ops ['/'] (.int a) (.int b)) (.float z) := by
  simp [step, calcII, calcTable, List.lookup, h, liftPy, Except.map, Good]
  exact Sim.float z

theorem step_good (m : Mode) (ops : FloatOps F) {op : Str} {l r l' r' c : V F}
    (hl : Sim m l l') (hr : Sim m r r') (hp : pyBin m ops op l' r' = .ok c) :
    Good m Refusal (step ops op l r) c := by
  have hl' := hl
  have hr' := hr
  unfold pyBin at hp
  split at hp
  · cases hp
  · rename_i k hk
    rcases pyOp_cases hk with ⟨rfl, rfl⟩ | ⟨rfl, rfl⟩ | ⟨rfl, rfl⟩ | ⟨rfl, rfl⟩ | ⟨rfl, rfl⟩ | ⟨rfl, rfl⟩ | ⟨rfl, rfl⟩ | ⟨rfl, rfl⟩ | ⟨rfl, rfl⟩ | ⟨rfl, rfl⟩ <;>
    cases hl <;> cases hr <;>
    simp [isArith, floatBin, intBin, strRepeat, Except.map, Except.bind, bind] at hp
    all_goals first
      | (subst hp; exact step_cat m ops hl' hr')
      | (obtain ⟨z, hz, rfl⟩ := map_ok_inv' hp; exact step_div_int m ops hz)
      | skip
    all_goals (repeat (split at hp <;> try (cases hp)))
    all_goals (try subst hp)
    all_goals simp_all [step, calcF, calcI, bitwiseI, calcTable, bitTable, arithmeticOps, isArith, List.lookup, floatBin, intBin, toFloat, liftPy, Good, Refusal, Except.map, Except.bind, bind, pure, Except.pure]
    all_goals (try constructor)

/-! ## casts -/

/-- pointwise similarity of argument lists -/
inductive SimL (m : Mode) : List (V F) → List (V F) → Prop where
  | nil : SimL m [] []
  | cons {a a' as as'} : Sim m a a' → SimL m as as' → SimL m (a :: as) (a' :: as')

theorem call_good (m : Mode) (ops : FloatOps F) (R : Err → Prop) (hR : ∀ er, Refusal er → R er)
    (hE : m.noEsc = false → R (.fatal .valueError))
    (hts : ∀ x, (ops.toStr x).contains '\\' = false)
    (hparse : ∀ s, s.contains '\\' = true → ops.parse s = .error .valueError)
    {fn : Str} {args args' : List (V F)} {c : V F}
    (ha : SimL m args args') (hp : pyCall m ops fn args' = .ok c) : Good m R (onFuncCall ops fn args) c := by
  cases ha with
  | nil => simp [onFuncCall, castArity, Good]; exact hR _ trivial
  | cons h1 hrest =>
    cases hrest with
    | cons h2 hrest2 => simp [onFuncCall, castArity, Good]; exact hR _ trivial
    | nil =>
      have hfn : fn = ['i', 'n', 't'] ∨ fn = ['f', 'l', 'o', 'a', 't'] ∨ fn = ['s', 't', 'r'] := by
        by_cases h1 : fn = ['i', 'n', 't']
        · exact Or.inl h1
        · by_cases h2 : fn = ['f', 'l', 'o', 'a', 't']
          · exact Or.inr (Or.inl h2)
          · by_cases h3 : fn = ['s', 't', 'r']
            · exact Or.inr (Or.inr h3)
            · simp [pyCall, h1, h2, h3] at hp
      cases h1 with
      | int n =>
        rcases hfn with rfl | rfl | rfl <;> simp [pyCall, Except.map] at hp
        all_goals (repeat (split at hp <;> try (cases hp)))
        all_goals (try subst hp)
        all_goals simp_all [onFuncCall, castArity, liftPy, Except.map, toFloat, Good, pyStrVal, pyStrOf]
        all_goals first
          | exact Sim.int _
          | exact Sim.float _
          | exact Sim.str (quoted_dq _) (decode_id (showInt_no_bs _)) (fun _ => showInt_no_bs _)
      | float x =>
        have hs : Sim (F := F) m (.str ('"' :: (ops.toStr x ++ ['"']))) (.str (ops.toStr x)) :=
          Sim.str (quoted_dq _) (decode_id (hts x)) (fun _ => hts x)
        clear hts
        rcases hfn with rfl | rfl | rfl <;> simp [pyCall, Except.map] at hp
        all_goals (repeat (split at hp <;> try (cases hp)))
        all_goals (try subst hp)
        all_goals simp_all [onFuncCall, castArity, liftPy, Except.map, toFloat, Good, pyStrVal, pyStrOf]
        all_goals first
          | exact Sim.int _
          | exact Sim.float _
          | exact hs
      | @str s raw c' hq hd hn =>
        have hu := quoted_unq hq
        have hraw : m.noEsc = true → c' = raw := fun hm => by rw [← hd, decode_id (hn hm)]
        rcases hfn with rfl | rfl | rfl
        · -- int('<text>')
          simp only [pyCall, if_true] at hp
          obtain ⟨n, hn', rfl⟩ := map_ok_inv' hp
          simp only [onFuncCall, castArity, List.length_singleton, ne_eq, not_true_eq_false, if_false, if_true, hu]
          cases hi : pyInt 10 raw with
          | ok n' =>
            have hid : c' = raw := by rw [← hd, decode_id (pyInt_no_bs hi)]
            rw [hid, hi] at hn'
            cases hn'
            simp [liftPy, Except.map, Good]
            exact Sim.int _
          | error e =>
            have he := pyInt_error hi
            subst he
            simp only [liftPy, Except.map, Good]
            cases hm : m.noEsc with
            | false => exact hE hm
            | true => rw [hraw hm, hi] at hn'; cases hn'
        · -- float('<text>')
          simp only [pyCall] at hp
          simp at hp
          obtain ⟨x, hx, rfl⟩ := map_ok_inv' hp
          simp only [onFuncCall, castArity, List.length_singleton, ne_eq, not_true_eq_false, if_false, hu]
          simp
          by_cases hb : raw.contains '\\' = true
          · rw [hparse raw hb]
            simp only [liftPy, Except.map, Good]
            cases hm : m.noEsc with
            | false => exact hE hm
            | true => rw [hn hm] at hb; cases hb
          · have hid : c' = raw := by rw [← hd, decode_id (by simpa using hb)]
            rw [hid] at hx
            simp [hx, liftPy, Except.map, Good]
            exact Sim.float _
        · -- str('<text>')
          simp [pyCall, pyStrVal] at hp
          subst hp
          simp [onFuncCall, castArity, Good, hu]
          exact Sim.str (quoted_dq _) hd hn

/-! ## literals -/

theorem startsWith2 {tok : Str} {a b : Char} (h : Str.startsWith tok [a, b] = true) : ∃ r, tok = a :: b :: r := by
  match tok with
  | [] => simp [Str.startsWith] at h
  | [_] => simp [Str.startsWith] at h
  | c :: d :: r => simp [Str.startsWith] at h; exact ⟨r, by rw [h.1, h.2]⟩

theorem pyInt10_upperX (r : Str) : pyInt 10 ('0' :: 'X' :: r) = .error .valueError := by
  have h0 : isWs '0' = false := by decide
  have hX : isWs 'X' = false := by decide
  have hu : uniDec 88 = none := by decide
  simp [pyInt, List.dropWhile, h0, hX, signed, parseDigits, digVal, Str.hexVal, goDigits, hu]

theorem ite_some_none {c : Prop} [Decidable c] {a b : Nat} (h : (if c then some a else none) = some b) : b = a := by
  split at h <;> simp at h
  exact h.symm

theorem dropLast_getLast? {α : Type} {l : List α} {a : α} (h : l.getLast? = some a) : l.dropLast ++ [a] = l := by
  induction l with
  | nil => simp at h
  | cons x xs ih =>
    cases xs with
    | nil => simp at h; simp [h]
    | cons y ys =>
      rw [List.getLast?_cons_cons] at h
      simp [List.dropLast, ih h]

theorem int_good (m : Mode) (R : Err → Prop) (h4 : m.lowerHex = false → R (.fatal .valueError)) {tok : Str} {n : Int}
    (hp : pyIntLit m tok = .ok n) : Good (F := F) m R (onInteger tok) (.int n) := by
  unfold pyIntLit at hp
  split at hp
  · rename_i base hb
    unfold intLitBase at hb
    by_cases hx : Str.startsWith tok ['0', 'x'] = true
    · obtain ⟨r, rfl⟩ := startsWith2 hx
      have hX : Str.startsWith ('0' :: 'x' :: r) ['0', 'X'] = false := by simp [Str.startsWith]
      simp only [hx, Bool.true_or] at hb
      have hbase : base = 16 := by
        split at hb
        · simp at hb
        · exact ite_some_none hb
      subst hbase
      simp [hX] at hp
      simp [onInteger, hx, hp, liftPy, Except.map, Good]
      exact Sim.int n
    · by_cases hX : Str.startsWith tok ['0', 'X'] = true
      · obtain ⟨r, rfl⟩ := startsWith2 hX
        by_cases hl : m.lowerHex = true
        · simp [hl, hX] at hp
        · simp at hl
          simp [onInteger, hx, pyInt10_upperX, liftPy, Except.map, Good]
          exact h4 hl
      · simp only [Bool.not_eq_true] at hx hX
        simp only [hx, hX, Bool.or_self, Bool.false_eq_true, if_false] at hb
        have hbase : base = 10 := by
          split at hb
          · simp at hb
          · split at hb <;> exact ite_some_none hb
        subst hbase
        simp [hX] at hp
        simp [onInteger, hx, hp, liftPy, Except.map, Good]
        exact Sim.int n
  · cases hp

theorem isQuote_cases {q : Char} (h : isQuote q = true) : q = '"' ∨ q = '\'' := by
  simp [isQuote, Generated.EvalOps.quoteChars] at h
  exact h

/-- a plain token is its body between two quotes -/
theorem plain_quoted {tok c : Str} (h : classifyStr tok = .plain c) : Quoted tok c := by
  unfold classifyStr at h
  split at h
  · rename_i q rest
    split at h
    · rename_i hq
      split at h
      · split at h <;> cases h
      · split at h
        · rename_i hlast
          cases h
          simp only [Bool.and_eq_true, decide_eq_true_eq] at hlast
          refine ⟨q, q, hq, hq, ?_⟩
          rw [dropLast_getLast? hlast.1]
        · cases h
    · cases h
  · cases h

/-- `_allow_string` rejects every token CPython reads as triple-quoted -/
theorem triple_not_allowed {tok c : Str} (h : classifyStr tok = .triple c) : allowString tok = false := by
  unfold classifyStr at h
  split at h
  · rename_i q rest
    split at h
    · rename_i hq
      split at h
      · rename_i hcond
        simp only [Bool.and_eq_true, decide_eq_true_eq] at hcond
        obtain ⟨⟨hlen, htake⟩, hdrop⟩ := hcond
        unfold allowString
        rw [htake, hdrop]
        rcases isQuote_cases hq with rfl | rfl <;> simp [longQuoteMinLen, longQuotes] <;>
          (intro h1; simp only [List.length_cons] at hlen; omega)
      · split at h <;> cases h
    · cases h
  · cases h

/-! ## flat chains -/

/-- CPython on a flat chain: the operands left to right, each followed by its operation on the accumulated value. -/
def pyFold (m : Mode) (ops : FloatOps F) (known : List Str) (venv : VEnv F) (a : V F) : List (Str × Expr) → Except PyExc (V F)
  | [] => .ok a
  | (op, e) :: rest => do
    let b ← evalPy m ops known venv (toPy e)
    let c ← pyBin m ops op a b
    pyFold m ops known venv c rest

/-- evaluating the left-nested tree CPython builds for `acc op₁ e₁ op₂ e₂ …` is the left fold over the flat chain. -/
theorem chain_eq (m : Mode) (ops : FloatOps F) (known : List Str) (venv : VEnv F) (rest : List (Str × Expr)) (acc : PyExpr) :
    evalPy m ops known venv (toPyChain acc rest) = (evalPy m ops known venv acc >>= fun a => pyFold m ops known venv a rest) := by
  induction rest generalizing acc with
  | nil =>
    simp only [toPyChain, pyFold]
    cases evalPy m ops known venv acc <;> rfl
  | cons x rest ih =>
    obtain ⟨op, e⟩ := x
    simp only [toPyChain, ih, evalPy, pyFold]
    cases evalPy m ops known venv acc with
    | error _ => rfl
    | ok a =>
      cases evalPy m ops known venv (toPy e) with
      | error _ => rfl
      | ok b => cases pyBin m ops op a b <;> rfl

theorem onTerminal_ok {op op' : Str} (h : onTerminal op = .ok op') : op' = op := by
  unfold onTerminal at h
  split at h
  · cases h; rfl
  · cases h

theorem onTerminal_err {op : Str} {er : Err} (h : onTerminal op = .error er) : er = .notAllowed := by
  unfold onTerminal at h
  split at h
  · cases h
  · cases h; rfl

section
variable (m : Mode) (ops : FloatOps F) (known : List Str) (venv : VEnv F) (R : Err → Prop) (f : Expr → Except Err (V F))
variable (hR : ∀ er, Refusal er → R er)
variable (ih : ∀ (e : Expr) (v' : V F), evalPy m ops known venv (toPy e) = .ok v' → Good m R (f e) v')
include hR ih

/-- the operands of a chain: an error among them is of class `R` -/
theorem rest_err : ∀ (rest : List (Str × Expr)) (a' v' : V F), pyFold m ops known venv a' rest = .ok v' →
    ∀ er, mapRest f rest = .error er → R er := by
  intro rest
  induction rest with
  | nil => intro a' v' _ er h; simp [mapRest] at h
  | cons x rest ihr =>
    obtain ⟨op, e⟩ := x
    intro a' v' hp er h
    simp only [pyFold] at hp
    obtain ⟨b, hb, hp⟩ := bind_ok_inv hp
    obtain ⟨c, hc, hp⟩ := bind_ok_inv hp
    simp only [mapRest] at h
    cases ht : onTerminal op with
    | error er' =>
      rw [ht] at h; cases h
      rw [onTerminal_err ht]; exact hR _ trivial
    | ok op' =>
      rw [ht] at h
      have hg := ih e b hb
      cases hf : f e with
      | error er' =>
        rw [hf] at h hg; cases h; exact hg
      | ok v =>
        rw [hf] at h
        cases hm : mapRest f rest with
        | error er' =>
          rw [hm] at h; cases h
          exact ihr c v' hp _ hm
        | ok vs => rw [hm] at h; cases h

/-- the fold over similar operands -/
theorem rest_ok : ∀ (rest : List (Str × Expr)) (a a' v' : V F) (xs : List (Str × V F)), Sim m a a' →
    pyFold m ops known venv a' rest = .ok v' → mapRest f rest = .ok xs → Good m R (opBinEach ops a xs) v' := by
  intro rest
  induction rest with
  | nil =>
    intro a a' v' xs hs hp h
    simp [mapRest] at h; subst h
    simp [pyFold] at hp; subst hp
    exact hs
  | cons x rest ihr =>
    obtain ⟨op, e⟩ := x
    intro a a' v' xs hs hp h
    simp only [pyFold] at hp
    obtain ⟨b, hb, hp2⟩ := bind_ok_inv hp
    obtain ⟨c, hc, hp3⟩ := bind_ok_inv hp2
    simp only [mapRest] at h
    obtain ⟨op', ht, h⟩ := bind_ok_inv h
    obtain ⟨v, hf, h⟩ := bind_ok_inv h
    obtain ⟨vs, hms, h⟩ := bind_ok_inv h
    cases h
    have := onTerminal_ok ht; subst this
    have hg := ih e b hb
    rw [hf] at hg
    have hst := step_good m ops hs hg hc
    simp only [opBinEach]
    cases hstep : step ops op' a v with
    | error er => rw [hstep] at hst; exact hR er hst
    | ok l' =>
      rw [hstep] at hst
      exact ihr l' c v' vs hst hp3 hms

omit hR in
/-- arguments -/
theorem args_err : ∀ (args : List Expr) (vs' : List (V F)), evalPyArgs m ops known venv (toPyArgs args) = .ok vs' →
    ∀ er, mapArgs f args = .error er → R er := by
  intro args
  induction args with
  | nil => intro vs' _ er h; simp [mapArgs] at h
  | cons e rest ihr =>
    intro vs' hp er h
    simp only [toPyArgs, evalPyArgs] at hp
    obtain ⟨b, hb, hp⟩ := bind_ok_inv hp
    obtain ⟨bs, hbs, hp⟩ := bind_ok_inv hp
    simp only [mapArgs] at h
    have hg := ih e b hb
    cases hf : f e with
    | error er' => rw [hf] at h hg; cases h; exact hg
    | ok v =>
      rw [hf] at h
      cases hm : mapArgs f rest with
      | error er' => rw [hm] at h; cases h; exact ihr bs hbs _ hm
      | ok vs => rw [hm] at h; cases h

omit hR in
theorem args_ok : ∀ (args : List Expr) (vs' vs : List (V F)), evalPyArgs m ops known venv (toPyArgs args) = .ok vs' →
    mapArgs f args = .ok vs → SimL m vs vs' := by
  intro args
  induction args with
  | nil =>
    intro vs' vs hp h
    simp [mapArgs] at h; simp [toPyArgs, evalPyArgs] at hp
    subst h; subst hp; exact SimL.nil
  | cons e rest ihr =>
    intro vs' vs hp h
    simp only [toPyArgs, evalPyArgs] at hp
    obtain ⟨b, hb, hp⟩ := bind_ok_inv hp
    obtain ⟨bs, hbs, hp⟩ := bind_ok_inv hp
    cases hp
    simp only [mapArgs] at h
    obtain ⟨v, hf, h⟩ := bind_ok_inv h
    obtain ⟨ws, hms, h⟩ := bind_ok_inv h
    cases h
    have hg := ih e b hb
    rw [hf] at hg
    exact SimL.cons hg (ihr bs ws hbs hms)
end



/-! ## environments -/

/-- `venv` (names bound so far, most recent first) is consistent with the folder's member table: every bound name is a member
    the folder finds under that key, and its binding is CPython's value of that member's expression under the names bound before it. -/
inductive Cons (m : Mode) (ops : FloatOps F) (env : Env) : VEnv F → Prop where
  | nil : Cons m ops env []
  | cons {venv : VEnv F} {key : Str} {e : Expr} : Cons m ops env venv → env.members.lookup key = some e →
      Cons m ops env ((key, evalPy m ops env.known venv (toPy e)) :: venv)

theorem Cons.lookup {m : Mode} {ops : FloatOps F} {env : Env} {venv : VEnv F} (hc : Cons m ops env venv) {key : Str}
    {r : Except PyExc (V F)} (h : venv.lookup key = some r) :
    ∃ e venv', Cons m ops env venv' ∧ env.members.lookup key = some e ∧ r = evalPy m ops env.known venv' (toPy e) := by
  induction hc with
  | nil => simp [List.lookup] at h
  | @cons venv k e hc' hk ih =>
    simp only [List.lookup] at h
    split at h
    · rename_i heq
      have : key = k := by simpa using heq
      subst this
      cases h
      exact ⟨e, venv, hc', hk, rfl⟩
    · exact ih h

theorem sound_core (m : Mode) (ops : FloatOps F) (env : Env) (R : Err → Prop)
    (hR : ∀ er, Refusal er → R er) (h4 : m.lowerHex = false → R (.fatal .valueError))
    (hE : m.noEsc = false → R (.fatal .valueError))
    (hts : ∀ x, (ops.toStr x).contains '\\' = false)
    (hparse : ∀ s, s.contains '\\' = true → ops.parse s = .error .valueError) :
    ∀ (fuel : Nat) (e : Expr) (venv : VEnv F) (v' : V F), Cons m ops env venv →
      evalPy m ops env.known venv (toPy e) = .ok v' → Good m R (execImpl ops env fuel e) v' := by
  intro fuel
  induction fuel with
  | zero =>
    intro e venv v' _ _
    simp only [execImpl, Good]
    exact hR _ rfl
  | succ fuel ih =>
    intro e venv v' hc hp
    cases e with
    | integer tok =>
      simp only [toPy, evalPy] at hp
      obtain ⟨n, hn, rfl⟩ := map_ok_inv' hp
      simp only [execImpl]
      exact int_good m R h4 hn
    | float tok =>
      simp only [toPy, evalPy] at hp
      obtain ⟨x, hx, rfl⟩ := map_ok_inv' hp
      simp [execImpl, onFloat, hx, liftPy, Except.map, Good]
      exact Sim.float x
    | string tok =>
      simp only [toPy, evalPy] at hp
      obtain ⟨c, hcs, rfl⟩ := map_ok_inv' hp
      simp only [execImpl]
      unfold pyStrLit at hcs
      split at hcs
      · rename_i body hcl
        split at hcs
        · cases hcs
        · rename_i hne
          split at hcs
          · cases hcs
            split
            · refine Sim.str (plain_quoted hcl) rfl ?_
              intro hm
              cases hb : body.contains '\\' with
              | false => rfl
              | true =>
                exfalso; apply hne
                simp only [hm, hb, Bool.and_self]
            · exact hR _ trivial
          · cases hcs
      · rename_i body hcl
        rw [triple_not_allowed hcl]
        exact hR _ trivial
      · cases hcs
    | factor op e =>
      simp only [toPy, evalPy] at hp
      obtain ⟨w, hw, hu⟩ := bind_ok_inv hp
      have hg := ih e venv w hc hw
      simp only [execImpl]
      by_cases hneg : op = ['-']
      · subst hneg
        have ht : onTerminal ['-'] = .ok ['-'] := by decide
        rw [ht]
        cases hx : execImpl ops env fuel e with
        | error er => rw [hx] at hg; exact hg
        | ok v =>
          rw [hx] at hg
          cases hg <;> simp [pyUnary] at hu <;> subst hu <;> simp [bind, Except.bind, onFactor, Good]
          · exact Sim.int _
          · exact Sim.float _
      · by_cases hpos : op = ['+']
        · subst hpos
          have ht : onTerminal ['+'] = .ok ['+'] := by decide
          rw [ht]
          cases hx : execImpl ops env fuel e with
          | error er => rw [hx] at hg; exact hg
          | ok v =>
            rw [hx] at hg
            cases hg <;> simp [pyUnary] at hu <;> subst hu <;> simp [bind, Except.bind, onFactor, Good]
            · exact Sim.int _
            · exact Sim.float _
        · by_cases hinv : op = ['~']
          · subst hinv
            have ht : onTerminal ['~'] = .error .notAllowed := by decide
            rw [ht]
            exact hR _ trivial
          · simp [pyUnary, hneg, hpos, hinv] at hu
    | chain handler first rest =>
      simp only [toPy] at hp
      rw [chain_eq] at hp
      obtain ⟨a', ha', hfold⟩ := bind_ok_inv hp
      simp only [execImpl]
      split
      · have hg := ih first venv a' hc ha'
        cases hx : execImpl ops env fuel first with
        | error er => rw [hx] at hg; exact hg
        | ok a =>
          rw [hx] at hg
          cases hm : mapRest (execImpl ops env fuel) rest with
          | error er =>
            exact rest_err m ops env.known venv R _ hR (fun e v' h => ih e venv v' hc h) rest a' v' hfold er hm
          | ok xs =>
            exact rest_ok m ops env.known venv R _ hR (fun e v' h => ih e venv v' hc h) rest a a' v' xs hg hfold hm
      · exact hR _ trivial
    | group e =>
      simp only [toPy] at hp
      simp only [execImpl]
      exact ih e venv v' hc hp
    | call fn args =>
      simp only [toPy, evalPy] at hp
      split at hp
      · cases hp
      · rename_i hk
        obtain ⟨vs', hvs, hcall⟩ := bind_ok_inv hp
        simp only [execImpl, hk]
        cases hm : mapArgs (execImpl ops env fuel) args with
        | error er =>
          exact args_err m ops env.known venv R _ (fun e v' h => ih e venv v' hc h) args vs' hvs er hm
        | ok vs =>
          have hs := args_ok m ops env.known venv R _ (fun e v' h => ih e venv v' hc h) args vs' vs hvs hm
          exact call_good m ops R hR hE hts hparse hs hcall
    | var key tyErr =>
      simp only [toPy, evalPy] at hp
      simp only [execImpl]
      cases tyErr with
      | some te => exact hR _ (tyErr_refusal te)
      | none =>
        cases hl : venv.lookup key with
        | none =>
          rw [hl] at hp
          simp only at hp
          split at hp <;> cases hp
        | some r =>
          rw [hl] at hp
          simp only at hp
          obtain ⟨e', venv', hc', hmem, hr⟩ := hc.lookup hl
          simp only [hmem]
          exact ih e' venv' v' hc' (hr ▸ hp)
    | value enum key tyErr =>
      simp only [toPy, evalPy] at hp
      simp only [execImpl]
      split at hp
      · cases hp
      · rename_i hk
        simp only [hk]
        cases tyErr with
        | some te => exact hR _ (tyErr_refusal te)
        | none =>
          cases hl : venv.lookup key with
          | none => rw [hl] at hp; cases hp
          | some r =>
            rw [hl] at hp
            simp only at hp
            obtain ⟨e', venv', hc', hmem, hr⟩ := hc.lookup hl
            simp only [hmem]
            exact ih e' venv' v' hc' (hr ▸ hp)

/-! ## executing the class bodies -/

theorem lookup_of_mem_nodup {α : Type} {l : List (Str × α)} (hnd : (l.map Prod.fst).Nodup) {k : Str} {e : α}
    (h : (k, e) ∈ l) : l.lookup k = some e := by
  induction l with
  | nil => cases h
  | cons x xs ih =>
    obtain ⟨k0, e0⟩ := x
    simp only [List.map_cons, List.nodup_cons] at hnd
    simp only [List.lookup]
    cases h with
    | head => simp
    | tail _ hmem =>
      have hne : k ≠ k0 := by
        intro heq
        subst heq
        exact hnd.1 (List.mem_map.mpr ⟨(k, e), hmem, rfl⟩)
      have : (k == k0) = false := by simpa using hne
      rw [this]
      exact ih hnd.2 hmem

theorem cons_bindAll (m : Mode) (ops : FloatOps F) (env : Env) :
    ∀ (l : List (Str × Expr)) (acc : VEnv F), Cons m ops env acc → (∀ k e, (k, e) ∈ l → env.members.lookup k = some e) →
      Cons m ops env (bindAll m ops env.known acc l) := by
  intro l
  induction l with
  | nil => intro acc hc _; exact hc
  | cons x xs ih =>
    obtain ⟨k, e⟩ := x
    intro acc hc hmem
    simp only [bindAll]
    exact ih _ (Cons.cons hc (hmem k e (List.mem_cons_self ..))) (fun k' e' h => hmem k' e' (List.mem_cons_of_mem _ h))

end Tranp.Evaluator
