/-
  Helper lemmas for property C02: reading the lark-shaped tree of an operator term (`toAst ∘ toLark`) gives CPython's
  reading of that term (`astOf`) — the "chain / left-nest" lemma — and the composition with the `Prec` round trip.
-/
import Tranp.Model.Ladder
import Tranp.Lemmas.Prec

namespace Tranp.Ladder
open Tranp Tranp.Prec

/-- a subtree that `toAst` leaves opaque -/
def isLeafTree : LarkTree → Bool
  | .tree name _ => kindOfName name == .leaf
  | _ => true

/-- the finite facts about a concrete ladder that the folding lemma needs (all decidable over the vocabulary `S`) -/
structure Facts (I : Info) (S : List Head) : Prop where
  atoms : ∀ n, isLeafTree (I.atomTree n) = true
  pyKindOk : ∀ o, Head.bin o ∈ S → pyKind o = .arith ∨ pyKind o = .compare ∨ pyKind o = .bool o
  binKind : ∀ o, Head.bin o ∈ S → kindOfName (I.binName o) = pyKind o
  preKind : ∀ o, Head.pre o ∈ S → kindOfName (I.preName o) = .unary
  sameRule : ∀ o o', Head.bin o ∈ S → Head.bin o' ∈ S → (decide (I.binName o' = I.binName o)) = sameLevel o' o
  binOpLeaf : ∀ o, Head.bin o ∈ S → isLeafTree (I.binOpTree o) = true
  binOpCode : ∀ o, Head.bin o ∈ S → opOfTree (I.binOpTree o) = some o
  preOpCode : ∀ o, Head.pre o ∈ S → opOfTree (I.preOpTree o) = some o

theorem toAst_of_isLeafTree (t : LarkTree) (h : isLeafTree t = true) : toAst t = .leaf t := by
  cases t with
  | tree name cs =>
    simp only [isLeafTree, beq_iff_eq] at h
    simp only [toAst, build, h]
  | token t v => simp only [toAst]
  | empty => simp only [toAst]

theorem toAstList_append (xs ys : List LarkTree) : toAstList (xs ++ ys) = toAstList xs ++ toAstList ys := by
  induction xs with
  | nil => simp [toAstList]
  | cons x xs ih => simp [toAstList, ih]

def foldArith : List PyAst → PyAst
  | x :: rest => goArith x rest
  | [] => .bad

def foldBool : List PyAst → Option (List PyAst)
  | x :: rest => goBool [x] rest
  | [] => none

def foldCmp : List PyAst → Option (PyAst × List Nat × List PyAst)
  | x :: rest => (goCmp [] [] rest).map fun p => (x, p.1, p.2)
  | [] => none

theorem build_arith {name : Str} (h : kindOfName name = .arith) (orig : LarkTree) (xs : List PyAst) :
    build name orig xs = foldArith xs := by
  cases xs <;> simp [build, h, foldArith]

theorem build_bool {name : Str} {b : Nat} (h : kindOfName name = .bool b) (orig : LarkTree) (xs : List PyAst) :
    build name orig xs = match foldBool xs with
      | some vs => .boolOp b vs
      | none => .bad := by
  cases xs with
  | nil => simp [build, h, foldBool]
  | cons x rest =>
    simp only [build, h, foldBool]
    cases goBool [x] rest <;> rfl

theorem build_cmp {name : Str} (h : kindOfName name = .compare) (orig : LarkTree) (xs : List PyAst) :
    build name orig xs = match foldCmp xs with
      | some (x, ops, cs) => .compare x ops cs
      | none => .bad := by
  cases xs with
  | nil => simp [build, h, foldCmp]
  | cons x rest =>
    simp only [build, h, foldCmp]
    cases goCmp [] [] rest with
    | none => rfl
    | some p => rfl

theorem pyKind_bool {o b : Nat} (h : pyKind o = .bool b) : b = o := by
  unfold pyKind at h
  split at h <;> simp_all

theorem pyKind_compare_iff (o : Nat) : pyKind o = .compare ↔ pyTable.ops.bin o = some 3 := by
  unfold pyKind
  constructor
  · intro h
    split at h <;> simp_all
  · intro h
    simp [h]

theorem sameLevel_compare {o o' : Nat} (h : pyKind o = .compare) :
    sameLevel o' o = true ↔ pyKind o' = .compare := by
  rw [pyKind_compare_iff] at h
  rw [pyKind_compare_iff]
  simp [sameLevel, h]

theorem sameLevel_refl (o : Nat) : sameLevel o o = true := by simp [sameLevel]

/-! ### one-step unfoldings -/

theorem toLark_bin (I : Info) (o l r) :
    toLark I (.bin o l r) = .tree (I.binName o) (chain I (I.binName o) l ++ [I.binOpTree o, toLark I r]) := by
  simp only [toLark]
theorem toLark_pre (I : Info) (o e) : toLark I (.pre o e) = .tree (I.preName o) [I.preOpTree o, toLark I e] := by
  simp only [toLark]
theorem toLark_paren (I : Info) (e) :
    toLark I (.paren e) = .tree ['g','r','o','u','p','_','e','x','p','r'] [toLark I e] := by
  simp only [toLark]
theorem toLark_atom (I : Info) (n) : toLark I (.atom n) = I.atomTree n := by simp only [toLark]

theorem chain_bin (I : Info) (name o l r) :
    chain I name (.bin o l r) =
      if I.binName o = name then chain I name l ++ [I.binOpTree o, toLark I r] else [toLark I (.bin o l r)] := by
  simp only [chain, toLark]
theorem chain_pre (I : Info) (name o e) : chain I name (.pre o e) = [toLark I (.pre o e)] := by
  simp only [chain, toLark]
theorem chain_paren (I : Info) (name e) : chain I name (.paren e) = [toLark I (.paren e)] := by
  simp only [chain, toLark]
theorem chain_atom (I : Info) (name n) : chain I name (.atom n) = [toLark I (.atom n)] := by
  simp only [chain, toLark]

theorem astOf_bin (a : Nat → LarkTree) (o l r) :
    astOf a (.bin o l r) = match pyKind o with
      | .bool _ => .boolOp o (boolOperands a o l ++ [astOf a r])
      | .compare => .compare (cmpParts a l).1 ((cmpParts a l).2.1 ++ [o]) ((cmpParts a l).2.2 ++ [astOf a r])
      | _ => .binOp o (astOf a l) (astOf a r) := by
  simp only [astOf]
  cases pyKind o <;> rfl

theorem boolOperands_bin (a : Nat → LarkTree) (o o' l r) :
    boolOperands a o (.bin o' l r) =
      if sameLevel o' o then boolOperands a o l ++ [astOf a r] else [astOf a (.bin o' l r)] := by
  simp only [boolOperands, astOf]
theorem boolOperands_other (a : Nat → LarkTree) (o e) (h : ∀ o' l r, e ≠ .bin o' l r) :
    boolOperands a o e = [astOf a e] := by
  cases e with
  | bin o' l r => exact absurd rfl (h o' l r)
  | atom n => simp only [boolOperands, astOf]
  | paren e => simp only [boolOperands, astOf]
  | pre o' e => simp only [boolOperands, astOf]

theorem cmpParts_bin (a : Nat → LarkTree) (o' l r) :
    cmpParts a (.bin o' l r) =
      if pyKind o' = .compare then
        ((cmpParts a l).1, (cmpParts a l).2.1 ++ [o'], (cmpParts a l).2.2 ++ [astOf a r])
      else (astOf a (.bin o' l r), [], []) := by
  simp only [cmpParts, astOf]
  cases pyKind o' <;> simp
theorem cmpParts_other (a : Nat → LarkTree) (e) (h : ∀ o' l r, e ≠ .bin o' l r) :
    cmpParts a e = (astOf a e, [], []) := by
  cases e with
  | bin o' l r => exact absurd rfl (h o' l r)
  | atom n => simp only [cmpParts, astOf]
  | paren e => simp only [cmpParts, astOf]
  | pre o' e => simp only [cmpParts, astOf]

/-! ### the folding lemma -/

/-- the statements proved together by induction on the term -/
structure Folds (I : Info) (S : List Head) (e : Expr) : Prop where
  main : toAst (toLark I e) = astOf I.atomTree e
  arith : ∀ name tail, kindOfName name = .arith →
    foldArith (toAstList (chain I name e) ++ tail) = goArith (astOf I.atomTree e) tail
  bool : ∀ o₀ tail, Head.bin o₀ ∈ S →
    foldBool (toAstList (chain I (I.binName o₀) e) ++ tail) = goBool (boolOperands I.atomTree o₀ e) tail
  cmp : ∀ o₀ tail, Head.bin o₀ ∈ S → pyKind o₀ = .compare →
    foldCmp (toAstList (chain I (I.binName o₀) e) ++ tail) =
      (goCmp (cmpParts I.atomTree e).2.1 (cmpParts I.atomTree e).2.2 tail).map
        fun p => ((cmpParts I.atomTree e).1, p.1, p.2)

/-- the three chain statements for a term that starts no chain of its own -/
theorem folds_of_single (I : Info) (S : List Head) (e : Expr)
    (hmain : toAst (toLark I e) = astOf I.atomTree e)
    (hchain : ∀ name, chain I name e = [toLark I e])
    (hnb : ∀ o' l r, e ≠ .bin o' l r) : Folds I S e := by
  refine ⟨hmain, ?_, ?_, ?_⟩
  · intro name tail _
    simp [hchain, toAstList, hmain, foldArith]
  · intro o₀ tail _
    simp [hchain, toAstList, hmain, foldBool, boolOperands_other _ _ _ hnb]
  · intro o₀ tail _ _
    simp [hchain, toAstList, hmain, foldCmp, cmpParts_other _ _ hnb]

theorem folds (I : Info) (S : List Head) (F : Facts I S) :
    ∀ e : Expr, (∀ h ∈ heads e, h ∈ S) → Folds I S e := by
  intro e
  induction e with
  | atom n =>
    intro _
    exact folds_of_single I S _ (by rw [toLark_atom]; simp only [astOf]; exact toAst_of_isLeafTree _ (F.atoms n))
      (fun name => chain_atom I name n) (by intro _ _ _ h; cases h)
  | paren e ih =>
    intro hv
    have ihe := ih (by simpa [heads] using hv)
    refine folds_of_single I S _ ?_ (fun name => chain_paren I name e) (by intro _ _ _ h; cases h)
    rw [toLark_paren]
    simp only [toAst, toAstList, astOf, ihe.main]
    simp [build, kindOfName]
  | pre o e ih =>
    intro hv
    have ho : Head.pre o ∈ S := hv _ (by simp [heads])
    have ihe := ih (fun h hh => hv h (by simp [heads, hh]))
    refine folds_of_single I S _ ?_ (fun name => chain_pre I name o e) (by intro _ _ _ h; cases h)
    rw [toLark_pre]
    simp only [toAst, toAstList, astOf, ihe.main]
    have : toAst (I.preOpTree o) = .leaf (I.preOpTree o) := by simp [Info.preOpTree, anonTok, toAst]
    rw [this]
    simp [build, F.preKind o ho, F.preOpCode o ho]
  | bin o l r ihl ihr =>
    intro hv
    have ho : Head.bin o ∈ S := hv _ (by simp [heads])
    have hl := ihl (fun h hh => hv h (by simp [heads, hh]))
    have hr := ihr (fun h hh => hv h (by simp [heads, hh]))
    have hopl : toAst (I.binOpTree o) = .leaf (I.binOpTree o) := toAst_of_isLeafTree _ (F.binOpLeaf o ho)
    have hcode := F.binOpCode o ho
    have hkind := F.binKind o ho
    -- the converted children of the node's own chain
    have hkids : toAstList (chain I (I.binName o) l ++ [I.binOpTree o, toLark I r]) =
        toAstList (chain I (I.binName o) l) ++ [.leaf (I.binOpTree o), astOf I.atomTree r] := by
      rw [toAstList_append]; simp [toAstList, hopl, hr.main]
    have hmain : toAst (toLark I (.bin o l r)) = astOf I.atomTree (.bin o l r) := by
      rw [toLark_bin, astOf_bin]
      simp only [toAst]
      rw [hkids]
      rcases F.pyKindOk o ho with hk | hk | hk
      · rw [build_arith (hkind.trans hk), hl.arith _ _ (hkind.trans hk), hk]
        simp [goArith, hcode]
      · rw [build_cmp (hkind.trans hk), hl.cmp o _ ho hk, hk]
        simp [goCmp, hcode]
      · rw [build_bool (hkind.trans hk), hl.bool o _ ho, hk]
        simp [goBool]
    refine ⟨hmain, ?_, ?_, ?_⟩
    · intro name tail hname
      rw [chain_bin]
      split
      · next heq =>
        have hk : pyKind o = .arith := by rw [← hkind, heq, hname]
        rw [toAstList_append, List.append_assoc, hl.arith name _ hname, astOf_bin, hk]
        simp [toAstList, hopl, hr.main, goArith, hcode]
      · simp [toAstList, hmain, foldArith]
    · intro o₀ tail ho₀
      rw [chain_bin, boolOperands_bin]
      have hs := F.sameRule o₀ o ho₀ ho
      by_cases heq : I.binName o = I.binName o₀
      · have hsl : sameLevel o o₀ = true := by rw [← hs]; simp [heq]
        simp only [heq, if_true, hsl]
        rw [toAstList_append, List.append_assoc, hl.bool o₀ _ ho₀]
        simp [toAstList, hopl, hr.main, goBool]
      · have hsl : sameLevel o o₀ = false := by rw [← hs]; simp [heq]
        simp [heq, hsl, toAstList, hmain, foldBool]
    · intro o₀ tail ho₀ hk₀
      rw [chain_bin, cmpParts_bin]
      have hs := F.sameRule o₀ o ho₀ ho
      by_cases heq : I.binName o = I.binName o₀
      · have hsl : sameLevel o o₀ = true := by rw [← hs]; simp [heq]
        have hk : pyKind o = .compare := (sameLevel_compare hk₀).mp hsl
        simp only [heq, if_true, hk]
        rw [toAstList_append, List.append_assoc, hl.cmp o₀ _ ho₀ hk₀]
        simp [toAstList, hopl, hr.main, goCmp, hcode]
      · have hsl : sameLevel o o₀ = false := by rw [← hs]; simp [heq]
        have hk : ¬ pyKind o = .compare := by
          intro hk
          have := (sameLevel_compare hk₀).mpr hk
          rw [hsl] at this; cases this
        simp [heq, hk, toAstList, hmain, foldCmp]

/-- **Chain / left-nest lemma**: reading lark's flat chains the way CPython's `ast` folds them gives CPython's reading of
    the operator term itself. -/
theorem toAst_toLark (I : Info) (S : List Head) (F : Facts I S) (e : Expr) (hv : ∀ h ∈ heads e, h ∈ S) :
    toAst (toLark I e) = astOf I.atomTree e :=
  (folds I S F e hv).main

/-! ### parentheses added by `normalize` do not change CPython's reading -/

theorem heads_wrapIf (b : Bool) (e : Expr) : heads (wrapIf b e) = heads e := by
  cases b <;> simp [wrapIf, heads]

theorem heads_normalize (L : Ops) (e : Expr) : heads (normalize L e) = heads e := by
  induction e with
  | atom n => rfl
  | paren e ih => simpa [normalize, heads] using ih
  | bin o l r ihl ihr => simp [normalize, heads, heads_wrapIf, ihl, ihr]
  | pre o e ih => simp [normalize, heads, heads_wrapIf, ih]

abbrev pyOps : Ops := pyTable.ops

theorem astOf_wrapIf (a : Nat → LarkTree) (b : Bool) (e : Expr) : astOf a (wrapIf b e) = astOf a e := by
  cases b <;> simp [wrapIf, astOf]

/-- a left operand that `pyTable` wants parenthesised is on a strictly looser level than its parent -/
theorem left_wrapped_level {o o' : Nat} (h : slotOk pyOps (.bin o) .left (.bin o') = false)
    {k k' : Nat} (ho : pyOps.bin o = some k) (ho' : pyOps.bin o' = some k') : k' < k := by
  simp [slotOk, ho, okL, ho'] at h
  exact h

theorem boolOperands_paren (a : Nat → LarkTree) (o : Nat) (e : Expr) :
    boolOperands a o (.paren e) = [astOf a e] := by simp only [boolOperands]

theorem cmpParts_paren (a : Nat → LarkTree) (e : Expr) :
    cmpParts a (.paren e) = (astOf a e, [], []) := by simp only [cmpParts]

structure NormInv (a : Nat → LarkTree) (e : Expr) : Prop where
  main : astOf a (normalize pyOps e) = astOf a e
  bool : ∀ o, boolOperands a o (normalize pyOps e) = boolOperands a o e
  cmp : cmpParts a (normalize pyOps e) = cmpParts a e

theorem normInv_of_single (a : Nat → LarkTree) (e : Expr) (hmain : astOf a (normalize pyOps e) = astOf a e)
    (hnb : ∀ o' l r, e ≠ .bin o' l r) (hnb' : ∀ o' l r, normalize pyOps e ≠ .bin o' l r) : NormInv a e :=
  ⟨hmain, fun o => by rw [boolOperands_other _ _ _ hnb, boolOperands_other _ _ _ hnb', hmain],
    by rw [cmpParts_other _ _ hnb, cmpParts_other _ _ hnb', hmain]⟩

theorem normInv (a : Nat → LarkTree) : ∀ e : Expr, known pyOps e = true → NormInv a e := by
  intro e
  induction e with
  | atom n => intro _; exact ⟨rfl, fun _ => rfl, rfl⟩
  | paren e ih =>
    intro hk
    have h := ih (by simpa [known] using hk)
    exact normInv_of_single a _ (by simp only [normalize, astOf, h.main])
      (by intro _ _ _ h; cases h) (by intro _ _ _ h; simp [normalize] at h)
  | pre o e ih =>
    intro hk
    simp only [known, Bool.and_eq_true] at hk
    have h := ih hk.2
    exact normInv_of_single a _ (by simp only [normalize, astOf, astOf_wrapIf, h.main])
      (by intro _ _ _ h; cases h) (by intro _ _ _ h; simp [normalize] at h)
  | bin o l r ihl ihr =>
    intro hk
    simp only [known, Bool.and_eq_true, Option.isSome_iff_exists] at hk
    obtain ⟨⟨⟨k, hok⟩, hkl⟩, hkr⟩ := hk
    have hl := ihl hkl
    have hr := ihr hkr
    -- the (possibly wrapped) left operand contributes the same operands / comparison parts to any chain on o's level
    have hboolL : ∀ o₁, sameLevel o o₁ = true →
        boolOperands a o₁ (wrapIf (slotOk pyOps (.bin o) .left (head l)) (normalize pyOps l)) = boolOperands a o₁ l := by
      intro o₁ hs
      cases hsl : slotOk pyOps (.bin o) .left (head l) with
      | true => simpa [wrapIf] using hl.bool o₁
      | false =>
        simp only [wrapIf, Bool.false_eq_true, if_false, boolOperands_paren, hl.main]
        cases l with
        | bin o' l' r' =>
          simp only [known, Bool.and_eq_true, Option.isSome_iff_exists] at hkl
          obtain ⟨⟨⟨k', hok'⟩, _⟩, _⟩ := hkl
          have hlt := left_wrapped_level (by simpa [head] using hsl) hok hok'
          have : sameLevel o' o₁ = false := by
            simp only [sameLevel, beq_iff_eq] at hs
            simp only [sameLevel, ← hs, hok, hok']
            simp; omega
          rw [boolOperands_bin, this]; simp
        | atom n => simp only [boolOperands, astOf]
        | paren e => simp only [boolOperands, astOf]
        | pre o' e => simp only [boolOperands, astOf]
    have hcmpL : pyKind o = .compare →
        cmpParts a (wrapIf (slotOk pyOps (.bin o) .left (head l)) (normalize pyOps l)) = cmpParts a l := by
      intro hkc
      cases hsl : slotOk pyOps (.bin o) .left (head l) with
      | true => simpa [wrapIf] using hl.cmp
      | false =>
        simp only [wrapIf, Bool.false_eq_true, if_false, cmpParts_paren, hl.main]
        cases l with
        | bin o' l' r' =>
          simp only [known, Bool.and_eq_true, Option.isSome_iff_exists] at hkl
          obtain ⟨⟨⟨k', hok'⟩, _⟩, _⟩ := hkl
          have hlt := left_wrapped_level (by simpa [head] using hsl) hok hok'
          have hk3 : k = 3 := by
            have := (pyKind_compare_iff o).mp hkc
            rw [hok] at this; exact Option.some.inj this
          have : ¬ pyKind o' = .compare := by
            intro hc
            have := (pyKind_compare_iff o').mp hc
            rw [hok'] at this
            have := Option.some.inj this
            omega
          rw [cmpParts_bin]; simp [this]
        | atom n => simp only [cmpParts, astOf]
        | paren e => simp only [cmpParts, astOf]
        | pre o' e => simp only [cmpParts, astOf]
    have hmain : astOf a (normalize pyOps (.bin o l r)) = astOf a (.bin o l r) := by
      simp only [normalize]
      rw [astOf_bin, astOf_bin]
      cases hkd : pyKind o with
      | bool b => simp only [hboolL o (sameLevel_refl o), astOf_wrapIf, hr.main]
      | compare => simp only [hcmpL hkd, astOf_wrapIf, hr.main]
      | leaf => simp only [astOf_wrapIf, hl.main, hr.main]
      | group => simp only [astOf_wrapIf, hl.main, hr.main]
      | unary => simp only [astOf_wrapIf, hl.main, hr.main]
      | arith => simp only [astOf_wrapIf, hl.main, hr.main]
      | ifexp => simp only [astOf_wrapIf, hl.main, hr.main]
      | lambda => simp only [astOf_wrapIf, hl.main, hr.main]
    refine ⟨hmain, ?_, ?_⟩
    · intro o₁
      have hn : normalize pyOps (.bin o l r) = .bin o (wrapIf (slotOk pyOps (.bin o) .left (head l)) (normalize pyOps l))
          (wrapIf (slotOk pyOps (.bin o) .right (head r)) (normalize pyOps r)) := by simp only [normalize]
      rw [boolOperands_bin]
      conv => lhs; rw [hn, boolOperands_bin]
      cases hs : sameLevel o o₁ with
      | true => simp only [if_true, hboolL o₁ hs, astOf_wrapIf, hr.main]
      | false => simp only [Bool.false_eq_true, if_false, ← hn, hmain]
    · have hn : normalize pyOps (.bin o l r) = .bin o (wrapIf (slotOk pyOps (.bin o) .left (head l)) (normalize pyOps l))
          (wrapIf (slotOk pyOps (.bin o) .right (head r)) (normalize pyOps r)) := by simp only [normalize]
      rw [cmpParts_bin]
      conv => lhs; rw [hn, cmpParts_bin]
      by_cases hkc : pyKind o = .compare
      · simp only [hkc, if_true, hcmpL hkc, astOf_wrapIf, hr.main]
      · simp only [hkc, if_false, ← hn, hmain]

/-- parentheses that `pyTable` adds do not change CPython's reading -/
theorem astOf_normalize (a : Nat → LarkTree) (e : Expr) (hk : known pyOps e = true) :
    astOf a (normalize pyOps e) = astOf a e :=
  (normInv a e hk).main

/-- **Grouping theorem, generic form**: over a vocabulary `S` on which the ladder's table lets every slot stay bare that
    CPython's table does, and for which the finite `Facts` hold, the reference parser reads the CPython-minimal text of
    any term `e` (with any additional parentheses `e` carries) into a tree whose CPython-style reading is `astOf e`. -/
theorem rdParseP_printMin (I : Info) (S : List Head) (F : Facts I S)
    (hc : tablesCompat pyOps (ladderTable I.ladder).ops S = true)
    (e : Expr) (hv : ∀ h ∈ heads e, h ∈ S) (hk : known pyOps e = true) :
    (rdParseP I (printMin pyOps e)).map toAst = some (astOf I.atomTree e) := by
  have hn : nf pyOps (normalize pyOps e) = true := nf_normalize pyOps e hk
  have hv' : ∀ h ∈ heads (normalize pyOps e), h ∈ S := by rw [heads_normalize]; exact hv
  have hp : parse (ladderTable I.ladder).ops (printMin pyOps e) = some (normalize pyOps e) :=
    parse_print_of_tablesCompat pyOps _ S hc _ hv' hn
  simp only [rdParseP, hp, Option.map_some]
  rw [toAst_toLark I S F _ hv', astOf_normalize _ _ hk]

/-! ### the finite facts as one decidable check -/

def kindOk (o : Nat) : Bool := pyKind o == .arith || pyKind o == .compare || pyKind o == .bool o

/-- everything `Facts` asks of a ladder (except the atoms), as a Boolean over the vocabulary -/
def factsCheck (ladder : List Rule) (compOps : List CompOp) (S : List Head) : Bool :=
  let I : Info := ⟨ladder, compOps, fun _ => .empty⟩
  S.all fun h =>
    match h with
    | .bin o =>
      kindOk o && kindOfName (I.binName o) == pyKind o && isLeafTree (I.binOpTree o) && opOfTree (I.binOpTree o) == some o
        && S.all fun h' =>
          match h' with
          | .bin o' => (decide (I.binName o = I.binName o')) == sameLevel o o'
          | _ => true
    | .pre o => kindOfName (I.preName o) == .unary && opOfTree (I.preOpTree o) == some o
    | .leaf => true

theorem facts_of_check (ladder : List Rule) (compOps : List CompOp) (S : List Head)
    (h : factsCheck ladder compOps S = true) (a : Nat → LarkTree) (ha : ∀ n, isLeafTree (a n) = true) :
    Facts ⟨ladder, compOps, a⟩ S := by
  simp only [factsCheck, List.all_eq_true] at h
  have hb : ∀ o, Head.bin o ∈ S → _ := fun o ho => h (.bin o) ho
  have hp : ∀ o, Head.pre o ∈ S → _ := fun o ho => h (.pre o) ho
  simp only [Bool.and_eq_true, beq_iff_eq, List.all_eq_true] at hb hp
  refine ⟨ha, ?_, ?_, ?_, ?_, ?_, ?_, ?_⟩
  · intro o ho
    have := (hb o ho).1.1.1.1
    simp only [kindOk, Bool.or_eq_true, beq_iff_eq] at this
    rcases this with (h1 | h1) | h1
    · exact Or.inl h1
    · exact Or.inr (Or.inl h1)
    · exact Or.inr (Or.inr h1)
  · intro o ho; exact (hb o ho).1.1.1.2
  · intro o ho; exact (hp o ho).1
  · intro o o' ho ho'
    have := (hb o' ho').2 (.bin o) ho
    simp only [beq_iff_eq] at this
    exact this
  · intro o ho; exact (hb o ho).1.1.2
  · intro o ho; exact (hb o ho).1.2
  · intro o ho; exact (hp o ho).2

end Tranp.Ladder
