/-
  Helper lemmas for the second part of C07 (termination of the marking walks, stack trace builder).
-/
import Tranp.Model.ErrorsRun
import Tranp.Lemmas.Errors

namespace Tranp.Errors
open Tranp Tranp.Generated.ErrorsTable

/-! ### marking walks -/

section Visit
variable {α : Type} [DecidableEq α] (next : List α → α → List α)

/-- a fold of terminating walks terminates and never grows the remaining set -/
theorem visit_fold (f : Nat)
    (ih : ∀ (rem trace : List α) (p : α), rem.length < f → ∃ r, visit next f (rem, trace) p = some r ∧ r.1.length ≤ rem.length) :
    ∀ (qs : List α) (st : List α × List α), st.1.length < f →
      ∃ r, qs.foldlM (fun st q => visit next f st q) st = some r ∧ r.1.length ≤ st.1.length := by
  intro qs
  induction qs with
  | nil => intro st _; exact ⟨st, rfl, Nat.le_refl _⟩
  | cons q qs ihq =>
    intro st hst
    obtain ⟨r, hr, hle⟩ := ih st.1 st.2 q hst
    obtain ⟨r', hr', hle'⟩ := ihq r (Nat.lt_of_le_of_lt hle hst)
    refine ⟨r', ?_, Nat.le_trans hle' hle⟩
    simp only [List.foldlM_cons]
    have : visit next f st q = some r := hr
    rw [this]
    exact hr'

/-- With more fuel than remaining elements the walk terminates — whatever `next` is (cycles included): every step that recurses has
    taken an element out of the remaining set first. -/
theorem visit_terminates : ∀ (fuel : Nat) (rem trace : List α) (p : α), rem.length < fuel →
    ∃ r, visit next fuel (rem, trace) p = some r ∧ r.1.length ≤ rem.length := by
  intro fuel
  induction fuel with
  | zero => intro rem _ _ h; exact absurd h (Nat.not_lt_zero _)
  | succ f ih =>
    intro rem trace p h
    unfold visit
    by_cases hp : p ∈ rem
    · simp only [hp, if_true]
      have hlen : (rem.erase p).length = rem.length - 1 := List.length_erase_of_mem hp
      have hpos : 0 < rem.length := List.length_pos_of_mem hp
      have hlt : (rem.erase p).length < f := by omega
      obtain ⟨r, hr, hle⟩ := visit_fold next f ih (next (rem.erase p) p) (rem.erase p, trace ++ [p]) hlt
      exact ⟨r, hr, by simp only at hle; omega⟩
    · simp only [hp, if_false]
      exact ⟨(rem, trace), rfl, Nat.le_refl _⟩

/-- The seeded order (recurse first, take afterwards) never terminates on an element that names itself: no fuel is enough. -/
theorem cascadeFirst_diverges (a : α) (hself : next [a] a = [a]) :
    ∀ (fuel : Nat) (trace : List α), visitCascadeFirst next fuel ([a], trace) a = none := by
  intro fuel
  induction fuel with
  | zero => intro _; rfl
  | succ f ih =>
    intro trace
    unfold visitCascadeFirst
    simp only [List.mem_singleton, if_true, hself, List.foldlM_cons, ih trace]
    rfl

end Visit

/-! ### stack trace builder -/

theorem splitOn_length_of_mem (d : Char) : ∀ (s : Str), d ∈ s → 2 ≤ (Str.splitOn d s).length
  | [], h => by cases h
  | c :: cs, h => by
    unfold Str.splitOn
    by_cases hc : c = d
    · simp only [hc, if_true, List.length_cons]
      have : 1 ≤ (Str.splitOn d cs).length := by
        cases cs with
        | nil => simp [Str.splitOn]
        | cons x xs =>
          unfold Str.splitOn
          split
          · simp
          · split <;> simp
      omega
    · simp only [hc, if_false]
      have hmem : d ∈ cs := by
        cases List.mem_cons.mp h with
        | inl h1 => exact absurd h1.symm hc
        | inr h2 => exact h2
      have ih := splitOn_length_of_mem d cs hmem
      split
      · rename_i heq; rw [heq] at ih; simp at ih
      · rename_i p ps heq; rw [heq] at ih; simpa using ih

theorem pyIndex_mem {α : Type} (xs : List α) (i : Int) (v : α) (h : pyIndex xs i = .ok v) : v ∈ xs := by
  unfold pyIndex at h
  split at h
  · cases h
  · split at h
    · rename_i w hw
      cases h
      exact List.mem_of_getElem? hw
    · cases h

/-- `traces[i].split('\n')[1].strip()` is defined when `i` is a valid index and every entry has a line feed -/
theorem secondLine_ok (traces : List Str) (hnl : ∀ t ∈ traces, '\n' ∈ t) (i : Int)
    (hi : -(traces.length : Int) ≤ i ∧ i < traces.length) : ∃ l, secondLine traces i = .ok l := by
  unfold secondLine
  obtain ⟨t, ht⟩ := (pyIndex_ok_iff traces i).mpr hi
  rw [ht]
  simp only
  have hlen := splitOn_length_of_mem '\n' t (hnl t (pyIndex_mem traces i t ht))
  obtain ⟨l, hl⟩ := (pyIndex_ok_iff (Str.splitOn '\n' t) 1).mpr (by omega)
  rw [hl]
  exact ⟨_, rfl⟩

theorem stackLoop_ok (rootDir : Str) (traces : List Str) (hnl : ∀ t ∈ traces, '\n' ∈ t) (_h2 : 2 ≤ traces.length) :
    ∀ (es : List TraceEntry) (i : Nat), i + es.length = traces.length → ∃ ls, stackLoop rootDir traces i es = .ok ls := by
  intro es
  induction es with
  | nil => intro i _; exact ⟨[], rfl⟩
  | cons e es ih =>
    intro i hi
    simp only [List.length_cons] at hi
    obtain ⟨rest, hrest⟩ := ih (i + 1) (by omega)
    unfold stackLoop
    have hentry : ∃ ls, stackEntry rootDir traces i e = .ok ls := by
      unfold stackEntry
      split
      · rename_i hc
        obtain ⟨w, hw⟩ := secondLine_ok traces hnl ((i : Int) - 3) (by omega)
        obtain ⟨t, ht⟩ := (pyIndex_ok_iff traces ((i : Int) - 2)).mpr (by omega)
        rw [hw, ht]
        exact ⟨_, rfl⟩
      · split
        · exact ⟨_, rfl⟩
        · exact ⟨_, rfl⟩
    obtain ⟨ls, hls⟩ := hentry
    rw [hls, hrest]
    exact ⟨_, rfl⟩


/-! ### the full loader (library phase before registration) -/

/-- number of modules of the universe that are not registered -/
def unreg (univ reg : List Str) : Nat := (univ.filter (fun q => decide (q ∉ reg))).length

theorem unreg_cons (u : Str) (us reg : List Str) :
    unreg (u :: us) reg = (if u ∈ reg then 0 else 1) + unreg us reg := by
  unfold unreg
  by_cases hu : u ∈ reg
  · simp [hu]
  · simp [hu]; omega

theorem unreg_mono (univ reg reg' : List Str) (h : ∀ x ∈ reg, x ∈ reg') : unreg univ reg' ≤ unreg univ reg := by
  induction univ with
  | nil => simp [unreg]
  | cons u us ih =>
    rw [unreg_cons, unreg_cons]
    by_cases hu : u ∈ reg
    · have hu' : u ∈ reg' := h u hu
      simp only [hu, hu', if_true]; omega
    · by_cases hu' : u ∈ reg'
      · simp only [hu, hu', if_true, if_false]; omega
      · simp only [hu, hu', if_false]; omega

theorem unreg_register (univ reg : List Str) (p : Str) (hp : p ∈ univ) (hn : p ∉ reg) : unreg univ (reg ++ [p]) < unreg univ reg := by
  induction univ with
  | nil => cases hp
  | cons u us ih =>
    have hmono := unreg_mono us reg (reg ++ [p]) (fun x hx => List.mem_append_left _ hx)
    rw [unreg_cons, unreg_cons]
    by_cases hup : u = p
    · subst hup
      have h1 : u ∈ reg ++ [u] := by simp
      simp only [h1, hn, if_true, if_false]; omega
    · have hp' : p ∈ us := by
        cases List.mem_cons.mp hp with
        | inl h => exact absurd h.symm hup
        | inr h => exact h
      have ih' := ih hp'
      by_cases hu : u ∈ reg
      · have hu' : u ∈ reg ++ [p] := List.mem_append_left _ hu
        simp only [hu, hu', if_true]; omega
      · have hu' : u ∉ reg ++ [p] := by
          intro hmem
          cases List.mem_append.mp hmem with
          | inl h => exact hu h
          | inr h => exact hup (by simpa using h)
        simp only [hu, hu', if_false]; omega

theorem unreg_pos (univ reg : List Str) (p : Str) (hp : p ∈ univ) (hn : p ∉ reg) : 0 < unreg univ reg := by
  have := unreg_register univ reg p hp hn
  omega

section Load
variable (g : Graph) (libs univ : List Str)

/-- the property proved by induction on the fuel: enough fuel for `p` given the registry -/
def LoadOk (f : Nat) : Prop :=
  ∀ (reg trace : List Str) (p : Str), p ∈ univ →
    2 * unreg univ reg ≤ f + (if libs.contains p then 1 else 0) →
    ∃ r, loadFuel g libs true f (reg, trace) p = some r ∧ (∀ x ∈ reg, x ∈ r.1)

theorem load_fold (f : Nat) (ih : LoadOk g libs univ f) (k : Nat) (hk : k ≤ 1) :
    ∀ (qs : List Str), (∀ q ∈ qs, q ∈ univ ∧ (k = 1 → libs.contains q = true)) →
    ∀ (st : List Str × List Str), 2 * unreg univ st.1 ≤ f + k →
      ∃ r, qs.foldlM (fun st q => loadFuel g libs true f st q) st = some r ∧ (∀ x ∈ st.1, x ∈ r.1) := by
  intro qs
  induction qs with
  | nil => intro _ st _; exact ⟨st, rfl, fun _ h => h⟩
  | cons q qs ihq =>
    intro hqs st hst
    have hq := hqs q List.mem_cons_self
    have hbound : 2 * unreg univ st.1 ≤ f + (if libs.contains q then 1 else 0) := by
      by_cases hl : libs.contains q = true
      · simp only [hl, if_true]; omega
      · have : k = 0 := by
          cases Nat.lt_or_ge k 1 with
          | inl h => omega
          | inr h => exact absurd (hq.2 (by omega)) hl
        simp only [hl]; simp; omega
    obtain ⟨r, hr, hsub⟩ := ih st.1 st.2 q hq.1 hbound
    have hmono := unreg_mono univ st.1 r.1 hsub
    obtain ⟨r', hr', hsub'⟩ := ihq (fun x hx => hqs x (List.mem_cons_of_mem _ hx)) r (by omega)
    refine ⟨r', ?_, fun x hx => hsub' x (hsub x hx)⟩
    simp only [List.foldlM_cons]
    have : loadFuel g libs true f st q = some r := hr
    rw [this]
    exact hr'

theorem load_ok (hlibs : ∀ l ∈ libs, l ∈ univ) (hclosed : ∀ q ∈ univ, ∀ r ∈ g.imports q, r ∈ univ) :
    ∀ f, LoadOk g libs univ f := by
  intro f
  induction f with
  | zero =>
    intro reg trace p hp hb
    by_cases hreg : p ∈ reg
    · exact ⟨(reg, trace), by simp [loadFuel, hreg], fun _ h => h⟩
    · have := unreg_pos univ reg p hp hreg
      split at hb <;> omega
  | succ f ih =>
    intro reg trace p hp hb
    unfold loadFuel
    by_cases hreg : p ∈ reg
    · simp only [hreg, if_true]; exact ⟨(reg, trace), rfl, fun _ h => h⟩
    · simp only [hreg, if_false]
      have hpos := unreg_pos univ reg p hp hreg
      -- phase A
      have hA : ∃ r1, (if libs.contains p = true then some (reg, trace) else libs.foldlM (fun st l => loadFuel g libs true f st l) (reg, trace)) = some r1
          ∧ (∀ x ∈ reg, x ∈ r1.1) := by
        by_cases hl : libs.contains p = true
        · simp only [hl, if_true]; exact ⟨(reg, trace), rfl, fun _ h => h⟩
        · simp only [hl]
          have hb' : 2 * unreg univ reg ≤ f + 1 := by
            have hl' : libs.contains p = false := by simpa using hl
            rw [hl'] at hb
            simpa using hb
          have := load_fold g libs univ f ih 1 (Nat.le_refl 1) libs
            (fun l hl' => ⟨hlibs l hl', fun _ => by simpa using hl'⟩) (reg, trace) (by simp only; omega)
          simpa using this
      obtain ⟨r1, hr1, hsub1⟩ := hA
      rw [hr1]
      simp only
      have hmono1 := unreg_mono univ reg r1.1 hsub1
      by_cases hreg1 : p ∈ r1.1
      · simp only [hreg1, Bool.true_and, decide_true, if_true]; exact ⟨r1, rfl, hsub1⟩
      · simp only [hreg1, Bool.true_and, decide_false, Bool.false_eq_true, if_false]
        have hdec := unreg_register univ r1.1 p hp hreg1
        have hB := load_fold g libs univ f ih 0 (Nat.zero_le 1) (g.imports p)
          (fun q hq => ⟨hclosed p hp q hq, fun h => absurd h (by omega)⟩) (r1.1 ++ [p], r1.2 ++ [p]) (by
            simp only
            split at hb <;> omega)
        obtain ⟨r, hr, hsub⟩ := hB
        exact ⟨r, hr, fun x hx => hsub x (List.mem_append_left _ (hsub1 x hx))⟩

end Load

/-! ### normalising sites -/

theorem Atom.mem_all (a : Atom) : a ∈ Atom.all := by
  cases a with
  | err n => cases n <;> decide
  | bi b => cases b <;> decide

/-- transitivity towards the root of the hierarchy, by exhausting the generated tables -/
theorem atom_isA_trans_Error (c a : Atom) (hc : c.isA (.err .Error) = true) (ha : a.isA c = true) : a.isA (.err .Error) = true := by
  have key : Atom.all.all (fun c => !c.isA (.err .Error) || Atom.all.all (fun a => !a.isA c || a.isA (.err .Error))) = true := by
    decide +kernel
  have h1 := (List.all_eq_true.mp key) c (Atom.mem_all c)
  simp only [hc, Bool.not_true, Bool.false_or] at h1
  have h2 := (List.all_eq_true.mp h1) a (Atom.mem_all a)
  simpa [ha] using h2

/-- A try statement whose clauses pass `coversException` turns every `Exception` into a member of the Errors.Error hierarchy
    (for `renode`: given the one-argument constructor, `CtorOk`). -/
theorem coversException_sound (hs : List Handler) (hcov : coversException hs = true) (x : Exc) (hx : x.isException = true)
    (hctor : x.inHierarchy = true → x.arg0 = .other → x.cls.ctor1 = true) : (propagate hs x).inHierarchy = true := by
  induction hs with
  | nil => simp [coversException] at hcov
  | cons h hs ih =>
    simp only [coversException, Bool.and_eq_true, Bool.or_eq_true] at hcov
    obtain ⟨hsafe, hrest⟩ := hcov
    unfold propagate
    by_cases hm : x.cls.isA h.catches = true
    · simp only [hm, if_true]
      unfold handlerSafe at hsafe
      cases hact : h.action with
      | wrap n a =>
        simp only [runAction]
        exact err_isA_Error n
      | renode =>
        rw [hact] at hsafe
        have hin : x.cls.isA (.err .Error) = true := Cls.isA_lift h.catches (.err .Error) (fun a ha => atom_isA_trans_Error h.catches a hsafe ha) x.cls hm
        simp only [runAction]
        by_cases h3 : x.arg0 = .other
        · simp only [h3, if_true, hctor hin h3]; exact hin
        · simp only [h3, if_false]; exact hin
      | reraise =>
        rw [hact] at hsafe
        simp only [runAction]
        exact Cls.isA_lift h.catches (.err .Error) (fun a ha => atom_isA_trans_Error h.catches a hsafe ha) x.cls hm
    · simp only [hm]
      cases hrest with
      | inl heq =>
        have : h.catches = .bi .Exception := by simpa using heq
        rw [this] at hm
        exact absurd hx hm
      | inr hc => exact ih hc

theorem err_isA_self (n : ErrName) : (Atom.err n).isA (.err n) = true := by cases n <;> rfl

/-- … and when every clause wraps into `Errors.<n>` the result is an `Errors.<n>` -/
theorem coversWraps_sound (n : ErrName) (hs : List Handler) (hcov : coversException hs = true) (hw : wrapsAllInto n hs = true)
    (x : Exc) (hx : x.isException = true) : (propagate hs x).cls.isA (.err n) = true := by
  induction hs with
  | nil => simp [coversException] at hcov
  | cons h hs ih =>
    simp only [coversException, Bool.and_eq_true, Bool.or_eq_true] at hcov
    simp only [wrapsAllInto, List.all_cons, Bool.and_eq_true] at hw
    obtain ⟨_, hrest⟩ := hcov
    obtain ⟨hwh, hwt⟩ := hw
    unfold propagate
    by_cases hm : x.cls.isA h.catches = true
    · simp only [hm, if_true]
      cases hact : h.action with
      | wrap m a =>
        rw [hact] at hwh
        have : m = n := by simpa using hwh
        subst this
        simp only [runAction, Exc.ofErr, Cls.isA]
        exact err_isA_self m
      | renode => rw [hact] at hwh; simp at hwh
      | reraise => rw [hact] at hwh; simp at hwh
    · simp only [hm]
      cases hrest with
      | inl heq =>
        have : h.catches = .bi .Exception := by simpa using heq
        rw [this] at hm
        exact absurd hx hm
      | inr hc => exact ih hc (by simpa [wrapsAllInto] using hwt)

/-! ### what a marking walk leaves behind -/

section VisitPost
variable {α : Type} [DecidableEq α] (next : List α → α → List α)

/-- postcondition of one walk: the remaining set only shrinks, stays duplicate-free, and no longer contains the start element -/
def VisitPost (f : Nat) : Prop :=
  ∀ (rem trace : List α) (p : α) (r : List α × List α), rem.Nodup → visit next f (rem, trace) p = some r →
    (∀ x ∈ r.1, x ∈ rem) ∧ r.1.Nodup ∧ p ∉ r.1

theorem visit_fold_post (f : Nat) (ih : VisitPost next f) :
    ∀ (qs : List α) (st r : List α × List α), st.1.Nodup → qs.foldlM (fun st q => visit next f st q) st = some r →
      (∀ x ∈ r.1, x ∈ st.1) ∧ r.1.Nodup ∧ (∀ q ∈ qs, q ∉ r.1) := by
  intro qs
  induction qs with
  | nil =>
    intro st r hnd h
    simp only [List.foldlM_nil, Option.pure_def, Option.some.injEq] at h
    subst h
    exact ⟨fun _ hx => hx, hnd, fun _ hq => by cases hq⟩
  | cons q qs ihq =>
    intro st r hnd h
    simp only [List.foldlM_cons, Option.bind_eq_bind] at h
    cases hv : visit next f st q with
    | none => rw [hv] at h; simp at h
    | some r1 =>
      rw [hv] at h
      simp only [Option.bind_some] at h
      obtain ⟨hsub1, hnd1, hq1⟩ := ih st.1 st.2 q r1 hnd hv
      obtain ⟨hsub2, hnd2, hqs2⟩ := ihq r1 r hnd1 h
      refine ⟨fun x hx => hsub1 x (hsub2 x hx), hnd2, ?_⟩
      intro q' hq'
      cases List.mem_cons.mp hq' with
      | inl heq => subst heq; exact fun hmem => hq1 (hsub2 _ hmem)
      | inr hin => exact hqs2 q' hin

theorem visit_post : ∀ f, VisitPost next f := by
  intro f
  induction f with
  | zero => intro rem trace p r _ h; simp [visit] at h
  | succ f ih =>
    intro rem trace p r hnd h
    unfold visit at h
    by_cases hp : p ∈ rem
    · simp only [hp, if_true] at h
      have hnd' : (rem.erase p).Nodup := hnd.erase p
      obtain ⟨hsub, hndr, _⟩ := visit_fold_post next f ih (next (rem.erase p) p) (rem.erase p, trace ++ [p]) r hnd' h
      refine ⟨fun x hx => List.mem_of_mem_erase (hsub x hx), hndr, ?_⟩
      intro hmem
      have := hsub p hmem
      exact ((List.Nodup.mem_erase_iff hnd).mp this).1 rfl
    · simp only [hp, if_false, Option.some.injEq] at h
      subst h
      exact ⟨fun _ hx => hx, hnd, hp⟩

/-- every element `next` names right after the start element was taken out is gone at the end -/
theorem visit_clears_next (f : Nat) (rem trace : List α) (p : α) (r : List α × List α) (hnd : rem.Nodup) (hp : p ∈ rem)
    (h : visit next (f + 1) (rem, trace) p = some r) :
    (∀ x ∈ r.1, x ∈ rem.erase p) ∧ ∀ q ∈ next (rem.erase p) p, q ∉ r.1 := by
  unfold visit at h
  simp only [hp, if_true] at h
  obtain ⟨hsub, _, hq⟩ := visit_fold_post next f (visit_post next f) (next (rem.erase p) p) (rem.erase p, trace ++ [p]) r (hnd.erase p) h
  exact ⟨hsub, hq⟩

end VisitPost

end Tranp.Errors
