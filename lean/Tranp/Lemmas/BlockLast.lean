/-
  Lemmas for property C18, part 5: `break_last_block` in full —
  (1) on EVERY text the two parts it returns reassemble: `text = prefix ++ open ++ inside ++ close ++ rest`, split at the
      position the scan found (not at the first textual occurrence of the group);
  (2) on every fragment whose strings hold no bracket of the kind: which group is taken (`depth0Groups`, the last one).
-/
import Tranp.Lemmas.Block
import Tranp.Lemmas.BlockTotal

namespace Tranp.Block
open Tranp Tranp.Generated.BlockPairs

/-! ### reassembly on every text -/

/-- what the loop of `break_last_block` knows after the prefix `done` of the text -/
def LastInv (o cl : Char) (done : Str) (begin stack : Nat) (R : List (Nat × Nat)) : Prop :=
  (0 < stack → 1 ≤ begin ∧ begin ≤ done.length ∧ done[begin - 1]? = some o) ∧
  ∀ r ∈ R, 1 ≤ r.1 ∧ r.1 ≤ r.2 ∧ r.2 < done.length ∧ done[r.1 - 1]? = some o ∧ done[r.2]? = some cl

theorem getElem?_append_left' (a b : Str) (j : Nat) (c : Char) (h : a[j]? = some c) : (a ++ b)[j]? = some c := by
  have hlt : j < a.length := by
    rcases Nat.lt_or_ge j a.length with h' | h'
    · exact h'
    · rw [List.getElem?_eq_none h'] at h; cases h
  rw [List.getElem?_append_left hlt]; exact h

theorem lastInv_snoc (o cl : Char) (done : Str) (c : Char) (begin stack : Nat) (R : List (Nat × Nat))
    (h : LastInv o cl done begin stack R) : LastInv o cl (done ++ [c]) begin stack R := by
  obtain ⟨h1, h2⟩ := h
  refine ⟨fun hs => ?_, fun r hr => ?_⟩
  · obtain ⟨a, b, e⟩ := h1 hs
    exact ⟨a, by simp; omega, getElem?_append_left' _ _ _ _ e⟩
  · obtain ⟨a, b, d, e1, e2⟩ := h2 r hr
    exact ⟨a, b, by simp; omega, getElem?_append_left' _ _ _ _ e1, getElem?_append_left' _ _ _ _ e2⟩

theorem lastLoop_inv (o cl : Char) : ∀ (s done : Str) (begin stack : Nat) (R : List (Nat × Nat)),
    LastInv o cl done begin stack R →
    ∀ r ∈ lastLoop o cl s done.length begin stack R,
      1 ≤ r.1 ∧ r.1 ≤ r.2 ∧ r.2 < (done ++ s).length ∧ (done ++ s)[r.1 - 1]? = some o ∧ (done ++ s)[r.2]? = some cl := by
  intro s
  induction s with
  | nil =>
    intro done begin stack R h r hr
    simp only [lastLoop] at hr
    simpa using h.2 r hr
  | cons c cs ih =>
    intro done begin stack R h r hr
    have e : done ++ c :: cs = (done ++ [c]) ++ cs := by simp
    have l : done.length + 1 = (done ++ [c]).length := by simp
    have hsn := lastInv_snoc o cl done c begin stack R h
    have hat : (done ++ [c])[done.length]? = some c := by simp
    rw [lastLoop] at hr
    rw [e]
    split at hr
    · rename_i hc
      rw [l] at hr
      refine ih (done ++ [c]) _ _ R ⟨fun _ => ⟨by simp, Nat.le_refl _, by simp [hc.1]⟩, hsn.2⟩ r hr
    · split at hr
      · rename_i hc
        rw [l] at hr
        refine ih (done ++ [c]) _ _ R ⟨fun _ => hsn.1 hc.2, hsn.2⟩ r hr
      · split at hr
        · rename_i hc
          rw [l] at hr
          obtain ⟨b1, b2, b3⟩ := h.1 (by omega)
          refine ih (done ++ [c]) _ _ _ ⟨fun hs => by omega, ?_⟩ r hr
          intro r' hr'
          rw [List.mem_append] at hr'
          rcases hr' with hr' | hr'
          · exact hsn.2 r' hr'
          · simp only [List.mem_singleton] at hr'
            subst hr'
            exact ⟨b1, b2, by simp, getElem?_append_left' _ _ _ _ b3, by simp [hc.1]⟩
        · split at hr
          · rename_i hc
            rw [l] at hr
            refine ih (done ++ [c]) _ _ R ⟨fun _ => hsn.1 (by omega), hsn.2⟩ r hr
          · rw [l] at hr
            exact ih (done ++ [c]) _ _ R hsn r hr

/-- `break_last_block` on EVERY text: when it answers `(prefix, inside)`, the text is
    `prefix ++ open ++ inside ++ close ++ rest` — the two parts are cut out at the position of the group the scan found. -/
theorem breakLastBlock_reassemble (o cl : Char) (more text p i : Str)
    (h : breakLastBlock text (o :: cl :: more) = .ok (p, i)) :
    ∃ rest, text = p ++ o :: (i ++ cl :: rest) := by
  unfold breakLastBlock at h
  simp only [] at h
  cases hl : (lastLoop o cl text 0 0 0 []).getLast? with
  | none => rw [hl] at h; cases h
  | some r =>
    rw [hl] at h
    obtain ⟨lb, le⟩ := r
    simp only [Except.ok.injEq, Prod.mk.injEq] at h
    obtain ⟨hp, hi⟩ := h
    have hmem := List.mem_of_getLast? hl
    have hinv : LastInv o cl [] 0 0 [] := ⟨fun h => by omega, fun r hr => by simp at hr⟩
    have := lastLoop_inv o cl text [] 0 0 [] hinv (lb, le) (by simpa using hmem)
    simp only [List.nil_append] at this
    obtain ⟨h1, h2, h3, h4, h5⟩ := this
    refine ⟨text.drop (le + 1), ?_⟩
    rw [← hp, ← hi]
    simp only [slice, List.drop_zero]
    have e1 : text = text.take (lb - 1) ++ text.drop (lb - 1) := (List.take_append_drop _ _).symm
    have e2 : text.drop (lb - 1) = o :: text.drop lb := by
      have := drop_eq_cons_of_get text (lb - 1) o h4
      rw [this]; congr 2; omega
    have e3 : text.drop lb = (text.take le).drop lb ++ text.drop le := by
      have hle : lb ≤ (text.take le).length := by simp; omega
      conv => lhs; rw [← List.take_append_drop le text]
      exact List.drop_append_of_le_length hle
    have e4 : text.drop le = cl :: text.drop (le + 1) := drop_eq_cons_of_get text le cl h5
    conv => lhs; rw [e1, e2, e3, e4]

/-! ### which group is taken: the last one the counter sees at depth 0 -/

/-- the groups of kind `k` that `break_last_block` counts at depth 0 — those not inside another group of kind `k` (groups of
    the other kinds are transparent for the counter) — with the text in front of each, in scan order; `pre` is the text in
    front of the fragment -/
def depth0Groups (k : BK) : Frag → Str → List (Str × Frag)
  | .nil, _ => []
  | .atom c r, pre => depth0Groups k r (pre ++ [c])
  | .str q b r, pre => depth0Groups k r (pre ++ q.ch :: (b ++ [q.ch]))
  | .group k' i r, pre =>
    if k' = k then (pre, i) :: depth0Groups k r (pre ++ k'.open :: (i.render ++ [k'.close]))
    else depth0Groups k i (pre ++ [k'.open]) ++ depth0Groups k r (pre ++ k'.open :: (i.render ++ [k'.close]))

def rangeOf (g : Str × Frag) : Nat × Nat := (g.1.length + 1, g.1.length + 1 + g.2.render.length)

/-- the scan over a fragment (strings without brackets of the kind): at depth 0 it records exactly the ranges of
    `depth0Groups`, deeper it records nothing; it returns to the depth it started from -/
theorem lastLoop_frag_exact (k : BK) (f : Frag) : ∀ (pre rest : Str) (b s : Nat) (R : List (Nat × Nat)), Frag.CleanFor k f →
    ∃ b', lastLoop k.open k.close (f.render ++ rest) pre.length b s R
        = lastLoop k.open k.close rest (pre.length + f.render.length) b' s
            (R ++ if s = 0 then (depth0Groups k f pre).map rangeOf else []) ∧ (0 < s → b' = b) := by
  induction f with
  | nil => intro pre rest b s R _; exact ⟨b, by simp [Frag.render, depth0Groups], fun _ => rfl⟩
  | atom c r ih =>
    intro pre rest b s R hf
    rw [cleanFor_atom] at hf
    obtain ⟨b', h1, h2⟩ := ih (pre ++ [c]) rest b s R hf.2
    refine ⟨b', ?_, h2⟩
    have hc := plain_ne_bk c k hf.1
    have l : (pre ++ [c]).length = pre.length + 1 := by simp
    rw [l] at h1
    simp only [Frag.render, List.cons_append, lastLoop_other _ _ c _ _ b s R hc.1 hc.2, h1, List.length_cons, depth0Groups]
    congr 1; omega
  | str q body r ih =>
    intro pre rest b s R hf
    rw [cleanFor_str] at hf
    have hq := quote_ne_bk q k
    have hbody : ∀ c ∈ body, c ≠ k.open ∧ c ≠ k.close := fun c h => (hf.1 c h).2
    obtain ⟨b', h1, h2⟩ := ih (pre ++ q.ch :: (body ++ [q.ch])) rest b s R hf.2
    refine ⟨b', ?_, h2⟩
    have l : (pre ++ q.ch :: (body ++ [q.ch])).length = pre.length + 1 + body.length + 1 := by simp; omega
    rw [l] at h1
    simp only [Frag.render, List.cons_append, List.append_assoc, lastLoop_other _ _ q.ch _ _ b s R hq.1 hq.2,
      lastLoop_run _ _ body _ hbody, h1, List.length_cons, List.length_append, depth0Groups]
    congr 1; omega
  | group k' inner r ihi ihr =>
    intro pre rest b s R hf
    rw [cleanFor_group] at hf
    have lg : (pre ++ k'.open :: (inner.render ++ [k'.close])).length = pre.length + 1 + inner.render.length + 1 := by simp; omega
    have lo : (pre ++ [k'.open]).length = pre.length + 1 := by simp
    by_cases hk : k' = k
    · subst hk
      have hoc := open_ne_close k'
      by_cases hs : s = 0
      · subst hs
        obtain ⟨b1, h1, h1'⟩ := ihi (pre ++ [k'.open]) (k'.close :: (r.render ++ rest)) (pre.length + 1) 1 R hf.1
        have := h1' (by omega); subst this
        obtain ⟨b2, h2, _⟩ := ihr (pre ++ k'.open :: (inner.render ++ [k'.close])) rest (pre.length + 1) 0
          (R ++ [(pre.length + 1, pre.length + 1 + inner.render.length)]) hf.2
        rw [lo] at h1; rw [lg] at h2
        refine ⟨b2, ?_, fun h => absurd h (by omega)⟩
        simp only [Frag.render, List.cons_append, List.append_assoc]
        rw [lastLoop]
        simp only [true_and, if_true, Nat.zero_add]
        rw [h1, lastLoop]
        simp only [hoc.symm, false_and, if_false, true_and, if_true, Nat.sub_self, Nat.succ_ne_zero, List.append_nil]
        rw [h2, List.length_cons, List.length_append, List.length_cons]
        simp only [depth0Groups, if_true, List.map_cons, rangeOf, List.append_assoc, List.singleton_append]
        congr 1; omega
      · obtain ⟨b1, h1, h1'⟩ := ihi (pre ++ [k'.open]) (k'.close :: (r.render ++ rest)) b (s + 1) R hf.1
        have := h1' (by omega); subst this
        obtain ⟨b2, h2, h2'⟩ := ihr (pre ++ k'.open :: (inner.render ++ [k'.close])) rest b1 s R hf.2
        rw [lo] at h1; rw [lg] at h2
        refine ⟨b2, ?_, h2'⟩
        simp only [Frag.render, List.cons_append, List.append_assoc]
        rw [lastLoop]
        simp only [hs, and_false, if_false, true_and, Nat.pos_of_ne_zero hs, if_true]
        rw [h1, lastLoop]
        have hs1 : ¬ (s + 1 = 1) := by omega
        have hs2 : s + 1 > 1 := by omega
        simp only [hoc.symm, false_and, if_false, true_and, hs1, hs2, if_true, Nat.add_sub_cancel, Nat.succ_ne_zero,
          List.append_nil]
        rw [h2, List.length_cons, List.length_append, List.length_cons]
        simp only [hs, if_false]
        congr 1 <;> first | omega | simp
    · have hne := bk_ne_of_ne k k' hk
      obtain ⟨b1, h1, h1'⟩ := ihi (pre ++ [k'.open]) (k'.close :: (r.render ++ rest)) b s R hf.1
      obtain ⟨b2, h2, h2'⟩ := ihr (pre ++ k'.open :: (inner.render ++ [k'.close])) rest b1 s
        (R ++ if s = 0 then (depth0Groups k inner (pre ++ [k'.open])).map rangeOf else []) hf.2
      rw [lo] at h1; rw [lg] at h2
      refine ⟨b2, ?_, fun hs => (h2' hs).trans (h1' hs)⟩
      simp only [Frag.render, List.cons_append, List.append_assoc,
        lastLoop_other _ _ k'.open _ _ b s R hne.1 hne.2.1, h1,
        lastLoop_other _ _ k'.close _ _ b1 s _ hne.2.2.1 hne.2.2.2, h2, List.length_cons, List.length_append,
        depth0Groups, if_neg hk]
      by_cases hs : s = 0
      · simp only [hs, if_true, List.map_append]; congr 1 <;> first | omega | simp
      · simp only [hs, if_false, List.append_nil]; congr 1; omega

/-- every group of `depth0Groups` stands in the text at the position its prefix says -/
theorem depth0Groups_sits (k : BK) (f : Frag) : ∀ (pre rest : Str), ∀ g ∈ depth0Groups k f pre,
    ∃ post, pre ++ (f.render ++ rest) = g.1 ++ k.open :: (g.2.render ++ k.close :: post) := by
  induction f with
  | nil => intro pre rest g hg; simp [depth0Groups] at hg
  | atom c r ih =>
    intro pre rest g hg
    obtain ⟨post, h⟩ := ih (pre ++ [c]) rest g hg
    exact ⟨post, by rw [← h]; simp [Frag.render]⟩
  | str q b r ih =>
    intro pre rest g hg
    obtain ⟨post, h⟩ := ih (pre ++ q.ch :: (b ++ [q.ch])) rest g hg
    exact ⟨post, by rw [← h]; simp [Frag.render]⟩
  | group k' i r ihi ihr =>
    intro pre rest g hg
    have hrest : ∀ g ∈ depth0Groups k r (pre ++ k'.open :: (i.render ++ [k'.close])),
        ∃ post, pre ++ ((Frag.group k' i r).render ++ rest) = g.1 ++ k.open :: (g.2.render ++ k.close :: post) := by
      intro g hg
      obtain ⟨post, h⟩ := ihr (pre ++ k'.open :: (i.render ++ [k'.close])) rest g hg
      exact ⟨post, by rw [← h]; simp [Frag.render]⟩
    by_cases hk : k' = k
    · subst hk
      simp only [depth0Groups, if_true, List.mem_cons] at hg
      rcases hg with rfl | hg
      · exact ⟨r.render ++ rest, by simp [Frag.render]⟩
      · exact hrest g hg
    · simp only [depth0Groups, if_neg hk, List.mem_append] at hg
      rcases hg with hg | hg
      · obtain ⟨post, h⟩ := ihi (pre ++ [k'.open]) (k'.close :: (r.render ++ rest)) g hg
        exact ⟨post, by rw [← h]; simp [Frag.render]⟩
      · exact hrest g hg

/-- `break_last_block` on every fragment whose strings hold no bracket of the kind: the prefix and the inside of the LAST
    group the counter sees at depth 0 (wherever it stands: followed by more text, inside groups of other kinds, …); without
    such a group `IndexError`. -/
theorem breakLastBlock_frag (k : BK) (f : Frag) (more : Str) (hf : Frag.CleanFor k f) :
    breakLastBlock f.render (k.open :: k.close :: more)
      = match (depth0Groups k f []).getLast? with
        | none => .error .IndexError
        | some g => .ok (g.1, g.2.render) := by
  obtain ⟨b', h, _⟩ := lastLoop_frag_exact k f [] [] 0 0 [] hf
  simp only [List.append_nil, List.length_nil, Nat.zero_add, if_true, List.nil_append, lastLoop_nil] at h
  unfold breakLastBlock
  simp only [h, List.getLast?_map]
  cases hl : (depth0Groups k f []).getLast? with
  | none => rfl
  | some g =>
    obtain ⟨post, hs⟩ := depth0Groups_sits k f [] [] g (List.mem_of_getLast? hl)
    simp only [List.nil_append, List.append_nil] at hs
    simp only [Option.map_some, rangeOf, Nat.add_sub_cancel]
    rw [hs, slice_front, slice_middle]

/-! ### the literals the production call sites pass -/

/-- the four bracket pairs as `brackets` literals -/
def bracketLiterals : List Str := [BK.sq, BK.par, BK.cur, BK.ang].map fun k => [k.open, k.close]

theorem mem_bracketLiterals (x : Str) (h : x ∈ bracketLiterals) : ∃ k : BK, x = [k.open, k.close] := by
  simp only [bracketLiterals, List.map_cons, List.map_nil, List.mem_cons, List.not_mem_nil, or_false] at h
  rcases h with rfl | rfl | rfl | rfl
  · exact ⟨.sq, rfl⟩
  · exact ⟨.par, rfl⟩
  · exact ⟨.cur, rfl⟩
  · exact ⟨.ang, rfl⟩

/-- a one-character delimiter that is neither bracket nor quote -/
def plainDelimiter (d : Str) : Bool := d.length == 1 && d.all fun c => !has Frag.special c

theorem plainDelimiter_elim (d : Str) (h : plainDelimiter d = true) : ∃ c, d = [c] ∧ has Frag.special c = false := by
  match d, h with
  | [c], h => exact ⟨c, rfl, by simpa [plainDelimiter] using h⟩

end Tranp.Block
