/-
  A ladder of rules `L_0[1] := (L_1 op_0)* L_1`, `L_1[1] := (L_2 op_1)* L_2`, … over a bottom symbol `B`, read with the shared
  precedence library (C11.group_partial).

  Whatever the engine matches for `L_0` decomposes — by `chain_ladder` (T4) level after level — into bottom matches ("atoms")
  and operator matches laid end to end over the consumed span. Abstracting every bottom match to one atom token and every
  operator match to one operator token (`Seg`), the abstract token list is the print-out of a `Prec.Expr` that is in normal
  form for the table "level of an operator = index of its ladder rule": so the precedence-climbing reference parser with
  that table reads the SAME token list into the SAME grouping (`Prec.parse_print_NF`), left-nested within a level.
-/
import Tranp.Prec
import Tranp.Lemmas.Prec
import Tranp.Lemmas.EngineChain

namespace Tranp.Engine
open Tranp
open Tranp.Prec (Expr)

/-- an abstract token together with the concrete tokens it stands for -/
abbrev Seg := Prec.Tok × List Tok

/-- the tokens of the span that starts `s` tokens left of the cursor of `ctx` and is `len` long, in source order -/
def span (ctx : Ctx) (s len : Nat) : List Tok := ((ctx.rest.drop s).take len).reverse

theorem span_add (ctx : Ctx) (s a b : Nat) : span ctx s (a + b) = span ctx (s + a) b ++ span ctx s a := by
  simp only [span, List.take_add, List.reverse_append, List.drop_drop]

theorem span_step (ctx : Ctx) (a s len : Nat) : span (ctx.step a) s len = span ctx (a + s) len := by
  simp only [span, Ctx.step, List.drop_drop]

/-- how matches are abstracted: a code for a bottom match and a raw code for an operator match, from their tokens;
    `K` bounds the number of levels (the Prec code of an operator of level `i` is `i + K · raw`) -/
structure Codes where
  K : Nat
  atm : List Tok → Nat
  opc : List Tok → Nat

def Codes.op (c : Codes) (i : Nat) (ts : List Tok) : Nat := i + c.K * c.opc ts

/-- the operator table of a ladder: level of an operator code = code mod K = index of its ladder rule; no prefix operators -/
def ladOps (K : Nat) : Prec.Ops := ⟨fun o => some (o % K), fun _ => none⟩

theorem op_level (c : Codes) (i : Nat) (ts : List Tok) (h : i < c.K) : c.op i ts % c.K = i := by
  unfold Codes.op
  rw [Nat.add_mul_mod_self_left]
  exact Nat.mod_eq_of_lt h

/-- left-nested reading of a flat chain: `first o_k x_{k-1} … o_1 x_0` -/
def foldE (first : Expr) (ops : List (Nat × Expr)) : Expr := ops.foldl (fun acc p => .bin p.1 acc p.2) first

def suffixToks : List (Nat × Expr) → List Prec.Tok
  | [] => []
  | p :: ps => .op p.1 :: (Prec.print p.2 ++ suffixToks ps)

theorem print_foldE (first : Expr) (ops : List (Nat × Expr)) : Prec.print (foldE first ops) = Prec.print first ++ suffixToks ops := by
  induction ops generalizing first with
  | nil => simp [foldE, suffixToks]
  | cons p ps ih =>
    have := ih (.bin p.1 first p.2)
    simp only [foldE, List.foldl_cons] at this ⊢
    rw [this]
    simp [Prec.print, suffixToks, List.append_assoc]

/-- the head of `e` is a leaf or an infix operator of level ≥ `j` -/
def HG (K j : Nat) (e : Expr) : Prop :=
  match Prec.head e with
  | .bin o => j ≤ o % K
  | .pre _ => False
  | .leaf => True

theorem HG.mono {K j j' : Nat} {e : Expr} (h : HG K j e) (hj : j' ≤ j) : HG K j' e := by
  unfold HG at h ⊢
  split <;> simp_all
  omega

theorem nf_foldE (K i : Nat) (first : Expr) (ops : List (Nat × Expr))
    (h1 : Prec.nf (ladOps K) first = true) (h2 : HG K i first)
    (h3 : ∀ p ∈ ops, p.1 % K = i ∧ Prec.nf (ladOps K) p.2 = true ∧ HG K (i + 1) p.2) :
    Prec.nf (ladOps K) (foldE first ops) = true ∧ HG K i (foldE first ops) := by
  induction ops generalizing first with
  | nil => exact ⟨h1, h2⟩
  | cons p ps ih =>
    obtain ⟨hp1, hp2, hp3⟩ := h3 p (by simp)
    simp only [foldE, List.foldl_cons]
    refine ih (.bin p.1 first p.2) ?_ ?_ (fun q hq => h3 q (by simp [hq]))
    · simp only [Prec.nf, Bool.and_eq_true]
      refine ⟨⟨⟨?_, ?_⟩, h1⟩, hp2⟩
      · -- left operand
        simp only [Prec.slotOk, ladOps, hp1]
        unfold HG at h2
        cases hh : Prec.head first with
        | bin o => simp only [hh] at h2; simp [Prec.okL, h2]
        | pre o => simp [hh] at h2
        | leaf => simp [Prec.okL]
      · -- right operand
        simp only [Prec.slotOk, ladOps, hp1]
        unfold HG at hp3
        cases hh : Prec.head p.2 with
        | bin o => simp only [hh] at hp3; simp [Prec.okAt, hp3]
        | pre o => simp [hh] at hp3
        | leaf => simp [Prec.okAt]
    · simp [HG, Prec.head, hp1]

/-- A chain at level `i` over operand matches described by `P`: `first` is the leftmost operand, `ops` the following
    (operator code, operand) pairs in source order, `segs` the abstract tokens with their concrete spans, `len` the
    number of tokens consumed leftwards from the cursor of `ctx`. -/
inductive ChainP (env : Env) (c : Codes) (P : Ctx → Nat → Expr → List Seg → Prop) (O : Str) (i : Nat) (ctx : Ctx) :
    Nat → Expr → List (Nat × Expr) → List Seg → Prop
  | single (len : Nat) (e : Expr) (segs : List Seg) : P ctx len e segs → ChainP env c P O i ctx len e [] segs
  | more (len1 : Nat) (f : Expr) (r : List (Nat × Expr)) (segs1 : List Seg)
      (fuel pk : Nat) (o : Out) (ln : Nat) (e2 : Expr) (segs2 : List Seg) :
      ChainP env c P O i ctx len1 f r segs1 →
      matchSymbol env fuel (ctx.step len1) pk O = .ok o → o.ok = true →
      P (ctx.step (len1 + o.steps)) ln e2 segs2 →
      ChainP env c P O i ctx (len1 + o.steps + ln) e2 ((c.op i (span ctx len1 o.steps), f) :: r)
        (segs2 ++ (.op (c.op i (span ctx len1 o.steps)), span ctx len1 o.steps) :: segs1)

def symOf : List (Str × Str) → Str → Str
  | [], B => B
  | (L, _) :: _, _ => L

/-- every rule of the list is a ladder over the next one (the last over the bottom symbol `B`) -/
def ladOK (R : Rules) : List (Str × Str) → Str → Bool
  | [], _ => true
  | (L, O) :: rest, B => decide (getRule R L = .ok (ladder (symOf rest B) O)) && ladOK R rest B

/-- `LvP lad B i ctx len e segs`: a successful match of the top symbol of `lad` that consumed `len` tokens from the cursor of
    `ctx`, read as the expression `e` over the abstract tokens `segs`. -/
def LvP (env : Env) (c : Codes) : List (Str × Str) → Str → Nat → Ctx → Nat → Expr → List Seg → Prop
  | [], B, _, ctx, len, e, segs =>
    (∃ fuel pk out, matchSymbol env fuel ctx pk B = .ok out ∧ out.ok = true ∧ out.steps = len) ∧
      e = .atom (c.atm (span ctx 0 len)) ∧ segs = [(.atom (c.atm (span ctx 0 len)), span ctx 0 len)]
  | (_, O) :: rest, B, i, ctx, len, e, segs =>
    ∃ first ops, ChainP env c (LvP env c rest B (i + 1)) O i ctx len first ops segs ∧ e = foldE first ops

/-- what is known about a reading: the abstract tokens print the expression, cover exactly the consumed span, and the
    expression is a normal form of the ladder's table whose head is at level ≥ `i` -/
structure Facts (c : Codes) (i : Nat) (ctx : Ctx) (len : Nat) (e : Expr) (segs : List Seg) : Prop where
  print : segs.map (·.1) = Prec.print e
  cover : segs.flatMap (·.2) = span ctx 0 len
  nf : Prec.nf (ladOps c.K) e = true
  hg : HG c.K i e

theorem chainP_facts (env : Env) (c : Codes) (P : Ctx → Nat → Expr → List Seg → Prop) (O : Str) (i : Nat) (hi : i < c.K)
    (hP : ∀ ctx len e segs, P ctx len e segs → Facts c (i + 1) ctx len e segs)
    (ctx : Ctx) (len : Nat) (first : Expr) (ops : List (Nat × Expr)) (segs : List Seg)
    (h : ChainP env c P O i ctx len first ops segs) :
    segs.map (·.1) = Prec.print first ++ suffixToks ops ∧ segs.flatMap (·.2) = span ctx 0 len ∧
      Prec.nf (ladOps c.K) first = true ∧ HG c.K (i + 1) first ∧
      ∀ p ∈ ops, p.1 % c.K = i ∧ Prec.nf (ladOps c.K) p.2 = true ∧ HG c.K (i + 1) p.2 := by
  induction h with
  | single len e segs hp =>
    have f := hP _ _ _ _ hp
    exact ⟨by simp [f.print, suffixToks], f.cover, f.nf, f.hg, by simp⟩
  | more len1 f r segs1 fuel pk o ln e2 segs2 hch ho hok hp ih =>
    obtain ⟨ih1, ih2, ih3, ih4, ih5⟩ := ih
    have f2 := hP _ _ _ _ hp
    refine ⟨?_, ?_, f2.nf, f2.hg, ?_⟩
    · simp [f2.print, ih1, suffixToks, List.append_assoc]
    · have hc := f2.cover
      rw [span_step] at hc
      simp only [List.flatMap_append, List.flatMap_cons, hc, ih2]
      rw [span_add ctx 0 (len1 + o.steps) ln, span_add ctx 0 len1 o.steps]
      simp [List.append_assoc]
    · intro p hp'
      simp only [List.mem_cons] at hp'
      rcases hp' with rfl | hp'
      · exact ⟨op_level c i _ hi, ih3, ih4⟩
      · exact ih5 p hp'

theorem lv_facts (env : Env) (c : Codes) (lad : List (Str × Str)) (B : Str) :
    ∀ i, i + lad.length ≤ c.K → ∀ ctx len e segs, LvP env c lad B i ctx len e segs → Facts c i ctx len e segs := by
  induction lad with
  | nil =>
    intro i _ ctx len e segs h
    obtain ⟨_, he, hs⟩ := h
    subst he; subst hs
    exact ⟨by simp [Prec.print], by simp, by simp [Prec.nf], by simp [HG, Prec.head]⟩
  | cons lo rest ih =>
    intro i hi ctx len e segs h
    obtain ⟨L, O⟩ := lo
    obtain ⟨first, ops, hch, he⟩ := h
    simp only [List.length_cons] at hi
    have hP := fun ctx len e segs hp => ih (i + 1) (by omega) ctx len e segs hp
    obtain ⟨h1, h2, h3, h4, h5⟩ := chainP_facts env c _ O i (by omega) hP ctx len first ops segs hch
    obtain ⟨n1, n2⟩ := nf_foldE c.K i first ops h3 (h4.mono (by omega)) h5
    subst he
    exact ⟨by rw [h1, print_foldE], h2, n1, n2⟩

/-- a successful `_match_symbol` on a ladder rule is a successful `_match_entry` on its pattern, with the same step count -/
theorem matchSymbol_ladder {env : Env} {fuel : Nat} {ctx : Ctx} {pk : Nat} {L N O : Str} {out : Out}
    (hr : getRule env.rules L = .ok (ladder N O)) (h : matchSymbol env fuel ctx pk L = .ok out) (hok : out.ok = true) :
    ∃ fuel' out', matchEntry env fuel' ctx pk (ladder N O) true = .ok out' ∧ out'.ok = true ∧ out'.steps = out.steps := by
  cases fuel with
  | zero => simp [matchSymbol] at h
  | succ f =>
    simp only [matchSymbol, hr, ladder] at h
    split at h
    · cases h
    · rename_i o ho
      simp only [Except.ok.injEq] at h; subst h
      exact ⟨f, o, ho, hok, rfl⟩

theorem chainP_of_chain (env : Env) (c : Codes) (P : Ctx → Nat → Expr → List Seg → Prop) (N O : Str) (i : Nat) (ctx : Ctx)
    (hN : ∀ ctx' fuel pk out, matchSymbol env fuel ctx' pk N = .ok out → out.ok = true → ∃ e segs, P ctx' out.steps e segs)
    (steps : Nat) (cs : List Ast) (h : Chain env N O ctx steps cs) :
    ∃ first ops segs, ChainP env c P O i ctx steps first ops segs := by
  induction h with
  | single fuel peek out hm hok =>
    obtain ⟨e, segs, hp⟩ := hN _ _ _ _ hm hok
    exact ⟨e, [], segs, .single _ _ _ hp⟩
  | more s cs fuel1 peek1 o fuel2 peek2 n hch ho hok hn hnk ih =>
    obtain ⟨f, r, segs1, hc⟩ := ih
    obtain ⟨e2, segs2, hp⟩ := hN _ _ _ _ hn hnk
    exact ⟨_, _, _, .more s f r segs1 fuel1 peek1 o n.steps e2 segs2 hc ho hok hp⟩

theorem lv_of_match (env : Env) (c : Codes) (lad : List (Str × Str)) (B : Str) (hok : ladOK env.rules lad B = true) :
    ∀ i ctx fuel pk out, matchSymbol env fuel ctx pk (symOf lad B) = .ok out → out.ok = true →
      ∃ e segs, LvP env c lad B i ctx out.steps e segs := by
  induction lad with
  | nil =>
    intro i ctx fuel pk out h hk
    exact ⟨_, _, ⟨fuel, pk, out, h, hk, rfl⟩, rfl, rfl⟩
  | cons lo rest ih =>
    intro i ctx fuel pk out h hk
    obtain ⟨L, O⟩ := lo
    simp only [ladOK, Bool.and_eq_true, decide_eq_true_eq] at hok
    simp only [symOf] at h
    obtain ⟨fuel', out', he, hk', hs⟩ := matchSymbol_ladder hok.1 h hk
    have hch := chain_ladder env (symOf rest B) O fuel' ctx pk true out' he hk'
    obtain ⟨first, ops, segs, hc⟩ := chainP_of_chain env c (LvP env c rest B (i + 1)) (symOf rest B) O i ctx
      (fun ctx' fuel pk out hm hok' => ih hok.2 (i + 1) ctx' fuel pk out hm hok') _ _ hch
    rw [hs] at hc
    exact ⟨_, segs, first, ops, hc, rfl⟩

/-- **Ladder grouping.** Whatever the engine matches for the top rule of a ladder, its decomposition into bottom and
    operator matches — abstract tokens `segs` that cover exactly the consumed tokens, in order — is read by the
    precedence-climbing reference parser, with the ladder's own level order as operator table, into the very expression
    `e` the engine's flat chains stand for (left-nested within a level, tighter levels below looser ones). -/
theorem ladder_group (env : Env) (c : Codes) (lad : List (Str × Str)) (B : Str) (hok : ladOK env.rules lad B = true)
    (hK : lad.length ≤ c.K) (ctx : Ctx) (fuel pk : Nat) (out : Out)
    (h : matchSymbol env fuel ctx pk (symOf lad B) = .ok out) (hk : out.ok = true) :
    ∃ e segs, LvP env c lad B 0 ctx out.steps e segs ∧
      segs.flatMap (·.2) = span ctx 0 out.steps ∧
      Prec.parse (ladOps c.K) (segs.map (·.1)) = some e := by
  obtain ⟨e, segs, hl⟩ := lv_of_match env c lad B hok 0 ctx fuel pk out h hk
  have f := lv_facts env c lad B 0 (by omega) ctx _ e segs hl
  exact ⟨e, segs, hl, f.cover, by rw [f.print]; exact Prec.parse_print_NF _ e f.nf⟩

end Tranp.Engine
