/-
  Helper lemmas for property C08: the capture list of a lambda / closure commutes with injective renamings.
-/
import Tranp.Model.Capture

namespace Tranp.Capture
open Tranp

variable {N N' : Type} [DecidableEq N] [DecidableEq N']

theorem contains_map (r : N → N') (hr : Function.Injective r) (xs : List N) (v : N) :
    (xs.map r).contains (r v) = xs.contains v := by
  rw [Bool.eq_iff_iff]
  simp only [List.contains_iff_mem, List.mem_map]
  constructor
  · rintro ⟨a, ha, e⟩; rw [← hr e]; exact ha
  · intro h; exact ⟨v, h, rfl⟩

theorem refVars_map (r : N → N') (hr : Function.Injective r) (params refs : List N) :
    refVars (params.map r) (refs.map r) = (refVars params refs).map r := by
  unfold refVars
  rw [List.filter_map]
  congr 1
  apply List.filter_congr
  intro v _
  simp only [Function.comp, contains_map r hr]

theorem filter_ne_map (r : N → N') (hr : Function.Injective r) (xs : List N) (x : N) :
    (xs.map r).filter (fun y => y ≠ r x) = (xs.filter (fun y => y ≠ x)).map r := by
  rw [List.filter_map]
  congr 1
  apply List.filter_congr
  intro v _
  simp only [Function.comp]
  by_cases h : v = x
  · subst h; simp
  · have : r v ≠ r x := fun e => h (hr e)
    simp [h, this]

theorem dictKeys_map (r : N → N') (hr : Function.Injective r) (xs : List N) :
    dictKeys (xs.map r) = (dictKeys xs).map r := by
  induction xs with
  | nil => rfl
  | cons x xs ih =>
    simp only [List.map_cons, dictKeys, ih]
    rw [filter_ne_map r hr]

theorem binds_map (r : N → N') (hr : Function.Injective r) (params refs : List N) :
    binds (params.map r) (refs.map r) = (binds params refs).map r := by
  unfold binds
  rw [refVars_map r hr, dictKeys_map r hr]

end Tranp.Capture
