/-
  Property C14 — the exact round trip: every field of an entry that export / import can see (types, node, decl, `via`, attribute
  forest) comes back, so the table after the round trip is the table before it, key by key.
  `Lemmas/SymbolJson.lean` proves the description the property names (`DescEq`: no `via`); this file adds the `via` key of the
  Reflection records (serializer.py:57, 84-85; reflection.py:333) under one more stated invariant of loaded tables (`ViaOK`).
  Core tactics only (the driver imports this file for the compiled check `viaOKb`).
-/
import Tranp.Lemmas.SymbolJson

namespace Tranp.SymbolJson
open Tranp

/-- What a loaded table guarantees about the `via` of an entry:
    a class entry is its own `via` (`Symbol.via` is the symbol itself); for any other entry the `via` key — when it differs from the
    type key — is the key of an entry of that very type (serializer.py:85 reads `db[data['via']]` and keeps its `types.fullyname`),
    and — when it is the type key — the entry of the type key is its own `via` (reflection.py:333 falls back to `origin.via`). -/
structure ViaOK (W : World) (t : Table) (s : Sym) : Prop where
  cls : s.isClassSymbol W = true → s.via = W.fullyname s.types
  other : s.isClassSymbol W = false → s.typesKey W ≠ s.via → ∃ v, dictGet? t.items s.via = some v ∧ v.typesKey W = s.via
  same : s.isClassSymbol W = false → s.typesKey W = s.via → ∀ o, dictGet? t.items (s.typesKey W) = some o → o.via = s.via

/-- `ViaOK` as a check -/
def viaOKb (W : World) (t : Table) (s : Sym) : Bool :=
  if s.isClassSymbol W then s.via == W.fullyname s.types
  else if s.typesKey W != s.via then
    (match dictGet? t.items s.via with
      | some v => v.typesKey W == s.via
      | none => false)
  else
    (match dictGet? t.items (s.typesKey W) with
      | some o => o.via == s.via
      | none => true)

theorem viaOKb_sound (W : World) (t : Table) (s : Sym) (h : viaOKb W t s = true) : ViaOK W t s := by
  unfold viaOKb at h
  refine ⟨?_, ?_, ?_⟩
  · intro hc
    simp only [hc, if_true, beq_iff_eq] at h
    exact h
  · intro hc hne
    have hne' : (s.typesKey W != s.via) = true := by simp [hne]
    simp only [hc, Bool.false_eq_true, if_false, hne', if_true] at h
    cases hg : dictGet? t.items s.via with
    | none => rw [hg] at h; cases h
    | some v =>
      rw [hg] at h
      simp only [beq_iff_eq] at h
      exact ⟨v, rfl, h⟩
  · intro hc heq o ho
    have hne' : (s.typesKey W != s.via) = false := by simp [heq]
    simp only [hc, Bool.false_eq_true, if_false, hne'] at h
    rw [ho] at h
    simp only [beq_iff_eq] at h
    exact h

/-- all entries of module `M` pass the check ⇒ the extra hypothesis of `C14.rt_exact` -/
theorem viaOK_of_check (W : World) (t : Table) (M : Str)
    (h : (t.items.all (fun ks => modOf ks.1 != M || viaOKb W t ks.2)) = true) :
    ∀ K s, dictGet? t.items K = some s → modOf K = M → ViaOK W t s := by
  intro K s hs hm
  have hmem := mem_of_dictGet _ _ _ hs
  have := List.all_eq_true.mp h (K, s) hmem
  simp only [hm, bne_self_eq_false, Bool.false_or] at this
  exact viaOKb_sound W t s this

/-- the entries of `avail` are present in `T` exactly as they are in `t` -/
def AgreeX (T t : Table) (avail : List Str) : Prop :=
  ∀ r ∈ avail, ∃ s, dictGet? T.items r = some s ∧ dictGet? t.items r = some s

theorem AgreeX.agree {T t : Table} {avail : List Str} (h : AgreeX T t avail) : Agree T t avail := by
  intro r hr
  obtain ⟨s, h1, h2⟩ := h r hr
  exact ⟨s, s, h1, h2, DescEq.rfl' s⟩

/-- `deserialize (serialize s) = s`, every field, against a table that agrees exactly on what the row refers to -/
theorem deserialize_serialize_exact (W : World) (T t : Table) (avail : List Str) (s : Sym)
    (hs : SymOK W t s) (hv : ViaOK W t s) (hr : ∀ r ∈ rowRefs (serialize W s), r ∈ avail) (ha : AgreeX T t avail) :
    deserialize W T (serialize W s) = .ok s := by
  obtain ⟨s', hds, hty, hnd, hdc, hat⟩ := deserialize_serialize W T t avail s hs hr ha.agree
  rw [hds]
  congr 1
  -- only `via` is left
  have hvia : s'.via = s.via := by
    cases hc : s.isClassSymbol W with
    | true =>
      have hrow : serialize W s = .symbol s.types (expand s.attrs) := by simp [serialize, hc]
      rw [hrow] at hds
      simp only [deserialize] at hds
      split at hds
      · cases hds
      · split at hds
        · cases hds
        · split at hds
          · cases hds
          · simp only [Except.ok.injEq] at hds
            rw [← hds]
            exact (hv.cls hc).symm
    | false =>
      have hrow : serialize W s = .reflection s.node s.decl (s.typesKey W) s.via (expand s.attrs) := by simp [serialize, hc]
      rw [hrow] at hds hr
      obtain ⟨o, hTo, hto⟩ := ha (s.typesKey W) (hr _ (by simp [rowRefs]))
      obtain ⟨v, hTv, htv⟩ := ha s.via (hr _ (by simp [rowRefs]))
      simp only [deserialize, Table.get, hTo] at hds
      split at hds
      · cases hds
      · split at hds
        · cases hds
        · split at hds
          · cases hds
          · by_cases hne : s.typesKey W = s.via
            · have hb : (s.typesKey W != s.via) = false := by simp [hne]
              simp only [hb, Bool.false_eq_true, if_false] at hds
              split at hds
              · cases hds
              · simp only [Except.ok.injEq] at hds
                rw [← hds]
                exact hv.same hc hne o hto
            · have hb : (s.typesKey W != s.via) = true := by simp [hne]
              simp only [hb, if_true, hTv] at hds
              split at hds
              · cases hds
              · simp only [Except.ok.injEq] at hds
                rw [← hds]
                obtain ⟨v0, hv0, hv1⟩ := hv.other hc hne
                rw [htv] at hv0
                cases hv0
                exact hv1
  cases s' with
  | mk ty nd dc vi at' =>
    cases s with
    | mk ty2 nd2 dc2 vi2 at2 =>
      simp only at hty hnd hdc hat hvia
      subst hty hnd hdc hat hvia
      rfl

theorem import_restores_exact (W : World) (t : Table) (d : List (Str × Row)) :
    ∀ (T : Table) (avail : List Str),
    (∀ kr ∈ d, ∃ s, dictGet? t.items kr.1 = some s ∧ kr.2 = serialize W s ∧ SymOK W t s ∧ ViaOK W t s) →
    RefsAvail avail d → AgreeX T t avail →
    ∃ T', importJson W T d = .ok T' ∧ AgreeX T' t (avail ++ d.map Prod.fst) := by
  induction d with
  | nil => intro T avail _ _ ha; exact ⟨T, rfl, by simpa using ha⟩
  | cons kr rest ih =>
    intro T avail hd hav ha
    obtain ⟨k, row⟩ := kr
    obtain ⟨s, hts, hrow, hok, hvok⟩ := hd (k, row) (by simp)
    simp only at hts hrow
    simp only [RefsAvail] at hav
    subst hrow
    have hds := deserialize_serialize_exact W T t avail s hok hvok hav.1 ha
    have ha' : AgreeX ((T.set k s).onComplete (modOf k)) t (avail ++ [k]) := by
      intro r hr
      by_cases hrk : k = r
      · subst hrk
        exact ⟨s, by simp [onComplete_items, Table.set, dictGet_insert], hts⟩
      · rcases List.mem_append.mp hr with hr | hr
        · obtain ⟨a, h1, h2⟩ := ha r hr
          exact ⟨a, by simp [onComplete_items, Table.set, dictGet_insert, hrk, h1], h2⟩
        · simp at hr; exact absurd hr.symm hrk
    obtain ⟨T', hT', hag⟩ := ih _ _ (fun kr hkr => hd kr (by simp [hkr])) hav.2 ha'
    refine ⟨T', ?_, ?_⟩
    · simp only [importJson, hds]; exact hT'
    · simpa [List.append_assoc] using hag

end Tranp.SymbolJson
