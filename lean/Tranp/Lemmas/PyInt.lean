/-
  Lemmas for the string casts of C17: `pyInt 10` (the model of Python's `int(str)`, Tranp/Model/Evaluator.lean) accepts exactly
  the declarative grammar `IntText`: blanks, optional sign, digits with single underscores between them, blanks.
-/
import Tranp.Model.Evaluator
import Tranp.Lemmas.Escape

namespace Tranp.Evaluator
open Tranp

/-- reading digits (single underscores between them) after the value `acc` has been accumulated -/
inductive DigitsAcc (base : Nat) : Nat → Str → Nat → Prop where
  | nil (acc : Nat) : DigitsAcc base acc [] acc
  | digit {acc : Nat} {c : Char} {d : Nat} {cs : Str} {n : Nat} : digVal base c = some d → DigitsAcc base (acc * base + d) cs n → DigitsAcc base acc (c :: cs) n
  | under {acc : Nat} {c : Char} {d : Nat} {cs : Str} {n : Nat} : digVal base c = some d → DigitsAcc base (acc * base + d) cs n → DigitsAcc base acc ('_' :: c :: cs) n

/-- no blank of `wsCodes` lies in a block of decimal digits (generated table, decided) -/
theorem uniDec_ws : ∀ n ∈ wsCodes, uniDec n = none := by decide

theorem uniDec_ascii_punct : uniDec 95 = none ∧ uniDec 45 = none ∧ uniDec 43 = none ∧ uniDec 92 = none := by decide

theorem digVal_underscore (base : Nat) : digVal base '_' = none := by
  simp [digVal, Str.hexVal, uniDec_ascii_punct.1]

theorem ws_not_digit {c : Char} (h : isWs c = true) (base : Nat) : digVal base c = none := by
  have hu : uniDec c.toNat = none := uniDec_ws _ (by simpa [isWs] using h)
  simp only [isWs, wsCodes, Generated.UnicodeDigits.intBlanks, List.contains_cons, List.contains_nil, Bool.or_false, Bool.or_eq_true, beq_iff_eq] at h
  have hh : Str.hexVal c = none := by
    rcases h with h | h | h | h | h | h | h | h | h | h | h | h | h | h | h | h | h | h | h | h | h | h | h | h | h <;>
      simp [Str.hexVal, h]
  simp [digVal, hh, hu]

theorem goDigits_complete {base acc : Nat} {ds : Str} {n : Nat} (h : DigitsAcc base acc ds n) (r : Str) (hr : r.all isWs = true) :
    goDigits base acc (ds ++ r) = some n := by
  induction h with
  | nil acc =>
    cases r with
    | nil => simp [goDigits]
    | cons c cs =>
      have hc : isWs c = true := by simp at hr; exact hr.1
      have hne : c ≠ '_' := by intro h; subst h; simp [isWs, wsCodes, Generated.UnicodeDigits.intBlanks] at hc
      have hd := ws_not_digit hc base
      simp only [List.nil_append]
      unfold goDigits
      split
      · simp at *
      · rename_i heq; injection heq with h1 _; exact absurd h1.symm (by intro h; exact hne h.symm)
      · rename_i c' cs' _ heq
        injection heq with h1 h2; subst h1; subst h2
        simp [hd, hr]
  | @digit acc c d cs n hd _ ih =>
    have hne : c ≠ '_' := by intro h; subst h; rw [digVal_underscore] at hd; cases hd
    simp only [List.cons_append]
    unfold goDigits
    split
    · simp at *
    · rename_i heq; injection heq with h1 _; exact absurd h1 hne
    · rename_i c' cs' _ heq
      injection heq with h1 h2; subst h1; subst h2
      simp [hd, ih]
  | @under acc c d cs n hd _ ih =>
    simp only [List.cons_append]
    rw [goDigits]
    simp [hd, ih]

theorem goDigits_sound {base : Nat} (acc : Nat) (s : Str) : ∀ n, goDigits base acc s = some n →
    ∃ ds r, s = ds ++ r ∧ DigitsAcc base acc ds n ∧ r.all isWs = true := by
  induction acc, s using goDigits.induct base with
  | case1 acc => intro n h; simp [goDigits] at h; subst h; exact ⟨[], [], rfl, DigitsAcc.nil _, rfl⟩
  | case2 acc c cs d hd ih =>
    intro n h
    rw [goDigits] at h; simp only [hd] at h
    obtain ⟨ds, r, rfl, hds, hr⟩ := ih n h
    exact ⟨'_' :: c :: ds, r, rfl, DigitsAcc.under hd hds, hr⟩
  | case3 acc c cs hd =>
    intro n h
    rw [goDigits] at h; simp [hd] at h
  | case4 acc c cs hne d hd ih =>
    intro n h
    rw [goDigits.eq_3 _ _ _ _ hne] at h; simp only [hd] at h
    obtain ⟨ds, r, rfl, hds, hr⟩ := ih n h
    exact ⟨c :: ds, r, rfl, DigitsAcc.digit hd hds, hr⟩
  | case5 acc c cs hne hd hws =>
    intro n h
    rw [goDigits.eq_3 _ _ _ _ hne] at h; simp only [hd, hws, if_true] at h
    cases h
    exact ⟨[], c :: cs, rfl, DigitsAcc.nil _, hws⟩
  | case6 acc c cs hne hd hws =>
    intro n h
    rw [goDigits.eq_3 _ _ _ _ hne] at h; simp [hd, hws] at h

/-- Python's `int(str)` grammar for base 10: blanks, an optional sign, a digit, further digits with single underscores between
    them, blanks — and the value it denotes. -/
def IntText (s : Str) (n : Int) : Prop :=
  ∃ (l sg : Str) (c : Char) (d : Nat) (ds r : Str) (m : Nat),
    s = l ++ (sg ++ (c :: (ds ++ r))) ∧ l.all isWs = true ∧ r.all isWs = true ∧ (sg = [] ∨ sg = ['+'] ∨ sg = ['-']) ∧
    digVal 10 c = some d ∧ DigitsAcc 10 d ds m ∧ n = (if sg = ['-'] then -(m : Int) else (m : Int))

theorem dropWhile_ws (l t : Str) (hl : l.all isWs = true) (ht : ∀ c cs, t = c :: cs → isWs c = false) :
    (l ++ t).dropWhile isWs = t := by
  induction l with
  | nil =>
    cases t with
    | nil => rfl
    | cons c cs => simp [ht c cs rfl]
  | cons x xs ih =>
    simp only [List.all_cons, Bool.and_eq_true] at hl
    simp [hl.1, ih hl.2]

theorem digit_not_ws {c : Char} {d base : Nat} (h : digVal base c = some d) : isWs c = false := by
  cases hw : isWs c with
  | false => rfl
  | true => rw [ws_not_digit hw base] at h; cases h

theorem digit_not_sign {c : Char} {d base : Nat} (h : digVal base c = some d) : c ≠ '-' ∧ c ≠ '+' := by
  constructor <;> (intro hc; subst hc; simp [digVal, Str.hexVal, uniDec_ascii_punct.2.1, uniDec_ascii_punct.2.2.1] at h)

theorem pyInt_complete {s : Str} {n : Int} (h : IntText s n) : pyInt 10 s = .ok n := by
  obtain ⟨l, sg, c, d, ds, r, m, rfl, hl, hr, hsg, hd, hds, rfl⟩ := h
  have hgo := goDigits_complete hds r hr
  have hnw := digit_not_ws hd
  obtain ⟨hm, hp⟩ := digit_not_sign hd
  unfold pyInt
  rcases hsg with rfl | rfl | rfl
  · rw [dropWhile_ws l _ hl (by intro c' cs' h; simp at h; rw [← h.1]; exact hnw)]
    simp only [List.nil_append]
    have : signed (c :: (ds ++ r)) = (false, c :: (ds ++ r)) := by
      unfold signed; split
      · rename_i heq; injection heq with h1; exact absurd h1 hm
      · rename_i heq; injection heq with h1; exact absurd h1 hp
      · rfl
    simp [this, parseDigits, hd, hgo, applySign]
  · rw [dropWhile_ws l _ hl (by intro c' cs' h; simp at h; rw [← h.1]; decide)]
    simp [signed, parseDigits, hd, hgo, applySign]
  · rw [dropWhile_ws l _ hl (by intro c' cs' h; simp at h; rw [← h.1]; decide)]
    simp [signed, parseDigits, hd, hgo, applySign]

theorem parseDigits_sound {t : Str} {m : Nat} (h : parseDigits 10 t = some m) :
    ∃ c d ds r, t = c :: (ds ++ r) ∧ digVal 10 c = some d ∧ DigitsAcc 10 d ds m ∧ r.all isWs = true := by
  cases t with
  | nil => simp [parseDigits] at h
  | cons c cs =>
    simp only [parseDigits] at h
    cases hd : digVal 10 c with
    | none => simp [hd] at h
    | some d =>
      simp only [hd] at h
      obtain ⟨ds, r, rfl, hds, hr⟩ := goDigits_sound d cs m h
      exact ⟨c, d, ds, r, rfl, hd, hds, hr⟩

theorem all_takeWhile (p : Char → Bool) (s : Str) : (s.takeWhile p).all p = true := by
  induction s with
  | nil => rfl
  | cons c cs ih =>
    simp only [List.takeWhile]
    cases h : p c <;> simp [h, ih]

theorem signed_cases (t : Str) :
    (∃ b, t = '-' :: b ∧ signed t = (true, b)) ∨ (∃ b, t = '+' :: b ∧ signed t = (false, b)) ∨ signed t = (false, t) := by
  unfold signed
  split
  · exact Or.inl ⟨_, rfl, rfl⟩
  · exact Or.inr (Or.inl ⟨_, rfl, rfl⟩)
  · exact Or.inr (Or.inr rfl)

theorem pyInt_sound {s : Str} {n : Int} (h : pyInt 10 s = .ok n) : IntText s n := by
  unfold pyInt at h
  have hsplit : s = s.takeWhile isWs ++ s.dropWhile isWs := (List.takeWhile_append_dropWhile).symm
  have hl := all_takeWhile isWs s
  generalize s.dropWhile isWs = t at h hsplit
  rcases signed_cases t with ⟨b, rfl, hs⟩ | ⟨b, rfl, hs⟩ | hs <;> rw [hs] at h <;> simp only [Nat.reduceEqDiff, if_false] at h
  · cases hp : parseDigits 10 b with
    | none => simp [hp] at h
    | some m =>
      simp [hp, applySign] at h
      obtain ⟨c, d, ds, r, rfl, hd, hds, hr⟩ := parseDigits_sound hp
      exact ⟨_, ['-'], c, d, ds, r, m, hsplit, hl, hr, Or.inr (Or.inr rfl), hd, hds, by simp [h]⟩
  · cases hp : parseDigits 10 b with
    | none => simp [hp] at h
    | some m =>
      simp [hp, applySign] at h
      obtain ⟨c, d, ds, r, rfl, hd, hds, hr⟩ := parseDigits_sound hp
      exact ⟨_, ['+'], c, d, ds, r, m, hsplit, hl, hr, Or.inr (Or.inl rfl), hd, hds, by simp [h]⟩
  · cases hp : parseDigits 10 t with
    | none => simp [hp] at h
    | some m =>
      simp [hp, applySign] at h
      obtain ⟨c, d, ds, r, rfl, hd, hds, hr⟩ := parseDigits_sound hp
      exact ⟨_, [], c, d, ds, r, m, hsplit, hl, hr, Or.inl rfl, hd, hds, by simp [h]⟩

theorem pyInt_error {s : Str} {e : PyExc} (h : pyInt 10 s = .error e) : e = .valueError := by
  unfold pyInt at h
  split at h
  simp only [Nat.reduceEqDiff, if_false] at h
  split at h
  · cases h
  · cases h; rfl

/-! ### none of the accepted texts contains a backslash -/

theorem ws_no_bs {l : Str} (h : l.all isWs = true) : l.contains '\\' = false := by
  induction l with
  | nil => rfl
  | cons c cs ih =>
    simp only [List.all_cons, Bool.and_eq_true] at h
    have hc : c ≠ '\\' := by intro hc; subst hc; exact absurd h.1 (by decide)
    exact contains_cons_false hc (ih h.2)

theorem digit_ne_bs {c : Char} {d base : Nat} (h : digVal base c = some d) : c ≠ '\\' := by
  intro hc; subst hc; simp [digVal, Str.hexVal, uniDec_ascii_punct.2.2.2] at h

theorem digitsAcc_no_bs {base acc : Nat} {ds : Str} {n : Nat} (h : DigitsAcc base acc ds n) : ds.contains '\\' = false := by
  induction h with
  | nil _ => rfl
  | digit hd _ ih => exact contains_cons_false (digit_ne_bs hd) ih
  | under hd _ ih => exact contains_cons_false (by decide) (contains_cons_false (digit_ne_bs hd) ih)

theorem pyInt_no_bs {s : Str} {n : Int} (h : pyInt 10 s = .ok n) : s.contains '\\' = false := by
  obtain ⟨l, sg, c, d, ds, r, m, rfl, hl, hr, hsg, hd, hds, _⟩ := pyInt_sound h
  have h1 := ws_no_bs hl
  have h2 := ws_no_bs hr
  have h3 := digitsAcc_no_bs hds
  have h4 : sg.contains '\\' = false := by rcases hsg with rfl | rfl | rfl <;> decide
  have h5 : (c :: (ds ++ r)).contains '\\' = false := by
    exact contains_cons_false (digit_ne_bs hd) (contains_append_false h3 h2)
  exact contains_append_false h1 (contains_append_false h4 h5)

theorem natDigits_no_bs : ∀ (fuel n : Nat) (acc : Str), acc.contains '\\' = false → (natDigits fuel n acc).contains '\\' = false := by
  have hd : ∀ d, d < 10 → Str.digitChar d ≠ '\\' := by decide
  intro fuel
  induction fuel with
  | zero => intro n acc h; simpa [natDigits] using h
  | succ f ih =>
    intro n acc h
    simp only [natDigits]
    split
    · rename_i hlt
      exact contains_cons_false (hd n hlt) h
    · apply ih
      exact contains_cons_false (hd (n % 10) (Nat.mod_lt _ (by decide))) h

theorem showInt_no_bs (i : Int) : (showInt i).contains '\\' = false := by
  unfold showInt showNat
  split
  · exact contains_cons_false (by decide) (natDigits_no_bs _ _ [] rfl)
  · exact natDigits_no_bs _ _ [] rfl

end Tranp.Evaluator
