/-
  C12: the gram tokenizer model (C13's `Tranp.Lexer.tokenize` with `Generated.TokenDef.gramDef`) applied to the embedded TEXT of
  data/syntax/gram.lark yields, token by token, the strings and source maps of the dumped real token list — evaluated by the kernel.
  (The same statement for py_gram.lark is true under `#eval` but exceeds the kernel's time limit — the source-map computation
  is quadratic — so for py_gram.lark the real token list stays trusted input.)
-/
import Tranp.Model.Lexer
import Tranp.Model.TextRt
import Tranp.Generated.GramRules
import Tranp.Generated.RtWitnesses
import Tranp.Generated.TokenDef
import Tranp.Generated.RulesData

namespace Tranp.C12Fixed
open Tranp Tranp.Generated Tranp.Generated.TokenDef

def projLex (t : Lexer.Token) : Str × Int × Int × Int × Int := (t.string, t.map.bl, t.map.bc, t.map.el, t.map.ec)
def projTok (t : Engine.Tok) : Str × Int × Int × Int × Int := (t.str, t.map.bl, t.map.bc, t.map.el, t.map.ec)

/-- the lexer model on `text` gives exactly the strings and source maps of `real` -/
def lexAgrees (text : Str) (real : List Engine.Tok) : Bool :=
  match Lexer.tokenize gramDef text with
  | .ok ts => decide (ts.map projLex = real.map projTok)
  | .error _ => false

set_option maxRecDepth 100000 in
theorem gram_lex : lexAgrees gramLarkText gramLarkTokens = true := by decide +kernel

/-- The transcribed predicates are the regexp terminals of gram_rules(), and they classify every token of gram.lark,
    py_gram.lark and of the round-trip witnesses exactly as the real `re.fullmatch` did (the dumped `cls` column). -/
theorem gram_class_agrees :
    gramRegexps = GramClass.gramRegexpTexts ∧
    (gramLarkTokens.all fun t => GramClass.gramClass t.str == t.cls) = true ∧
    (pyGramLarkTokens.all fun t => GramClass.gramClass t.str == t.cls) = true ∧
    (rtWitnesses.all fun w => w.2.2.all fun t => GramClass.gramClass t.str == t.cls) = true := by
  decide +kernel

set_option maxRecDepth 100000 in
/-- lexing the TEXT of gram.lark in Lean gives the dumped real token list, classes included -/
theorem gram_lex_full : TextRt.lexGram gramLarkText = .ok gramLarkTokens := by decide +kernel

end Tranp.C12Fixed
