/-
  Lemmas for property C18, part 2: `_analyze_entry` / `_parse` / `_parse_block` / `parse_bracket` on fragments
  (after repair f350973). Result used by Props/C18.lean: the first block of `parse_bracket(name + group + tail)` is the
  whole group.
-/
import Tranp.Lemmas.Block

namespace Tranp.Block
open Tranp Tranp.Generated.BlockPairs

/-! ### `_skip_other_block` with the token table of `_analyze_entry` (all pairs except the one that is parsed) -/

/-- a token table that knows every bracket kind except `hid`, and both quotes -/
structure OtherTable (toks : List (Char × Char)) (hid : BK) : Prop where
  plain : ∀ c : Char, has Frag.special c = false → classify toks c = .none
  vopen : ∀ k : BK, k ≠ hid → classify toks k.open = .opener k.close
  vclose : ∀ k : BK, k ≠ hid → classify toks k.close = .closer
  hopen : classify toks hid.open = .none
  hclose : classify toks hid.close = .none
  quote : ∀ q : QK, classify toks q.ch = .opener q.ch

theorem classify_filter_none (ps : List (Char × Char)) (p : Char × Char → Bool) (c : Char)
    (h : classify ps c = .none) : classify (ps.filter p) c = .none := by
  induction ps with
  | nil => rfl
  | cons x ps ih =>
    obtain ⟨o, cl⟩ := x
    simp only [classify] at h
    split at h
    · cases h
    · split at h
      · cases h
      · rename_i h1 h2
        simp only [List.filter]
        split
        · simp [classify, h1, h2, ih h]
        · exact ih h

theorem otherTable (k : BK) : OtherTable (otherPairs [k.open, k.close]) k where
  plain := fun c h => classify_filter_none _ _ c (classify_special c h)
  vopen := by intro k' h; cases k <;> cases k' <;> first | exact absurd rfl h | decide
  vclose := by intro k' h; cases k <;> cases k' <;> first | exact absurd rfl h | decide
  hopen := by cases k <;> decide
  hclose := by cases k <;> decide
  quote := by intro q; cases k <;> cases q <;> decide

section
variable {toks : List (Char × Char)} {hid : BK} (T : OtherTable toks hid)
include T

theorem gstep_plain (st : List Char) (c : Char) (h : has Frag.special c = false) : skipStep toks st c = st := by
  simp [skipStep, T.plain c h]

theorem gstep_hopen (st : List Char) : skipStep toks st hid.open = st := by simp [skipStep, T.hopen]
theorem gstep_hclose (st : List Char) : skipStep toks st hid.close = st := by simp [skipStep, T.hclose]

theorem gstep_open (ks : List BK) (k : BK) (hk : k ≠ hid) :
    skipStep toks (closers ks) k.open = closers (k :: ks) := by
  simp only [skipStep, T.vopen k hk, if_neg (head_closers_ne_open ks k), head_closers_not_quote]
  rfl

theorem gstep_close (st : List Char) (k : BK) (hk : k ≠ hid) : skipStep toks (k.close :: st) k.close = st := by
  simp [skipStep, T.vclose k hk]

theorem gstep_quote_push (ks : List BK) (q : QK) : skipStep toks (closers ks) q.ch = q.ch :: closers ks := by
  simp only [skipStep, T.quote q, if_neg (head_closers_ne_quote ks q), head_closers_not_quote]
  rfl

theorem gstep_quote_pop (st : List Char) (q : QK) : skipStep toks (q.ch :: st) q.ch = st := by
  simp [skipStep, T.quote q]

omit T in
theorem gskipLen_body (toks : List (Char × Char)) (q : QK) (st : List Char) (b rest : Str) (hb : ∀ c ∈ b, c ≠ q.ch) :
    skipLen toks (q.ch :: st) (b ++ rest) = b.length + skipLen toks (q.ch :: st) rest := by
  induction b with
  | nil => simp
  | cons c b ih =>
    have hc := hb c (by simp)
    have hb' : ∀ c ∈ b, c ≠ q.ch := fun c hc => hb c (by simp [hc])
    simp only [List.cons_append, skipLen_cons, skipStep_in_string toks st q c hc, List.isEmpty_cons,
      Bool.false_eq_true, if_false, ih hb', List.length_cons]
    omega

theorem gskipLen_frag (f : Frag) : ∀ (ks : List BK) (rest : Str), ks ≠ [] → Frag.Simple f →
    skipLen toks (closers ks) (f.render ++ rest) = f.render.length + skipLen toks (closers ks) rest := by
  induction f with
  | nil => intro ks rest _ _; simp [Frag.render]
  | atom c r ih =>
    intro ks rest hks hc
    rw [simple_atom] at hc
    simp only [Frag.render, List.cons_append, skipLen_cons, gstep_plain T _ c hc.1, List.isEmpty_iff,
      closers_ne_nil hks, if_false, ih ks rest hks hc.2, List.length_cons]
    omega
  | str q b r ih =>
    intro ks rest hks hc
    rw [simple_str] at hc
    simp only [Frag.render, List.cons_append, List.append_assoc, skipLen_cons, gstep_quote_push T,
      List.isEmpty_cons, Bool.false_eq_true, if_false, gskipLen_body toks q _ b _ hc.1, gstep_quote_pop T,
      List.isEmpty_iff, closers_ne_nil hks, ih ks rest hks hc.2, List.length_cons, List.length_append]
    omega
  | group k i r ihi ihr =>
    intro ks rest hks hc
    rw [simple_group] at hc
    by_cases hk : k = hid
    · subst hk
      simp only [Frag.render, List.cons_append, List.append_assoc, skipLen_cons, gstep_hopen T,
        List.isEmpty_iff, closers_ne_nil hks, if_false, ihi ks _ hks hc.1, gstep_hclose T,
        ihr ks rest hks hc.2, List.length_cons, List.length_append]
      omega
    · have h1 : k :: ks ≠ [] := by simp
      have h2 : closers (k :: ks) = k.close :: closers ks := rfl
      simp only [Frag.render, List.cons_append, List.append_assoc, skipLen_cons, gstep_open T ks k hk,
        List.isEmpty_iff, closers_ne_nil h1, if_false, ihi (k :: ks) _ h1 hc.1]
      rw [h2, gstep_close T _ k hk]
      simp only [closers_ne_nil hks, if_false, ihr ks rest hks hc.2, List.length_cons, List.length_append]
      omega

theorem gskipLen_group (k : BK) (hk : k ≠ hid) (i : Frag) (rest : Str) (hi : Frag.Simple i) :
    skipLen toks [] (k.open :: (i.render ++ k.close :: rest)) = i.render.length + 2 := by
  have h0 : ([] : List Char) = closers [] := rfl
  have h1 : [k] ≠ [] := by simp
  have h2 : closers [k] = [k.close] := rfl
  rw [skipLen_cons, h0, gstep_open T [] k hk]
  simp only [List.isEmpty_iff, closers_ne_nil h1, if_false, gskipLen_frag T i [k] _ h1 hi]
  rw [h2, skipLen_cons, gstep_close T _ k hk]
  simp
  omega

theorem gskipLen_str (q : QK) (b rest : Str) (hb : ∀ c ∈ b, c ≠ q.ch) :
    skipLen toks [] (q.ch :: (b ++ q.ch :: rest)) = b.length + 2 := by
  have h0 : ([] : List Char) = closers [] := rfl
  rw [skipLen_cons, h0, gstep_quote_push T]
  simp only [List.isEmpty_cons, Bool.false_eq_true, if_false]
  have : closers [] = [] := rfl
  rw [this, gskipLen_body toks q _ b _ hb, skipLen_cons, gstep_quote_pop T]
  simp
  omega

end


/-! ### `_analyze_entry` on fragments -/

/-- the part of a fragment in front of its first top-level group of kind `k` -/
def preK (k : BK) : Frag → Frag
  | .nil => .nil
  | .atom c r => .atom c (preK k r)
  | .str q b r => .str q b (preK k r)
  | .group k' i r => if k' = k then .nil else .group k' i (preK k r)

/-- the inside and the rest of the first top-level group of kind `k` -/
def hitK (k : BK) : Frag → Option (Frag × Frag)
  | .nil => none
  | .atom _ r => hitK k r
  | .str _ _ r => hitK k r
  | .group k' i r => if k' = k then some (i, r) else hitK k r

theorem hitK_some (k : BK) (f i r : Frag) (h : hitK k f = some (i, r)) :
    f = preK k f ++ Frag.group k i r ∧ i.render.length < f.render.length ∧ r.render.length < f.render.length := by
  induction f with
  | nil => simp [hitK] at h
  | atom c r' ih =>
    obtain ⟨e, l1, l2⟩ := ih h
    refine ⟨by rw [preK, atom_append, ← e], ?_, ?_⟩ <;> simp only [Frag.render, List.length_cons] <;> omega
  | str q b r' ih =>
    obtain ⟨e, l1, l2⟩ := ih h
    refine ⟨by rw [preK, str_append, ← e], ?_, ?_⟩ <;> simp only [Frag.render, List.length_cons, List.length_append] <;> omega
  | group k' i' r' _ ih =>
    simp only [hitK] at h
    by_cases hk : k' = k
    · rw [if_pos hk] at h
      simp only [Option.some.injEq, Prod.mk.injEq] at h
      obtain ⟨rfl, rfl⟩ := h
      subst hk
      refine ⟨by simp [preK], ?_, ?_⟩ <;> simp only [Frag.render, List.length_cons, List.length_append] <;> omega
    · rw [if_neg hk] at h
      obtain ⟨e, l1, l2⟩ := ih h
      refine ⟨by rw [preK, if_neg hk, group_append, ← e], ?_, ?_⟩ <;>
        simp only [Frag.render, List.length_cons, List.length_append] <;> omega

theorem bk_pair_ne (k : BK) (c : Char) (h : has Frag.special c = false) : c ≠ k.open ∧ c ≠ k.close := plain_ne_bk c k h

/-- The scan of `_analyze_entry` (block.py:180-195, empty delimiter) over a fragment followed by `rest`: it stops at the
    first top-level group of the kind that is parsed (answer `Block`), or runs through the whole fragment into `rest`. -/
theorem anaLoop_frag (k : BK) (f : Frag) : ∀ (rest : Str) (idx eb fuel : Nat), Frag.Simple f →
    f.render.length + rest.length < fuel →
    (∀ i r, hitK k f = some (i, r) →
      ∃ eb', anaLoop k.open [k.open, k.close] (otherPairs [k.open, k.close]) fuel (f.render ++ rest) idx eb
        = .ok (.block eb' (idx + (preK k f).render.length))) ∧
    (hitK k f = none →
      ∃ eb' fuel', rest.length < fuel' ∧
        anaLoop k.open [k.open, k.close] (otherPairs [k.open, k.close]) fuel (f.render ++ rest) idx eb
          = anaLoop k.open [k.open, k.close] (otherPairs [k.open, k.close]) fuel' rest (idx + f.render.length) eb') := by
  have T := otherTable k
  induction f with
  | nil =>
    intro rest idx eb fuel _ hfu
    refine ⟨fun i r h => by simp [hitK] at h, fun _ => ⟨eb, fuel, by simpa [Frag.render] using hfu, by simp [Frag.render]⟩⟩
  | atom c r ih =>
    intro rest idx eb fuel hf hfu
    rw [simple_atom] at hf
    obtain ⟨n, rfl⟩ : ∃ n, fuel = n + 1 := ⟨fuel - 1, by omega⟩
    simp only [Frag.render, List.length_cons] at hfu
    have hc := plain_ne_bk c k hf.1
    have hstep : ∀ eb, anaLoop k.open [k.open, k.close] (otherPairs [k.open, k.close]) (n + 1) ((Frag.atom c r).render ++ rest) idx eb
        = anaLoop k.open [k.open, k.close] (otherPairs [k.open, k.close]) n (r.render ++ rest) (idx + 1)
            (if has [' ', '\n', '\t'] c then idx + 1 else eb) := by
      intro eb
      simp [Frag.render, anaLoop, T.plain c hf.1, hc.1, hc.2, has]
    obtain ⟨ih1, ih2⟩ := ih rest (idx + 1) (if has [' ', '\n', '\t'] c then idx + 1 else eb) n hf.2 (by omega)
    constructor
    · intro i r' h
      obtain ⟨eb', he⟩ := ih1 i r' h
      exact ⟨eb', by rw [hstep, he]; simp only [preK, Frag.render, List.length_cons]; congr 2; omega⟩
    · intro h
      obtain ⟨eb', fuel', hl, he⟩ := ih2 h
      exact ⟨eb', fuel', hl, by rw [hstep, he]; simp only [Frag.render, List.length_cons]; congr 1; omega⟩
  | str q b r ih =>
    intro rest idx eb fuel hf hfu
    rw [simple_str] at hf
    obtain ⟨n, rfl⟩ : ∃ n, fuel = n + 1 := ⟨fuel - 1, by omega⟩
    simp only [Frag.render, List.length_cons, List.length_append] at hfu
    have hq : classify (otherPairs [k.open, k.close]) q.ch ≠ .none := by rw [T.quote q]; simp
    have hskip := gskipLen_str T q b (r.render ++ rest) hf.1
    have hdrop : (q.ch :: (b ++ q.ch :: (r.render ++ rest))).drop (b.length + 2) = r.render ++ rest := by
      have e : q.ch :: (b ++ q.ch :: (r.render ++ rest)) = (q.ch :: (b ++ [q.ch])) ++ (r.render ++ rest) := by simp
      have l : b.length + 2 = (q.ch :: (b ++ [q.ch])).length := by simp
      rw [e, l, List.drop_left]
    have hstep : anaLoop k.open [k.open, k.close] (otherPairs [k.open, k.close]) (n + 1) ((Frag.str q b r).render ++ rest) idx eb
        = anaLoop k.open [k.open, k.close] (otherPairs [k.open, k.close]) n (r.render ++ rest) (idx + (b.length + 2)) eb := by
      simp only [Frag.render, List.cons_append, List.append_assoc, anaLoop, hq, ne_eq, not_false_eq_true, if_true, hskip, hdrop]
    obtain ⟨ih1, ih2⟩ := ih rest (idx + (b.length + 2)) eb n hf.2 (by omega)
    constructor
    · intro i r' h
      obtain ⟨eb', he⟩ := ih1 i r' h
      exact ⟨eb', by rw [hstep, he]; simp only [preK, Frag.render, List.length_cons, List.length_append]; congr 2; omega⟩
    · intro h
      obtain ⟨eb', fuel', hl, he⟩ := ih2 h
      exact ⟨eb', fuel', hl, by rw [hstep, he]; simp only [Frag.render, List.length_cons, List.length_append]; congr 1; omega⟩
  | group k' i r _ ih =>
    intro rest idx eb fuel hf hfu
    rw [simple_group] at hf
    obtain ⟨n, rfl⟩ : ∃ n, fuel = n + 1 := ⟨fuel - 1, by omega⟩
    simp only [Frag.render, List.length_cons, List.length_append] at hfu
    by_cases hk : k' = k
    · subst hk
      constructor
      · intro i' r' _
        exact ⟨eb, by simp [preK, Frag.render, anaLoop, T.hopen]⟩
      · intro h; simp [hitK] at h
    · have ho : classify (otherPairs [k.open, k.close]) k'.open ≠ .none := by rw [T.vopen k' hk]; simp
      have hskip := gskipLen_group T k' hk i (r.render ++ rest) hf.1
      have hdrop : (k'.open :: (i.render ++ k'.close :: (r.render ++ rest))).drop (i.render.length + 2) = r.render ++ rest := by
        have e : k'.open :: (i.render ++ k'.close :: (r.render ++ rest)) = (k'.open :: (i.render ++ [k'.close])) ++ (r.render ++ rest) := by simp
        have l : i.render.length + 2 = (k'.open :: (i.render ++ [k'.close])).length := by simp
        rw [e, l, List.drop_left]
      have hstep : anaLoop k.open [k.open, k.close] (otherPairs [k.open, k.close]) (n + 1) ((Frag.group k' i r).render ++ rest) idx eb
          = anaLoop k.open [k.open, k.close] (otherPairs [k.open, k.close]) n (r.render ++ rest) (idx + (i.render.length + 2)) eb := by
        simp only [Frag.render, List.cons_append, List.append_assoc, anaLoop, ho, ne_eq, not_false_eq_true, if_true, hskip, hdrop]
      obtain ⟨ih1, ih2⟩ := ih rest (idx + (i.render.length + 2)) eb n hf.2 (by omega)
      constructor
      · intro i' r' h
        simp only [hitK, if_neg hk] at h
        obtain ⟨eb', he⟩ := ih1 i' r' h
        exact ⟨eb', by rw [hstep, he]; simp only [preK, if_neg hk, Frag.render, List.length_cons, List.length_append]; congr 2; omega⟩
      · intro h
        simp only [hitK, if_neg hk] at h
        obtain ⟨eb', fuel', hl, he⟩ := ih2 h
        exact ⟨eb', fuel', hl, by rw [hstep, he]; simp only [Frag.render, List.length_cons, List.length_append]; congr 1; omega⟩


theorem charAt_mid (pre : Str) (c : Char) (s : Str) : charAt (pre ++ c :: s) pre.length = .ok c := by
  simp [charAt]

theorem first_ne_close (k : BK) (f : Frag) (hf : Frag.Simple f) (c : Char) (cs : Str) (h : f.render = c :: cs) :
    c ≠ k.close := by
  cases f with
  | nil => simp [Frag.render] at h
  | atom c' r =>
    rw [simple_atom] at hf
    simp only [Frag.render, List.cons.injEq] at h
    rw [← h.1]; exact (plain_ne_bk c' k hf.1).2
  | str q b r =>
    simp only [Frag.render, List.cons.injEq] at h
    rw [← h.1]; exact (quote_ne_bk q k).2
  | group k' i r =>
    simp only [Frag.render, List.cons.injEq] at h
    rw [← h.1]; exact (close_ne_open k k').symm

/-- `_analyze_entry(text, brackets, '', index)` with an empty delimiter, on the character at `index`. -/
theorem analyzeEntry_at (o cl : Char) (pre : Str) (c : Char) (cs : Str) :
    analyzeEntry (pre ++ c :: cs) [o, cl] [] pre.length =
      if c = o then .ok (.block pre.length pre.length)
      else if c = cl then .ok (.fin pre.length)
      else anaLoop o [o, cl] (otherPairs [o, cl]) ((pre ++ c :: cs).length + 1) (c :: cs) pre.length pre.length := by
  simp only [analyzeEntry, charAt_mid, bind, Except.bind, pure, Except.pure]
  have h0 : charAt [o, cl] 0 = .ok o := rfl
  have h1 : charAt [o, cl] 1 = .ok cl := rfl
  simp only [h0, h1]
  by_cases hco : c = o
  · simp [hco]
  · by_cases hcc : c = cl
    · simp [hcc]
    · simp [hco, hcc, has]


/-- what `_parse` started at a fragment that is followed by the closing bracket of the enclosing block returns as index -/
def ParseOK (k : BK) (f : Frag) : Prop :=
  ∀ (pre post : Str) (depth : Nat) (acc : List Entry) (fuel : Nat), 2 * f.render.length + 2 ≤ fuel →
    ∃ acc', parseLoop (pre ++ (f.render ++ k.close :: post)) [k.open, k.close] [] fuel pre.length depth acc
      = .ok (pre.length + f.render.length, acc')

/-- … and `_parse_block` started behind the opening bracket: the position behind the closing bracket -/
def BlockOK (k : BK) (f : Frag) : Prop :=
  ∀ (pre post : Str) (depth : Nat) (acc : List Entry) (fuel : Nat), 2 * f.render.length + 3 ≤ fuel →
    ∃ acc', blockLoop (pre ++ (f.render ++ k.close :: post)) [k.open, k.close] [] fuel pre.length depth acc
      = .ok (pre.length + f.render.length + 1, acc')

theorem blockOK_of_parseOK (k : BK) (f : Frag) (hf : Frag.Simple f) (hP : ParseOK k f) : BlockOK k f := by
  intro pre post depth acc fuel hfu
  obtain ⟨m, rfl⟩ : ∃ m, fuel = m + 1 := ⟨fuel - 1, by omega⟩
  have hb1 : charAt [k.open, k.close] 1 = .ok k.close := rfl
  cases hr : f.render with
  | nil =>
    have hlt : pre.length < (pre ++ ([] ++ k.close :: post)).length := by simp
    rw [blockLoop, if_pos hlt]
    simp [charAt_mid, hb1, bind, Except.bind]
  | cons c cs =>
    have hc : c ≠ k.close := first_ne_close k f hf c cs hr
    have hlt : pre.length < (pre ++ (c :: cs ++ k.close :: post)).length := by simp
    obtain ⟨ins, hins⟩ := hP pre post (depth + 1) [] m (by omega)
    rw [hr] at hins
    obtain ⟨m', rfl⟩ : ∃ m', m = m' + 1 := ⟨m - 1, by omega⟩
    rw [blockLoop, if_pos hlt]
    simp only [List.cons_append, charAt_mid, hb1, bind, Except.bind, hc, if_false]
    simp only [List.cons_append] at hins
    rw [hins]
    simp only []
    -- second iteration: the closing bracket
    have e : pre ++ c :: (cs ++ k.close :: post) = (pre ++ c :: cs) ++ k.close :: post := by simp
    have l : pre.length + (c :: cs).length = (pre ++ c :: cs).length := by simp
    have hch : charAt (pre ++ c :: (cs ++ k.close :: post)) (pre.length + (c :: cs).length) = .ok k.close := by
      rw [e, l]; exact charAt_mid _ _ _
    have hlt2 : pre.length + (c :: cs).length < (pre ++ c :: (cs ++ k.close :: post)).length := by simp
    rw [blockLoop, if_pos hlt2]
    simp only [hch, hb1, bind, Except.bind, if_true]
    exact ⟨_, rfl⟩


theorem wf_append (p : Char → Bool) (f g : Frag) : Frag.wf p (f ++ g) = (Frag.wf p f && Frag.wf p g) := by
  induction f with
  | nil => simp [Frag.wf]
  | atom c r ih => simp [Frag.wf, ih, Bool.and_assoc]
  | str q b r ih => simp [Frag.wf, ih, Bool.and_assoc]
  | group k i r _ ih => simp [Frag.wf, ih, Bool.and_assoc]

theorem open_inj (k k' : BK) (h : k'.open = k.open) : k' = k := by cases k <;> cases k' <;> first | rfl | (exact absurd h (by decide))

/-- the first analysis at the start of a non-empty fragment that is followed by the enclosing closer: either a block of
    the kind (then the fragment is `a ++ group k i r`) or an element that ends at the closer -/
theorem analyze_frag (k : BK) (f : Frag) (hf : Frag.Simple f) (pre post : Str) (c : Char) (cs : Str) (hr : f.render = c :: cs) :
    (∃ i r eb, hitK k f = some (i, r) ∧
      analyzeEntry (pre ++ (f.render ++ k.close :: post)) [k.open, k.close] [] pre.length
        = .ok (.block eb (pre.length + (preK k f).render.length))) ∨
    (∃ eb, hitK k f = none ∧
      analyzeEntry (pre ++ (f.render ++ k.close :: post)) [k.open, k.close] [] pre.length
        = .ok (.element eb (pre.length + f.render.length))) := by
  have T := otherTable k
  have hc : c ≠ k.close := first_ne_close k f hf c cs hr
  have hT : pre ++ (f.render ++ k.close :: post) = pre ++ c :: (cs ++ k.close :: post) := by rw [hr]; simp
  rw [hT, analyzeEntry_at, if_neg hc]
  by_cases hco : c = k.open
  · left
    rw [if_pos hco]
    cases f with
    | nil => simp [Frag.render] at hr
    | atom c' r =>
      rw [simple_atom] at hf
      simp only [Frag.render, List.cons.injEq] at hr
      exact absurd (hr.1.trans hco) (plain_ne_bk c' k hf.1).1
    | str q b r =>
      simp only [Frag.render, List.cons.injEq] at hr
      exact absurd (hr.1.trans hco) (quote_ne_bk q k).1
    | group k' i r =>
      simp only [Frag.render, List.cons.injEq] at hr
      have := open_inj k k' (hr.1.trans hco)
      subst this
      exact ⟨i, r, pre.length, by simp [hitK], by simp [preK, Frag.render]⟩
  · rw [if_neg hco]
    have hs : c :: (cs ++ k.close :: post) = f.render ++ k.close :: post := by rw [hr]; simp
    rw [hs]
    have hfu : f.render.length + (k.close :: post).length < (pre ++ (f.render ++ k.close :: post)).length + 1 := by
      simp; omega
    obtain ⟨h1, h2⟩ := anaLoop_frag k f (k.close :: post) pre.length pre.length _ hf hfu
    cases hh : hitK k f with
    | some ir =>
      obtain ⟨i, r⟩ := ir
      obtain ⟨eb, he⟩ := h1 i r hh
      exact Or.inl ⟨i, r, eb, rfl, he⟩
    | none =>
      obtain ⟨eb, fuel', hl, he⟩ := h2 hh
      obtain ⟨x, rfl⟩ : ∃ x, fuel' = x + 1 := ⟨fuel' - 1, by simp at hl; omega⟩
      refine Or.inr ⟨eb, rfl, ?_⟩
      rw [he]
      simp [anaLoop, T.hclose, (open_ne_close k).symm, has]

theorem parseOK (k : BK) : ∀ (n : Nat) (f : Frag), f.render.length = n → Frag.Simple f → ParseOK k f := by
  intro n
  induction n using Nat.strongRecOn with
  | _ n ih =>
    intro f hn hf
    have IH : ∀ g : Frag, g.render.length < f.render.length → Frag.Simple g → ParseOK k g :=
      fun g hg hs => ih _ (hn ▸ hg) g rfl hs
    intro pre post depth acc fuel hfu
    obtain ⟨m, rfl⟩ : ∃ m, fuel = m + 1 := ⟨fuel - 1, by omega⟩
    have hlt : pre.length < (pre ++ (f.render ++ k.close :: post)).length := by simp; omega
    cases hr : f.render with
    | nil =>
      rw [parseLoop, if_pos (by simp)]
      simp only [List.nil_append, analyzeEntry_at, if_neg (open_ne_close k).symm, if_true, bind, Except.bind]
      exact ⟨acc, rfl⟩
    | cons c cs =>
      rw [← hr, parseLoop, if_pos hlt]
      rcases analyze_frag k f hf pre post c cs hr with ⟨i, r, eb, hh, ha⟩ | ⟨eb, hh, ha⟩
      · -- a block: `_parse_block` over its inside, then on with the rest
        obtain ⟨hfeq, hli, hlr⟩ := hitK_some k f i r hh
        generalize hadef : preK k f = a at ha hfeq
        have hsi : Frag.Simple i ∧ Frag.Simple r := by
          have := hf; rw [hfeq] at this
          have h2 : Frag.Simple (Frag.group k i r) := by
            unfold Frag.Simple at this ⊢
            rw [wf_append, Bool.and_eq_true] at this
            exact this.2
          exact (simple_group k i r).mp h2
        have hB : BlockOK k i := blockOK_of_parseOK k i hsi.1 (IH i hli hsi.1)
        have hPr : ParseOK k r := IH r hlr hsi.2
        have hfr : f.render = a.render ++ k.open :: (i.render ++ k.close :: r.render) := by
          rw [hfeq, render_append]; simp [Frag.render]
        have hflen : f.render.length = a.render.length + i.render.length + r.render.length + 2 := by
          rw [hfr]; simp; omega
        -- the text seen from behind the opening bracket
        have e1 : pre ++ (f.render ++ k.close :: post)
            = (pre ++ a.render ++ [k.open]) ++ (i.render ++ k.close :: (r.render ++ k.close :: post)) := by
          rw [hfr]; simp
        have l1 : pre.length + a.render.length + 1 = (pre ++ a.render ++ [k.open]).length := by simp; omega
        obtain ⟨ins, hins⟩ := hB (pre ++ a.render ++ [k.open]) (r.render ++ k.close :: post) depth [] m (by omega)
        rw [← e1, ← l1] at hins
        -- … and from behind the closing bracket of the block
        have e2 : pre ++ (f.render ++ k.close :: post)
            = (pre ++ a.render ++ k.open :: (i.render ++ [k.close])) ++ (r.render ++ k.close :: post) := by
          rw [hfr]; simp
        have l2 : pre.length + a.render.length + 1 + i.render.length + 1
            = (pre ++ a.render ++ k.open :: (i.render ++ [k.close])).length := by simp; omega
        obtain ⟨acc', hacc⟩ := hPr (pre ++ a.render ++ k.open :: (i.render ++ [k.close])) post depth
          (acc ++ [Entry.mk eb (pre.length + a.render.length + 1 + i.render.length + 1) depth .Block ins]) m (by omega)
        rw [← e2, ← l2] at hacc
        simp only [ha, bind, Except.bind, hins, hacc]
        exact ⟨acc', by congr 2; omega⟩
      · -- an element that ends at the closing bracket, then `End`
        have hP0 : ParseOK k .nil := IH .nil (by rw [hr]; simp [Frag.render]) simple_nil
        have e3 : pre ++ (f.render ++ k.close :: post) = (pre ++ f.render) ++ (Frag.nil.render ++ k.close :: post) := by
          simp [Frag.render]
        have l3 : pre.length + f.render.length = (pre ++ f.render).length := by simp
        obtain ⟨acc', hacc⟩ := hP0 (pre ++ f.render) post depth
          (acc ++ [Entry.mk eb (pre.length + f.render.length) depth .Element []]) m (by simp only [Frag.render, List.length_nil]; rw [hr] at hfu; simp only [List.length_cons] at hfu; omega)
        rw [← e3, ← l3] at hacc
        simp only [ha, bind, Except.bind, hacc]
        exact ⟨acc', by simp [Frag.render, hr]⟩


/-! ### `parse_bracket(name + group + tail)` -/

theorem anaLoop_name (k : BK) : ∀ (nm rest : Str) (idx eb fuel : Nat),
    (∀ c ∈ nm, has Frag.special c = false ∧ has [' ', '\n', '\t'] c = false) → nm.length < fuel →
    anaLoop k.open [k.open, k.close] (otherPairs [k.open, k.close]) fuel (nm ++ k.open :: rest) idx eb
      = .ok (.block eb (idx + nm.length)) := by
  have T := otherTable k
  intro nm
  induction nm with
  | nil =>
    intro rest idx eb fuel _ hfu
    obtain ⟨n, rfl⟩ : ∃ n, fuel = n + 1 := ⟨fuel - 1, by omega⟩
    simp [anaLoop, T.hopen]
  | cons c cs ih =>
    intro rest idx eb fuel h hfu
    obtain ⟨n, rfl⟩ : ∃ n, fuel = n + 1 := ⟨fuel - 1, by omega⟩
    obtain ⟨hp, hb⟩ := h c (by simp)
    have hc := plain_ne_bk c k hp
    simp only [List.length_cons] at hfu
    have := ih rest (idx + 1) eb n (fun x hx => h x (by simp [hx])) (by omega)
    have hne : has [k.open, k.close] c = false := by simp [has, hc.1, hc.2]
    simp only [List.cons_append, anaLoop, T.plain c hp, ne_eq, not_true_eq_false, if_false, hc.1, hne, hb,
      Bool.false_eq_true, this, List.length_cons]
    congr 2; omega

theorem anaLoop_plain_end (k : BK) : ∀ (tl : Str) (idx eb fuel : Nat),
    (∀ c ∈ tl, has Frag.special c = false) → tl.length < fuel →
    anaLoop k.open [k.open, k.close] (otherPairs [k.open, k.close]) fuel tl idx eb = .ok (.fin (idx + tl.length)) := by
  have T := otherTable k
  intro tl
  induction tl with
  | nil =>
    intro idx eb fuel _ hfu
    obtain ⟨n, rfl⟩ : ∃ n, fuel = n + 1 := ⟨fuel - 1, by omega⟩
    simp [anaLoop]
  | cons c cs ih =>
    intro idx eb fuel h hfu
    obtain ⟨n, rfl⟩ : ∃ n, fuel = n + 1 := ⟨fuel - 1, by omega⟩
    have hp := h c (by simp)
    have hc := plain_ne_bk c k hp
    simp only [List.length_cons] at hfu
    have this := ih (idx + 1) (if has [' ', '\n', '\t'] c then idx + 1 else eb) n (fun x hx => h x (by simp [hx])) (by omega)
    have hne : has [k.open, k.close] c = false := by simp [has, hc.1, hc.2]
    simp only [anaLoop, T.plain c hp, ne_eq, not_true_eq_false, if_false, hc.1, hne, Bool.false_eq_true, this,
      List.length_cons]
    congr 2; omega


/-- `_parse` over a bracket-free tail up to the end of the text adds no entry -/
theorem parseLoop_tail (k : BK) (pre tl : Str) (depth : Nat) (acc : List Entry) (fuel : Nat) (hfu : 1 ≤ fuel)
    (htl : ∀ c ∈ tl, has Frag.special c = false) :
    ∃ i, parseLoop (pre ++ tl) [k.open, k.close] [] fuel pre.length depth acc = .ok (i, acc) := by
  obtain ⟨m, rfl⟩ : ∃ m, fuel = m + 1 := ⟨fuel - 1, by omega⟩
  cases tl with
  | nil => exact ⟨pre.length, by simp [parseLoop]⟩
  | cons c cs =>
    have hc := plain_ne_bk c k (htl c (by simp))
    have hlt : pre.length < (pre ++ c :: cs).length := by simp
    rw [parseLoop, if_pos hlt, analyzeEntry_at, if_neg hc.1, if_neg hc.2,
      anaLoop_plain_end k (c :: cs) pre.length pre.length _ htl (by simp; omega)]
    exact ⟨_, rfl⟩

theorem analyze_name (k : BK) (name rest : Str)
    (hname : ∀ c ∈ name, has Frag.special c = false ∧ has [' ', '\n', '\t'] c = false) :
    analyzeEntry (name ++ k.open :: rest) [k.open, k.close] [] 0 = .ok (.block 0 name.length) := by
  cases name with
  | nil =>
    have := analyzeEntry_at k.open k.close [] k.open rest
    simpa using this
  | cons c cs =>
    have hc := plain_ne_bk c k (hname c (by simp)).1
    have := analyzeEntry_at k.open k.close [] c (cs ++ k.open :: rest)
    simp only [List.nil_append, List.length_nil, if_neg hc.1, if_neg hc.2] at this
    rw [List.cons_append, this]
    have h2 := anaLoop_name k (c :: cs) rest 0 0 ((c :: (cs ++ k.open :: rest)).length + 1) hname (by simp; omega)
    simpa using h2

theorem bracketStep_prefix (text brackets : Str) (blocks bs : List Str) (e : Entry)
    (h : bracketStep text brackets blocks e = .ok bs) : ∃ t, bs = blocks ++ t := by
  unfold bracketStep at h
  split at h
  · cases ha : analyzeEntry text brackets [] e.begin with
    | error err => rw [ha] at h; cases h
    | ok a =>
      rw [ha] at h
      cases a <;> (simp only [Except.bind] at h; injection h with h; exact ⟨_, h.symm⟩)
  · injection h with h; exact ⟨[], by simp [h]⟩

theorem foldlM_bracketStep_head (text brackets : Str) (x : Str) : ∀ (l : List Entry) (acc bs : List Str),
    acc.head? = some x → l.foldlM (bracketStep text brackets) acc = .ok bs → bs.head? = some x := by
  intro l
  induction l with
  | nil => intro acc bs ha h; simp only [List.foldlM, pure, Except.pure] at h; injection h with h; rw [← h]; exact ha
  | cons e l ih =>
    intro acc bs ha h
    simp only [List.foldlM, bind, Except.bind] at h
    cases hs : bracketStep text brackets acc e with
    | error err => rw [hs] at h; cases h
    | ok acc' =>
      rw [hs] at h
      obtain ⟨t, rfl⟩ := bracketStep_prefix text brackets acc acc' e hs
      refine ih (acc ++ t) bs ?_ h
      cases acc with
      | nil => simp at ha
      | cons a as => simpa using ha

/-- The first block `parse_bracket` returns for `name + group + tail` is the whole group — for every fragment inside the
    group (nested groups of the same and of other kinds, simple strings with any content). -/
theorem parseBracket_first (k : BK) (name tail : Str) (inner : Frag) (blocks : List Str)
    (hname : ∀ c ∈ name, has Frag.special c = false ∧ has [' ', '\n', '\t'] c = false)
    (htail : ∀ c ∈ tail, has Frag.special c = false) (hi : Frag.Simple inner)
    (h : parseBracket (name ++ k.open :: (inner.render ++ k.close :: tail)) [k.open, k.close] = .ok blocks) :
    blocks.head? = some (k.open :: (inner.render ++ [k.close])) := by
  generalize hT : name ++ k.open :: (inner.render ++ k.close :: tail) = T at h
  have hana : analyzeEntry T [k.open, k.close] [] 0 = .ok (.block 0 name.length) := by
    rw [← hT]; exact analyze_name k name _ hname
  -- `_parse_block` over the inside of the group
  have hB : BlockOK k inner := blockOK_of_parseOK k inner hi (parseOK k _ inner rfl hi)
  have e1 : T = (name ++ [k.open]) ++ (inner.render ++ k.close :: tail) := by rw [← hT]; simp
  have l1 : name.length + 1 = (name ++ [k.open]).length := by simp
  have hlen : T.length = name.length + inner.render.length + tail.length + 2 := by rw [← hT]; simp; omega
  obtain ⟨ins, hins⟩ := hB (name ++ [k.open]) tail 0 [] (parseFuel T - 1) (by unfold parseFuel; omega)
  rw [← e1, ← l1] at hins
  -- `_parse` over the tail
  have e2 : T = (name ++ k.open :: (inner.render ++ [k.close])) ++ tail := by rw [← hT]; simp
  have l2 : name.length + 1 + inner.render.length + 1 = (name ++ k.open :: (inner.render ++ [k.close])).length := by
    simp; omega
  obtain ⟨j, hj⟩ := parseLoop_tail k (name ++ k.open :: (inner.render ++ [k.close])) tail 0
    ([] ++ [Entry.mk 0 (name.length + 1 + inner.render.length + 1) 0 .Block ins]) (parseFuel T - 1)
    (by unfold parseFuel; omega) htail
  rw [← e2, ← l2] at hj
  have hparse : parse T [k.open, k.close] [] = .ok (Entry.mk 0 (name.length + 1 + inner.render.length + 1) 0 .Block ins) := by
    have hf : parseFuel T = (parseFuel T - 1) + 1 := by unfold parseFuel; omega
    have hlt : 0 < T.length := by omega
    unfold parse
    rw [hf, parseLoop, if_pos hlt]
    simp only [hana, bind, Except.bind, hins, hj]
    rfl
  unfold parseBracket at h
  rw [hparse] at h
  simp only [Except.bind, List.foldlM, bind] at h
  have hstep : bracketStep T [k.open, k.close] [] (Entry.mk 0 (name.length + 1 + inner.render.length + 1) 0 .Block ins)
      = .ok [k.open :: (inner.render ++ [k.close])] := by
    simp only [bracketStep, Entry.kind, Entry.begin, Entry.end_, if_true, hana, Except.bind, List.nil_append]
    congr 2
    have : name.length + 1 + inner.render.length + 1 = name.length + (k.open :: (inner.render ++ [k.close])).length := by
      simp; omega
    rw [this, ← hT]
    have e3 : name ++ k.open :: (inner.render ++ k.close :: tail) = name ++ ((k.open :: (inner.render ++ [k.close])) ++ tail) := by simp
    rw [e3, slice, ← List.append_assoc, ← List.length_append, List.take_left, List.drop_left]
  rw [hstep] at h
  exact foldlM_bracketStep_head T [k.open, k.close] _ _ _ blocks rfl h

end Tranp.Block
