/-
  Lemmas for property C18, part 2: `_analyze_entry` / `_parse` / `_parse_block` / `parse_bracket` on fragments
  (after repair f350973). Result used by Props/C18.lean: `parse_bracket(name + group + tail)` = `bracketSpec` (every block a whole group; the group,
  its top-level groups of the kind and theirs, in pre-order).
-/
import Tranp.Lemmas.Block

namespace Tranp.Block
open Tranp Tranp.Generated.BlockPairs

/-! ### `_skip_other_block` with the token table of `_analyze_entry` (all pairs except the one that is parsed) -/

/-- a token table that knows every bracket kind except `hid`, and both quotes -/
structure OtherTable (toks : List (Char × Char)) (hid : BK) : Prop where
  plain : ∀ c : Char, has Frag.special c = false → classify toks c = .none
  vopen : ∀ k : BK, k ≠ hid → classify toks k.open = .opener k.close
  vclose : ∀ k : BK, k ≠ hid → classify toks k.close = .closer
  hopen : classify toks hid.open = .none
  hclose : classify toks hid.close = .none
  quote : ∀ q : QK, classify toks q.ch = .opener q.ch

theorem classify_filter_none (ps : List (Char × Char)) (p : Char × Char → Bool) (c : Char)
    (h : classify ps c = .none) : classify (ps.filter p) c = .none := by
  induction ps with
  | nil => rfl
  | cons x ps ih =>
    obtain ⟨o, cl⟩ := x
    simp only [classify] at h
    split at h
    · cases h
    · split at h
      · cases h
      · rename_i h1 h2
        simp only [List.filter]
        split
        · simp [classify, h1, h2, ih h]
        · exact ih h

theorem otherTable (k : BK) : OtherTable (otherPairs [k.open, k.close]) k where
  plain := fun c h => classify_filter_none _ _ c (classify_special c h)
  vopen := by intro k' h; cases k <;> cases k' <;> first | exact absurd rfl h | decide
  vclose := by intro k' h; cases k <;> cases k' <;> first | exact absurd rfl h | decide
  hopen := by cases k <;> decide
  hclose := by cases k <;> decide
  quote := by intro q; cases k <;> cases q <;> decide

section
variable {toks : List (Char × Char)} {hid : BK} (T : OtherTable toks hid)
include T

theorem gstep_plain (st : List Char) (c : Char) (h : has Frag.special c = false) : skipStep toks st c = st := by
  simp [skipStep, T.plain c h]

theorem gstep_hopen (st : List Char) : skipStep toks st hid.open = st := by simp [skipStep, T.hopen]
theorem gstep_hclose (st : List Char) : skipStep toks st hid.close = st := by simp [skipStep, T.hclose]

theorem gstep_open (ks : List BK) (k : BK) (hk : k ≠ hid) :
    skipStep toks (closers ks) k.open = closers (k :: ks) := by
  simp only [skipStep, T.vopen k hk, if_neg (head_closers_ne_open ks k), head_closers_not_quote]
  rfl

theorem gstep_close (st : List Char) (k : BK) (hk : k ≠ hid) : skipStep toks (k.close :: st) k.close = st := by
  simp [skipStep, T.vclose k hk]

theorem gstep_quote_push (ks : List BK) (q : QK) : skipStep toks (closers ks) q.ch = q.ch :: closers ks := by
  simp only [skipStep, T.quote q, if_neg (head_closers_ne_quote ks q), head_closers_not_quote]
  rfl

theorem gstep_quote_pop (st : List Char) (q : QK) : skipStep toks (q.ch :: st) q.ch = st := by
  simp [skipStep, T.quote q]

omit T in
theorem gskipLen_body (toks : List (Char × Char)) (q : QK) (st : List Char) (b rest : Str) (hb : ∀ c ∈ b, c ≠ q.ch) :
    skipLen toks (q.ch :: st) (b ++ rest) = b.length + skipLen toks (q.ch :: st) rest := by
  induction b with
  | nil => simp
  | cons c b ih =>
    have hc := hb c (by simp)
    have hb' : ∀ c ∈ b, c ≠ q.ch := fun c hc => hb c (by simp [hc])
    simp only [List.cons_append, skipLen_cons, skipStep_in_string toks st q c hc, List.isEmpty_cons,
      Bool.false_eq_true, if_false, ih hb', List.length_cons]
    omega

theorem gskipLen_frag (f : Frag) : ∀ (ks : List BK) (rest : Str), ks ≠ [] → Frag.Simple f →
    skipLen toks (closers ks) (f.render ++ rest) = f.render.length + skipLen toks (closers ks) rest := by
  induction f with
  | nil => intro ks rest _ _; simp [Frag.render]
  | atom c r ih =>
    intro ks rest hks hc
    rw [simple_atom] at hc
    simp only [Frag.render, List.cons_append, skipLen_cons, gstep_plain T _ c hc.1, List.isEmpty_iff,
      closers_ne_nil hks, if_false, ih ks rest hks hc.2, List.length_cons]
    omega
  | str q b r ih =>
    intro ks rest hks hc
    rw [simple_str] at hc
    simp only [Frag.render, List.cons_append, List.append_assoc, skipLen_cons, gstep_quote_push T,
      List.isEmpty_cons, Bool.false_eq_true, if_false, gskipLen_body toks q _ b _ hc.1, gstep_quote_pop T,
      List.isEmpty_iff, closers_ne_nil hks, ih ks rest hks hc.2, List.length_cons, List.length_append]
    omega
  | group k i r ihi ihr =>
    intro ks rest hks hc
    rw [simple_group] at hc
    by_cases hk : k = hid
    · subst hk
      simp only [Frag.render, List.cons_append, List.append_assoc, skipLen_cons, gstep_hopen T,
        List.isEmpty_iff, closers_ne_nil hks, if_false, ihi ks _ hks hc.1, gstep_hclose T,
        ihr ks rest hks hc.2, List.length_cons, List.length_append]
      omega
    · have h1 : k :: ks ≠ [] := by simp
      have h2 : closers (k :: ks) = k.close :: closers ks := rfl
      simp only [Frag.render, List.cons_append, List.append_assoc, skipLen_cons, gstep_open T ks k hk,
        List.isEmpty_iff, closers_ne_nil h1, if_false, ihi (k :: ks) _ h1 hc.1]
      rw [h2, gstep_close T _ k hk]
      simp only [closers_ne_nil hks, if_false, ihr ks rest hks hc.2, List.length_cons, List.length_append]
      omega

theorem gskipLen_group (k : BK) (hk : k ≠ hid) (i : Frag) (rest : Str) (hi : Frag.Simple i) :
    skipLen toks [] (k.open :: (i.render ++ k.close :: rest)) = i.render.length + 2 := by
  have h0 : ([] : List Char) = closers [] := rfl
  have h1 : [k] ≠ [] := by simp
  have h2 : closers [k] = [k.close] := rfl
  rw [skipLen_cons, h0, gstep_open T [] k hk]
  simp only [List.isEmpty_iff, closers_ne_nil h1, if_false, gskipLen_frag T i [k] _ h1 hi]
  rw [h2, skipLen_cons, gstep_close T _ k hk]
  simp
  omega

theorem gskipLen_str (q : QK) (b rest : Str) (hb : ∀ c ∈ b, c ≠ q.ch) :
    skipLen toks [] (q.ch :: (b ++ q.ch :: rest)) = b.length + 2 := by
  have h0 : ([] : List Char) = closers [] := rfl
  rw [skipLen_cons, h0, gstep_quote_push T]
  simp only [List.isEmpty_cons, Bool.false_eq_true, if_false]
  have : closers [] = [] := rfl
  rw [this, gskipLen_body toks q _ b _ hb, skipLen_cons, gstep_quote_pop T]
  simp
  omega

end


/-! ### `_analyze_entry` on fragments -/

/-- the part of a fragment in front of its first top-level group of kind `k` -/
def preK (k : BK) : Frag → Frag
  | .nil => .nil
  | .atom c r => .atom c (preK k r)
  | .str q b r => .str q b (preK k r)
  | .group k' i r => if k' = k then .nil else .group k' i (preK k r)

/-- the inside and the rest of the first top-level group of kind `k` -/
def hitK (k : BK) : Frag → Option (Frag × Frag)
  | .nil => none
  | .atom _ r => hitK k r
  | .str _ _ r => hitK k r
  | .group k' i r => if k' = k then some (i, r) else hitK k r

theorem hitK_some (k : BK) (f i r : Frag) (h : hitK k f = some (i, r)) :
    f = preK k f ++ Frag.group k i r ∧ i.render.length < f.render.length ∧ r.render.length < f.render.length := by
  induction f with
  | nil => simp [hitK] at h
  | atom c r' ih =>
    obtain ⟨e, l1, l2⟩ := ih h
    refine ⟨by rw [preK, atom_append, ← e], ?_, ?_⟩ <;> simp only [Frag.render, List.length_cons] <;> omega
  | str q b r' ih =>
    obtain ⟨e, l1, l2⟩ := ih h
    refine ⟨by rw [preK, str_append, ← e], ?_, ?_⟩ <;> simp only [Frag.render, List.length_cons, List.length_append] <;> omega
  | group k' i' r' _ ih =>
    simp only [hitK] at h
    by_cases hk : k' = k
    · rw [if_pos hk] at h
      simp only [Option.some.injEq, Prod.mk.injEq] at h
      obtain ⟨rfl, rfl⟩ := h
      subst hk
      refine ⟨by simp [preK], ?_, ?_⟩ <;> simp only [Frag.render, List.length_cons, List.length_append] <;> omega
    · rw [if_neg hk] at h
      obtain ⟨e, l1, l2⟩ := ih h
      refine ⟨by rw [preK, if_neg hk, group_append, ← e], ?_, ?_⟩ <;>
        simp only [Frag.render, List.length_cons, List.length_append] <;> omega

/-- `entry_begin` after the scan has passed a fragment that starts at position `p`: the position behind the last top-level
    blank (block.py:190-191); skipped groups and strings do not move it. -/
def ebOf : Frag → Nat → Nat → Nat
  | .nil, _, e => e
  | .atom c r, p, e => ebOf r (p + 1) (if has [' ', '\n', '\t'] c then p + 1 else e)
  | .str _ b r, p, e => ebOf r (p + (b.length + 2)) e
  | .group _ i r, p, e => ebOf r (p + (i.render.length + 2)) e

theorem bk_pair_ne (k : BK) (c : Char) (h : has Frag.special c = false) : c ≠ k.open ∧ c ≠ k.close := plain_ne_bk c k h

/-- The scan of `_analyze_entry` (block.py:180-195, empty delimiter) over a fragment followed by `rest`: it stops at the
    first top-level group of the kind that is parsed (answer `Block`), or runs through the whole fragment into `rest`. -/
theorem anaLoop_frag (k : BK) (f : Frag) : ∀ (rest : Str) (idx eb fuel : Nat), Frag.Simple f →
    f.render.length + rest.length < fuel →
    (∀ i r, hitK k f = some (i, r) →
      anaLoop k.open [k.open, k.close] (otherPairs [k.open, k.close]) fuel (f.render ++ rest) idx eb
        = .ok (.block (ebOf (preK k f) idx eb) (idx + (preK k f).render.length))) ∧
    (hitK k f = none →
      ∃ eb' fuel', rest.length < fuel' ∧
        anaLoop k.open [k.open, k.close] (otherPairs [k.open, k.close]) fuel (f.render ++ rest) idx eb
          = anaLoop k.open [k.open, k.close] (otherPairs [k.open, k.close]) fuel' rest (idx + f.render.length) eb') := by
  have T := otherTable k
  induction f with
  | nil =>
    intro rest idx eb fuel _ hfu
    refine ⟨fun i r h => by simp [hitK] at h, fun _ => ⟨eb, fuel, by simpa [Frag.render] using hfu, by simp [Frag.render]⟩⟩
  | atom c r ih =>
    intro rest idx eb fuel hf hfu
    rw [simple_atom] at hf
    obtain ⟨n, rfl⟩ : ∃ n, fuel = n + 1 := ⟨fuel - 1, by omega⟩
    simp only [Frag.render, List.length_cons] at hfu
    have hc := plain_ne_bk c k hf.1
    have hstep : ∀ eb, anaLoop k.open [k.open, k.close] (otherPairs [k.open, k.close]) (n + 1) ((Frag.atom c r).render ++ rest) idx eb
        = anaLoop k.open [k.open, k.close] (otherPairs [k.open, k.close]) n (r.render ++ rest) (idx + 1)
            (if has [' ', '\n', '\t'] c then idx + 1 else eb) := by
      intro eb
      simp [Frag.render, anaLoop, T.plain c hf.1, hc.1, hc.2, has]
    obtain ⟨ih1, ih2⟩ := ih rest (idx + 1) (if has [' ', '\n', '\t'] c then idx + 1 else eb) n hf.2 (by omega)
    constructor
    · intro i r' h
      rw [hstep, ih1 i r' h]; simp only [preK, ebOf, Frag.render, List.length_cons]; congr 2; omega
    · intro h
      obtain ⟨eb', fuel', hl, he⟩ := ih2 h
      exact ⟨eb', fuel', hl, by rw [hstep, he]; simp only [Frag.render, List.length_cons]; congr 1; omega⟩
  | str q b r ih =>
    intro rest idx eb fuel hf hfu
    rw [simple_str] at hf
    obtain ⟨n, rfl⟩ : ∃ n, fuel = n + 1 := ⟨fuel - 1, by omega⟩
    simp only [Frag.render, List.length_cons, List.length_append] at hfu
    have hq : classify (otherPairs [k.open, k.close]) q.ch ≠ .none := by rw [T.quote q]; simp
    have hskip := gskipLen_str T q b (r.render ++ rest) hf.1
    have hdrop : (q.ch :: (b ++ q.ch :: (r.render ++ rest))).drop (b.length + 2) = r.render ++ rest := by
      have e : q.ch :: (b ++ q.ch :: (r.render ++ rest)) = (q.ch :: (b ++ [q.ch])) ++ (r.render ++ rest) := by simp
      have l : b.length + 2 = (q.ch :: (b ++ [q.ch])).length := by simp
      rw [e, l, List.drop_left]
    have hstep : anaLoop k.open [k.open, k.close] (otherPairs [k.open, k.close]) (n + 1) ((Frag.str q b r).render ++ rest) idx eb
        = anaLoop k.open [k.open, k.close] (otherPairs [k.open, k.close]) n (r.render ++ rest) (idx + (b.length + 2)) eb := by
      simp only [Frag.render, List.cons_append, List.append_assoc, anaLoop, hq, ne_eq, not_false_eq_true, if_true, hskip, hdrop]
    obtain ⟨ih1, ih2⟩ := ih rest (idx + (b.length + 2)) eb n hf.2 (by omega)
    constructor
    · intro i r' h
      rw [hstep, ih1 i r' h]; simp only [preK, ebOf, Frag.render, List.length_cons, List.length_append]; congr 2; omega
    · intro h
      obtain ⟨eb', fuel', hl, he⟩ := ih2 h
      exact ⟨eb', fuel', hl, by rw [hstep, he]; simp only [Frag.render, List.length_cons, List.length_append]; congr 1; omega⟩
  | group k' i r _ ih =>
    intro rest idx eb fuel hf hfu
    rw [simple_group] at hf
    obtain ⟨n, rfl⟩ : ∃ n, fuel = n + 1 := ⟨fuel - 1, by omega⟩
    simp only [Frag.render, List.length_cons, List.length_append] at hfu
    by_cases hk : k' = k
    · subst hk
      constructor
      · intro i' r' _
        simp [preK, ebOf, Frag.render, anaLoop, T.hopen]
      · intro h; simp [hitK] at h
    · have ho : classify (otherPairs [k.open, k.close]) k'.open ≠ .none := by rw [T.vopen k' hk]; simp
      have hskip := gskipLen_group T k' hk i (r.render ++ rest) hf.1
      have hdrop : (k'.open :: (i.render ++ k'.close :: (r.render ++ rest))).drop (i.render.length + 2) = r.render ++ rest := by
        have e : k'.open :: (i.render ++ k'.close :: (r.render ++ rest)) = (k'.open :: (i.render ++ [k'.close])) ++ (r.render ++ rest) := by simp
        have l : i.render.length + 2 = (k'.open :: (i.render ++ [k'.close])).length := by simp
        rw [e, l, List.drop_left]
      have hstep : anaLoop k.open [k.open, k.close] (otherPairs [k.open, k.close]) (n + 1) ((Frag.group k' i r).render ++ rest) idx eb
          = anaLoop k.open [k.open, k.close] (otherPairs [k.open, k.close]) n (r.render ++ rest) (idx + (i.render.length + 2)) eb := by
        simp only [Frag.render, List.cons_append, List.append_assoc, anaLoop, ho, ne_eq, not_false_eq_true, if_true, hskip, hdrop]
      obtain ⟨ih1, ih2⟩ := ih rest (idx + (i.render.length + 2)) eb n hf.2 (by omega)
      constructor
      · intro i' r' h
        simp only [hitK, if_neg hk] at h
        rw [hstep, ih1 i' r' h]; simp only [preK, if_neg hk, ebOf, Frag.render, List.length_cons, List.length_append]; congr 2; omega
      · intro h
        simp only [hitK, if_neg hk] at h
        obtain ⟨eb', fuel', hl, he⟩ := ih2 h
        exact ⟨eb', fuel', hl, by rw [hstep, he]; simp only [Frag.render, List.length_cons, List.length_append]; congr 1; omega⟩


theorem charAt_mid (pre : Str) (c : Char) (s : Str) : charAt (pre ++ c :: s) pre.length = .ok c := by
  simp [charAt]

theorem first_ne_close (k : BK) (f : Frag) (hf : Frag.Simple f) (c : Char) (cs : Str) (h : f.render = c :: cs) :
    c ≠ k.close := by
  cases f with
  | nil => simp [Frag.render] at h
  | atom c' r =>
    rw [simple_atom] at hf
    simp only [Frag.render, List.cons.injEq] at h
    rw [← h.1]; exact (plain_ne_bk c' k hf.1).2
  | str q b r =>
    simp only [Frag.render, List.cons.injEq] at h
    rw [← h.1]; exact (quote_ne_bk q k).2
  | group k' i r =>
    simp only [Frag.render, List.cons.injEq] at h
    rw [← h.1]; exact (close_ne_open k k').symm

/-- `_analyze_entry(text, brackets, '', index)` with an empty delimiter, on the character at `index`. -/
theorem analyzeEntry_at (o cl : Char) (pre : Str) (c : Char) (cs : Str) :
    analyzeEntry (pre ++ c :: cs) [o, cl] [] pre.length =
      if c = o then .ok (.block pre.length pre.length)
      else if c = cl then .ok (.fin pre.length)
      else anaLoop o [o, cl] (otherPairs [o, cl]) ((pre ++ c :: cs).length + 1) (c :: cs) pre.length pre.length := by
  simp only [analyzeEntry, charAt_mid, bind, Except.bind, pure, Except.pure]
  have h0 : charAt [o, cl] 0 = .ok o := rfl
  have h1 : charAt [o, cl] 1 = .ok cl := rfl
  simp only [h0, h1]
  by_cases hco : c = o
  · simp [hco]
  · by_cases hcc : c = cl
    · simp [hcc]
    · simp [hco, hcc, has]


theorem wf_append (p : Char → Bool) (f g : Frag) : Frag.wf p (f ++ g) = (Frag.wf p f && Frag.wf p g) := by
  induction f with
  | nil => simp [Frag.wf]
  | atom c r ih => simp [Frag.wf, ih, Bool.and_assoc]
  | str q b r ih => simp [Frag.wf, ih, Bool.and_assoc]
  | group k i r _ ih => simp [Frag.wf, ih, Bool.and_assoc]

theorem open_inj (k k' : BK) (h : k'.open = k.open) : k' = k := by cases k <;> cases k' <;> first | rfl | (exact absurd h (by decide))

/-- `_analyze_entry` at the start of a fragment that has a top-level group of the kind: `Block`, with the group's bracket
    position and the entry begin behind the last top-level blank in front of it — whatever follows the fragment. -/
theorem analyze_block (k : BK) (f i r : Frag) (hf : Frag.Simple f) (hh : hitK k f = some (i, r)) (pre rest : Str) :
    analyzeEntry (pre ++ (f.render ++ rest)) [k.open, k.close] [] pre.length
      = .ok (.block (ebOf (preK k f) pre.length pre.length) (pre.length + (preK k f).render.length)) := by
  cases hr : f.render with
  | nil =>
    have : f = .nil := (render_eq_nil f).mp hr
    subst this; simp [hitK] at hh
  | cons c cs =>
    have hc : c ≠ k.close := first_ne_close k f hf c cs hr
    rw [List.cons_append, analyzeEntry_at, if_neg hc]
    by_cases hco : c = k.open
    · rw [if_pos hco]
      cases f with
      | nil => simp [Frag.render] at hr
      | atom c' r' =>
        rw [simple_atom] at hf
        simp only [Frag.render, List.cons.injEq] at hr
        exact absurd (hr.1.trans hco) (plain_ne_bk c' k hf.1).1
      | str q b r' =>
        simp only [Frag.render, List.cons.injEq] at hr
        exact absurd (hr.1.trans hco) (quote_ne_bk q k).1
      | group k' i' r' =>
        simp only [Frag.render, List.cons.injEq] at hr
        have := open_inj k k' (hr.1.trans hco)
        subst this
        simp [preK, ebOf, Frag.render]
    · rw [if_neg hco]
      have hs : c :: (cs ++ rest) = f.render ++ rest := by rw [hr]; simp
      rw [hs]
      have hfu : f.render.length + rest.length < (pre ++ (f.render ++ rest)).length + 1 := by simp; omega
      exact (anaLoop_frag k f rest pre.length pre.length _ hf hfu).1 i r hh

/-- … and at the start of a non-empty fragment without such a group, followed by the closer of the enclosing block:
    an `Element` that ends at the closer. -/
theorem analyze_element (k : BK) (f : Frag) (hf : Frag.Simple f) (hh : hitK k f = none) (pre post : Str)
    (c : Char) (cs : Str) (hr : f.render = c :: cs) :
    ∃ eb, analyzeEntry (pre ++ (f.render ++ k.close :: post)) [k.open, k.close] [] pre.length
      = .ok (.element eb (pre.length + f.render.length)) := by
  have T := otherTable k
  have hc : c ≠ k.close := first_ne_close k f hf c cs hr
  have hco : c ≠ k.open := by
    intro hco
    cases f with
    | nil => simp [Frag.render] at hr
    | atom c' r' =>
      rw [simple_atom] at hf
      simp only [Frag.render, List.cons.injEq] at hr
      exact absurd (hr.1.trans hco) (plain_ne_bk c' k hf.1).1
    | str q b r' =>
      simp only [Frag.render, List.cons.injEq] at hr
      exact absurd (hr.1.trans hco) (quote_ne_bk q k).1
    | group k' i' r' =>
      simp only [Frag.render, List.cons.injEq] at hr
      have := open_inj k k' (hr.1.trans hco)
      subst this
      simp [hitK] at hh
  have hT : pre ++ (f.render ++ k.close :: post) = pre ++ c :: (cs ++ k.close :: post) := by rw [hr]; simp
  rw [hT, analyzeEntry_at, if_neg hc, if_neg hco]
  have hs : c :: (cs ++ k.close :: post) = f.render ++ k.close :: post := by rw [hr]; simp
  rw [hs]
  have hfu : f.render.length + (k.close :: post).length < (pre ++ (f.render ++ k.close :: post)).length + 1 := by
    simp; omega
  obtain ⟨eb, fuel', hl, he⟩ := (anaLoop_frag k f (k.close :: post) pre.length pre.length _ hf hfu).2 hh
  obtain ⟨x, rfl⟩ : ∃ x, fuel' = x + 1 := ⟨fuel' - 1, by simp at hl; omega⟩
  refine ⟨eb, ?_⟩
  rw [he]
  simp [anaLoop, T.hclose, (open_ne_close k).symm, has]

theorem analyze_frag (k : BK) (f : Frag) (hf : Frag.Simple f) (pre post : Str) (c : Char) (cs : Str) (hr : f.render = c :: cs) :
    (∃ i r eb, hitK k f = some (i, r) ∧
      analyzeEntry (pre ++ (f.render ++ k.close :: post)) [k.open, k.close] [] pre.length
        = .ok (.block eb (pre.length + (preK k f).render.length))) ∨
    (∃ eb, hitK k f = none ∧
      analyzeEntry (pre ++ (f.render ++ k.close :: post)) [k.open, k.close] [] pre.length
        = .ok (.element eb (pre.length + f.render.length))) := by
  cases hh : hitK k f with
  | some ir =>
    obtain ⟨i, r⟩ := ir
    exact Or.inl ⟨i, r, _, rfl, analyze_block k f i r hf hh pre _⟩
  | none =>
    obtain ⟨eb, he⟩ := analyze_element k f hf hh pre post c cs hr
    exact Or.inr ⟨eb, rfl, he⟩

theorem ebOf_boundary (a : Frag) : ∀ (p e : Nat),
    ebOf a p e = e ∨ ∃ a1 a2 : Frag, a = a1 ++ a2 ∧ ebOf a p e = p + a1.render.length := by
  induction a with
  | nil => intro p e; exact Or.inl rfl
  | atom c r ih =>
    intro p e
    simp only [ebOf]
    rcases ih (p + 1) (if has [' ', '\n', '\t'] c then p + 1 else e) with h | ⟨r1, r2, hr, h⟩
    · by_cases hb : has [' ', '\n', '\t'] c = true
      · right
        refine ⟨.atom c .nil, r, by simp, ?_⟩
        rw [h, if_pos hb]; simp [Frag.render]
      · left; rw [h, if_neg hb]
    · right
      exact ⟨.atom c r1, r2, by simp [hr], by rw [h]; simp [Frag.render]; omega⟩
  | str q b r ih =>
    intro p e
    simp only [ebOf]
    rcases ih (p + (b.length + 2)) e with h | ⟨r1, r2, hr, h⟩
    · exact Or.inl h
    · right
      exact ⟨.str q b r1, r2, by simp [hr], by rw [h]; simp [Frag.render]; omega⟩
  | group k' i r _ ih =>
    intro p e
    simp only [ebOf]
    rcases ih (p + (i.render.length + 2)) e with h | ⟨r1, r2, hr, h⟩
    · exact Or.inl h
    · right
      exact ⟨.group k' i r1, r2, by simp [hr], by rw [h]; simp [Frag.render]; omega⟩

theorem append_nil_frag (f : Frag) : (f ++ Frag.nil : Frag) = f := by
  induction f with
  | nil => rfl
  | atom c r ih => simp [ih]
  | str q b r ih => simp [ih]
  | group k i r _ ih => simp [ih]

theorem hitK_preK (k : BK) (f : Frag) : hitK k (preK k f) = none := by
  induction f with
  | nil => rfl
  | atom c r ih => simpa [preK, hitK] using ih
  | str q b r ih => simpa [preK, hitK] using ih
  | group k' i r _ ih =>
    by_cases hk : k' = k
    · simp [preK, hk, hitK]
    · simpa [preK, hk, hitK] using ih

theorem hitK_append (k : BK) (a g : Frag) (ha : hitK k a = none) : hitK k (a ++ g) = hitK k g ∧ preK k (a ++ g) = a ++ preK k g := by
  induction a with
  | nil => exact ⟨rfl, rfl⟩
  | atom c r ih => simp only [hitK] at ha; simpa [hitK, preK] using ih ha
  | str q b r ih => simp only [hitK] at ha; simpa [hitK, preK] using ih ha
  | group k' i r _ ih =>
    simp only [hitK] at ha
    by_cases hk : k' = k
    · simp [hk] at ha
    · simp only [hk, if_false] at ha
      simpa [hitK, preK, hk] using ih ha

theorem hitK_append_left (k : BK) (a1 a2 : Frag) (h : hitK k (a1 ++ a2) = none) : hitK k a1 = none ∧ hitK k a2 = none := by
  induction a1 with
  | nil => exact ⟨rfl, h⟩
  | atom c r ih => simpa [hitK] using ih (by simpa [hitK] using h)
  | str q b r ih => simpa [hitK] using ih (by simpa [hitK] using h)
  | group k' i r _ ih =>
    by_cases hk : k' = k
    · simp [hitK, hk] at h
    · simpa [hitK, hk] using ih (by simpa [hitK, hk] using h)

theorem simple_append_iff (f g : Frag) : Frag.Simple (f ++ g) ↔ Frag.Simple f ∧ Frag.Simple g := by
  unfold Frag.Simple; rw [wf_append, Bool.and_eq_true]

/-- Analysing again from the recorded entry begin finds the same block (this is what `parse_bracket` does, block.py:268). -/
theorem reanalyze (k : BK) (f i r : Frag) (hf : Frag.Simple f) (hh : hitK k f = some (i, r)) (pre rest : Str) :
    ∃ b, analyzeEntry (pre ++ (f.render ++ rest)) [k.open, k.close] [] (ebOf (preK k f) pre.length pre.length)
      = .ok (.block b (pre.length + (preK k f).render.length)) := by
  obtain ⟨hfeq, -, -⟩ := hitK_some k f i r hh
  have hdec : ∃ a1 a2 : Frag, preK k f = a1 ++ a2 ∧ ebOf (preK k f) pre.length pre.length = pre.length + a1.render.length := by
    rcases ebOf_boundary (preK k f) pre.length pre.length with h | h
    · exact ⟨.nil, preK k f, rfl, by rw [h]; simp [Frag.render]⟩
    · exact h
  obtain ⟨a1, a2, ha, heb⟩ := hdec
  have hn := hitK_append_left k a1 a2 (ha ▸ hitK_preK k f)
  have hg := hitK_append k a2 (Frag.group k i r) hn.2
  have hgh : hitK k (a2 ++ Frag.group k i r) = some (i, r) := by rw [hg.1]; simp [hitK]
  have hgp : preK k (a2 ++ Frag.group k i r) = a2 := by rw [hg.2]; simp [preK, append_nil_frag]
  have hfs : Frag.Simple (a2 ++ Frag.group k i r) := by
    have : Frag.Simple (a1 ++ (a2 ++ Frag.group k i r)) := by rw [← append_assoc, ← ha, ← hfeq]; exact hf
    exact ((simple_append_iff _ _).mp this).2
  have := analyze_block k (a2 ++ Frag.group k i r) i r hfs hgh (pre ++ a1.render) rest
  rw [hgp] at this
  have hT : pre ++ (f.render ++ rest) = (pre ++ a1.render) ++ ((a2 ++ Frag.group k i r).render ++ rest) := by
    rw [hfeq, ha, append_assoc, render_append]; simp
  have hl : pre.length + a1.render.length = (pre ++ a1.render).length := by simp
  have hlen : pre.length + (preK k f).render.length = (pre ++ a1.render).length + a2.render.length := by
    rw [ha, render_append]; simp; omega
  rw [hT, heb, hl, hlen]
  exact ⟨_, this⟩

/-! ### the entries `_parse` produces: which blocks, where -/

/-- the top-level groups of kind `k` of a fragment that starts at position `p`: (position of the opening bracket, inside) -/
def kGroupsAt (k : BK) : Frag → Nat → List (Nat × Frag)
  | .nil, _ => []
  | .atom _ r, p => kGroupsAt k r (p + 1)
  | .str _ b r, p => kGroupsAt k r (p + (b.length + 2))
  | .group k' i r, p => if k' = k then (p, i) :: kGroupsAt k r (p + (i.render.length + 2)) else kGroupsAt k r (p + (i.render.length + 2))

theorem kGroupsAt_none (k : BK) (f : Frag) (h : hitK k f = none) : ∀ p, kGroupsAt k f p = [] := by
  induction f with
  | nil => intro p; rfl
  | atom c r ih => intro p; exact ih h _
  | str q b r ih => intro p; exact ih h _
  | group k' i r _ ih =>
    intro p
    by_cases hk : k' = k
    · simp [hitK, hk] at h
    · simp only [hitK, if_neg hk] at h; simp only [kGroupsAt, if_neg hk]; exact ih h _

theorem kGroupsAt_hit (k : BK) (f i r : Frag) (h : hitK k f = some (i, r)) : ∀ p,
    kGroupsAt k f p = (p + (preK k f).render.length, i) ::
      kGroupsAt k r (p + (preK k f).render.length + (i.render.length + 2)) := by
  induction f with
  | nil => simp [hitK] at h
  | atom c r' ih => intro p; simp only [kGroupsAt, preK, Frag.render, List.length_cons, ih h (p + 1)]; congr 2 <;> omega
  | str q b r' ih =>
    intro p
    simp only [kGroupsAt, preK, Frag.render, List.length_cons, List.length_append, ih h (p + (b.length + 2))]
    congr 2 <;> omega
  | group k' i' r' _ ih =>
    intro p
    by_cases hk : k' = k
    · simp only [hitK, if_pos hk, Option.some.injEq, Prod.mk.injEq] at h
      obtain ⟨rfl, rfl⟩ := h
      simp [kGroupsAt, preK, hk, Frag.render]
    · simp only [hitK, if_neg hk] at h
      simp only [kGroupsAt, preK, if_neg hk, Frag.render, List.length_cons, List.length_append,
        ih h (p + (i'.render.length + 2))]
      congr 2 <;> omega

/-- pointwise relation between two lists of the same length -/
inductive All2 {α β : Type} (R : α → β → Prop) : List α → List β → Prop
  | nil : All2 R [] []
  | cons {a : α} {b : β} {as : List α} {bs : List β} : R a b → All2 R as bs → All2 R (a :: as) (b :: bs)

def isBlock (e : Entry) : Bool := decide (e.kind = .Block)

/-- the entry `e` is the block of the group `g = (position of its opening bracket, inside)`: analysing from its begin finds
    that bracket, and its end is the position behind the closing bracket -/
def BlockAt (T : Str) (k : BK) (e : Entry) (g : Nat × Frag) : Prop :=
  (∃ b, analyzeEntry T [k.open, k.close] [] e.begin = .ok (.block b g.1)) ∧ e.end_ = g.1 + g.2.render.length + 2

/-- the `Block` entries of `es` are, in order, the blocks of the groups `gs` — and so on for their sub-entries, `n` levels deep -/
def Good (T : Str) (k : BK) : Nat → List Entry → List (Nat × Frag) → Prop
  | 0, es, gs => All2 (BlockAt T k) (es.filter isBlock) gs
  | n + 1, es, gs =>
    All2 (fun e g => BlockAt T k e g ∧ Good T k n e.entries (kGroupsAt k g.2 (g.1 + 1))) (es.filter isBlock) gs

/-- entries that are not blocks have no sub-entries -/
def Leafy (es : List Entry) : Prop := ∀ e ∈ es, isBlock e = false → e.entries = []

theorem good_nil (T : Str) (k : BK) (n : Nat) : Good T k n [] [] := by
  cases n <;> exact All2.nil

theorem good_element (T : Str) (k : BK) (e : Entry) (es : List Entry) (gs : List (Nat × Frag)) (he : isBlock e = false)
    (h : ∀ n, Good T k n es gs) : ∀ n, Good T k n (e :: es) gs := by
  intro n
  have := h n
  cases n <;> simpa [Good, List.filter, he] using this

theorem good_block (T : Str) (k : BK) (e : Entry) (g : Nat × Frag) (es : List Entry) (gs : List (Nat × Frag))
    (he : isBlock e = true) (hb : BlockAt T k e g) (hsub : ∀ n, Good T k n e.entries (kGroupsAt k g.2 (g.1 + 1)))
    (h : ∀ n, Good T k n es gs) : ∀ n, Good T k n (e :: es) (g :: gs) := by
  intro n
  have := h n
  cases n with
  | zero => simp only [Good, List.filter, he]; exact All2.cons hb this
  | succ m => simp only [Good, List.filter, he]; exact All2.cons ⟨hb, hsub m⟩ this

/-- what `_parse` started at a fragment that is followed by the closing bracket of the enclosing block returns: the
    position of that bracket, and entries whose blocks are exactly the top-level groups of the kind -/
def ParseOK (k : BK) (f : Frag) : Prop :=
  ∀ (pre post : Str) (depth : Nat) (acc : List Entry) (fuel : Nat), 2 * f.render.length + 2 ≤ fuel →
    ∃ new, parseLoop (pre ++ (f.render ++ k.close :: post)) [k.open, k.close] [] fuel pre.length depth acc
        = .ok (pre.length + f.render.length, acc ++ new) ∧
      (∀ n, Good (pre ++ (f.render ++ k.close :: post)) k n new (kGroupsAt k f pre.length)) ∧ Leafy new

/-- … and `_parse_block` started behind the opening bracket: the position behind the closing bracket, same entries -/
def BlockOK (k : BK) (f : Frag) : Prop :=
  ∀ (pre post : Str) (depth : Nat) (acc : List Entry) (fuel : Nat), 2 * f.render.length + 3 ≤ fuel →
    ∃ new, blockLoop (pre ++ (f.render ++ k.close :: post)) [k.open, k.close] [] fuel pre.length depth acc
        = .ok (pre.length + f.render.length + 1, acc ++ new) ∧
      (∀ n, Good (pre ++ (f.render ++ k.close :: post)) k n new (kGroupsAt k f pre.length)) ∧ Leafy new

theorem blockOK_of_parseOK (k : BK) (f : Frag) (hf : Frag.Simple f) (hP : ParseOK k f) : BlockOK k f := by
  intro pre post depth acc fuel hfu
  obtain ⟨m, rfl⟩ : ∃ m, fuel = m + 1 := ⟨fuel - 1, by omega⟩
  have hb1 : charAt [k.open, k.close] 1 = .ok k.close := rfl
  cases hr : f.render with
  | nil =>
    have hfn : f = .nil := (render_eq_nil f).mp hr
    have hlt : pre.length < (pre ++ ([] ++ k.close :: post)).length := by simp
    rw [blockLoop, if_pos hlt]
    refine ⟨[], by simp [charAt_mid, hb1, bind, Except.bind], ?_, fun e he => by simp at he⟩
    subst hfn; intro n; exact good_nil _ _ _
  | cons c cs =>
    have hc : c ≠ k.close := first_ne_close k f hf c cs hr
    have hlt : pre.length < (pre ++ (c :: cs ++ k.close :: post)).length := by simp
    obtain ⟨ins, hins, hgood, hleaf⟩ := hP pre post (depth + 1) [] m (by omega)
    rw [hr] at hins hgood
    obtain ⟨m', rfl⟩ : ∃ m', m = m' + 1 := ⟨m - 1, by omega⟩
    rw [blockLoop, if_pos hlt]
    simp only [List.cons_append, charAt_mid, hb1, bind, Except.bind, hc, if_false]
    simp only [List.cons_append, List.nil_append] at hins
    rw [hins]
    simp only []
    -- second iteration: the closing bracket
    have e : pre ++ c :: (cs ++ k.close :: post) = (pre ++ c :: cs) ++ k.close :: post := by simp
    have l : pre.length + (c :: cs).length = (pre ++ c :: cs).length := by simp
    have hch : charAt (pre ++ c :: (cs ++ k.close :: post)) (pre.length + (c :: cs).length) = .ok k.close := by
      rw [e, l]; exact charAt_mid _ _ _
    have hlt2 : pre.length + (c :: cs).length < (pre ++ c :: (cs ++ k.close :: post)).length := by simp
    rw [blockLoop, if_pos hlt2]
    simp only [hch, hb1, bind, Except.bind, if_true]
    exact ⟨ins, rfl, by simpa using hgood, hleaf⟩

theorem parseOK (k : BK) : ∀ (n : Nat) (f : Frag), f.render.length = n → Frag.Simple f → ParseOK k f := by
  intro n
  induction n using Nat.strongRecOn with
  | _ n ih =>
    intro f hn hf
    have IH : ∀ g : Frag, g.render.length < f.render.length → Frag.Simple g → ParseOK k g :=
      fun g hg hs => ih _ (hn ▸ hg) g rfl hs
    intro pre post depth acc fuel hfu
    obtain ⟨m, rfl⟩ : ∃ m, fuel = m + 1 := ⟨fuel - 1, by omega⟩
    have hlt : pre.length < (pre ++ (f.render ++ k.close :: post)).length := by simp; omega
    cases hr : f.render with
    | nil =>
      have hfn : f = .nil := (render_eq_nil f).mp hr
      rw [parseLoop, if_pos (by simp)]
      simp only [List.nil_append, analyzeEntry_at, if_neg (open_ne_close k).symm, if_true, bind, Except.bind]
      refine ⟨[], by simp, ?_, fun e he => by simp at he⟩
      subst hfn; intro n; exact good_nil _ _ _
    | cons c cs =>
      rw [← hr, parseLoop, if_pos hlt]
      cases hh : hitK k f with
      | some ir =>
        -- a block: `_parse_block` over its inside, then on with the rest
        obtain ⟨i, r⟩ := ir
        have ha := analyze_block k f i r hf hh pre (k.close :: post)
        obtain ⟨bre, hre⟩ := reanalyze k f i r hf hh pre (k.close :: post)
        have hkg := kGroupsAt_hit k f i r hh pre.length
        obtain ⟨hfeq, hli, hlr⟩ := hitK_some k f i r hh
        generalize hebdef : ebOf (preK k f) pre.length pre.length = eb at ha hre
        generalize hadef : preK k f = a at ha hfeq hre hkg
        have hsi : Frag.Simple i ∧ Frag.Simple r := by
          have := hf; rw [hfeq] at this
          exact (simple_group k i r).mp ((simple_append_iff _ _).mp this).2
        have hB : BlockOK k i := blockOK_of_parseOK k i hsi.1 (IH i hli hsi.1)
        have hPr : ParseOK k r := IH r hlr hsi.2
        have hfr : f.render = a.render ++ k.open :: (i.render ++ k.close :: r.render) := by
          rw [hfeq, render_append]; simp [Frag.render]
        have hflen : f.render.length = a.render.length + i.render.length + r.render.length + 2 := by
          rw [hfr]; simp; omega
        have e1 : pre ++ (f.render ++ k.close :: post)
            = (pre ++ a.render ++ [k.open]) ++ (i.render ++ k.close :: (r.render ++ k.close :: post)) := by
          rw [hfr]; simp
        have l1 : pre.length + a.render.length + 1 = (pre ++ a.render ++ [k.open]).length := by simp; omega
        obtain ⟨ins, hins, hgi, hli'⟩ := hB (pre ++ a.render ++ [k.open]) (r.render ++ k.close :: post) depth [] m (by omega)
        rw [← e1, ← l1] at hins hgi
        have e2 : pre ++ (f.render ++ k.close :: post)
            = (pre ++ a.render ++ k.open :: (i.render ++ [k.close])) ++ (r.render ++ k.close :: post) := by
          rw [hfr]; simp
        have l2 : pre.length + a.render.length + 1 + i.render.length + 1
            = (pre ++ a.render ++ k.open :: (i.render ++ [k.close])).length := by simp; omega
        obtain ⟨newr, hacc, hgr, hlr'⟩ := hPr (pre ++ a.render ++ k.open :: (i.render ++ [k.close])) post depth
          (acc ++ [Entry.mk eb (pre.length + a.render.length + 1 + i.render.length + 1) depth .Block ins]) m (by omega)
        rw [← e2, ← l2] at hacc hgr
        simp only [List.nil_append] at hins
        simp only [ha, bind, Except.bind, hins, hacc]
        refine ⟨Entry.mk eb (pre.length + a.render.length + 1 + i.render.length + 1) depth .Block ins :: newr, ?_, ?_, ?_⟩
        · simp only [List.append_assoc, List.singleton_append]; congr 2; omega
        · rw [hkg]
          have hpos : pre.length + a.render.length + (i.render.length + 2) = pre.length + a.render.length + 1 + i.render.length + 1 := by omega
          rw [hpos]
          exact good_block _ k _ (pre.length + a.render.length, i) newr _ rfl
            ⟨⟨bre, hre⟩, by simp only [Entry.end_]; omega⟩ hgi hgr
        · intro e he hb
          simp only [List.mem_cons] at he
          rcases he with rfl | he
          · simp [isBlock, Entry.kind] at hb
          · exact hlr' e he hb
      | none =>
        -- an element that ends at the closing bracket, then `End`
        obtain ⟨eb, ha⟩ := analyze_element k f hf hh pre post c cs hr
        have hP0 : ParseOK k .nil := IH .nil (by rw [hr]; simp [Frag.render]) simple_nil
        have e3 : pre ++ (f.render ++ k.close :: post) = (pre ++ f.render) ++ (Frag.nil.render ++ k.close :: post) := by
          simp [Frag.render]
        have l3 : pre.length + f.render.length = (pre ++ f.render).length := by simp
        obtain ⟨new0, hacc, hg0, hl0⟩ := hP0 (pre ++ f.render) post depth
          (acc ++ [Entry.mk eb (pre.length + f.render.length) depth .Element []]) m
          (by simp only [Frag.render, List.length_nil]; rw [hr] at hfu; simp only [List.length_cons] at hfu; omega)
        rw [← e3, ← l3] at hacc hg0
        simp only [ha, bind, Except.bind, hacc]
        refine ⟨Entry.mk eb (pre.length + f.render.length) depth .Element [] :: new0, by simp [Frag.render], ?_, ?_⟩
        · rw [kGroupsAt_none k f hh]
          exact good_element _ k _ new0 [] rfl (by simpa [kGroupsAt] using hg0)
        · intro e he hb
          simp only [List.mem_cons] at he
          rcases he with rfl | he
          · rfl
          · exact hl0 e he hb

/-! ### `parse_bracket(name + group + tail)` -/

theorem anaLoop_name (k : BK) : ∀ (nm rest : Str) (idx eb fuel : Nat),
    (∀ c ∈ nm, has Frag.special c = false ∧ has [' ', '\n', '\t'] c = false) → nm.length < fuel →
    anaLoop k.open [k.open, k.close] (otherPairs [k.open, k.close]) fuel (nm ++ k.open :: rest) idx eb
      = .ok (.block eb (idx + nm.length)) := by
  have T := otherTable k
  intro nm
  induction nm with
  | nil =>
    intro rest idx eb fuel _ hfu
    obtain ⟨n, rfl⟩ : ∃ n, fuel = n + 1 := ⟨fuel - 1, by omega⟩
    simp [anaLoop, T.hopen]
  | cons c cs ih =>
    intro rest idx eb fuel h hfu
    obtain ⟨n, rfl⟩ : ∃ n, fuel = n + 1 := ⟨fuel - 1, by omega⟩
    obtain ⟨hp, hb⟩ := h c (by simp)
    have hc := plain_ne_bk c k hp
    simp only [List.length_cons] at hfu
    have := ih rest (idx + 1) eb n (fun x hx => h x (by simp [hx])) (by omega)
    have hne : has [k.open, k.close] c = false := by simp [has, hc.1, hc.2]
    simp only [List.cons_append, anaLoop, T.plain c hp, ne_eq, not_true_eq_false, if_false, hc.1, hne, hb,
      Bool.false_eq_true, this, List.length_cons]
    congr 2; omega

theorem anaLoop_plain_end (k : BK) : ∀ (tl : Str) (idx eb fuel : Nat),
    (∀ c ∈ tl, has Frag.special c = false) → tl.length < fuel →
    anaLoop k.open [k.open, k.close] (otherPairs [k.open, k.close]) fuel tl idx eb = .ok (.fin (idx + tl.length)) := by
  have T := otherTable k
  intro tl
  induction tl with
  | nil =>
    intro idx eb fuel _ hfu
    obtain ⟨n, rfl⟩ : ∃ n, fuel = n + 1 := ⟨fuel - 1, by omega⟩
    simp [anaLoop]
  | cons c cs ih =>
    intro idx eb fuel h hfu
    obtain ⟨n, rfl⟩ : ∃ n, fuel = n + 1 := ⟨fuel - 1, by omega⟩
    have hp := h c (by simp)
    have hc := plain_ne_bk c k hp
    simp only [List.length_cons] at hfu
    have this := ih (idx + 1) (if has [' ', '\n', '\t'] c then idx + 1 else eb) n (fun x hx => h x (by simp [hx])) (by omega)
    have hne : has [k.open, k.close] c = false := by simp [has, hc.1, hc.2]
    simp only [anaLoop, T.plain c hp, ne_eq, not_true_eq_false, if_false, hc.1, hne, Bool.false_eq_true, this,
      List.length_cons]
    congr 2; omega


/-- `_parse` over a bracket-free tail up to the end of the text adds no entry -/
theorem parseLoop_tail (k : BK) (pre tl : Str) (depth : Nat) (acc : List Entry) (fuel : Nat) (hfu : 1 ≤ fuel)
    (htl : ∀ c ∈ tl, has Frag.special c = false) :
    ∃ i, parseLoop (pre ++ tl) [k.open, k.close] [] fuel pre.length depth acc = .ok (i, acc) := by
  obtain ⟨m, rfl⟩ : ∃ m, fuel = m + 1 := ⟨fuel - 1, by omega⟩
  cases tl with
  | nil => exact ⟨pre.length, by simp [parseLoop]⟩
  | cons c cs =>
    have hc := plain_ne_bk c k (htl c (by simp))
    have hlt : pre.length < (pre ++ c :: cs).length := by simp
    rw [parseLoop, if_pos hlt, analyzeEntry_at, if_neg hc.1, if_neg hc.2,
      anaLoop_plain_end k (c :: cs) pre.length pre.length _ htl (by simp; omega)]
    exact ⟨_, rfl⟩

theorem analyze_name (k : BK) (name rest : Str)
    (hname : ∀ c ∈ name, has Frag.special c = false ∧ has [' ', '\n', '\t'] c = false) :
    analyzeEntry (name ++ k.open :: rest) [k.open, k.close] [] 0 = .ok (.block 0 name.length) := by
  cases name with
  | nil =>
    have := analyzeEntry_at k.open k.close [] k.open rest
    simpa using this
  | cons c cs =>
    have hc := plain_ne_bk c k (hname c (by simp)).1
    have := analyzeEntry_at k.open k.close [] c (cs ++ k.open :: rest)
    simp only [List.nil_append, List.length_nil, if_neg hc.1, if_neg hc.2] at this
    rw [List.cons_append, this]
    have h2 := anaLoop_name k (c :: cs) rest 0 0 ((c :: (cs ++ k.open :: rest)).length + 1) hname (by simp; omega)
    simpa using h2


/-- the text of a group -/
def groupText (k : BK) (i : Frag) : Str := k.open :: (i.render ++ [k.close])

/-- the insides of the top-level groups of kind `k` (not those inside groups of another kind or strings), in order -/
def kGroups (k : BK) : Frag → List Frag
  | .nil => []
  | .atom _ r => kGroups k r
  | .str _ _ r => kGroups k r
  | .group k' i r => if k' = k then i :: kGroups k r else kGroups k r

theorem kGroupsAt_snd (k : BK) (f : Frag) : ∀ p, (kGroupsAt k f p).map Prod.snd = kGroups k f := by
  induction f with
  | nil => intro p; rfl
  | atom c r ih => intro p; exact ih _
  | str q b r ih => intro p; exact ih _
  | group k' i r _ ih =>
    intro p
    by_cases hk : k' = k <;> simp [kGroupsAt, kGroups, hk, ih]

/-- what `parse_bracket` returns for a group with the inside `inner`: the group, then for every top-level group of the kind
    inside it that group followed by the top-level groups of the kind inside *it* (`Entry.unders` is two levels deep) -/
def bracketSpec (k : BK) (inner : Frag) : List Str :=
  groupText k inner :: (kGroups k inner).flatMap fun i => groupText k i :: (kGroups k i).map (groupText k)

theorem simple_kGroups (k : BK) (f : Frag) (hf : Frag.Simple f) : ∀ i ∈ kGroups k f, Frag.Simple i := by
  induction f with
  | nil => intro i hi; simp [kGroups] at hi
  | atom c r ih => rw [simple_atom] at hf; exact ih hf.2
  | str q b r ih => rw [simple_str] at hf; exact ih hf.2
  | group k' i' r _ ih =>
    rw [simple_group] at hf
    intro i hi
    by_cases hk : k' = k
    · simp only [kGroups, if_pos hk, List.mem_cons] at hi
      rcases hi with rfl | hi
      · exact hf.1
      · exact ih hf.2 i hi
    · simp only [kGroups, if_neg hk] at hi
      exact ih hf.2 i hi

theorem bracketSpec_balanced (k : BK) (inner : Frag) (hi : Frag.Simple inner) :
    ∀ b ∈ bracketSpec k inner, ∃ g : Frag, Frag.Simple g ∧ b = k.open :: (g.render ++ [k.close]) := by
  intro b hb
  simp only [bracketSpec, List.mem_cons, List.mem_flatMap, List.mem_map] at hb
  rcases hb with rfl | ⟨i, hi1, rfl | ⟨j, hj, rfl⟩⟩
  · exact ⟨inner, hi, rfl⟩
  · exact ⟨i, simple_kGroups k inner hi i hi1, rfl⟩
  · exact ⟨j, simple_kGroups k i (simple_kGroups k inner hi i hi1) j hj, rfl⟩

/-- every group of kind `k` of a fragment, at every depth, in pre-order -/
def allGroupTexts (k : BK) : Frag → List Str
  | .nil => []
  | .atom _ r => allGroupTexts k r
  | .str _ _ r => allGroupTexts k r
  | .group k' i r => (if k' = k then [groupText k i] else []) ++ allGroupTexts k i ++ allGroupTexts k r

/-- the group `g.2` of kind `k` stands in `T` with its opening bracket at `g.1` -/
def Sits (T : Str) (k : BK) (g : Nat × Frag) : Prop :=
  ∃ pre post, T = pre ++ (groupText k g.2 ++ post) ∧ pre.length = g.1

theorem kGroupsAt_sits (k : BK) (f : Frag) : ∀ (pre rest : Str),
    ∀ g ∈ kGroupsAt k f pre.length, Sits (pre ++ (f.render ++ rest)) k g := by
  induction f with
  | nil => intro pre rest g hg; simp [kGroupsAt] at hg
  | atom c r ih =>
    intro pre rest g hg
    have := ih (pre ++ [c]) rest g (by simpa [kGroupsAt] using hg)
    simpa [Frag.render] using this
  | str q b r ih =>
    intro pre rest g hg
    have := ih (pre ++ q.ch :: (b ++ [q.ch])) rest g (by
      have e : (pre ++ q.ch :: (b ++ [q.ch])).length = pre.length + (b.length + 2) := by simp
      rw [e]; simpa [kGroupsAt] using hg)
    simpa [Frag.render] using this
  | group k' i r _ ih =>
    intro pre rest g hg
    have e : (pre ++ k'.open :: (i.render ++ [k'.close])).length = pre.length + (i.render.length + 2) := by simp
    have hrest : ∀ g ∈ kGroupsAt k r (pre.length + (i.render.length + 2)), Sits (pre ++ ((Frag.group k' i r).render ++ rest)) k g := by
      intro g hg
      have := ih (pre ++ k'.open :: (i.render ++ [k'.close])) rest g (by rw [e]; exact hg)
      simpa [Frag.render] using this
    by_cases hk : k' = k
    · subst hk
      simp only [kGroupsAt, if_true, List.mem_cons] at hg
      rcases hg with rfl | hg
      · exact ⟨pre, r.render ++ rest, by simp [groupText, Frag.render], rfl⟩
      · exact hrest g hg
    · simp only [kGroupsAt, if_neg hk] at hg
      exact hrest g hg

theorem sits_inner (T : Str) (k : BK) (g : Nat × Frag) (h : Sits T k g) : ∀ g' ∈ kGroupsAt k g.2 (g.1 + 1), Sits T k g' := by
  obtain ⟨pre, post, hT, hl⟩ := h
  intro g' hg'
  have := kGroupsAt_sits k g.2 (pre ++ [k.open]) (k.close :: post) g' (by simpa [hl] using hg')
  rw [hT]; simpa [groupText] using this

theorem sits_slice (T : Str) (k : BK) (g : Nat × Frag) (h : Sits T k g) :
    slice T g.1 (g.1 + g.2.render.length + 2) = groupText k g.2 := by
  obtain ⟨pre, post, hT, hl⟩ := h
  have e : g.1 + g.2.render.length + 2 = (pre ++ groupText k g.2).length := by simp [groupText, hl]; omega
  rw [hT, ← List.append_assoc, slice, e, List.take_left, ← hl, List.drop_left]

theorem step_block (T : Str) (k : BK) (acc : List Str) (e : Entry) (g : Nat × Frag) (he : isBlock e = true)
    (hb : BlockAt T k e g) (hs : Sits T k g) :
    bracketStep T [k.open, k.close] acc e = .ok (acc ++ [groupText k g.2]) := by
  obtain ⟨⟨b, ha⟩, hend⟩ := hb
  have hk : e.kind = .Block := by simpa [isBlock] using he
  simp only [bracketStep, hk, if_true, ha, Except.bind, hend, sits_slice T k g hs]

theorem step_other (T brackets : Str) (acc : List Str) (e : Entry) (he : isBlock e = false) :
    bracketStep T brackets acc e = .ok acc := by
  have hk : ¬ e.kind = .Block := by simpa [isBlock] using he
  simp [bracketStep, hk]

theorem foldlM_cons_ok {α β : Type} (f : β → α → Except Err β) (a : α) (l : List α) (b b' : β) (h : f b a = .ok b') :
    (a :: l).foldlM f b = l.foldlM f b' := by
  simp [List.foldlM, h, bind, Except.bind]

theorem fold0 (T : Str) (k : BK) : ∀ (es : List Entry) (gs : List (Nat × Frag)) (acc : List Str),
    Good T k 0 es gs → (∀ g ∈ gs, Sits T k g) →
    es.foldlM (bracketStep T [k.open, k.close]) acc = .ok (acc ++ gs.map fun g => groupText k g.2) := by
  intro es
  induction es with
  | nil =>
    intro gs acc hg _
    simp only [Good, List.filter] at hg
    cases hg; simp [List.foldlM, pure, Except.pure]
  | cons e es ih =>
    intro gs acc hg hs
    by_cases he : isBlock e = true
    · simp only [Good, List.filter, he] at hg
      cases hg with
      | cons hb hrest =>
        rename_i g gs'
        rw [foldlM_cons_ok _ e es acc _ (step_block T k acc e g he hb (hs g (by simp))),
          ih gs' _ hrest (fun x hx => hs x (by simp [hx]))]
        simp
    · have he' : isBlock e = false := by simpa using he
      simp only [Good, List.filter, he'] at hg
      rw [foldlM_cons_ok _ e es acc _ (step_other T _ acc e he'), ih gs acc hg hs]

theorem foldlM_append_ok {α β : Type} (f : β → α → Except Err β) (l1 l2 : List α) (b b' : β)
    (h : l1.foldlM f b = .ok b') : (l1 ++ l2).foldlM f b = l2.foldlM f b' := by
  rw [List.foldlM_append, h]; rfl

theorem fold1 (T : Str) (k : BK) : ∀ (es : List Entry) (gs : List (Nat × Frag)) (acc : List Str),
    Good T k 1 es gs → Leafy es → (∀ g ∈ gs, Sits T k g) →
    (es.flatMap fun x => x :: x.entries).foldlM (bracketStep T [k.open, k.close]) acc
      = .ok (acc ++ gs.flatMap fun g => groupText k g.2 :: (kGroupsAt k g.2 (g.1 + 1)).map fun g' => groupText k g'.2) := by
  intro es
  induction es with
  | nil =>
    intro gs acc hg _ _
    simp only [Good, List.filter] at hg
    cases hg; simp [pure, Except.pure]
  | cons e es ih =>
    intro gs acc hg hl hs
    have hl' : Leafy es := fun x hx hb => hl x (by simp [hx]) hb
    simp only [List.flatMap_cons]
    by_cases he : isBlock e = true
    · simp only [Good, List.filter, he] at hg
      cases hg with
      | cons hb hrest =>
        rename_i g gs'
        have hsg := hs g (by simp)
        have h1 : (e :: e.entries).foldlM (bracketStep T [k.open, k.close]) acc
            = .ok (acc ++ [groupText k g.2] ++ (kGroupsAt k g.2 (g.1 + 1)).map fun g' => groupText k g'.2) := by
          rw [foldlM_cons_ok _ e e.entries acc _ (step_block T k acc e g he hb.1 hsg)]
          exact fold0 T k e.entries _ _ hb.2 (sits_inner T k g hsg)
        rw [foldlM_append_ok _ _ _ acc _ h1, ih gs' _ hrest hl' (fun x hx => hs x (by simp [hx]))]
        simp
    · have he' : isBlock e = false := by simpa using he
      simp only [Good, List.filter, he'] at hg
      have hnil := hl e (by simp) he'
      have h1 : (e :: e.entries).foldlM (bracketStep T [k.open, k.close]) acc = .ok acc := by
        rw [foldlM_cons_ok _ e e.entries acc _ (step_other T _ acc e he'), hnil]; rfl
      rw [foldlM_append_ok _ _ _ acc _ h1, ih gs acc hg hl' hs]


/-- `parse(name + group + tail)`: the root entry is the block of the group, and its entries are the blocks of the
    groups inside (all levels). -/
theorem parse_root (k : BK) (name tail : Str) (inner : Frag)
    (hname : ∀ c ∈ name, has Frag.special c = false ∧ has [' ', '\n', '\t'] c = false)
    (htail : ∀ c ∈ tail, has Frag.special c = false) (hi : Frag.Simple inner) :
    ∃ ins, parse (name ++ k.open :: (inner.render ++ k.close :: tail)) [k.open, k.close] []
        = .ok (Entry.mk 0 (name.length + 1 + inner.render.length + 1) 0 .Block ins) ∧
      (∀ n, Good (name ++ k.open :: (inner.render ++ k.close :: tail)) k n ins (kGroupsAt k inner (name.length + 1))) ∧
      Leafy ins := by
  generalize hT : name ++ k.open :: (inner.render ++ k.close :: tail) = T
  have hana : analyzeEntry T [k.open, k.close] [] 0 = .ok (.block 0 name.length) := by
    rw [← hT]; exact analyze_name k name _ hname
  have hB : BlockOK k inner := blockOK_of_parseOK k inner hi (parseOK k _ inner rfl hi)
  have e1 : T = (name ++ [k.open]) ++ (inner.render ++ k.close :: tail) := by rw [← hT]; simp
  have l1 : name.length + 1 = (name ++ [k.open]).length := by simp
  have hlen : T.length = name.length + inner.render.length + tail.length + 2 := by rw [← hT]; simp; omega
  obtain ⟨ins, hins, hgood, hleaf⟩ := hB (name ++ [k.open]) tail 0 [] (parseFuel T - 1) (by unfold parseFuel; omega)
  rw [← e1, ← l1] at hins hgood
  simp only [List.nil_append] at hins
  have e2 : T = (name ++ k.open :: (inner.render ++ [k.close])) ++ tail := by rw [← hT]; simp
  have l2 : name.length + 1 + inner.render.length + 1 = (name ++ k.open :: (inner.render ++ [k.close])).length := by
    simp; omega
  obtain ⟨j, hj⟩ := parseLoop_tail k (name ++ k.open :: (inner.render ++ [k.close])) tail 0
    ([] ++ [Entry.mk 0 (name.length + 1 + inner.render.length + 1) 0 .Block ins]) (parseFuel T - 1)
    (by unfold parseFuel; omega) htail
  rw [← e2, ← l2] at hj
  refine ⟨ins, ?_, hgood, hleaf⟩
  have hf : parseFuel T = (parseFuel T - 1) + 1 := by unfold parseFuel; omega
  have hlt : 0 < T.length := by omega
  unfold parse
  rw [hf, parseLoop, if_pos hlt]
  simp only [hana, bind, Except.bind, hins, hj]
  rfl

/-- `parse_bracket(name + group + tail)`: every block is a whole (balanced) group of the kind, and the blocks are the group,
    the groups of the kind at its top level and the groups at *their* top level, in pre-order. -/
theorem parseBracket_spec (k : BK) (name tail : Str) (inner : Frag)
    (hname : ∀ c ∈ name, has Frag.special c = false ∧ has [' ', '\n', '\t'] c = false)
    (htail : ∀ c ∈ tail, has Frag.special c = false) (hi : Frag.Simple inner) :
    parseBracket (name ++ k.open :: (inner.render ++ k.close :: tail)) [k.open, k.close] = .ok (bracketSpec k inner) := by
  obtain ⟨ins, hparse, hgood, hleaf⟩ := parse_root k name tail inner hname htail hi
  generalize hT : name ++ k.open :: (inner.render ++ k.close :: tail) = T at hparse hgood
  have hroot : Sits T k (name.length, inner) := ⟨name, tail, by rw [← hT]; simp [groupText], rfl⟩
  have hanaT : analyzeEntry T [k.open, k.close] [] 0 = .ok (.block 0 name.length) := by
    rw [← hT]; exact analyze_name k name _ hname
  have hstep : bracketStep T [k.open, k.close] [] (Entry.mk 0 (name.length + 1 + inner.render.length + 1) 0 .Block ins)
      = .ok ([] ++ [groupText k inner]) :=
    step_block T k [] _ (name.length, inner) rfl ⟨⟨0, hanaT⟩, by simp only [Entry.end_]; omega⟩ hroot
  have hsits : ∀ g ∈ kGroupsAt k inner (name.length + 1), Sits T k g := sits_inner T k (name.length, inner) hroot
  have hf1 := fold1 T k ins _ ([] ++ [groupText k inner]) (hgood 1) hleaf hsits
  unfold parseBracket
  rw [hparse]
  have hu : (Entry.mk 0 (name.length + 1 + inner.render.length + 1) 0 .Block ins).unders
      = ins.flatMap fun x => x :: x.entries := rfl
  simp only [Except.bind, hu]
  rw [foldlM_cons_ok _ _ _ [] _ hstep, hf1]
  simp only [bracketSpec, List.nil_append, List.singleton_append]
  congr 2
  rw [← kGroupsAt_snd k inner (name.length + 1), List.flatMap_map]
  congr 1
  funext g
  rw [← kGroupsAt_snd k g.2 (g.1 + 1), List.map_map]
  rfl

/-- `parse(prefix + group + tail)` where the prefix is ANY fragment without a top-level group of the kind (blanks,
    delimiters, strings, groups of the other kinds — `g[(1)]`): the root entry is the block of the group. -/
theorem parse_root_frag (k : BK) (a inner : Frag) (tail : Str) (ha : Frag.Simple a) (hak : hitK k a = none)
    (htail : ∀ c ∈ tail, has Frag.special c = false) (hi : Frag.Simple inner) :
    ∃ ins, parse (a.render ++ k.open :: (inner.render ++ k.close :: tail)) [k.open, k.close] []
        = .ok (Entry.mk (ebOf a 0 0) (a.render.length + 1 + inner.render.length + 1) 0 .Block ins) ∧
      (∃ b, analyzeEntry (a.render ++ k.open :: (inner.render ++ k.close :: tail)) [k.open, k.close] [] (ebOf a 0 0)
        = .ok (.block b a.render.length)) ∧
      (∀ n, Good (a.render ++ k.open :: (inner.render ++ k.close :: tail)) k n ins (kGroupsAt k inner (a.render.length + 1))) ∧
      Leafy ins := by
  have hg := hitK_append k a (Frag.group k inner .nil) hak
  have hfh : hitK k (a ++ Frag.group k inner .nil) = some (inner, .nil) := by rw [hg.1]; simp [hitK]
  have hfp : preK k (a ++ Frag.group k inner .nil) = a := by rw [hg.2]; simp [preK, append_nil_frag]
  have hfs : Frag.Simple (a ++ Frag.group k inner .nil) := (simple_append_iff _ _).mpr ⟨ha, by simp [hi]⟩
  have hfr : (a ++ Frag.group k inner .nil : Frag).render ++ tail = a.render ++ k.open :: (inner.render ++ k.close :: tail) := by
    simp [render_append, Frag.render]
  have hana := analyze_block k _ inner .nil hfs hfh [] tail
  obtain ⟨bre, hre⟩ := reanalyze k _ inner .nil hfs hfh [] tail
  rw [hfp] at hana hre
  simp only [List.nil_append, List.length_nil, Nat.zero_add, hfr] at hana hre
  generalize hT : a.render ++ k.open :: (inner.render ++ k.close :: tail) = T at hana hre
  have hB : BlockOK k inner := blockOK_of_parseOK k inner hi (parseOK k _ inner rfl hi)
  have e1 : T = (a.render ++ [k.open]) ++ (inner.render ++ k.close :: tail) := by rw [← hT]; simp
  have l1 : a.render.length + 1 = (a.render ++ [k.open]).length := by simp
  have hlen : T.length = a.render.length + inner.render.length + tail.length + 2 := by rw [← hT]; simp; omega
  obtain ⟨ins, hins, hgood, hleaf⟩ := hB (a.render ++ [k.open]) tail 0 [] (parseFuel T - 1) (by unfold parseFuel; omega)
  rw [← e1, ← l1] at hins hgood
  simp only [List.nil_append] at hins
  have e2 : T = (a.render ++ k.open :: (inner.render ++ [k.close])) ++ tail := by rw [← hT]; simp
  have l2 : a.render.length + 1 + inner.render.length + 1 = (a.render ++ k.open :: (inner.render ++ [k.close])).length := by
    simp; omega
  obtain ⟨j, hj⟩ := parseLoop_tail k (a.render ++ k.open :: (inner.render ++ [k.close])) tail 0
    ([] ++ [Entry.mk (ebOf a 0 0) (a.render.length + 1 + inner.render.length + 1) 0 .Block ins]) (parseFuel T - 1)
    (by unfold parseFuel; omega) htail
  rw [← e2, ← l2] at hj
  refine ⟨ins, ?_, ⟨bre, hre⟩, hgood, hleaf⟩
  have hf : parseFuel T = (parseFuel T - 1) + 1 := by unfold parseFuel; omega
  have hlt : 0 < T.length := by omega
  unfold parse
  rw [hf, parseLoop, if_pos hlt]
  simp only [hana, bind, Except.bind, hins, hj]
  rfl

/-- `parse_bracket(prefix + group + tail) = bracketSpec` for every prefix fragment without a top-level group of the kind. -/
theorem parseBracket_spec_frag (k : BK) (a inner : Frag) (tail : Str) (ha : Frag.Simple a) (hak : hitK k a = none)
    (htail : ∀ c ∈ tail, has Frag.special c = false) (hi : Frag.Simple inner) :
    parseBracket (a.render ++ k.open :: (inner.render ++ k.close :: tail)) [k.open, k.close] = .ok (bracketSpec k inner) := by
  obtain ⟨ins, hparse, hre, hgood, hleaf⟩ := parse_root_frag k a inner tail ha hak htail hi
  generalize hT : a.render ++ k.open :: (inner.render ++ k.close :: tail) = T at hparse hgood hre
  have hroot : Sits T k (a.render.length, inner) := ⟨a.render, tail, by rw [← hT]; simp [groupText], rfl⟩
  have hstep : bracketStep T [k.open, k.close] [] (Entry.mk (ebOf a 0 0) (a.render.length + 1 + inner.render.length + 1) 0 .Block ins)
      = .ok ([] ++ [groupText k inner]) :=
    step_block T k [] _ (a.render.length, inner) rfl ⟨hre, by simp only [Entry.end_]; omega⟩ hroot
  have hsits : ∀ g ∈ kGroupsAt k inner (a.render.length + 1), Sits T k g := sits_inner T k (a.render.length, inner) hroot
  have hf1 := fold1 T k ins _ ([] ++ [groupText k inner]) (hgood 1) hleaf hsits
  unfold parseBracket
  rw [hparse]
  have hu : (Entry.mk (ebOf a 0 0) (a.render.length + 1 + inner.render.length + 1) 0 .Block ins).unders
      = ins.flatMap fun x => x :: x.entries := rfl
  simp only [Except.bind, hu]
  rw [foldlM_cons_ok _ _ _ [] _ hstep, hf1]
  simp only [bracketSpec, List.nil_append, List.singleton_append]
  congr 2
  rw [← kGroupsAt_snd k inner (a.render.length + 1), List.flatMap_map]
  congr 1
  funext g
  rw [← kGroupsAt_snd k g.2 (g.1 + 1), List.map_map]
  rfl

end Tranp.Block
