/-
  Lemmas for the C++ reader of an inlined string body (Tranp/Model/CppLiteral.lean): on a body that `cppSafe` accepts, the C++
  reader follows CPython's decoder state by state and yields the UTF-8 encoding of what CPython decodes.
-/
import Tranp.Model.CppLiteral

namespace Tranp.Evaluator
open Tranp

theorem utf8_ascii {n : Nat} (h : n < 128) : utf8 n = [n] := by
  simp [utf8, h]

theorem toNat_ofNat_of_valid {n : Nat} (h : validScalar n = true) : (Char.ofNat n).toNat = n := by
  have hv : n.isValidChar := by
    simp only [validScalar, Bool.or_eq_true, Bool.and_eq_true, decide_eq_true_eq] at h
    unfold Nat.isValidChar
    omega
  simp [Char.ofNat, hv, Char.ofNatAux, Char.toNat]

theorem toNat_ofNat_ascii {n : Nat} (h : n < 128) : (Char.ofNat n).toNat = n :=
  toNat_ofNat_of_valid (by simp [validScalar]; omega)

theorem utf8s_append (a b : Str) : utf8s (a ++ b) = utf8s a ++ utf8s b := by
  induction a with
  | nil => rfl
  | cons c cs ih => simp [utf8s, ih, List.append_assoc]

theorem utf8s_single (c : Char) : utf8s [c] = utf8 c.toNat := by simp [utf8s]

theorem lookup_mem {β : Type} : ∀ (l : List (Char × β)) (a : Char) (b : β), l.lookup a = some b → (a, b) ∈ l := by
  intro l
  induction l with
  | nil => intro a b h; simp [List.lookup] at h
  | cons p ps ih =>
    intro a b h
    obtain ⟨k, v⟩ := p
    by_cases hk : a = k
    · subst hk; simp [List.lookup] at h; subst h; exact List.mem_cons_self
    · have hb : (a == k) = false := by simpa using hk
      simp only [List.lookup, hb] at h
      exact List.mem_cons_of_mem _ (ih a b h)

/-- every one-character escape of Python (generated table) is a simple escape of C++ with the same value, below 0x80 -/
theorem simple_table : ∀ p ∈ Generated.PyEscapes.simpleEscapes,
    cppSimple.lookup p.1 = some p.2 ∧ p.2 < 128 := by decide

theorem simpleEsc_spec {c e : Char} (h : simpleEsc c = some e) :
    e.toNat < 128 ∧ cppSimple.lookup c = some e.toNat := by
  unfold simpleEsc at h
  cases hl : Generated.PyEscapes.simpleEscapes.lookup c with
  | none => simp [hl] at h
  | some n =>
    simp only [hl, Option.map_some, Option.some.injEq] at h
    subst h
    obtain ⟨h1, h2⟩ := simple_table (c, n) (lookup_mem _ _ _ hl)
    simp only at h1 h2
    rw [toNat_ofNat_ascii h2]
    exact ⟨h2, h1⟩

theorem simpleEsc_ascii {c e : Char} (h : simpleEsc c = some e) : e.toNat < 128 := (simpleEsc_spec h).1

/-- after `\xhh`, when no hexadecimal digit follows, the greedy C++ escape is complete: its byte, then the rest as plain text -/
theorem cppGo_hexDone (w : Nat) (cs : Str) (hw : w < 256) (hn : notHexNext cs = true) :
    cppGo (.hexG w true) cs = (cppGo .normal cs).map (fun bs => w :: bs) := by
  cases cs with
  | nil => simp [cppGo, cppFlush, hw]
  | cons c cs' =>
    have hc : Str.hexVal c = none := by
      simp only [notHexNext, Option.isNone_iff_eq_none] at hn
      exact hn
    simp only [cppGo, cppStep, hc, hw, Bool.true_and, decide_true, if_true]
    cases hp : cppPlain c with
    | none => simp
    | some p =>
      obtain ⟨bs, st⟩ := p
      simp only
      cases cppGo st cs' <;> simp

/-- what both readers do with a character in plain text -/
theorem plain_step {c : Char} (h : (c = '\\' || plainOk c) = true) :
    cppPlain c = some (utf8s (stepNormal c).1, toCpp (stepNormal c).2) := by
  by_cases hb : c = '\\'
  · subst hb; simp [cppPlain, stepNormal, utf8s, toCpp]
  · simp only [hb, decide_false, Bool.false_or, plainOk, Bool.not_eq_true', Bool.or_eq_false_iff, decide_eq_false_iff_not] at h
    simp [cppPlain, stepNormal, hb, h.1, h.2, utf8s, toCpp]

/-- **simulation**: from corresponding states, on a body `cppSafeGo` accepts, the C++ reader yields the UTF-8 encoding of what
    CPython's decoder yields. -/
theorem cpp_sim : ∀ (body : Str) (st : DecState), cppSafeGo st body = true →
    cppGo (toCpp st) body = some (utf8s (decodeGo st body)) := by
  intro body
  induction body with
  | nil =>
    intro st h
    cases st with
    | normal => simp [cppGo, cppFlush, toCpp, decodeGo, flushSt, utf8s]
    | backslash => simp [cppSafeGo] at h
    | oct v n =>
      simp only [cppSafeGo, decide_eq_true_eq] at h
      simp [cppGo, cppFlush, toCpp, decodeGo, flushSt, utf8s, toNat_ofNat_ascii h, utf8_ascii h]
    | hex k need seen v => simp [cppSafeGo] at h
  | cons c cs ih =>
    intro st h
    simp only [cppSafeGo, Bool.and_eq_true] at h
    obtain ⟨hc, hrest⟩ := h
    have hih := ih _ hrest
    cases st with
    | normal =>
      simp only at hc
      simp only [stepSt] at hih
      show cppGo .normal (c :: cs) = _
      simp only [cppGo, cppStep, decodeGo, stepSt, plain_step hc, hih, utf8s_append]
    | backslash =>
      simp only at hc
      cases ho : octVal c with
      | some d =>
        simp only [stepSt, ho] at hih
        have hih' : cppGo (.oct d 1) cs = some (utf8s (decodeGo (.oct d 1) cs)) := by simpa [toCpp] using hih
        simp [toCpp, cppGo, cppStep, decodeGo, stepSt, ho, hih']
      | none =>
        cases hw : hexWidth c with
        | some w =>
          simp only [stepSt, ho, hw] at hih
          have hk : c = 'x' ∨ c = 'u' ∨ c = 'U' := by
            unfold hexWidth at hw
            by_cases h1 : c = 'x'
            · exact Or.inl h1
            · by_cases h2 : c = 'u'
              · exact Or.inr (Or.inl h2)
              · by_cases h3 : c = 'U'
                · exact Or.inr (Or.inr h3)
                · simp [h1, h2, h3] at hw
          rcases hk with rfl | rfl | rfl
          · have : w = 2 := by simpa [hexWidth] using hw.symm
            subst this
            have hih' : cppGo (.hexG 0 false) cs = some (utf8s (decodeGo (.hex 'x' 2 [] 0) cs)) := by simpa [toCpp] using hih
            simp [toCpp, cppGo, cppStep, decodeGo, stepSt, hw, hih', octVal]
          · have : w = 4 := by simpa [hexWidth] using hw.symm
            subst this
            have hih' : cppGo (.ucn 4 0) cs = some (utf8s (decodeGo (.hex 'u' 4 [] 0) cs)) := by simpa [toCpp] using hih
            simp [toCpp, cppGo, cppStep, decodeGo, stepSt, hw, hih', octVal]
          · have : w = 8 := by simpa [hexWidth] using hw.symm
            subst this
            have hih' : cppGo (.ucn 8 0) cs = some (utf8s (decodeGo (.hex 'U' 8 [] 0) cs)) := by simpa [toCpp] using hih
            simp [toCpp, cppGo, cppStep, decodeGo, stepSt, hw, hih', octVal]
        | none =>
          cases hs : simpleEsc c with
          | none => simp [ho, hw, hs] at hc
          | some e =>
            simp only [stepSt, ho, hw, hs] at hih
            have hx : c ≠ 'x' ∧ c ≠ 'u' ∧ c ≠ 'U' := by
              refine ⟨?_, ?_, ?_⟩ <;> (intro hcx; subst hcx; simp [hexWidth] at hw)
            obtain ⟨he, hcpp⟩ := simpleEsc_spec hs
            have hih' : cppGo .normal cs = some (utf8s (decodeGo .normal cs)) := by simpa [toCpp] using hih
            simp [toCpp, cppGo, cppStep, decodeGo, stepSt, ho, hw, hs, hx.1, hx.2.1, hx.2.2, hih', utf8s, utf8_ascii he, hcpp]
    | oct v n =>
      cases ho : octVal c with
      | some d =>
        simp only [ho] at hc
        by_cases hn : n < 2
        · simp only [stepSt, ho, hn, if_true] at hih
          have hih' : cppGo (.oct (v * 8 + d) (n + 1)) cs = some (utf8s (decodeGo (.oct (v * 8 + d) (n + 1)) cs)) := by simpa [toCpp] using hih
          simp [toCpp, cppGo, cppStep, decodeGo, stepSt, ho, hn, hih']
        · simp only [hn, decide_false, Bool.false_or, decide_eq_true_eq] at hc
          simp only [stepSt, ho, hn, if_false] at hih
          have hih' : cppGo .normal cs = some (utf8s (decodeGo .normal cs)) := by simpa [toCpp] using hih
          have h256 : v * 8 + d < 256 := by omega
          simp [toCpp, cppGo, cppStep, decodeGo, stepSt, ho, hn, hih', h256, utf8s, toNat_ofNat_ascii hc, utf8_ascii hc]
      | none =>
        simp only [ho, Bool.and_eq_true, decide_eq_true_eq] at hc
        simp only [stepSt, ho] at hih
        show cppGo (.oct v n) (c :: cs) = _
        simp only [cppGo, cppStep, decodeGo, stepSt, ho, plain_step hc.2, hih, utf8s, utf8s_append, toNat_ofNat_ascii hc.1, utf8_ascii hc.1,
          List.cons_append, List.nil_append]
    | hex k need seen v =>
      cases hh : Str.hexVal c with
      | none => simp [hh] at hc
      | some d =>
        simp only [hh] at hc
        by_cases hneed : need ≤ 1
        · have hn1 : ¬ 1 < need := by omega
          simp only [hn1, decide_false, Bool.false_or] at hc
          simp only [stepSt, hh, hneed, if_true] at hih
          have hih' : cppGo .normal cs = some (utf8s (decodeGo .normal cs)) := by simpa [toCpp] using hih
          by_cases hk : k = 'x'
          · subst hk
            simp only [if_true, Bool.and_eq_true, decide_eq_true_eq] at hc
            have h256 : v * 16 + d < 256 := by omega
            simp [toCpp, cppGo, cppStep, decodeGo, stepSt, hh, hneed, cppGo_hexDone _ _ h256 hc.2, hih', utf8s, toNat_ofNat_ascii hc.1, utf8_ascii hc.1]
          · simp only [hk, if_false] at hc
            have hvs : validScalar (v * 16 + d) = true := by
              by_cases hu : (k = 'u' || k = 'U') = true
              · simpa [hu] using hc
              · simp [hu] at hc
            simp [toCpp, hk, cppGo, cppStep, decodeGo, stepSt, hh, hneed, hvs, hih', utf8s, toNat_ofNat_of_valid hvs]
        · simp only [stepSt, hh, hneed, if_false] at hih
          by_cases hk : k = 'x'
          · subst hk
            have hih' : cppGo (.hexG (v * 16 + d) true) cs = some (utf8s (decodeGo (.hex 'x' (need - 1) (seen ++ [c]) (v * 16 + d)) cs)) := by
              have he : (seen ++ [c]).isEmpty = false := by cases seen <;> rfl
              simpa [toCpp, he] using hih
            simp [toCpp, cppGo, cppStep, decodeGo, stepSt, hh, hneed, hih']
          · have hih' : cppGo (.ucn (need - 1) (v * 16 + d)) cs = some (utf8s (decodeGo (.hex k (need - 1) (seen ++ [c]) (v * 16 + d)) cs)) := by
              simpa [toCpp, hk] using hih
            simp [toCpp, hk, cppGo, cppStep, decodeGo, stepSt, hh, hneed, hih']

/-- a cast result that is not a string is not the string `s` (used for the literal shortcut of `emitValue`) -/
theorem liftPy_map_ne_str {F α : Type} (r : Except PyExc α) (f : α → V F) {s : Str} (hf : ∀ a, f a ≠ .str s) :
    liftPy (r.map f) ≠ .ok (.str s) := by
  cases r with
  | error e => simp [liftPy, Except.map]
  | ok a => simp only [liftPy, Except.map]; intro h; injection h with h; exact hf a h

end Tranp.Evaluator
