/-
  Lemmas for property C05: ordered-map laws, file-name injectivity, invariants of the cache layers.
-/
import Tranp.Model.CacheFS

namespace Tranp.CacheFS
open Tranp

/-! ### ordered map -/

theorem Dir.get?_put_eq (d : Dir) (p : Str) (f : File) : (d.put p f).get? p = some f := by
  induction d with
  | nil => simp [Dir.put, Dir.get?, List.lookup]
  | cons e d ih =>
    obtain ⟨q, g⟩ := e
    unfold Dir.put
    by_cases h : p = q
    · subst h; simp [Dir.get?, List.lookup]
    · simp only [h, ↓reduceIte]
      have hb : (p == q) = false := by simpa using h
      simp only [Dir.get?, List.lookup, hb]
      exact ih

theorem Dir.get?_put_ne (d : Dir) (p q : Str) (f : File) (h : q ≠ p) : (d.put p f).get? q = d.get? q := by
  induction d with
  | nil =>
    have hb : (q == p) = false := by simpa using h
    simp [Dir.put, Dir.get?, List.lookup, hb]
  | cons e d ih =>
    obtain ⟨r, g⟩ := e
    unfold Dir.put
    by_cases hpr : p = r
    · subst hpr
      have hb : (q == p) = false := by simpa using h
      simp [Dir.get?, List.lookup, hb]
    · simp only [hpr, ↓reduceIte]
      simp only [Dir.get?, List.lookup]
      cases hq : (q == r)
      · exact ih
      · rfl

theorem Dir.get?_erase (d : Dir) (p q : Str) : (d.erase p).get? q = if q = p then none else d.get? q := by
  induction d with
  | nil => simp [Dir.erase, Dir.get?, List.lookup]
  | cons e d ih =>
    obtain ⟨r, g⟩ := e
    simp only [Dir.erase, List.filter] at ih ⊢
    by_cases hr : r = p
    · subst hr
      simp only [ne_eq, not_true_eq_false, decide_false]
      rw [ih]
      by_cases hq : q = r
      · simp [hq]
      · have hb : (q == r) = false := by simpa using hq
        simp [hq, Dir.get?, List.lookup, hb]
    · simp only [ne_eq, hr, not_false_eq_true, decide_true]
      simp only [Dir.get?, List.lookup]
      cases hq : (q == r)
      · exact ih
      · have : q = r := by simpa using hq
        subst this; simp [hr]

theorem Dir.get?_eraseAll (d : Dir) (ps : List Str) (q : Str) (f : File) :
    (ps.foldl Dir.erase d).get? q = some f → d.get? q = some f := by
  induction ps generalizing d with
  | nil => simp
  | cons p ps ih =>
    intro h
    have := ih (d.erase p) h
    rw [Dir.get?_erase] at this
    split at this
    · simp at this
    · exact this

/-! ### file names -/

/-- the last `-` separates the key from a dash-free tail -/
theorem dash_split {a a' b b' : Str} (hb : '-' ∉ b) (hb' : '-' ∉ b') (h : a ++ '-' :: b = a' ++ '-' :: b') :
    a = a' ∧ b = b' := by
  induction a generalizing a' with
  | nil =>
    cases a' with
    | nil => simpa using h
    | cons c a' =>
      simp only [List.nil_append, List.cons_append, List.cons.injEq] at h
      obtain ⟨_, h2⟩ := h
      exact absurd (h2 ▸ (by simp : '-' ∈ a' ++ '-' :: b')) hb
  | cons c a ih =>
    cases a' with
    | nil =>
      simp only [List.nil_append, List.cons_append, List.cons.injEq] at h
      obtain ⟨_, h2⟩ := h
      exact absurd (h2 ▸ (by simp : '-' ∈ a ++ '-' :: b)) hb'
    | cons c' a' =>
      simp only [List.cons_append, List.cons.injEq] at h
      obtain ⟨hc, h2⟩ := h
      obtain ⟨h3, h4⟩ := ih h2
      exact ⟨by rw [hc, h3], h4⟩

theorem jsonExt_nodash : '-' ∉ jsonExt := by decide
theorem binExt_nodash : '-' ∉ binExt := by decide

theorem nodash_append {a b : Str} (ha : '-' ∉ a) (hb : '-' ∉ b) : '-' ∉ a ++ b := by
  simp [List.mem_append, ha, hb]

theorem cachePath_inj {k k' i i' e : Str} (hi : '-' ∉ i) (hi' : '-' ∉ i') (he : '-' ∉ e)
    (h : cachePath k i e = cachePath k' i' e) : k = k' ∧ i = i' := by
  obtain ⟨h1, h2⟩ := dash_split (nodash_append hi he) (nodash_append hi' he) h
  exact ⟨h1, List.append_cancel_right h2⟩

theorem symPath_eq (k i : Str) : symPath k i = (k ++ ['-', 's', 'y', 'm', 'b', 'o', 'l', 's']) ++ '-' :: (i ++ jsonExt) := by
  simp [symPath, symInfix]

theorem symPath_inj {k k' i i' : Str} (hi : '-' ∉ i) (hi' : '-' ∉ i') (h : symPath k i = symPath k' i') : k = k' ∧ i = i' := by
  rw [symPath_eq, symPath_eq] at h
  obtain ⟨h1, h2⟩ := dash_split (nodash_append hi jsonExt_nodash) (nodash_append hi' jsonExt_nodash) h
  exact ⟨List.append_cancel_right h1, List.append_cancel_right h2⟩

/-- a tree file of a dash-free key is never a symbols file -/
theorem cachePath_ne_symPath {k k' i i' e : Str} (hk : '-' ∉ k) (hi : '-' ∉ i) (hi' : '-' ∉ i') (he : '-' ∉ e) :
    cachePath k i e ≠ symPath k' i' := by
  intro h
  rw [symPath_eq] at h
  obtain ⟨h1, _⟩ := dash_split (nodash_append hi he) (nodash_append hi' jsonExt_nodash) h
  exact hk (h1 ▸ by simp)

end Tranp.CacheFS

namespace Tranp.CacheFS
open Tranp

/-! ### generic invariants of the loader -/

theorem foldl_inv {α β : Type} (P : α → Prop) (g : α → β → α) (h : ∀ a b, P a → P (g a b)) (xs : List β) (a : α) (ha : P a) :
    P (xs.foldl g a) := by
  induction xs generalizing a with
  | nil => exact ha
  | cons x xs ih => exact ih _ (h _ _ ha)

/-- Any predicate that the atomic cache actions and the loader's bookkeeping preserve is preserved by `Modules.load`.
    `F key tree` is a state-independent fact established when the tree is obtained and available to `preprocess`. -/
theorem loadMod_inv (S : Sem) (P : Sess → Prop) (F : Str → Str → Prop)
    (hfail : ∀ s e, P s → P (s.fail e))
    (htree : ∀ s key s' r, P s → treeGet S s key = (s', r) →
      P s' ∧ ∀ tree, r = some tree → F key tree ∧ P { s' with loaded := s'.loaded ++ [key], trees := s'.trees ++ [(key, tree)] })
    (hcyc : ∀ s, P s → P { s with cyc := true })
    (hdep : ∀ s key, P s → P { s with depd := s.depd ++ [key] })
    (hpre : ∀ s key tree s' r, P s → F key tree → key ∈ s.depd →
      ((S.importsOf tree).all (fun d => (List.lookup d s.db).isSome) = true ∨ s.cyc = true) →
      preprocess S s key tree (viewsOf S s.db (S.importsOf tree)) = (s', r) →
      P s' ∧ ∀ table, r = some table → P { s' with db := s'.db ++ [(key, table)] }) :
    ∀ f s key, P s → P (loadMod S f s key) := by
  intro f
  induction f with
  | zero => intro s key hs; exact hfail _ _ hs
  | succ f ih =>
    intro s key hs
    rw [loadMod]
    split
    · exact hs
    · split
      · exact hs
      · have h1 : P (if s.w.libs.contains key then s else s.w.libs.foldl (loadMod S f) s) := by
          split
          · exact hs
          · exact foldl_inv P _ (fun a b ha => ih a b ha) _ _ hs
        generalize (if s.w.libs.contains key then s else s.w.libs.foldl (loadMod S f) s) = s1 at h1
        dsimp only
        split
        · exact h1
        · split
          · exact h1
          · split
            · rename_i s2 heq
              exact (htree _ _ _ _ h1 heq).1
            · rename_i s2 tree heq
              obtain ⟨_, h2⟩ := htree _ _ _ _ h1 heq
              obtain ⟨hF, h3⟩ := h2 tree rfl
              have h4 := foldl_inv P _ (fun a b ha => ih a b ha) (S.importsOf tree) _ h3
              generalize (S.importsOf tree).foldl (loadMod S f) _ = s3 at h4
              split
              · exact h4
              · have h4' := hdep _ key h4
                have hkd : key ∈ ({ s3 with depd := s3.depd ++ [key] } : Sess).depd := by simp
                by_cases hall : (S.importsOf tree).all (fun d => (List.lookup d s3.db).isSome) = true
                · simp only [hall, ↓reduceIte]
                  split
                  · rename_i s4 heq2
                    exact (hpre { s3 with depd := s3.depd ++ [key] } key tree _ _ h4' hF hkd (Or.inl hall) heq2).1
                  · rename_i s4 table heq2
                    exact (hpre { s3 with depd := s3.depd ++ [key] } key tree _ _ h4' hF hkd (Or.inl hall) heq2).2 table rfl
                · simp only [hall, Bool.false_eq_true, ↓reduceIte]
                  have h5 := hcyc _ h4'
                  split
                  · rename_i s4 heq2
                    exact (hpre { s3 with depd := s3.depd ++ [key], cyc := true } key tree _ _ h5 hF hkd (Or.inr rfl) heq2).1
                  · rename_i s4 table heq2
                    exact (hpre { s3 with depd := s3.depd ++ [key], cyc := true } key tree _ _ h5 hF hkd (Or.inr rfl) heq2).2 table rfl

end Tranp.CacheFS

namespace Tranp.CacheFS
open Tranp

/-! ### hypotheses on the abstract functions and the tree-cache invariant -/

/-- a module key is a file path without extension: no `-` (module names are identifiers) and not the parser's cache key -/
def KeyOK (k : Str) : Prop := '-' ∉ k ∧ k ≠ parserKey

/-- md5 is injective on the identities of a history, hex digests contain no `-`; the decoders accept what the encoders
    wrote and reject every proper prefix of it (C05.truncate + "the decoder rejects unbalanced text"). -/
structure Hyp (S : Sem) : Prop where
  tree_inj : ∀ gp st al g t ch gp' st' al' g' t' ch', S.treeIdent gp st al g t ch = S.treeIdent gp' st' al' g' t' ch' →
    gp = gp' ∧ st = st' ∧ al = al' ∧ g = g' ∧ t = t' ∧ ch = ch'
  tree_nodash : ∀ gp st al g t ch, '-' ∉ S.treeIdent gp st al g t ch
  parser_inj : ∀ gp st al g gp' st' al' g', S.parserIdent gp st al g = S.parserIdent gp' st' al' g' → gp = gp' ∧ st = st' ∧ al = al' ∧ g = g'
  parser_nodash : ∀ gp st al g, '-' ∉ S.parserIdent gp st al g
  hash_inj : ∀ a b, S.hash a = S.hash b → a = b
  identL_inj : ∀ a b, S.identL a = S.identL b → a = b
  identL_nodash : ∀ hs, '-' ∉ S.identL hs
  entry_inj : ∀ p h p' h', S.entry p h = S.entry p' h' → p = p' ∧ h = h'
  valid_parse : ∀ pz src, S.valid (S.parse pz src) = true
  valid_blob : ∀ gp st al g, S.valid (S.parserBlob gp st al g) = true
  prefix_invalid : ∀ d, S.valid d = true → ∀ k, k < d.length → S.valid (d.take k) = false
  /-- C14 (`C14.rt`) composed with the JSON round trip: a stored symbol table is restored as it was -/
  dec_enc : ∀ t, S.decTab (S.encTab t) = some t
  /-- C05.truncate + "the decoder rejects unbalanced text", for symbol payloads -/
  dec_prefix : ∀ t k, k < (S.encTab t).length → S.decTab ((S.encTab t).take k) = none

theorem prefix_valid_eq {S : Sem} (H : Hyp S) {d full : Str} (hp : d <+: full) (hf : S.valid full = true) (hd : S.valid d = true) :
    d = full := by
  by_cases hl : d.length < full.length
  · have : d = full.take d.length := by
      obtain ⟨t, rfl⟩ := hp
      simp
    rw [this, H.prefix_invalid full hf d.length hl] at hd
    exact absurd hd (by simp)
  · obtain ⟨t, rfl⟩ := hp
    have : t = [] := by
      simp only [List.length_append, Nat.not_lt] at hl
      exact List.eq_nil_of_length_eq_zero (by omega)
    simp [this]

theorem prefix_dec_eq {S : Sem} (H : Hyp S) {d t0 t : Str} (hp : d <+: S.encTab t0) (hd : S.decTab d = some t) : t = t0 := by
  by_cases hl : d.length < (S.encTab t0).length
  · have : d = (S.encTab t0).take d.length := by
      obtain ⟨r, hr⟩ := hp
      rw [← hr]; simp
    rw [this, H.dec_prefix t0 d.length hl] at hd
    cases hd
  · obtain ⟨r, hr⟩ := hp
    have : r = [] := by
      have := congrArg List.length hr
      simp only [List.length_append] at this
      exact List.eq_nil_of_length_eq_zero (by omega)
    subst this
    simp only [List.append_nil] at hr
    rw [hr, H.dec_enc] at hd
    exact (Option.some.inj hd).symm

/-- The tree cache is coherent: a file named by (grammar path, start, algorithm, grammar mtime, source mtime) of a module whose
    source carries exactly that mtime holds (a prefix of) the encoding of the parse of that source with the parser built from
    exactly those four; mtimes named in the cache are older than the clock. -/
structure TInv (S : Sem) (w : World) : Prop where
  keys : ∀ k f, w.srcs.get? k = some f → KeyOK k
  fresh : ∀ k f, w.srcs.get? k = some f → f.mtime < w.clock
  gfresh : w.grammarMtime < w.clock
  tree : ∀ k gp st al g t ch f, KeyOK k → w.cache.get? (treePath S k gp st al g t ch) = some f →
    t < w.clock ∧ g < w.clock ∧ ∃ full, f.data <+: full ∧ S.valid full = true ∧
      (∀ sf, w.srcs.get? k = some sf → sf.mtime = t → full = S.parse (S.parserBlob gp st al g) sf.data)
  /-- parser-cache coherence: the file named by (grammar path, start, algorithm, grammar mtime) holds (a prefix of) the
      pickle of the parser built from exactly those -/
  parser : ∀ gp st al g f, w.cache.get? (parserPath S gp st al g) = some f → f.data <+: S.parserBlob gp st al g

theorem treePath_inj {S : Sem} (H : Hyp S) {k k' gp st al gp' st' al' ch ch' : Str} {g t g' t' : Nat}
    (h : treePath S k gp st al g t ch = treePath S k' gp' st' al' g' t' ch') :
    k = k' ∧ gp = gp' ∧ st = st' ∧ al = al' ∧ g = g' ∧ t = t' ∧ ch = ch' := by
  obtain ⟨h1, h2⟩ := cachePath_inj (H.tree_nodash gp st al g t ch) (H.tree_nodash gp' st' al' g' t' ch') jsonExt_nodash h
  exact ⟨h1, H.tree_inj _ _ _ _ _ _ _ _ _ _ _ _ h2⟩

theorem treePath_ne_symPath {S : Sem} (H : Hyp S) {k k' tp ts ta ch : Str} {i : List Str} {g t : Nat} (hk : KeyOK k) :
    treePath S k tp ts ta g t ch ≠ symPath k' (S.identL i) :=
  cachePath_ne_symPath hk.1 (H.tree_nodash tp ts ta g t ch) (H.identL_nodash i) jsonExt_nodash

theorem treePath_ne_parserPath {S : Sem} (H : Hyp S) {k tp ts ta gp st al ch : Str} {g t g' : Nat} (hk : KeyOK k) :
    treePath S k tp ts ta g t ch ≠ parserPath S gp st al g' := by
  intro h
  have := dash_split (nodash_append (H.tree_nodash tp ts ta g t ch) jsonExt_nodash) (nodash_append (H.parser_nodash gp st al g') binExt_nodash) h
  exact hk.2 this.1

theorem parserPath_inj {S : Sem} (H : Hyp S) {gp st al gp' st' al' : Str} {g g' : Nat}
    (h : parserPath S gp st al g = parserPath S gp' st' al' g') : gp = gp' ∧ st = st' ∧ al = al' ∧ g = g' :=
  H.parser_inj _ _ _ _ _ _ _ _ (cachePath_inj (H.parser_nodash _ _ _ _) (H.parser_nodash _ _ _ _) binExt_nodash h).2

theorem parserKey_nodash : '-' ∉ parserKey := by decide

theorem parserPath_ne_symPath {S : Sem} (H : Hyp S) {gp st al k ident : Str} {g : Nat} (hi : '-' ∉ ident) :
    parserPath S gp st al g ≠ symPath k ident :=
  cachePath_ne_symPath parserKey_nodash (H.parser_nodash _ _ _ _) hi binExt_nodash

theorem TInv.erase {S : Sem} {w : World} (h : TInv S w) (p : Str) : TInv S { w with cache := w.cache.erase p } := by
  refine ⟨h.keys, h.fresh, h.gfresh, ?_, ?_⟩
  · intro k tp ts ta g t ch f hk hget
    simp only [Dir.get?_erase] at hget
    split at hget
    · simp at hget
    · exact h.tree k tp ts ta g t ch f hk hget
  · intro gp st al g f hget
    simp only [Dir.get?_erase] at hget
    split at hget
    · simp at hget
    · exact h.parser gp st al g f hget

theorem TInv.eraseAll {S : Sem} {w : World} (h : TInv S w) (ps : List Str) : TInv S { w with cache := ps.foldl Dir.erase w.cache } := by
  induction ps generalizing w with
  | nil => exact h
  | cons p ps ih => exact ih (h.erase p)

/-- writing a file whose name is neither the tree file of a module key nor a parser file -/
theorem TInv.put_other {S : Sem} {w : World} (h : TInv S w) (p : Str) (f : File)
    (hp : ∀ k tp ts ta g t ch, KeyOK k → treePath S k tp ts ta g t ch ≠ p) (hq : ∀ gp st al g, parserPath S gp st al g ≠ p) :
    TInv S { w with cache := w.cache.put p f, clock := w.clock + 1 } := by
  refine ⟨h.keys, fun k f hf => Nat.lt_succ_of_lt (h.fresh k f hf), Nat.lt_succ_of_lt h.gfresh, ?_, ?_⟩
  · intro k tp ts ta g t ch f' hk hget
    simp only at hget
    rw [Dir.get?_put_ne _ _ _ _ (hp k tp ts ta g t ch hk)] at hget
    obtain ⟨h1, h2, h3⟩ := h.tree k tp ts ta g t ch f' hk hget
    exact ⟨Nat.lt_succ_of_lt h1, Nat.lt_succ_of_lt h2, h3⟩
  · intro gp st al g f' hget
    simp only at hget
    rw [Dir.get?_put_ne _ _ _ _ (hq gp st al g)] at hget
    exact h.parser gp st al g f' hget

/-- writing the pickle of the parser built from the current configuration -/
theorem TInv.put_parser {S : Sem} (H : Hyp S) {w : World} (h : TInv S w) (gp st al : Str) (g m : Nat) :
    TInv S { w with cache := w.cache.put (parserPath S gp st al g) ⟨S.parserBlob gp st al g, m⟩, clock := w.clock + 1 } := by
  refine ⟨h.keys, fun k f hf => Nat.lt_succ_of_lt (h.fresh k f hf), Nat.lt_succ_of_lt h.gfresh, ?_, ?_⟩
  · intro k tp ts ta g' t ch f' hk hget
    simp only at hget
    rw [Dir.get?_put_ne _ _ _ _ (treePath_ne_parserPath H hk)] at hget
    obtain ⟨h1, h2, h3⟩ := h.tree k tp ts ta g' t ch f' hk hget
    exact ⟨Nat.lt_succ_of_lt h1, Nat.lt_succ_of_lt h2, h3⟩
  · intro gp' st' al' g' f' hget
    simp only at hget
    by_cases hp : parserPath S gp' st' al' g' = parserPath S gp st al g
    · obtain ⟨rfl, rfl, rfl, rfl⟩ := parserPath_inj H hp
      rw [Dir.get?_put_eq] at hget; cases hget
      exact List.prefix_refl _
    · rw [Dir.get?_put_ne _ _ _ _ hp] at hget
      exact h.parser gp' st' al' g' f' hget

/-- writing the tree file of a module from a fresh parse of its current source -/
theorem TInv.put_tree {S : Sem} (H : Hyp S) {w : World} (h : TInv S w) (k : Str) (sf : File) (hsf : w.srcs.get? k = some sf) (m : Nat) :
    TInv S { w with cache := w.cache.put (treePath S k w.grammar w.start w.algo w.grammarMtime sf.mtime (treeHashArg S sf.data)) ⟨S.parse (w.parserNow S) sf.data, m⟩, clock := w.clock + 1 } := by
  have hk0 : KeyOK k := h.keys k sf hsf
  refine ⟨h.keys, fun k f hf => Nat.lt_succ_of_lt (h.fresh k f hf), Nat.lt_succ_of_lt h.gfresh, ?_, ?_⟩
  · intro k' tp ts ta g t ch f' hk hget
    simp only at hget
    by_cases hp : treePath S k' tp ts ta g t ch = treePath S k w.grammar w.start w.algo w.grammarMtime sf.mtime (treeHashArg S sf.data)
    · obtain ⟨rfl, rfl, rfl, rfl, rfl, rfl, rfl⟩ := treePath_inj H hp
      rw [Dir.get?_put_eq] at hget
      cases hget
      refine ⟨Nat.lt_succ_of_lt (h.fresh _ _ hsf), Nat.lt_succ_of_lt h.gfresh, S.parse (w.parserNow S) sf.data, List.prefix_refl _, H.valid_parse _ _, ?_⟩
      intro sf' hsf' _
      simp only at hsf'
      rw [hsf] at hsf'; cases hsf'; rfl
    · rw [Dir.get?_put_ne _ _ _ _ hp] at hget
      obtain ⟨h1, h2, h3⟩ := h.tree k' tp ts ta g t ch f' hk hget
      exact ⟨Nat.lt_succ_of_lt h1, Nat.lt_succ_of_lt h2, h3⟩
  · intro gp st al g f' hget
    simp only at hget
    rw [Dir.get?_put_ne _ _ _ _ (fun e => treePath_ne_parserPath H hk0 e.symm)] at hget
    exact h.parser gp st al g f' hget

/-- an edit: new content, fresh mtime -/
theorem TInv.edit {S : Sem} {w : World} (h : TInv S w) (k src : Str) (hk : KeyOK k) :
    TInv S { w with srcs := w.srcs.put k ⟨src, w.clock⟩, clock := w.clock + 1 } := by
  refine ⟨?_, ?_, Nat.lt_succ_of_lt h.gfresh, ?_, h.parser⟩
  · intro k' f hf
    simp only at hf
    by_cases hkk : k' = k
    · subst hkk; exact hk
    · rw [Dir.get?_put_ne _ _ _ _ hkk] at hf; exact h.keys k' f hf
  · intro k' f hf
    simp only at hf ⊢
    by_cases hkk : k' = k
    · subst hkk; rw [Dir.get?_put_eq] at hf; cases hf; simp
    · rw [Dir.get?_put_ne _ _ _ _ hkk] at hf; exact Nat.lt_succ_of_lt (h.fresh k' f hf)
  · intro k' tp ts ta g t ch f hk' hget
    obtain ⟨h1, h1', full, h2, h3, h4⟩ := h.tree k' tp ts ta g t ch f hk' hget
    refine ⟨Nat.lt_succ_of_lt h1, Nat.lt_succ_of_lt h1', full, h2, h3, ?_⟩
    intro sf hsf hmt
    simp only at hsf
    by_cases hkk : k' = k
    · subst hkk; rw [Dir.get?_put_eq] at hsf; cases hsf
      simp only at hmt; omega
    · rw [Dir.get?_put_ne _ _ _ _ hkk] at hsf; exact h4 sf hsf hmt

/-- another grammar file / the grammar file is rewritten: fresh grammar mtime -/
theorem TInv.grammar {S : Sem} {w : World} (h : TInv S w) (path : Str) :
    TInv S { w with grammar := path, grammarMtime := w.clock, clock := w.clock + 1 } := by
  refine ⟨h.keys, fun k f hf => Nat.lt_succ_of_lt (h.fresh k f hf), Nat.lt_succ_self _, ?_, h.parser⟩
  intro k tp ts ta g t ch f hk hget
  obtain ⟨h1, h1', full, h2, h3, h4⟩ := h.tree k tp ts ta g t ch f hk hget
  exact ⟨Nat.lt_succ_of_lt h1, Nat.lt_succ_of_lt h1', full, h2, h3, h4⟩

/-- `ParserSetting` is changed (grammar path / start / algorithm; mtimes untouched): the files keep what their names say -/
theorem TInv.setting {S : Sem} {w : World} (h : TInv S w) (path st al : Str) :
    TInv S { w with grammar := path, start := st, algo := al } :=
  ⟨h.keys, h.fresh, h.gfresh, h.tree, h.parser⟩

/-- an interrupted write: the file keeps a proper prefix -/
theorem TInv.trunc {S : Sem} {w : World} (h : TInv S w) (p : Str) (f : File) (hf : w.cache.get? p = some f) (k : Nat) :
    TInv S { w with cache := w.cache.put p (truncFile f k) } := by
  refine ⟨h.keys, h.fresh, h.gfresh, ?_, ?_⟩
  · intro k' tp ts ta g t ch f' hk hget
    simp only at hget
    by_cases hp : treePath S k' tp ts ta g t ch = p
    · subst hp
      rw [Dir.get?_put_eq] at hget; cases hget
      obtain ⟨h1, h1', full, h2, h3⟩ := h.tree k' tp ts ta g t ch f hk hf
      exact ⟨h1, h1', full, List.IsPrefix.trans (List.take_prefix _ _) h2, h3⟩
    · rw [Dir.get?_put_ne _ _ _ _ hp] at hget
      exact h.tree k' tp ts ta g t ch f' hk hget
  · intro gp st al g f' hget
    simp only at hget
    by_cases hp : parserPath S gp st al g = p
    · subst hp
      rw [Dir.get?_put_eq] at hget; cases hget
      exact List.IsPrefix.trans (List.take_prefix _ _) (h.parser gp st al g f hf)
    · rw [Dir.get?_put_ne _ _ _ _ hp] at hget
      exact h.parser gp st al g f' hget

end Tranp.CacheFS

namespace Tranp.CacheFS
open Tranp

/-! ### the atomic cache actions preserve the tree invariant -/

theorem Sess.evict_eq (s : Sess) (ps : List Str) :
    s.evict ps = { s with w := { s.w with cache := ps.foldl Dir.erase s.w.cache }, log := s.log ++ ps.map (fun p => ('d', p)) } := by
  induction ps generalizing s with
  | nil => simp [Sess.evict]
  | cons p ps ih =>
    have : s.evict (p :: ps) = Sess.evict { (s.ev 'd' p) with w := { s.w with cache := s.w.cache.erase p } } ps := rfl
    rw [this, ih]
    simp [Sess.ev, List.append_assoc]

def IdsNoDash (ids : List (Str × Str)) : Prop := ∀ k i, (k, i) ∈ ids → '-' ∉ i

/-- session-level tree invariant: coherent world; sources, grammar and parser setting as at the start of the run; the parser
    of the process is the one built from the current setting; every tree of the session is the fresh parse of its module's
    source; cached identities are dash-free -/
structure TS (S : Sem) (w0 : World) (s : Sess) : Prop where
  inv : TInv S s.w
  srcs : s.w.srcs = w0.srcs
  gm : s.w.grammarMtime = w0.grammarMtime
  cfg : s.w.grammar = w0.grammar ∧ s.w.start = w0.start ∧ s.w.algo = w0.algo
  parser : ∀ pz, s.parser = some pz → pz = w0.parserNow S
  trees : ∀ k t, (k, t) ∈ s.trees → ∃ sf, w0.srcs.get? k = some sf ∧ t = S.parse (w0.parserNow S) sf.data
  ids : IdsNoDash s.ids

theorem TS.parserNow_eq {S : Sem} {w0 : World} {s : Sess} (h : TS S w0 s) : s.w.parserNow S = w0.parserNow S := by
  unfold World.parserNow
  rw [h.cfg.1, h.cfg.2.1, h.cfg.2.2, h.gm]

theorem TS.fail {S : Sem} {w0 : World} {s : Sess} (h : TS S w0 s) (e : Err) : TS S w0 (s.fail e) :=
  ⟨h.inv, h.srcs, h.gm, h.cfg, h.parser, h.trees, h.ids⟩
theorem TS.ev {S : Sem} {w0 : World} {s : Sess} (h : TS S w0 s) (k : Char) (p : Str) : TS S w0 (s.ev k p) :=
  ⟨h.inv, h.srcs, h.gm, h.cfg, h.parser, h.trees, h.ids⟩

theorem TS.mkdirs {S : Sem} {w0 : World} {s : Sess} (h : TS S w0 s) (d : Str) : TS S w0 { s with w := s.w.mkdirs d } :=
  ⟨⟨h.inv.keys, h.inv.fresh, h.inv.gfresh, h.inv.tree, h.inv.parser⟩, h.srcs, h.gm, h.cfg, h.parser, h.trees, h.ids⟩

theorem TS.evict {S : Sem} {w0 : World} {s : Sess} (h : TS S w0 s) (ps : List Str) : TS S w0 (s.evict ps) := by
  rw [Sess.evict_eq]
  exact ⟨h.inv.eraseAll ps, h.srcs, h.gm, h.cfg, h.parser, h.trees, h.ids⟩

/-- a world that differs from the session's only in cache/clock/dirs -/
def SameCfg (w w0 : World) : Prop :=
  w.srcs = w0.srcs ∧ w.grammarMtime = w0.grammarMtime ∧ w.grammar = w0.grammar ∧ w.start = w0.start ∧ w.algo = w0.algo

theorem TS.write {S : Sem} {w0 : World} {s : Sess} (h : TS S w0 s) (dir p data : Str)
    (hput : ∀ w m, TInv S w → SameCfg w w0 → TInv S { w with cache := w.cache.put p ⟨data, m⟩, clock := w.clock + 1 }) :
    TS S w0 (s.write dir p data) := by
  unfold Sess.write
  dsimp only
  split
  · exact ⟨hput _ _ h.inv ⟨h.srcs, h.gm, h.cfg⟩, h.srcs, h.gm, h.cfg, h.parser, h.trees, h.ids⟩
  · exact ⟨h.inv, h.srcs, h.gm, h.cfg, h.parser, h.trees, h.ids⟩

theorem cacheGet_TS {S : Sem} {w0 : World} {s : Sess} (h : TS S w0 s) (dir key ident ext fresh : Str) (bin : Bool)
    (hput : ∀ w m, TInv S w → SameCfg w w0 →
      TInv S { w with cache := w.cache.put (cachePath key ident ext) ⟨fresh, m⟩, clock := w.clock + 1 }) :
    TS S w0 (cacheGet S s dir key ident ext fresh bin).1 := by
  unfold cacheGet
  split
  · exact h
  · dsimp only
    split
    · split
      · exact h.ev _ _
      · exact (h.ev _ _).fail _
    · exact TS.write (TS.evict (TS.mkdirs h dir) _) _ _ _ hput

/-- what `cacheGet` returns: the fresh value, or the content of a valid file of that name -/
theorem cacheGet_value {S : Sem} {s : Sess} {dir key ident ext fresh : Str} {bin : Bool} {v : Str}
    (h : (cacheGet S s dir key ident ext fresh bin).2 = some v) :
    v = fresh ∨ ∃ f, s.w.cache.get? (cachePath key ident ext) = some f ∧ S.valid f.data = true ∧ v = f.data := by
  unfold cacheGet at h
  split at h
  · left; simpa using h.symm
  · dsimp only at h
    split at h
    · rename_i f hf
      split at h
      · rename_i hv
        right; exact ⟨f, hf, hv, by simpa using h.symm⟩
      · simp at h
    · split at h
      · simp at h
      · left; simpa using h.symm

/-- `cacheGet` touches the world (cache, dirs, clock), the log and the error flag only -/
theorem cacheGet_rest {S : Sem} {s : Sess} {dir key ident ext fresh : Str} {bin : Bool} :
    (cacheGet S s dir key ident ext fresh bin).1.db = s.db ∧ (cacheGet S s dir key ident ext fresh bin).1.cyc = s.cyc ∧
    (cacheGet S s dir key ident ext fresh bin).1.ids = s.ids ∧ (cacheGet S s dir key ident ext fresh bin).1.w.srcs = s.w.srcs ∧
    (cacheGet S s dir key ident ext fresh bin).1.trees = s.trees ∧ (cacheGet S s dir key ident ext fresh bin).1.parser = s.parser ∧
    (cacheGet S s dir key ident ext fresh bin).1.loaded = s.loaded ∧ (cacheGet S s dir key ident ext fresh bin).1.out = s.out ∧
    (cacheGet S s dir key ident ext fresh bin).1.depd = s.depd := by
  unfold cacheGet
  split
  · simp
  · dsimp only
    split
    · split <;> simp [Sess.ev, Sess.fail]
    · simp only [Sess.write, Sess.evict_eq, Sess.ev, Sess.fail, World.mkdirs]
      split <;> simp

/-- the fact `treeGet` establishes about the tree it returns -/
def FreshTree (S : Sem) (w0 : World) (key tree : Str) : Prop :=
  ∃ sf, w0.srcs.get? key = some sf ∧ tree = S.parse (w0.parserNow S) sf.data

theorem TS.addTree {S : Sem} {w0 : World} {s : Sess} (h : TS S w0 s) {key tree : Str} (hF : FreshTree S w0 key tree) :
    TS S w0 { s with loaded := s.loaded ++ [key], trees := s.trees ++ [(key, tree)] } := by
  refine ⟨h.inv, h.srcs, h.gm, h.cfg, h.parser, ?_, h.ids⟩
  intro k t hkt
  simp only [List.mem_append, List.mem_singleton, Prod.mk.injEq] at hkt
  rcases hkt with hkt | ⟨rfl, rfl⟩
  · exact h.trees k t hkt
  · exact hF

/-- C05.parser_key at session level: the parser a process obtains — from its memo, from `parser.cache-*.bin` or freshly
    built — is the one built from the current grammar path, start, algorithm and grammar mtime -/
theorem parserGet_TS {S : Sem} (H : Hyp S) {w0 : World} {s : Sess} (h : TS S w0 s) :
    TS S w0 (parserGet S s).1 ∧ ∀ pz, (parserGet S s).2 = some pz → pz = w0.parserNow S := by
  unfold parserGet
  split
  · rename_i pz hp
    exact ⟨h, fun pz' e => by cases e; exact h.parser pz hp⟩
  · have h1 := cacheGet_TS (S := S) h [] parserKey (S.parserIdent s.w.grammar s.w.start s.w.algo s.w.grammarMtime) binExt (s.w.parserNow S) true
      (fun w m hw _ => hw.put_parser H _ _ _ _ m)
    have hv : ∀ v, (cacheGet S s [] parserKey (S.parserIdent s.w.grammar s.w.start s.w.algo s.w.grammarMtime) binExt (s.w.parserNow S) true).2 = some v →
        v = w0.parserNow S := by
      intro v hv
      rcases cacheGet_value hv with rfl | ⟨f, hf, hvalid, rfl⟩
      · exact h.parserNow_eq
      · have hp := h.inv.parser _ _ _ _ f hf
        rw [prefix_valid_eq H hp (H.valid_blob _ _ _ _) hvalid]
        exact h.parserNow_eq
    generalize cacheGet S s [] parserKey (S.parserIdent s.w.grammar s.w.start s.w.algo s.w.grammarMtime) binExt (s.w.parserNow S) true = res at h1 hv
    obtain ⟨s', r⟩ := res
    cases r with
    | none => exact ⟨h1, fun _ e => by cases e⟩
    | some pz =>
      dsimp only at h1 hv ⊢
      have := hv pz rfl
      exact ⟨⟨h1.inv, h1.srcs, h1.gm, h1.cfg, fun pz' e => by cases e; exact this, h1.trees, h1.ids⟩, fun pz' e => by cases e; exact this⟩

theorem treeGet_TS {S : Sem} (H : Hyp S) {w0 : World} {s : Sess} (h : TS S w0 s) (key : Str) {s' : Sess} {r : Option Str}
    (heq : treeGet S s key = (s', r)) :
    TS S w0 s' ∧ ∀ tree, r = some tree → FreshTree S w0 key tree ∧
      TS S w0 { s' with loaded := s'.loaded ++ [key], trees := s'.trees ++ [(key, tree)] } := by
  unfold treeGet at heq
  obtain ⟨h1, hpz⟩ := parserGet_TS H h
  generalize parserGet S s = rp at heq h1 hpz
  obtain ⟨s1, op⟩ := rp
  cases op with
  | none => dsimp only at heq; cases heq; exact ⟨h1, fun _ e => by cases e⟩
  | some pz =>
    dsimp only at heq h1 hpz
    have hpz' : pz = w0.parserNow S := hpz pz rfl
    subst hpz'
    split at heq
    · cases heq; exact ⟨h1.fail _, fun _ e => by cases e⟩
    · rename_i src hsrc
      have hsrc0 : w0.srcs.get? key = some src := by rw [← h1.srcs]; exact hsrc
      have hk : KeyOK key := h1.inv.keys key src hsrc
      have h2 := cacheGet_TS (S := S) h1 (dirname key) key (S.treeIdent s1.w.grammar s1.w.start s1.w.algo s1.w.grammarMtime src.mtime (treeHashArg S src.data)) jsonExt (S.parse (w0.parserNow S) src.data) false
        (fun w m hw hc => by
          have := hw.put_tree H key src (by rw [hc.1]; exact hsrc0) m
          have e1 : w.parserNow S = w0.parserNow S := by
            unfold World.parserNow; rw [hc.2.2.1, hc.2.2.2.1, hc.2.2.2.2, hc.2.1]
          have e : treePath S key w.grammar w.start w.algo w.grammarMtime src.mtime (treeHashArg S src.data) = cachePath key (S.treeIdent s1.w.grammar s1.w.start s1.w.algo s1.w.grammarMtime src.mtime (treeHashArg S src.data)) jsonExt := by
            rw [hc.2.1, hc.2.2.1, hc.2.2.2.1, hc.2.2.2.2, ← h1.gm, ← h1.cfg.1, ← h1.cfg.2.1, ← h1.cfg.2.2]; rfl
          rw [e, e1] at this
          exact this)
      rw [heq] at h2
      refine ⟨h2, ?_⟩
      intro tree hr
      have hF : FreshTree S w0 key tree := by
        refine ⟨src, hsrc0, ?_⟩
        have hv : (cacheGet S s1 (dirname key) key (S.treeIdent s1.w.grammar s1.w.start s1.w.algo s1.w.grammarMtime src.mtime (treeHashArg S src.data)) jsonExt (S.parse (w0.parserNow S) src.data) false).2 = some tree := by
          rw [heq]; exact hr
        rcases cacheGet_value hv with rfl | ⟨f, hf, hvalid, rfl⟩
        · rfl
        · obtain ⟨_, _, full, hp, hfv, hfull⟩ := h1.inv.tree key _ _ _ _ _ _ f hk hf
          rw [prefix_valid_eq H hp hfv hvalid, hfull src hsrc rfl, ← h1.parserNow_eq]; rfl
      exact ⟨hF, h2.addTree hF⟩

end Tranp.CacheFS

namespace Tranp.CacheFS
open Tranp

theorem lookup_mem' {α : Type} [BEq α] [LawfulBEq α] {β : Type} {k : α} {v : β} : ∀ {l : List (α × β)}, List.lookup k l = some v → (k, v) ∈ l
  | [], h => by simp [List.lookup] at h
  | (k', v') :: l, h => by
    simp only [List.lookup] at h
    split at h
    · rename_i hk
      have : k = k' := by simpa using hk
      cases h; subst this; simp
    · exact List.mem_cons_of_mem _ (lookup_mem' h)

theorem IdsNoDash.add {ids : List (Str × Str)} (h : IdsNoDash ids) (k i : Str) (hi : '-' ∉ i) : IdsNoDash (ids ++ [(k, i)]) := by
  intro k' i' hm
  simp only [List.mem_append, List.mem_singleton, Prod.mk.injEq] at hm
  rcases hm with hm | ⟨_, rfl⟩
  · exact h k' i' hm
  · exact hi

theorem identityCore_nodash {S : Sem} (H : Hyp S) (srcs : Dir) (trees : List (Str × Str)) (depd : List Str) (ids : List (Str × Str))
    (key : Str) (hn : IdsNoDash ids) :
    IdsNoDash (identityCore S srcs trees depd ids key).1 ∧ ∀ i, (identityCore S srcs trees depd ids key).2 = some i → '-' ∉ i := by
  unfold identityCore
  split
  · rename_i i hl
    exact ⟨hn, fun i' h => by cases h; exact hn key i (lookup_mem' hl)⟩
  · split
    · exact ⟨hn.add _ _ (H.identL_nodash _), fun i' h => by cases h; exact H.identL_nodash _⟩
    · exact ⟨hn, fun _ h => by simp at h⟩

theorem TS.setIds {S : Sem} {w0 : World} {s : Sess} (h : TS S w0 s) (ids' : List (Str × Str)) (hn : IdsNoDash ids') :
    TS S w0 { s with ids := ids' } := ⟨h.inv, h.srcs, h.gm, h.cfg, h.parser, h.trees, hn⟩

theorem preprocessWith_TS {S : Sem} (H : Hyp S) {w0 : World} {s : Sess} (h : TS S w0 s) (key tree : Str) (views : List Str)
    (ident : Str) (hident : '-' ∉ ident) {s' : Sess} {r : Option Str} (heq : preprocessWith S s key tree views ident = (s', r)) :
    TS S w0 s' ∧ ∀ table, r = some table → TS S w0 { s' with db := s'.db ++ [(key, table)] } := by
  have aux : ∀ s'', TS S w0 s'' → TS S w0 s'' ∧ ∀ table : Str, r = some table → TS S w0 { s'' with db := s''.db ++ [(key, table)] } :=
    fun s'' h'' => ⟨h'', fun _ _ => ⟨h''.inv, h''.srcs, h''.gm, h''.cfg, h''.parser, h''.trees, h''.ids⟩⟩
  unfold preprocessWith at heq
  dsimp only at heq
  split at heq
  · split at heq
    · split at heq
      · cases heq; exact aux _ (h.ev _ _)
      · cases heq; exact aux _ ((h.ev _ _).fail _)
    · cases heq; exact aux _ h
  · split at heq
    · cases heq; exact aux _ h
    · cases heq
      apply aux
      exact TS.write (TS.evict h _) _ _ _ (fun w m hw _ => hw.put_other _ _
        (fun k tp ts ta g t ch hk => cachePath_ne_symPath hk.1 (H.tree_nodash tp ts ta g t ch) hident jsonExt_nodash)
        (fun gp st al g => parserPath_ne_symPath H hident))

theorem preprocess_TS {S : Sem} (H : Hyp S) {w0 : World} {s : Sess} (h : TS S w0 s) (key tree : Str) (views : List Str)
    {s' : Sess} {r : Option Str} (heq : preprocess S s key tree views = (s', r)) :
    TS S w0 s' ∧ ∀ table, r = some table → TS S w0 { s' with db := s'.db ++ [(key, table)] } := by
  unfold preprocess identityM at heq
  obtain ⟨hn, hd⟩ := identityCore_nodash H s.w.srcs s.trees s.depd s.ids key h.ids
  generalize identityCore S s.w.srcs s.trees s.depd s.ids key = ri at heq hn hd
  obtain ⟨ids', o⟩ := ri
  dsimp only at hn hd heq
  cases o with
  | none =>
    dsimp only at heq
    cases heq
    exact ⟨(h.setIds ids' hn).fail _, fun _ hr => by simp at hr⟩
  | some ident =>
    dsimp only at heq
    exact preprocessWith_TS H (h.setIds ids' hn) key tree views ident (hd ident rfl) heq

/-! ### runs and histories preserve the tree invariant -/

theorem loadMod_TS {S : Sem} (H : Hyp S) {w0 : World} (f : Nat) (s : Sess) (key : Str) (h : TS S w0 s) : TS S w0 (loadMod S f s key) :=
  loadMod_inv S (TS S w0) (FreshTree S w0)
    (fun _ e hs => hs.fail e)
    (fun _ key _ _ hs heq => treeGet_TS H hs key heq)
    (fun _ hs => ⟨hs.inv, hs.srcs, hs.gm, hs.cfg, hs.parser, hs.trees, hs.ids⟩)
    (fun _ _ hs => ⟨hs.inv, hs.srcs, hs.gm, hs.cfg, hs.parser, hs.trees, hs.ids⟩)
    (fun _ key tree _ _ hs _ _ _ heq => preprocess_TS H hs key tree _ heq)
    f s key h

theorem runTargets_TS {S : Sem} (H : Hyp S) {w0 : World} (targets : List Str) (s : Sess) (h : TS S w0 s) :
    TS S w0 (runTargets S s targets) := by
  unfold runTargets
  apply foldl_inv (TS S w0) _ _ _ _ h
  intro s key hs
  split
  · exact hs
  · have h1 := loadMod_TS H (fuelOf s.w) s key hs
    dsimp only
    generalize loadMod S (fuelOf s.w) s key = s1 at h1
    split
    · exact h1
    · split
      · exact ⟨⟨h1.inv.keys, h1.inv.fresh, h1.inv.gfresh, h1.inv.tree, h1.inv.parser⟩, h1.srcs, h1.gm, h1.cfg, h1.parser, h1.trees, h1.ids⟩
      · exact h1

theorem TS.start {S : Sem} (w : World) (h : TInv S w) : TS S w ({ w := w } : Sess) :=
  { inv := h, srcs := rfl, gm := rfl, cfg := And.intro rfl (And.intro rfl rfl),
    parser := fun _ e => by simp at e,
    trees := fun _ _ hkt => by simp at hkt,
    ids := fun _ _ hki => by simp at hki }

theorem run_TS {S : Sem} (H : Hyp S) (w : World) (force : Bool) (h : TInv S w) : TS S w (run S w force) := by
  unfold run
  exact runTargets_TS H _ _ (TS.start w h)

/-- the ops of a history that create files name module keys -/
def OpOK : Op → Prop
  | .edit k _ => KeyOK k
  | _ => True

theorem step_TInv {S : Sem} (H : Hyp S) (w : World) (op : Op) (hop : OpOK op) (h : TInv S w) : TInv S (step S w op) := by
  cases op with
  | edit k src => exact h.edit k src hop
  | run force => exact (run_TS H w force h).inv
  | clear => exact ⟨h.keys, h.fresh, h.gfresh, fun k tp ts ta g t ch f _ hget => by simp [step, World.clearCache, Dir.get?] at hget,
      fun gp st al g f hget => by simp [step, World.clearCache, Dir.get?] at hget⟩
  | delete p => exact h.erase p
  | trunc p k =>
    simp only [step]
    split
    · rename_i f hf; exact h.trunc p f hf k
    · exact h
  | enable b => exact ⟨h.keys, h.fresh, h.gfresh, h.tree, h.parser⟩
  | grammar path => exact h.grammar path
  | setting gp st al => exact h.setting gp st al

theorem exec_TInv {S : Sem} (H : Hyp S) (w : World) (hist : List Op) (hok : ∀ op ∈ hist, OpOK op) (h : TInv S w) :
    TInv S (exec S w hist) := by
  induction hist generalizing w with
  | nil => exact h
  | cons op hist ih =>
    exact ih (step S w op) (fun o ho => hok o (by simp [ho])) (step_TInv H w op (hok op (by simp)) h)

theorem TInv.init {S : Sem} (w : World) (hc : w.cache = []) (hs : w.srcs = []) (hg : w.grammarMtime < w.clock) : TInv S w := by
  refine ⟨?_, ?_, hg, ?_, ?_⟩
  · intro k f hf; simp [hs, Dir.get?] at hf
  · intro k f hf; simp [hs, Dir.get?] at hf
  · intro k tp ts ta g t ch f _ hf; simp [hc, Dir.get?] at hf
  · intro gp st al g f hf; simp [hc, Dir.get?] at hf

theorem exec_append (S : Sem) (w : World) (a b : List Op) : exec S w (a ++ b) = exec S (exec S w a) b := by
  simp [exec, List.foldl_append]

end Tranp.CacheFS

namespace Tranp.CacheFS
open Tranp

/-! ### the cache-free symbols and the closure identity, as relations over the sources -/

mutual
  /-- `IsTab S pz srcs k t`: `t` is the symbol table of module `k` analysed without any cache -/
  inductive IsTab (S : Sem) (pz : Str) (srcs : Dir) : Str → Str → Prop
    | mk {k : Str} {own : File} {vs : List Str} (hown : srcs.get? k = some own)
        (hdeps : IsViews S pz srcs (S.importsOf (S.parse pz own.data)) vs) : IsTab S pz srcs k (S.analyse k (S.parse pz own.data) vs)
  inductive IsViews (S : Sem) (pz : Str) (srcs : Dir) : List Str → List Str → Prop
    | nil : IsViews S pz srcs [] []
    | cons {d t : Str} {ds vs : List Str} (hd : IsTab S pz srcs d t) (hds : IsViews S pz srcs ds vs) : IsViews S pz srcs (d :: ds) (S.view t :: vs)
end

theorem IsTab.inv {S : Sem} {pz : Str} {srcs : Dir} {k t : Str} (h : IsTab S pz srcs k t) :
    ∃ own vs, srcs.get? k = some own ∧ IsViews S pz srcs (S.importsOf (S.parse pz own.data)) vs ∧ t = S.analyse k (S.parse pz own.data) vs := by
  cases h with
  | mk hown hdeps => exact ⟨_, _, hown, hdeps, rfl⟩

theorem IsViews.inv_cons {S : Sem} {pz : Str} {srcs : Dir} {d : Str} {ds vs : List Str} (h : IsViews S pz srcs (d :: ds) vs) :
    ∃ t vs', vs = S.view t :: vs' ∧ IsTab S pz srcs d t ∧ IsViews S pz srcs ds vs' := by
  cases h with
  | cons hd hds => exact ⟨_, _, rfl, hd, hds⟩

theorem IsViews.inv_nil {S : Sem} {pz : Str} {srcs : Dir} {vs : List Str} (h : IsViews S pz srcs [] vs) : vs = [] := by
  cases h; rfl

/-- the cache-free symbol table is unique -/
theorem tab_det {S : Sem} {pz : Str} {srcs : Dir} {k t : Str} (h : IsTab S pz srcs k t) : ∀ t', IsTab S pz srcs k t' → t = t' := by
  refine @IsTab.rec S pz srcs
    (fun k t _ => ∀ t', IsTab S pz srcs k t' → t = t')
    (fun ds vs _ => ∀ vs', IsViews S pz srcs ds vs' → vs = vs')
    ?mk ?nil ?cons k t h
  case mk =>
    intro k own vs hown hdeps ih t' ht'
    obtain ⟨o2, vs', ho2, hv', rfl⟩ := ht'.inv
    rw [hown] at ho2; cases ho2
    rw [ih vs' hv']
  case nil =>
    intro vs' hv'
    rw [hv'.inv_nil]
  case cons =>
    intro d t ds vs hd hds ih1 ih2 vs' hv'
    obtain ⟨t', vs1', rfl, ht', hvs'⟩ := hv'.inv_cons
    rw [ih1 t' ht', ih2 vs1' hvs']

end Tranp.CacheFS


namespace Tranp.CacheFS
open Tranp

/-! ### the identity over the import closure -/

theorem mem_insertPair (x y : Str × Str) (l : List (Str × Str)) : y ∈ insertPair x l ↔ y = x ∨ y ∈ l := by
  induction l with
  | nil => simp [insertPair]
  | cons z zs ih =>
    unfold insertPair
    split
    · simp
    · simp only [List.mem_cons, ih]
      constructor
      · rintro (h | h | h)
        · exact Or.inr (Or.inl h)
        · exact Or.inl h
        · exact Or.inr (Or.inr h)
      · rintro (h | h | h)
        · exact Or.inr (Or.inl h)
        · exact Or.inl h
        · exact Or.inr (Or.inr h)

theorem mem_foldl_insert (y : Str × Str) (l acc : List (Str × Str)) :
    y ∈ l.foldl (fun acc x => insertPair x acc) acc ↔ y ∈ acc ∨ y ∈ l := by
  induction l generalizing acc with
  | nil => simp
  | cons x xs ih =>
    simp only [List.foldl_cons, ih, mem_insertPair, List.mem_cons]
    constructor
    · rintro ((h | h) | h)
      · exact Or.inr (Or.inl h)
      · exact Or.inl h
      · exact Or.inr (Or.inr h)
    · rintro (h | h | h)
      · exact Or.inl (Or.inr h)
      · exact Or.inl (Or.inl h)
      · exact Or.inr h

theorem mem_sortPairs (y : Str × Str) (l : List (Str × Str)) : y ∈ sortPairs l ↔ y ∈ l := by
  unfold sortPairs
  rw [mem_foldl_insert]; simp

theorem map_inj' {α β : Type} (g : α → β) (hg : ∀ a b, g a = g b → a = b) : ∀ (xs ys : List α), xs.map g = ys.map g → xs = ys
  | [], [], _ => rfl
  | [], _ :: _, h => by simp at h
  | _ :: _, [], h => by simp at h
  | x :: xs, y :: ys, h => by
    simp only [List.map_cons, List.cons.injEq] at h
    rw [hg x y h.1, map_inj' g hg xs ys h.2]

/-- `K` (module key ↦ file hash) contains `k`, records the hashes of the current files, and is closed under imports -/
def IsClosure (S : Sem) (pz : Str) (srcs : Dir) (k : Str) (K : List (Str × Str)) : Prop :=
  (∃ h, (k, h) ∈ K) ∧
  ∀ d h, (d, h) ∈ K → ∃ f, srcs.get? d = some f ∧ h = S.hash f.data ∧ ∀ e ∈ S.importsOf (S.parse pz f.data), ∃ h', (e, h') ∈ K

/-- the digest `Module.identity` computes from a collected closure `K` -/
def identOf (S : Sem) (k : Str) (K : List (Str × Str)) (own : Str) : Str :=
  S.identL ((sortPairs (K.filter (fun p => p.1 ≠ k))).map (fun p => S.entry (p.1 ++ pyExt) p.2) ++ [S.hash own])

/-- `I` is an identity of module `k` over an import-closed set of files -/
def IsIdC (S : Sem) (pz : Str) (srcs : Dir) (k I : Str) : Prop :=
  ∃ K own, IsClosure S pz srcs k K ∧ srcs.get? k = some own ∧ I = identOf S k K own.data

/-- on an import-closed set of files on which two source states agree, the cache-free symbol tables agree -/
theorem tab_agree {S : Sem} {pz : Str} {srcs srcs' : Dir} (K : List (Str × Str))
    (hK : ∀ d h, (d, h) ∈ K → ∃ f f', srcs.get? d = some f ∧ srcs'.get? d = some f' ∧ f.data = f'.data ∧
      ∀ e ∈ S.importsOf (S.parse pz f.data), ∃ h', (e, h') ∈ K)
    {k t : Str} (h : IsTab S pz srcs k t) : (∃ hh, (k, hh) ∈ K) → ∀ t', IsTab S pz srcs' k t' → t = t' := by
  refine @IsTab.rec S pz srcs
    (fun k t _ => (∃ hh, (k, hh) ∈ K) → ∀ t', IsTab S pz srcs' k t' → t = t')
    (fun ds vs _ => (∀ e ∈ ds, ∃ h', (e, h') ∈ K) → ∀ vs', IsViews S pz srcs' ds vs' → vs = vs')
    ?mk ?nil ?cons k t h
  case mk =>
    intro k own vs hown hdeps ih hin t' ht'
    obtain ⟨hh, hkK⟩ := hin
    obtain ⟨f, f', hf, hf', hdata, hcl⟩ := hK k hh hkK
    rw [hown] at hf; cases hf
    obtain ⟨o2, vs', ho2, hv', rfl⟩ := ht'.inv
    rw [hf'] at ho2; cases ho2
    rw [← hdata] at hv' ⊢
    rw [ih hcl vs' hv']
  case nil =>
    intro _ vs' hv'
    rw [hv'.inv_nil]
  case cons =>
    intro d t ds vs hd hds ih1 ih2 hall vs' hv'
    obtain ⟨t', vs1', rfl, ht', hvs'⟩ := hv'.inv_cons
    rw [ih1 (hall d (by simp)) t' ht', ih2 (fun e he => hall e (by simp [he])) vs1' hvs']

/-- Key coverage: two source states that give a module the same closure identity give it the same cache-free symbol table
    (md5 injective: the identity determines the files of the import closure and their contents). -/
theorem id_covers {S : Sem} (H : Hyp S) {pz : Str} {srcs srcs' : Dir} {k I t t' : Str}
    (h1 : IsIdC S pz srcs k I) (h2 : IsIdC S pz srcs' k I) (ht : IsTab S pz srcs k t) (ht' : IsTab S pz srcs' k t') : t = t' := by
  obtain ⟨K, own, hc, hown, hI⟩ := h1
  obtain ⟨K', own', hc', hown', hI'⟩ := h2
  have he := H.identL_inj _ _ (hI.symm.trans hI')
  unfold identOf at he
  obtain ⟨e1, e2⟩ := List.append_inj' he rfl
  have hdata : own.data = own'.data := H.hash_inj _ _ (by simpa using e2)
  have e3 : sortPairs (K.filter (fun p => p.1 ≠ k)) = sortPairs (K'.filter (fun p => p.1 ≠ k)) := by
    refine map_inj' _ ?_ _ _ e1
    intro a b hab
    obtain ⟨p1, p2⟩ := H.entry_inj _ _ _ _ hab
    exact Prod.ext (List.append_cancel_right p1) p2
  -- every pair of K is a pair of K'
  have hsub : ∀ d h, (d, h) ∈ K → (d, h) ∈ K' := by
    intro d h hm
    by_cases hd : d = k
    · subst hd
      obtain ⟨f, hf, hh, _⟩ := hc.2 d h hm
      rw [hown] at hf; cases hf
      obtain ⟨h', hm'⟩ := hc'.1
      obtain ⟨f', hf', hh', _⟩ := hc'.2 d h' hm'
      rw [hown'] at hf'; cases hf'
      rw [hh, hdata, ← hh']; exact hm'
    · have : (d, h) ∈ sortPairs (K.filter (fun p => p.1 ≠ k)) := by
        rw [mem_sortPairs]; simp [hm, hd]
      rw [e3, mem_sortPairs] at this
      exact (List.mem_filter.mp this).1
  refine tab_agree K ?_ ht hc.1 t' ht'
  intro d h hm
  obtain ⟨f, hf, hh, hcl⟩ := hc.2 d h hm
  obtain ⟨f', hf', hh', _⟩ := hc'.2 d h (hsub d h hm)
  exact ⟨f, f', hf, hf', H.hash_inj _ _ (hh.symm.trans hh'), hcl⟩

end Tranp.CacheFS
namespace Tranp.CacheFS
open Tranp

/-! ### coherence of the symbol files under the closure-keyed identity -/

/-- The content of `<key>-symbols-<ident>.json` is (a prefix of) the payload of the cache-free table of `key` for every
    source state in which `key` has the identity `ident` (parser `pz` fixed). Does not mention the current sources. -/
def SInv (S : Sem) (pz : Str) (w : World) : Prop :=
  ∀ k ident f, '-' ∉ ident → w.cache.get? (symPath k ident) = some f →
    ∃ t0, f.data <+: S.encTab t0 ∧ ∀ (srcs : Dir) t, IsIdC S pz srcs k ident → IsTab S pz srcs k t → t0 = t

theorem SInv.erase {S : Sem} {pz : Str} {w : World} (h : SInv S pz w) (p : Str) : SInv S pz { w with cache := w.cache.erase p } := by
  intro k ident f hi hget
  simp only [Dir.get?_erase] at hget
  split at hget
  · simp at hget
  · exact h k ident f hi hget

theorem SInv.eraseAll {S : Sem} {pz : Str} {w : World} (h : SInv S pz w) (ps : List Str) :
    SInv S pz { w with cache := ps.foldl Dir.erase w.cache } := by
  induction ps generalizing w with
  | nil => exact h
  | cons p ps ih => exact ih (h.erase p)

theorem SInv.put_other {S : Sem} {pz : Str} {w : World} (h : SInv S pz w) (p : Str) (f : File) (c : Nat)
    (hp : ∀ k ident, '-' ∉ ident → symPath k ident ≠ p) : SInv S pz { w with cache := w.cache.put p f, clock := c } := by
  intro k ident f' hi hget
  simp only at hget
  rw [Dir.get?_put_ne _ _ _ _ (hp k ident hi)] at hget
  exact h k ident f' hi hget

theorem symPath_ne_cachePath {k ident key i e : Str} (hi : '-' ∉ ident) (hi' : '-' ∉ i) (he : '-' ∉ e) (hk : '-' ∉ key) :
    symPath k ident ≠ cachePath key i e := fun h => cachePath_ne_symPath hk hi' hi he h.symm

theorem SInv.put_sym {S : Sem} (H : Hyp S) {pz : Str} {w : World} (h : SInv S pz w) (key ident table : Str) (m c : Nat) (hid : '-' ∉ ident)
    (srcs0 : Dir) (hI : IsIdC S pz srcs0 key ident) (hT : IsTab S pz srcs0 key table) :
    SInv S pz { w with cache := w.cache.put (symPath key ident) ⟨S.encTab table, m⟩, clock := c } := by
  intro k ident' f hi hget
  simp only at hget
  by_cases hp : symPath k ident' = symPath key ident
  · obtain ⟨rfl, rfl⟩ := symPath_inj hi hid hp
    rw [Dir.get?_put_eq] at hget; cases hget
    exact ⟨table, List.prefix_refl _, fun srcs t hI' hT' => id_covers H hI hI' hT hT'⟩
  · rw [Dir.get?_put_ne _ _ _ _ hp] at hget
    exact h k ident' f hi hget

theorem SInv.trunc {S : Sem} {pz : Str} {w : World} (h : SInv S pz w) (p : Str) (f : File) (hf : w.cache.get? p = some f) (n : Nat) :
    SInv S pz { w with cache := w.cache.put p (truncFile f n) } := by
  intro k ident f' hi hget
  simp only at hget
  by_cases hp : symPath k ident = p
  · subst hp
    rw [Dir.get?_put_eq] at hget; cases hget
    obtain ⟨t0, h2, h3⟩ := h k ident f hi hf
    exact ⟨t0, List.IsPrefix.trans (List.take_prefix _ _) h2, h3⟩
  · rw [Dir.get?_put_ne _ _ _ _ hp] at hget
    exact h k ident f' hi hget

/-- every cached identity of the session is an identity over an import-closed set of current files -/
def IdsOK (S : Sem) (w0 : World) (s : Sess) : Prop := ∀ k i, (k, i) ∈ s.ids → IsIdC S (w0.parserNow S) w0.srcs k i

/-- every table of the session's db is the cache-free one; its module has all imports loaded (`depends_on` was called),
    its tree is registered and all its imports have tables -/
def DbOK (S : Sem) (w0 : World) (s : Sess) : Prop :=
  ∀ k t, (k, t) ∈ s.db → IsTab S (w0.parserNow S) w0.srcs k t ∧ k ∈ s.depd ∧
    ∃ sf, w0.srcs.get? k = some sf ∧ List.lookup k s.trees = some (S.parse (w0.parserNow S) sf.data) ∧
      ∀ d ∈ S.importsOf (S.parse (w0.parserNow S) sf.data), (List.lookup d s.db).isSome = true

/-- session invariant for the symbol layer; the symbol part holds as long as no analysis ran inside an import cycle -/
def SS (S : Sem) (w0 : World) (s : Sess) : Prop :=
  TS S w0 s ∧ (s.cyc = false → SInv S (w0.parserNow S) s.w ∧ IdsOK S w0 s ∧ DbOK S w0 s)

theorem SInv_evict {S : Sem} {pz : Str} {s : Sess} (h : SInv S pz s.w) (ps : List Str) : SInv S pz (s.evict ps).w := by
  rw [Sess.evict_eq]; exact h.eraseAll ps

theorem SInv_write {S : Sem} {pz : Str} {s : Sess} (h : SInv S pz s.w) (dir p data : Str)
    (hput : ∀ w m c, SInv S pz w → SInv S pz { w with cache := w.cache.put p ⟨data, m⟩, clock := c }) :
    SInv S pz (s.write dir p data).w := by
  unfold Sess.write
  dsimp only
  split
  · exact hput _ _ _ h
  · exact h

theorem cacheGet_SInv {S : Sem} {pz : Str} {s : Sess} (h : SInv S pz s.w) (dir key ident ext fresh : Str) (bin : Bool)
    (hput : ∀ w m c, SInv S pz w → SInv S pz { w with cache := w.cache.put (cachePath key ident ext) ⟨fresh, m⟩, clock := c }) :
    SInv S pz (cacheGet S s dir key ident ext fresh bin).1.w := by
  unfold cacheGet
  split
  · exact h
  · dsimp only
    split
    · split
      · exact h
      · exact h
    · exact SInv_write (SInv_evict (s := { s with w := s.w.mkdirs dir }) h _) _ _ _ hput

theorem parserGet_rest {S : Sem} (H : Hyp S) {pz0 : Str} (s : Sess) :
    (parserGet S s).1.db = s.db ∧ (parserGet S s).1.cyc = s.cyc ∧ (parserGet S s).1.ids = s.ids ∧ (parserGet S s).1.w.srcs = s.w.srcs ∧
    (parserGet S s).1.trees = s.trees ∧ (parserGet S s).1.loaded = s.loaded ∧ (parserGet S s).1.out = s.out ∧
    (SInv S pz0 s.w → SInv S pz0 (parserGet S s).1.w) ∧ (parserGet S s).1.depd = s.depd := by
  unfold parserGet
  split
  · exact ⟨rfl, rfl, rfl, rfl, rfl, rfl, rfl, id, rfl⟩
  · have hr := cacheGet_rest (S := S) (s := s) (dir := []) (key := parserKey) (ident := S.parserIdent s.w.grammar s.w.start s.w.algo s.w.grammarMtime)
      (ext := binExt) (fresh := s.w.parserNow S) (bin := true)
    have hsi : SInv S pz0 s.w → SInv S pz0 (cacheGet S s [] parserKey (S.parserIdent s.w.grammar s.w.start s.w.algo s.w.grammarMtime) binExt (s.w.parserNow S) true).1.w :=
      fun h => cacheGet_SInv h _ _ _ _ _ _
        (fun w m c hw => hw.put_other _ _ _ (fun k ident hi => symPath_ne_cachePath hi (H.parser_nodash _ _ _ _) binExt_nodash parserKey_nodash))
    generalize cacheGet S s [] parserKey (S.parserIdent s.w.grammar s.w.start s.w.algo s.w.grammarMtime) binExt (s.w.parserNow S) true = res at hr hsi
    obtain ⟨s', r⟩ := res
    cases r with
    | none => exact ⟨hr.1, hr.2.1, hr.2.2.1, hr.2.2.2.1, hr.2.2.2.2.1, hr.2.2.2.2.2.2.1, hr.2.2.2.2.2.2.2.1, hsi, hr.2.2.2.2.2.2.2.2⟩
    | some pz => exact ⟨hr.1, hr.2.1, hr.2.2.1, hr.2.2.2.1, hr.2.2.2.2.1, hr.2.2.2.2.2.2.1, hr.2.2.2.2.2.2.2.1, hsi, hr.2.2.2.2.2.2.2.2⟩

theorem treeGet_sym {S : Sem} (H : Hyp S) {pz0 : Str} {s : Sess} (key : Str) (hk : ∀ f, s.w.srcs.get? key = some f → KeyOK key) :
    (treeGet S s key).1.db = s.db ∧ (treeGet S s key).1.cyc = s.cyc ∧ (treeGet S s key).1.ids = s.ids ∧
      (SInv S pz0 s.w → SInv S pz0 (treeGet S s key).1.w) ∧
      (treeGet S s key).1.trees = s.trees ∧ (treeGet S s key).1.loaded = s.loaded ∧ (treeGet S s key).1.depd = s.depd := by
  unfold treeGet
  have hp := parserGet_rest (pz0 := pz0) H s
  generalize parserGet S s = rp at hp
  obtain ⟨s1, op⟩ := rp
  obtain ⟨hdb, hcyc, hids, hsrcs, htr, hlo, _, hsinv, hdp⟩ := hp
  dsimp only at hdb hcyc hids hsrcs hsinv htr hlo hdp
  cases op with
  | none => exact ⟨hdb, hcyc, hids, hsinv, htr, hlo, hdp⟩
  | some pz =>
    dsimp only
    split
    · exact ⟨hdb, hcyc, hids, hsinv, htr, hlo, hdp⟩
    · rename_i src hsrc
      have hkey : KeyOK key := hk src (by rw [← hsrcs]; exact hsrc)
      have hr := cacheGet_rest (S := S) (s := s1) (dir := dirname key) (key := key) (ident := S.treeIdent s1.w.grammar s1.w.start s1.w.algo s1.w.grammarMtime src.mtime (treeHashArg S src.data))
        (ext := jsonExt) (fresh := S.parse pz src.data) (bin := false)
      refine ⟨by rw [hr.1, hdb], by rw [hr.2.1, hcyc], by rw [hr.2.2.1, hids],
        fun h => cacheGet_SInv (hsinv h) _ _ _ _ _ _ ?_, by rw [hr.2.2.2.2.1, htr], by rw [hr.2.2.2.2.2.2.1, hlo], by rw [hr.2.2.2.2.2.2.2.2, hdp]⟩
      exact fun w m c hw => hw.put_other _ _ _ (fun k ident hi => symPath_ne_cachePath hi (H.tree_nodash _ _ _ _ _ _) jsonExt_nodash hkey.1)

end Tranp.CacheFS

namespace Tranp.CacheFS
open Tranp

theorem lookup_append_some {k v : Str} : ∀ {l l' : List (Str × Str)}, List.lookup k l = some v → List.lookup k (l ++ l') = some v
  | [], _, h => by simp [List.lookup] at h
  | (k', v') :: l, l', h => by
    simp only [List.cons_append, List.lookup] at h ⊢
    split
    · rename_i hk; simp only [hk] at h; exact h
    · rename_i hk; simp only [hk] at h; exact lookup_append_some h

theorem lookup_append_none {k v : Str} : ∀ {l : List (Str × Str)}, List.lookup k l = none → List.lookup k (l ++ [(k, v)]) = some v
  | [], _ => by simp [List.lookup]
  | (k', v') :: l, h => by
    simp only [List.cons_append, List.lookup] at h ⊢
    split
    · rename_i hk; simp only [hk] at h; cases h
    · rename_i hk; simp only [hk] at h; exact lookup_append_none h

theorem preprocessWith_rest {S : Sem} (s : Sess) (key tree : Str) (views : List Str) (ident : Str) :
    (preprocessWith S s key tree views ident).1.cyc = s.cyc ∧ (preprocessWith S s key tree views ident).1.db = s.db ∧
      (preprocessWith S s key tree views ident).1.ids = s.ids ∧ (preprocessWith S s key tree views ident).1.trees = s.trees ∧
      (preprocessWith S s key tree views ident).1.loaded = s.loaded ∧ (preprocessWith S s key tree views ident).1.out = s.out ∧
      (preprocessWith S s key tree views ident).1.parser = s.parser ∧ (preprocessWith S s key tree views ident).1.w.srcs = s.w.srcs ∧
      (preprocessWith S s key tree views ident).1.depd = s.depd := by
  unfold preprocessWith
  dsimp only
  split
  · split
    · split <;> simp [Sess.ev, Sess.fail]
    · simp
  · split
    · simp
    · simp only [Sess.write, Sess.evict_eq, Sess.ev, Sess.fail]
      split <;> simp

theorem preprocess_rest {S : Sem} (s : Sess) (key tree : Str) (views : List Str) :
    (preprocess S s key tree views).1.trees = s.trees ∧ (preprocess S s key tree views).1.loaded = s.loaded ∧
    (preprocess S s key tree views).1.db = s.db ∧ (preprocess S s key tree views).1.out = s.out ∧
    (preprocess S s key tree views).1.w.srcs = s.w.srcs ∧ (preprocess S s key tree views).1.parser = s.parser ∧
    (preprocess S s key tree views).1.depd = s.depd ∧ (preprocess S s key tree views).1.cyc = s.cyc := by
  unfold preprocess identityM
  generalize identityCore S s.w.srcs s.trees s.depd s.ids key = ri
  obtain ⟨ids', o⟩ := ri
  cases o with
  | none => exact ⟨rfl, rfl, rfl, rfl, rfl, rfl, rfl, rfl⟩
  | some ident =>
    have h := preprocessWith_rest (S := S) { s with ids := ids' } key tree views ident
    exact ⟨h.2.2.2.1, h.2.2.2.2.1, h.2.1, h.2.2.2.2.2.1, h.2.2.2.2.2.2.2.1, h.2.2.2.2.2.2.1, h.2.2.2.2.2.2.2.2, h.1⟩

theorem preprocess_cyc {S : Sem} (s : Sess) (key tree : Str) (views : List Str) : (preprocess S s key tree views).1.cyc = s.cyc :=
  (preprocess_rest s key tree views).2.2.2.2.2.2.2

/-- the keys of the registered trees are registered modules -/
def TK (s : Sess) : Prop := ∀ k t, List.lookup k s.trees = some t → s.loaded.contains k = true

theorem lookup_append_inv {k v : Str} {l : List (Str × Str)} {k' v' : Str} (h : List.lookup k (l ++ [(k', v')]) = some v) :
    List.lookup k l = some v ∨ k = k' := by
  induction l with
  | nil =>
    simp only [List.nil_append, List.lookup] at h
    split at h
    · rename_i hk; right; simpa using hk
    · simp [List.lookup] at h
  | cons x l ih =>
    obtain ⟨a, b⟩ := x
    simp only [List.cons_append, List.lookup] at h ⊢
    split
    · rename_i hk; simp only [hk] at h; exact Or.inl h
    · rename_i hk; simp only [hk] at h; exact ih h

theorem treeGet_rest {S : Sem} (H : Hyp S) (s : Sess) (key : Str) :
    (treeGet S s key).1.db = s.db ∧ (treeGet S s key).1.cyc = s.cyc ∧ (treeGet S s key).1.ids = s.ids ∧
    (treeGet S s key).1.trees = s.trees ∧ (treeGet S s key).1.loaded = s.loaded ∧ (treeGet S s key).1.out = s.out ∧
    (treeGet S s key).1.w.srcs = s.w.srcs ∧ (treeGet S s key).1.depd = s.depd := by
  unfold treeGet
  have hp := parserGet_rest (pz0 := []) H s
  generalize parserGet S s = rp at hp
  obtain ⟨s1, op⟩ := rp
  obtain ⟨h1, h2, h3, h4, h5, h6, h7, _, h8⟩ := hp
  dsimp only at h1 h2 h3 h4 h5 h6 h7 h8
  cases op with
  | none => exact ⟨h1, h2, h3, h5, h6, h7, h4, h8⟩
  | some pz =>
    dsimp only
    split
    · exact ⟨h1, h2, h3, h5, h6, h7, h4, h8⟩
    · rename_i src _
      have hr := cacheGet_rest (S := S) (s := s1) (dir := dirname key) (key := key) (ident := S.treeIdent s1.w.grammar s1.w.start s1.w.algo s1.w.grammarMtime src.mtime (treeHashArg S src.data))
        (ext := jsonExt) (fresh := S.parse pz src.data) (bin := false)
      exact ⟨by rw [hr.1, h1], by rw [hr.2.1, h2], by rw [hr.2.2.1, h3], by rw [hr.2.2.2.2.1, h5], by rw [hr.2.2.2.2.2.2.1, h6],
        by rw [hr.2.2.2.2.2.2.2.1, h7], by rw [hr.2.2.2.1, h4], by rw [hr.2.2.2.2.2.2.2.2, h8]⟩

theorem TK.addTree {s : Sess} (h : TK s) (key tree : Str) :
    TK { s with loaded := s.loaded ++ [key], trees := s.trees ++ [(key, tree)] } := by
  intro k t hl
  simp only at hl ⊢
  rcases lookup_append_inv hl with h1 | rfl
  · have := h k t h1
    simp only [List.contains_eq_mem, List.mem_append, decide_eq_true_eq] at this ⊢
    exact Or.inl this
  · simp

theorem loadMod_TK {S : Sem} (H : Hyp S) (f : Nat) (s : Sess) (key : Str) (h : TK s) : TK (loadMod S f s key) :=
  loadMod_inv S TK (fun _ _ => True)
    (fun _ _ hs => hs)
    (fun s key s' r hs heq => by
      have hr := treeGet_rest H s key
      rw [heq] at hr
      dsimp only at hr
      have : TK s' := fun k t hl => by rw [hr.2.2.2.2.1]; exact hs k t (by rw [← hr.2.2.2.1]; exact hl)
      exact ⟨this, fun tree _ => ⟨trivial, this.addTree key tree⟩⟩)
    (fun _ hs => hs)
    (fun _ _ hs => hs)
    (fun s key tree s' r hs _ _ _ heq => by
      have hr := preprocess_rest (S := S) s key tree (viewsOf S s.db (S.importsOf tree))
      rw [heq] at hr
      dsimp only at hr
      have : TK s' := fun k t hl => by rw [hr.2.1]; exact hs k t (by rw [← hr.1]; exact hl)
      exact ⟨this, fun _ _ => this⟩)
    f s key h

/-- a registered tree stays registered under its key -/
theorem trees_lookup_mono {S : Sem} (H : Hyp S) (k t : Str) (f : Nat) (s : Sess) (key : Str) (h : List.lookup k s.trees = some t) :
    List.lookup k (loadMod S f s key).trees = some t :=
  loadMod_inv S (fun s => List.lookup k s.trees = some t) (fun _ _ => True)
    (fun _ _ hs => hs)
    (fun s key s' r hs heq => by
      have := (treeGet_rest H s key).2.2.2.1
      rw [heq] at this
      dsimp only at this
      exact ⟨by rw [this]; exact hs, fun _ _ => ⟨trivial, by show List.lookup k (s'.trees ++ _) = some t; rw [this]; exact lookup_append_some hs⟩⟩)
    (fun _ hs => hs)
    (fun _ _ hs => hs)
    (fun s key tree s' r hs _ _ _ heq => by
      have := (preprocess_rest (S := S) s key tree (viewsOf S s.db (S.importsOf tree))).1
      rw [heq] at this
      dsimp only at this
      exact ⟨by rw [this]; exact hs, fun _ _ => by show List.lookup k s'.trees = some t; rw [this]; exact hs⟩)
    f s key h

/-- `loadMod_inv` with the extra knowledge, at `preprocess` time, that the module's tree is registered under its key -/
theorem loadMod_inv' (S : Sem) (H : Hyp S) (P : Sess → Prop) (F : Str → Str → Prop)
    (hfail : ∀ s e, P s → P (s.fail e))
    (htree : ∀ s key s' r, P s → treeGet S s key = (s', r) →
      P s' ∧ ∀ tree, r = some tree → F key tree ∧ P { s' with loaded := s'.loaded ++ [key], trees := s'.trees ++ [(key, tree)] })
    (hcyc : ∀ s, P s → P { s with cyc := true })
    (hdep : ∀ s key, P s → P { s with depd := s.depd ++ [key] })
    (hpre : ∀ s key tree s' r, P s → F key tree → key ∈ s.depd → List.lookup key s.trees = some tree →
      ((S.importsOf tree).all (fun d => (List.lookup d s.db).isSome) = true ∨ s.cyc = true) →
      preprocess S s key tree (viewsOf S s.db (S.importsOf tree)) = (s', r) →
      P s' ∧ ∀ table, r = some table → P { s' with db := s'.db ++ [(key, table)] }) :
    ∀ f s key, P s → TK s → P (loadMod S f s key) := by
  intro f
  induction f with
  | zero => intro s key hs _; exact hfail _ _ hs
  | succ f ih =>
    intro s key hs htk
    rw [loadMod]
    split
    · exact hs
    · split
      · exact hs
      · have h1 : P (if s.w.libs.contains key then s else s.w.libs.foldl (loadMod S f) s) ∧
            TK (if s.w.libs.contains key then s else s.w.libs.foldl (loadMod S f) s) := by
          split
          · exact ⟨hs, htk⟩
          · exact foldl_inv (fun s => P s ∧ TK s) _ (fun a b ha => ⟨ih a b ha.1 ha.2, loadMod_TK H f a b ha.2⟩) _ _ ⟨hs, htk⟩
        generalize (if s.w.libs.contains key then s else s.w.libs.foldl (loadMod S f) s) = s1 at h1
        obtain ⟨h1, htk1⟩ := h1
        dsimp only
        split
        · exact h1
        · split
          · exact h1
          · rename_i hnl
            split
            · rename_i s2 heq
              exact (htree _ _ _ _ h1 heq).1
            · rename_i s2 tree heq
              obtain ⟨_, h2⟩ := htree _ _ _ _ h1 heq
              obtain ⟨hF, h3⟩ := h2 tree rfl
              have hr := treeGet_rest H s1 key
              rw [heq] at hr
              dsimp only at hr
              have htk2 : TK s2 := fun k t hl => by rw [hr.2.2.2.2.1]; exact htk1 k t (by rw [← hr.2.2.2.1]; exact hl)
              have hnone : List.lookup key s2.trees = none := by
                cases hl : List.lookup key s2.trees with
                | none => rfl
                | some t =>
                  have := htk2 key t hl
                  rw [hr.2.2.2.2.1] at this
                  exact absurd this hnl
              have hlk : List.lookup key (s2.trees ++ [(key, tree)]) = some tree := lookup_append_none hnone
              have h4 := foldl_inv (fun s => (P s ∧ TK s) ∧ List.lookup key s.trees = some tree) _
                (fun a b ha => ⟨⟨ih a b ha.1.1 ha.1.2, loadMod_TK H f a b ha.1.2⟩, trees_lookup_mono H key tree f a b ha.2⟩) (S.importsOf tree) _
                ⟨⟨h3, htk2.addTree key tree⟩, hlk⟩
              generalize (S.importsOf tree).foldl (loadMod S f) _ = s3 at h4
              obtain ⟨⟨h4, _⟩, hmem⟩ := h4
              split
              · exact h4
              · have h4' := hdep _ key h4
                have hkd : key ∈ ({ s3 with depd := s3.depd ++ [key] } : Sess).depd := by simp
                by_cases hall : (S.importsOf tree).all (fun d => (List.lookup d s3.db).isSome) = true
                · simp only [hall, ↓reduceIte]
                  split
                  · rename_i s4 heq2
                    exact (hpre { s3 with depd := s3.depd ++ [key] } key tree _ _ h4' hF hkd hmem (Or.inl hall) heq2).1
                  · rename_i s4 table heq2
                    exact (hpre { s3 with depd := s3.depd ++ [key] } key tree _ _ h4' hF hkd hmem (Or.inl hall) heq2).2 table rfl
                · simp only [hall, Bool.false_eq_true, ↓reduceIte]
                  have h5 := hcyc _ h4'
                  split
                  · rename_i s4 heq2
                    exact (hpre { s3 with depd := s3.depd ++ [key], cyc := true } key tree _ _ h5 hF hkd hmem (Or.inr rfl) heq2).1
                  · rename_i s4 table heq2
                    exact (hpre { s3 with depd := s3.depd ++ [key], cyc := true } key tree _ _ h5 hF hkd hmem (Or.inr rfl) heq2).2 table rfl

end Tranp.CacheFS

namespace Tranp.CacheFS
open Tranp

/-! ### `__collect_hashes` collects an import-closed set of files -/

theorem lookup_isSome_iff {k : Str} {l : List (Str × Str)} : (List.lookup k l).isSome = true ↔ ∃ v, (k, v) ∈ l := by
  induction l with
  | nil => simp [List.lookup]
  | cons x l ih =>
    obtain ⟨a, b⟩ := x
    simp only [List.lookup]
    split
    · rename_i hk
      have : k = a := by simpa using hk
      subst this
      simp
    · rename_i hk
      have hne : k ≠ a := by simpa using hk
      rw [ih]
      constructor
      · rintro ⟨v, hv⟩; exact ⟨v, List.mem_cons_of_mem _ hv⟩
      · rintro ⟨v, hv⟩
        simp only [List.mem_cons, Prod.mk.injEq] at hv
        rcases hv with ⟨h1, _⟩ | hv
        · exact absurd h1 hne
        · exact ⟨v, hv⟩

/-- the visited dict during the traversal: right hashes, only nodes of `N`, and every finished node (not on the stack `P`)
    has all its imports visited -/
def GoodH (S : Sem) (pz : Str) (srcs : Dir) (N : Str → Prop) (H : List (Str × Str)) (P : List Str) : Prop :=
  (∀ d h, (d, h) ∈ H → N d ∧ ∃ f, srcs.get? d = some f ∧ h = S.hash f.data) ∧
  (∀ d h, (d, h) ∈ H → d ∉ P → ∀ sf, srcs.get? d = some sf → ∀ e ∈ S.importsOf (S.parse pz sf.data), (List.lookup e H).isSome = true)

theorem collect_spec {S : Sem} {pz : Str} {srcs : Dir} {trees : List (Str × Str)} {depd : List Str} {N : Str → Prop}
    (hN : ∀ v, N v → ∃ sf, srcs.get? v = some sf ∧ List.lookup v trees = some (S.parse pz sf.data) ∧ depd.contains v = true ∧
      ∀ e ∈ S.importsOf (S.parse pz sf.data), N e) :
    ∀ f H k P H', N k → GoodH S pz srcs N H P → collect S srcs trees depd f H k = some H' →
      GoodH S pz srcs N H' P ∧ (∀ x, x ∈ H → x ∈ H') ∧ (List.lookup k H').isSome = true := by
  intro f
  induction f with
  | zero => intro H k P H' _ _ h; simp [collect] at h
  | succ f ih =>
    intro H k P H' hk hg h
    rw [collect] at h
    split at h
    · rename_i hv
      cases h
      exact ⟨hg, fun _ hx => hx, hv⟩
    · rename_i hnv
      obtain ⟨sf, hsf, htr, hdp, himp⟩ := hN k hk
      rw [hsf, htr] at h
      simp only [hdp, ↓reduceIte] at h
      -- the fold over the imports
      have hfold : ∀ (ds : List Str), (∀ e ∈ ds, N e) → ∀ H0 H1, GoodH S pz srcs N H0 (k :: P) →
          ds.foldl (fun acc d => match acc with
            | none => none
            | some H => if (srcs.get? d).isSome then collect S srcs trees depd f H d else some H) (some H0) = some H1 →
          GoodH S pz srcs N H1 (k :: P) ∧ (∀ x, x ∈ H0 → x ∈ H1) ∧ ∀ e ∈ ds, (List.lookup e H1).isSome = true := by
        intro ds
        induction ds with
        | nil => intro _ H0 H1 hg0 he; simp at he; subst he; exact ⟨hg0, fun _ hx => hx, fun _ he => by simp at he⟩
        | cons d ds ihd =>
          intro hall H0 H1 hg0 he
          simp only [List.foldl_cons] at he
          obtain ⟨sd, hsd, _⟩ := hN d (hall d (by simp))
          simp only [hsd, Option.isSome_some, ↓reduceIte] at he
          cases hc : collect S srcs trees depd f H0 d with
          | none =>
            rw [hc] at he
            have : ∀ (l : List Str), l.foldl (fun acc d => match acc with
                | none => none
                | some H => if (srcs.get? d).isSome then collect S srcs trees depd f H d else some H) none = none := by
              intro l; induction l with
              | nil => rfl
              | cons _ _ ihl => simpa using ihl
            rw [this] at he; cases he
          | some H2 =>
            rw [hc] at he
            obtain ⟨g2, m2, l2⟩ := ih H0 d (k :: P) H2 (hall d (by simp)) hg0 hc
            obtain ⟨g3, m3, l3⟩ := ihd (fun e he' => hall e (by simp [he'])) H2 H1 g2 he
            refine ⟨g3, fun x hx => m3 x (m2 x hx), ?_⟩
            intro e he'
            simp only [List.mem_cons] at he'
            rcases he' with rfl | he'
            · obtain ⟨v, hv⟩ := lookup_isSome_iff.mp l2
              exact lookup_isSome_iff.mpr ⟨v, m3 _ hv⟩
            · exact l3 e he'
      have hg1 : GoodH S pz srcs N (H ++ [(k, S.hash sf.data)]) (k :: P) := by
        refine ⟨?_, ?_⟩
        · intro d hh hm
          simp only [List.mem_append, List.mem_singleton, Prod.mk.injEq] at hm
          rcases hm with hm | ⟨rfl, rfl⟩
          · exact hg.1 d hh hm
          · exact ⟨hk, sf, hsf, rfl⟩
        · intro d hh hm hnp sd hsd e he
          simp only [List.mem_append, List.mem_singleton, Prod.mk.injEq] at hm
          simp only [List.mem_cons, not_or] at hnp
          rcases hm with hm | ⟨rfl, _⟩
          · obtain ⟨v, hv⟩ := lookup_isSome_iff.mp (hg.2 d hh hm hnp.2 sd hsd e he)
            exact lookup_isSome_iff.mpr ⟨v, by simp [hv]⟩
          · exact absurd rfl hnp.1
      obtain ⟨g2, m2, l2⟩ := hfold _ himp _ _ hg1 h
      refine ⟨⟨g2.1, ?_⟩, fun x hx => m2 x (by simp [hx]), lookup_isSome_iff.mpr ⟨S.hash sf.data, m2 _ (by simp)⟩⟩
      intro d hh hm hnp sd hsd e he
      by_cases hdk : d = k
      · subst hdk
        rw [hsf] at hsd; cases hsd
        exact l2 e he
      · exact g2.2 d hh hm (by simp [hdk, hnp]) sd hsd e he

/-- the result of a traversal that starts with an empty dict is an import-closed set of current files containing the module -/
theorem collect_closure {S : Sem} {pz : Str} {srcs : Dir} {trees : List (Str × Str)} {depd : List Str} {N : Str → Prop}
    (hN : ∀ v, N v → ∃ sf, srcs.get? v = some sf ∧ List.lookup v trees = some (S.parse pz sf.data) ∧ depd.contains v = true ∧
      ∀ e ∈ S.importsOf (S.parse pz sf.data), N e)
    (f : Nat) (k : Str) (K : List (Str × Str)) (hk : N k) (h : collect S srcs trees depd f [] k = some K) : IsClosure S pz srcs k K := by
  obtain ⟨g, _, l⟩ := collect_spec hN f [] k [] K hk ⟨fun _ _ hm => by simp at hm, fun _ _ hm => by simp at hm⟩ h
  refine ⟨lookup_isSome_iff.mp l, ?_⟩
  intro d hh hm
  obtain ⟨_, sf, hsf, hhh⟩ := g.1 d hh hm
  exact ⟨sf, hsf, hhh, fun e he => lookup_isSome_iff.mp (g.2 d hh hm (by simp) sf hsf e he)⟩

end Tranp.CacheFS

namespace Tranp.CacheFS
open Tranp

theorem treeGet_SS {S : Sem} (H : Hyp S) {w0 : World} {s : Sess} (h : SS S w0 s) (key : Str) {s' : Sess} {r : Option Str}
    (heq : treeGet S s key = (s', r)) :
    SS S w0 s' ∧ ∀ tree, r = some tree → FreshTree S w0 key tree ∧
      SS S w0 { s' with loaded := s'.loaded ++ [key], trees := s'.trees ++ [(key, tree)] } := by
  obtain ⟨hts, hsym⟩ := h
  obtain ⟨h1, h2⟩ := treeGet_TS H hts key heq
  have h3 := treeGet_sym (pz0 := w0.parserNow S) H (s := s) key (fun f hf => hts.inv.keys key f hf)
  rw [heq] at h3
  obtain ⟨hdb, hcyc, hids, hsinv, htr, _, hdp⟩ := h3
  dsimp only at hdb hcyc hids hsinv htr hdp
  have hS : s'.cyc = false → SInv S (w0.parserNow S) s'.w ∧ IdsOK S w0 s' ∧ DbOK S w0 s' := by
    intro hc
    obtain ⟨a, b, c⟩ := hsym (by rw [← hcyc]; exact hc)
    refine ⟨hsinv a, fun k i hki => b k i (by rw [← hids]; exact hki), fun k t hkt => ?_⟩
    have := c k t (by rw [← hdb]; exact hkt)
    rw [hdp, htr, hdb]; exact this
  refine ⟨⟨h1, hS⟩, fun tree hr => ⟨(h2 tree hr).1, (h2 tree hr).2, fun hc => ?_⟩⟩
  obtain ⟨a, b, c⟩ := hS hc
  refine ⟨a, b, fun k t hkt => ?_⟩
  obtain ⟨c1, c2, sf, c3, c4, c5⟩ := c k t hkt
  exact ⟨c1, c2, sf, c3, lookup_append_some c4, c5⟩

theorem viewsOf_isViews {S : Sem} {w0 : World} {s : Sess} (hdb : DbOK S w0 s) (ims : List Str)
    (hall : ims.all (fun d => (List.lookup d s.db).isSome) = true) : IsViews S (w0.parserNow S) w0.srcs ims (viewsOf S s.db ims) := by
  induction ims with
  | nil => exact IsViews.nil
  | cons d ims ih =>
    simp only [List.all_cons, Bool.and_eq_true] at hall
    cases hl : List.lookup d s.db with
    | none => simp [hl] at hall
    | some t =>
      have := IsViews.cons (hdb d t (lookup_mem' hl)).1 (ih hall.2)
      simpa [viewsOf, hl] using this

/-- the persistor on a coherent cache: the world stays coherent and the returned table is the cache-free one -/
theorem preprocessWith_sym {S : Sem} (H : Hyp S) {w0 : World} {s : Sess} (hsinv : SInv S (w0.parserNow S) s.w) (key tree : Str)
    (views : List Str) (ident : Str) (hI : IsIdC S (w0.parserNow S) w0.srcs key ident) (hid : '-' ∉ ident)
    (hT : IsTab S (w0.parserNow S) w0.srcs key (S.analyse key tree views)) :
    SInv S (w0.parserNow S) (preprocessWith S s key tree views ident).1.w ∧
      ∀ table, (preprocessWith S s key tree views ident).2 = some table → table = S.analyse key tree views := by
  unfold preprocessWith
  dsimp only
  split
  · rename_i f hf
    split
    · split
      · rename_i table hdec
        refine ⟨hsinv, fun table' hr => ?_⟩
        cases hr
        obtain ⟨t0, hp, hfull⟩ := hsinv key ident f hid hf
        rw [prefix_dec_eq H hp hdec]
        exact hfull w0.srcs _ hI hT
      · exact ⟨hsinv, fun _ h => by simp at h⟩
    · exact ⟨hsinv, fun table hr => by cases hr; rfl⟩
  · split
    · exact ⟨hsinv, fun table hr => by cases hr; rfl⟩
    · refine ⟨?_, fun table hr => ?_⟩
      · exact SInv_write (SInv_evict hsinv _) _ _ _
          (fun w m c hw => hw.put_sym H key ident _ m c hid w0.srcs hI hT)
      · split at hr
        · simp at hr
        · cases hr; rfl

end Tranp.CacheFS

namespace Tranp.CacheFS
open Tranp

/-- in an acyclic session the identity computed for a module whose imports are loaded is an identity over an import-closed
    set of current files, and it stays cached -/
theorem identityCore_ok {S : Sem} {w0 : World} {s : Sess} (hsrcs : s.w.srcs = w0.srcs) (hdb : DbOK S w0 s) (hids : IdsOK S w0 s)
    (key : Str) (sf : File) (hsf : w0.srcs.get? key = some sf) (hkd : key ∈ s.depd)
    (hlk : List.lookup key s.trees = some (S.parse (w0.parserNow S) sf.data))
    (hall : (S.importsOf (S.parse (w0.parserNow S) sf.data)).all (fun d => (List.lookup d s.db).isSome) = true)
    (ids' : List (Str × Str)) (ident : Str) (hid : identityCore S s.w.srcs s.trees s.depd s.ids key = (ids', some ident)) :
    IsIdC S (w0.parserNow S) w0.srcs key ident ∧ (∀ k i, (k, i) ∈ ids' → IsIdC S (w0.parserNow S) w0.srcs k i) := by
  unfold identityCore at hid
  cases hl : List.lookup key s.ids with
  | some i =>
    rw [hl] at hid
    cases hid
    exact ⟨hids key ident (lookup_mem' hl), hids⟩
  | none =>
    rw [hl] at hid
    dsimp only at hid
    rw [hsrcs, hsf] at hid
    cases hc : collect S w0.srcs s.trees s.depd (s.trees.length + 2) [] key with
    | none => rw [hc] at hid; cases hid
    | some K =>
      rw [hc] at hid
      dsimp only at hid
      cases hid
      -- the nodes the traversal can meet: the module itself and the modules with a table
      have hN : ∀ v, (v = key ∨ (List.lookup v s.db).isSome = true) → ∃ sv, w0.srcs.get? v = some sv ∧
          List.lookup v s.trees = some (S.parse (w0.parserNow S) sv.data) ∧ s.depd.contains v = true ∧
          ∀ e ∈ S.importsOf (S.parse (w0.parserNow S) sv.data), (e = key ∨ (List.lookup e s.db).isSome = true) := by
        intro v hv
        rcases hv with rfl | hv
        · refine ⟨sf, hsf, hlk, by simpa using hkd, fun e he => Or.inr ?_⟩
          exact List.all_eq_true.mp hall e he
        · obtain ⟨t, ht⟩ := lookup_isSome_iff.mp hv
          obtain ⟨_, c2, sv, c3, c4, c5⟩ := hdb v t ht
          exact ⟨sv, c3, c4, by simpa using c2, fun e he => Or.inr (c5 e he)⟩
      have hcl := collect_closure (N := fun v => v = key ∨ (List.lookup v s.db).isSome = true) hN _ key K (Or.inl rfl) hc
      have hI : IsIdC S (w0.parserNow S) w0.srcs key (identOf S key K sf.data) := ⟨K, sf, hcl, hsf, rfl⟩
      refine ⟨hI, ?_⟩
      intro k i hm
      simp only [List.mem_append, List.mem_singleton, Prod.mk.injEq] at hm
      rcases hm with hm | ⟨rfl, rfl⟩
      · exact hids k i hm
      · exact hI

theorem identityCore_none {S : Sem} (srcs : Dir) (trees : List (Str × Str)) (depd : List Str) (ids : List (Str × Str)) (key : Str)
    (ids' : List (Str × Str)) (h : identityCore S srcs trees depd ids key = (ids', none)) : ids' = ids := by
  unfold identityCore at h
  split at h
  · cases h
  · split at h
    · cases h
    · cases h; rfl

theorem IsIdC.nodash {S : Sem} (H : Hyp S) {pz : Str} {srcs : Dir} {k I : Str} (h : IsIdC S pz srcs k I) : '-' ∉ I := by
  obtain ⟨K, own, _, _, e⟩ := h
  rw [e]; exact H.identL_nodash _

theorem preprocess_SS {S : Sem} (H : Hyp S) {w0 : World} {s : Sess} (h : SS S w0 s)
    (key tree : Str) (hF : FreshTree S w0 key tree) (hkd : key ∈ s.depd) (hlk : List.lookup key s.trees = some tree)
    (hall : (S.importsOf tree).all (fun d => (List.lookup d s.db).isSome) = true ∨ s.cyc = true)
    {s' : Sess} {r : Option Str} (heq : preprocess S s key tree (viewsOf S s.db (S.importsOf tree)) = (s', r)) :
    SS S w0 s' ∧ ∀ table, r = some table → SS S w0 { s' with db := s'.db ++ [(key, table)] } := by
  obtain ⟨hts, hsym⟩ := h
  obtain ⟨hT1, hT2⟩ := preprocess_TS H hts key tree _ heq
  have hcyc := preprocess_cyc (S := S) s key tree (viewsOf S s.db (S.importsOf tree))
  rw [heq] at hcyc
  dsimp only at hcyc
  by_cases hc : s.cyc = true
  · have : s'.cyc = true := by rw [hcyc]; exact hc
    exact ⟨⟨hT1, fun h' => by rw [this] at h'; cases h'⟩, fun table hr => ⟨hT2 table hr, fun h' => by
      have h'' : s'.cyc = false := h'
      rw [this] at h''; cases h''⟩⟩
  · have hc' : s.cyc = false := by simpa using hc
    have hall' : (S.importsOf tree).all (fun d => (List.lookup d s.db).isSome) = true := by
      rcases hall with h | h
      · exact h
      · exact absurd h hc
    obtain ⟨hsinv, hids, hdb⟩ := hsym hc'
    obtain ⟨sf, hsf, rfl⟩ := hF
    have hviews := viewsOf_isViews hdb _ hall'
    have hT : IsTab S (w0.parserNow S) w0.srcs key
        (S.analyse key (S.parse (w0.parserNow S) sf.data) (viewsOf S s.db (S.importsOf (S.parse (w0.parserNow S) sf.data)))) := IsTab.mk hsf hviews
    unfold preprocess identityM at heq
    cases hid : identityCore S s.w.srcs s.trees s.depd s.ids key with
    | mk ids' o =>
      rw [hid] at heq
      dsimp only at heq
      cases o with
      | none =>
        dsimp only at heq
        cases heq
        have := identityCore_none _ _ _ _ _ _ hid
        subst this
        exact ⟨⟨hT1, fun _ => ⟨hsinv, hids, hdb⟩⟩, fun _ hr => by cases hr⟩
      | some ident =>
        dsimp only at heq
        obtain ⟨hI, hids'⟩ := identityCore_ok hts.srcs hdb hids key sf hsf hkd hlk hall' ids' ident hid
        have hnd := hI.nodash H
        have hm := preprocessWith_sym H (s := { s with ids := ids' }) hsinv key _ (viewsOf S s.db (S.importsOf (S.parse (w0.parserNow S) sf.data))) ident hI hnd hT
        have hrest := preprocessWith_rest (S := S) { s with ids := ids' } key (S.parse (w0.parserNow S) sf.data) (viewsOf S s.db (S.importsOf (S.parse (w0.parserNow S) sf.data))) ident
        rw [heq] at hm hrest
        dsimp only at hm hrest
        obtain ⟨_, hdbeq, hidseq, htreq, _, _, _, _, hdpeq⟩ := hrest
        have hIds' : IdsOK S w0 s' := fun k i hki => hids' k i (by rw [← hidseq]; exact hki)
        have hDb' : DbOK S w0 s' := by
          intro k t hkt
          have := hdb k t (by rw [← hdbeq]; exact hkt)
          rw [hdpeq, htreq, hdbeq]; exact this
        refine ⟨⟨hT1, fun _ => ⟨hm.1, hIds', hDb'⟩⟩, fun table hr => ⟨hT2 table hr, fun _ => ⟨hm.1, hIds', ?_⟩⟩⟩
        intro k t hkt
        simp only [List.mem_append, List.mem_singleton, Prod.mk.injEq] at hkt
        rcases hkt with hkt | ⟨rfl, rfl⟩
        · obtain ⟨c1, c2, sv, c3, c4, c5⟩ := hDb' k t hkt
          exact ⟨c1, c2, sv, c3, c4, fun d hd => by
            obtain ⟨v, hv⟩ := lookup_isSome_iff.mp (c5 d hd)
            exact lookup_isSome_iff.mpr ⟨v, by simp [hv]⟩⟩
        · refine ⟨?_, by rw [hdpeq]; exact hkd, sf, hsf, by rw [htreq]; exact hlk, fun d hd => ?_⟩
          · rw [hm.2 t hr]; exact hT
          · obtain ⟨v, hv⟩ := lookup_isSome_iff.mp (List.all_eq_true.mp hall' d hd)
            exact lookup_isSome_iff.mpr ⟨v, by simp [hdbeq, hv]⟩

theorem loadMod_SS {S : Sem} (H : Hyp S) {w0 : World} (f : Nat) (s : Sess) (key : Str) (h : SS S w0 s) (htk : TK s) :
    SS S w0 (loadMod S f s key) :=
  loadMod_inv' S H (SS S w0) (FreshTree S w0)
    (fun _ e hs => ⟨hs.1.fail e, hs.2⟩)
    (fun _ key _ _ hs heq => treeGet_SS H hs key heq)
    (fun _ hs => ⟨⟨hs.1.inv, hs.1.srcs, hs.1.gm, hs.1.cfg, hs.1.parser, hs.1.trees, hs.1.ids⟩, fun h => by cases h⟩)
    (fun s key hs => ⟨⟨hs.1.inv, hs.1.srcs, hs.1.gm, hs.1.cfg, hs.1.parser, hs.1.trees, hs.1.ids⟩, fun hc => by
      obtain ⟨a, b, c⟩ := hs.2 hc
      refine ⟨a, b, fun k t hkt => ?_⟩
      obtain ⟨c1, c2, rest⟩ := c k t hkt
      exact ⟨c1, by simp [c2], rest⟩⟩)
    (fun _ key tree _ _ hs hF hkd hlk hall heq => preprocess_SS H hs key tree hF hkd hlk hall heq)
    f s key h htk

end Tranp.CacheFS
namespace Tranp.CacheFS
open Tranp

theorem runTargets_SS {S : Sem} (H : Hyp S) {w0 : World} (targets : List Str) (s : Sess) (h : SS S w0 s) (htk : TK s) :
    SS S w0 (runTargets S s targets) := by
  unfold runTargets
  refine (foldl_inv (fun s => SS S w0 s ∧ TK s) _ ?_ _ _ ⟨h, htk⟩).1
  intro s key hs
  split
  · exact hs
  · have h1 := loadMod_SS H (fuelOf s.w) s key hs.1 hs.2
    have h2 := loadMod_TK H (fuelOf s.w) s key hs.2
    dsimp only
    generalize loadMod S (fuelOf s.w) s key = s1 at h1 h2
    split
    · exact ⟨h1, h2⟩
    · split
      · obtain ⟨a, e⟩ := h1
        exact ⟨⟨⟨⟨a.inv.keys, a.inv.fresh, a.inv.gfresh, a.inv.tree, a.inv.parser⟩, a.srcs, a.gm, a.cfg, a.parser, a.trees, a.ids⟩, e⟩, h2⟩
      · exact ⟨h1, h2⟩

/-- world-level invariant of the cache layers (symbol files with respect to the parser of the current setting) -/
def WS (S : Sem) (w : World) : Prop := TInv S w ∧ SInv S (w.parserNow S) w

theorem run_SS {S : Sem} (H : Hyp S) (w : World) (force : Bool) (h : WS S w) : SS S w (run S w force) := by
  unfold run
  exact runTargets_SS H _ _ ⟨TS.start w h.1, fun _ => ⟨h.2, fun _ _ hki => by simp at hki, fun _ _ hkt => by simp at hkt⟩⟩
    (fun _ _ hl => by simp [List.lookup] at hl)

def OpAcyclic (S : Sem) (w : World) : Op → Prop
  | .run f => (run S w f).cyc = false
  | _ => True

/-- no run of the history analyses a module inside an import cycle -/
def Acyclic (S : Sem) : World → List Op → Prop
  | _, [] => True
  | w, op :: rest => OpAcyclic S w op ∧ Acyclic S (step S w op) rest

/-- neither the grammar nor the parser setting is changed (the identity of a symbol file covers neither) -/
def NoGrammar : Op → Prop
  | .grammar _ => False
  | .setting _ _ _ => False
  | _ => True

theorem step_WS {S : Sem} (H : Hyp S) (w : World) (op : Op) (hop : OpOK op) (hng : NoGrammar op) (hac : OpAcyclic S w op) (h : WS S w) :
    WS S (step S w op) := by
  refine ⟨step_TInv H w op hop h.1, ?_⟩
  cases op with
  | edit k src => exact h.2
  | run force =>
    have hr := run_SS H w force h
    have e : (run S w force).w.parserNow S = w.parserNow S := hr.1.parserNow_eq
    show SInv S ((run S w force).w.parserNow S) (run S w force).w
    rw [e]
    exact (hr.2 hac).1
  | clear => intro k ident f _ hget; simp [step, World.clearCache, Dir.get?] at hget
  | delete p => exact h.2.erase p
  | trunc p k =>
    simp only [step]
    split
    · rename_i f hf; exact h.2.trunc p f hf k
    · exact h.2
  | enable b => exact h.2
  | grammar path => exact absurd hng (by simp [NoGrammar])
  | setting gp st al => exact absurd hng (by simp [NoGrammar])

theorem exec_WS {S : Sem} (H : Hyp S) (w : World) (hist : List Op) (hok : ∀ op ∈ hist, OpOK op) (hng : ∀ op ∈ hist, NoGrammar op)
    (hac : Acyclic S w hist) (h : WS S w) : WS S (exec S w hist) := by
  induction hist generalizing w with
  | nil => exact h
  | cons op hist ih =>
    exact ih (step S w op) (fun o ho => hok o (by simp [ho])) (fun o ho => hng o (by simp [ho])) hac.2
      (step_WS H w op (hok op (by simp)) (hng op (by simp)) hac.1 h)

theorem WS.init {S : Sem} (w : World) (hc : w.cache = []) (hs : w.srcs = []) (hg : w.grammarMtime < w.clock) : WS S w :=
  ⟨TInv.init w hc hs hg, fun k ident f _ hf => by simp [hc, Dir.get?] at hf⟩

/-! ### caching disabled -/

/-- nothing below the cache directory was opened, created or unlinked -/
def Quiet (c0 : Dir) (s : Sess) : Prop := s.log = [] ∧ s.w.cache = c0 ∧ s.w.enabled = false

theorem cacheGet_quiet {S : Sem} {c0 : Dir} {s : Sess} (h : Quiet c0 s) (dir key ident ext fresh : Str) (bin : Bool) :
    cacheGet S s dir key ident ext fresh bin = (s, some fresh) := by
  unfold cacheGet
  simp [h.2.2]

theorem treeGet_quiet {S : Sem} {c0 : Dir} {s : Sess} (h : Quiet c0 s) (key : Str) : Quiet c0 (treeGet S s key).1 := by
  unfold treeGet
  have h1 : Quiet c0 (parserGet S s).1 := by
    unfold parserGet
    split
    · exact h
    · rw [cacheGet_quiet h]; exact h
  generalize parserGet S s = rp at h1
  obtain ⟨s1, op⟩ := rp
  cases op with
  | none => exact h1
  | some pz =>
    dsimp only at h1 ⊢
    split
    · exact h1
    · rw [cacheGet_quiet h1]; exact h1

theorem preprocess_quiet {S : Sem} {c0 : Dir} {s : Sess} (h : Quiet c0 s) (key tree : Str) (views : List Str) :
    Quiet c0 (preprocess S s key tree views).1 := by
  unfold preprocess identityM
  generalize identityCore S s.w.srcs s.trees s.depd s.ids key = r
  obtain ⟨ids', o⟩ := r
  cases o with
  | none => exact h
  | some ident =>
    dsimp only
    unfold preprocessWith
    dsimp only
    split
    · simp only [h.2.2, Bool.false_eq_true, ↓reduceIte]; exact h
    · simp only [h.2.2, Bool.not_false, ↓reduceIte]; exact h

theorem loadMod_quiet {S : Sem} {c0 : Dir} (f : Nat) (s : Sess) (key : Str) (h : Quiet c0 s) : Quiet c0 (loadMod S f s key) :=
  loadMod_inv S (Quiet c0) (fun _ _ => True)
    (fun _ _ hs => hs)
    (fun s key s' r hs heq => by
      have := treeGet_quiet (S := S) hs key
      rw [heq] at this
      exact ⟨this, fun _ _ => ⟨trivial, this⟩⟩)
    (fun _ hs => hs)
    (fun _ _ hs => hs)
    (fun s key tree s' r hs _ _ _ heq => by
      have := preprocess_quiet (S := S) hs key tree (viewsOf S s.db (S.importsOf tree))
      rw [heq] at this
      exact ⟨this, fun _ _ => this⟩)
    f s key h

theorem run_quiet {S : Sem} (w : World) (force : Bool) (he : w.enabled = false) : Quiet w.cache (run S w force) := by
  unfold run runTargets
  apply foldl_inv (Quiet w.cache) _ _ _ _ ⟨rfl, rfl, he⟩
  intro s key hs
  split
  · exact hs
  · have h1 := loadMod_quiet (S := S) (fuelOf s.w) s key hs
    dsimp only
    generalize loadMod S (fuelOf s.w) s key = s1 at h1
    split
    · exact h1
    · split
      · exact h1
      · exact h1

end Tranp.CacheFS
