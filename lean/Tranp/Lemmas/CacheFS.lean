/-
  Lemmas for property C05: ordered-map laws, file-name injectivity, invariants of the cache layers.
-/
import Tranp.Model.CacheFS

namespace Tranp.CacheFS
open Tranp

/-! ### ordered map -/

theorem Dir.get?_put_eq (d : Dir) (p : Str) (f : File) : (d.put p f).get? p = some f := by
  induction d with
  | nil => simp [Dir.put, Dir.get?, List.lookup]
  | cons e d ih =>
    obtain ⟨q, g⟩ := e
    unfold Dir.put
    by_cases h : p = q
    · subst h; simp [Dir.get?, List.lookup]
    · simp only [h, ↓reduceIte]
      have hb : (p == q) = false := by simpa using h
      simp only [Dir.get?, List.lookup, hb]
      exact ih

theorem Dir.get?_put_ne (d : Dir) (p q : Str) (f : File) (h : q ≠ p) : (d.put p f).get? q = d.get? q := by
  induction d with
  | nil =>
    have hb : (q == p) = false := by simpa using h
    simp [Dir.put, Dir.get?, List.lookup, hb]
  | cons e d ih =>
    obtain ⟨r, g⟩ := e
    unfold Dir.put
    by_cases hpr : p = r
    · subst hpr
      have hb : (q == p) = false := by simpa using h
      simp [Dir.get?, List.lookup, hb]
    · simp only [hpr, ↓reduceIte]
      simp only [Dir.get?, List.lookup]
      cases hq : (q == r)
      · exact ih
      · rfl

theorem Dir.get?_erase (d : Dir) (p q : Str) : (d.erase p).get? q = if q = p then none else d.get? q := by
  induction d with
  | nil => simp [Dir.erase, Dir.get?, List.lookup]
  | cons e d ih =>
    obtain ⟨r, g⟩ := e
    simp only [Dir.erase, List.filter] at ih ⊢
    by_cases hr : r = p
    · subst hr
      simp only [ne_eq, not_true_eq_false, decide_false]
      rw [ih]
      by_cases hq : q = r
      · simp [hq]
      · have hb : (q == r) = false := by simpa using hq
        simp [hq, Dir.get?, List.lookup, hb]
    · simp only [ne_eq, hr, not_false_eq_true, decide_true]
      simp only [Dir.get?, List.lookup]
      cases hq : (q == r)
      · exact ih
      · have : q = r := by simpa using hq
        subst this; simp [hr]

theorem Dir.get?_eraseAll (d : Dir) (ps : List Str) (q : Str) (f : File) :
    (ps.foldl Dir.erase d).get? q = some f → d.get? q = some f := by
  induction ps generalizing d with
  | nil => simp
  | cons p ps ih =>
    intro h
    have := ih (d.erase p) h
    rw [Dir.get?_erase] at this
    split at this
    · simp at this
    · exact this

/-! ### file names -/

/-- the last `-` separates the key from a dash-free tail -/
theorem dash_split {a a' b b' : Str} (hb : '-' ∉ b) (hb' : '-' ∉ b') (h : a ++ '-' :: b = a' ++ '-' :: b') :
    a = a' ∧ b = b' := by
  induction a generalizing a' with
  | nil =>
    cases a' with
    | nil => simpa using h
    | cons c a' =>
      simp only [List.nil_append, List.cons_append, List.cons.injEq] at h
      obtain ⟨_, h2⟩ := h
      exact absurd (h2 ▸ (by simp : '-' ∈ a' ++ '-' :: b')) hb
  | cons c a ih =>
    cases a' with
    | nil =>
      simp only [List.nil_append, List.cons_append, List.cons.injEq] at h
      obtain ⟨_, h2⟩ := h
      exact absurd (h2 ▸ (by simp : '-' ∈ a ++ '-' :: b)) hb'
    | cons c' a' =>
      simp only [List.cons_append, List.cons.injEq] at h
      obtain ⟨hc, h2⟩ := h
      obtain ⟨h3, h4⟩ := ih h2
      exact ⟨by rw [hc, h3], h4⟩

theorem jsonExt_nodash : '-' ∉ jsonExt := by decide
theorem binExt_nodash : '-' ∉ binExt := by decide

theorem nodash_append {a b : Str} (ha : '-' ∉ a) (hb : '-' ∉ b) : '-' ∉ a ++ b := by
  simp [List.mem_append, ha, hb]

theorem cachePath_inj {k k' i i' e : Str} (hi : '-' ∉ i) (hi' : '-' ∉ i') (he : '-' ∉ e)
    (h : cachePath k i e = cachePath k' i' e) : k = k' ∧ i = i' := by
  obtain ⟨h1, h2⟩ := dash_split (nodash_append hi he) (nodash_append hi' he) h
  exact ⟨h1, List.append_cancel_right h2⟩

theorem symPath_eq (k i : Str) : symPath k i = (k ++ ['-', 's', 'y', 'm', 'b', 'o', 'l', 's']) ++ '-' :: (i ++ jsonExt) := by
  simp [symPath, symInfix]

theorem symPath_inj {k k' i i' : Str} (hi : '-' ∉ i) (hi' : '-' ∉ i') (h : symPath k i = symPath k' i') : k = k' ∧ i = i' := by
  rw [symPath_eq, symPath_eq] at h
  obtain ⟨h1, h2⟩ := dash_split (nodash_append hi jsonExt_nodash) (nodash_append hi' jsonExt_nodash) h
  exact ⟨List.append_cancel_right h1, List.append_cancel_right h2⟩

/-- a tree file of a dash-free key is never a symbols file -/
theorem cachePath_ne_symPath {k k' i i' e : Str} (hk : '-' ∉ k) (hi : '-' ∉ i) (hi' : '-' ∉ i') (he : '-' ∉ e) :
    cachePath k i e ≠ symPath k' i' := by
  intro h
  rw [symPath_eq] at h
  obtain ⟨h1, _⟩ := dash_split (nodash_append hi he) (nodash_append hi' jsonExt_nodash) h
  exact hk (h1 ▸ by simp)

end Tranp.CacheFS

namespace Tranp.CacheFS
open Tranp

/-! ### generic invariants of the loader -/

theorem foldl_inv {α β : Type} (P : α → Prop) (g : α → β → α) (h : ∀ a b, P a → P (g a b)) (xs : List β) (a : α) (ha : P a) :
    P (xs.foldl g a) := by
  induction xs generalizing a with
  | nil => exact ha
  | cons x xs ih => exact ih _ (h _ _ ha)

/-- Any predicate that the atomic cache actions and the loader's bookkeeping preserve is preserved by `Modules.load`.
    `F key tree` is a state-independent fact established when the tree is obtained and available to `preprocess`. -/
theorem loadMod_inv (S : Sem) (P : Sess → Prop) (F : Str → Str → Prop)
    (hfail : ∀ s e, P s → P (s.fail e))
    (htree : ∀ s key s' r, P s → treeGet S s key = (s', r) →
      P s' ∧ ∀ tree, r = some tree → F key tree ∧ P { s' with loaded := s'.loaded ++ [key], trees := s'.trees ++ [(key, tree)] })
    (hcyc : ∀ s, P s → P { s with cyc := true })
    (hpre : ∀ s key tree s' r, P s → F key tree →
      ((S.importsOf tree).all (fun d => (List.lookup d s.db).isSome) = true ∨ s.cyc = true) →
      preprocess S s key tree (viewsOf S s.db (S.importsOf tree)) = (s', r) →
      P s' ∧ ∀ table, r = some table → P { s' with db := s'.db ++ [(key, table)] }) :
    ∀ f s key, P s → P (loadMod S f s key) := by
  intro f
  induction f with
  | zero => intro s key hs; exact hfail _ _ hs
  | succ f ih =>
    intro s key hs
    rw [loadMod]
    split
    · exact hs
    · split
      · exact hs
      · have h1 : P (if s.w.libs.contains key then s else s.w.libs.foldl (loadMod S f) s) := by
          split
          · exact hs
          · exact foldl_inv P _ (fun a b ha => ih a b ha) _ _ hs
        generalize (if s.w.libs.contains key then s else s.w.libs.foldl (loadMod S f) s) = s1 at h1
        dsimp only
        split
        · exact h1
        · split
          · exact h1
          · split
            · rename_i s2 heq
              exact (htree _ _ _ _ h1 heq).1
            · rename_i s2 tree heq
              obtain ⟨_, h2⟩ := htree _ _ _ _ h1 heq
              obtain ⟨hF, h3⟩ := h2 tree rfl
              have h4 := foldl_inv P _ (fun a b ha => ih a b ha) (S.importsOf tree) _ h3
              generalize (S.importsOf tree).foldl (loadMod S f) _ = s3 at h4
              split
              · exact h4
              · by_cases hall : (S.importsOf tree).all (fun d => (List.lookup d s3.db).isSome) = true
                · simp only [hall, ↓reduceIte]
                  split
                  · rename_i s4 heq2
                    exact (hpre _ _ _ _ _ h4 hF (Or.inl hall) heq2).1
                  · rename_i s4 table heq2
                    exact (hpre _ _ _ _ _ h4 hF (Or.inl hall) heq2).2 table rfl
                · simp only [hall, Bool.false_eq_true, ↓reduceIte]
                  have h5 := hcyc _ h4
                  split
                  · rename_i s4 heq2
                    exact (hpre _ _ _ _ _ h5 hF (Or.inr rfl) heq2).1
                  · rename_i s4 table heq2
                    exact (hpre _ _ _ _ _ h5 hF (Or.inr rfl) heq2).2 table rfl

end Tranp.CacheFS

namespace Tranp.CacheFS
open Tranp

/-! ### hypotheses on the abstract functions and the tree-cache invariant -/

/-- a module key is a file path without extension: no `-` (module names are identifiers) and not the parser's cache key -/
def KeyOK (k : Str) : Prop := '-' ∉ k ∧ k ≠ parserKey

/-- md5 is injective on the identities of a history, hex digests contain no `-`; the decoders accept what the encoders
    wrote and reject every proper prefix of it (C05.truncate + "the decoder rejects unbalanced text"). -/
structure Hyp (S : Sem) : Prop where
  tree_inj : ∀ g t g' t', S.treeIdent g t = S.treeIdent g' t' → g = g' ∧ t = t'
  tree_nodash : ∀ g t, '-' ∉ S.treeIdent g t
  parser_nodash : ∀ g, '-' ∉ S.parserIdent g
  hash_inj : ∀ a b, S.hash a = S.hash b → a = b
  identL_inj : ∀ a b, S.identL a = S.identL b → a = b
  identL_nodash : ∀ hs, '-' ∉ S.identL hs
  valid_parse : ∀ src, S.valid (S.parse src) = true
  valid_analyse : ∀ k t vs, S.valid (S.analyse k t vs) = true
  prefix_invalid : ∀ d, S.valid d = true → ∀ k, k < d.length → S.valid (d.take k) = false

theorem prefix_valid_eq {S : Sem} (H : Hyp S) {d full : Str} (hp : d <+: full) (hf : S.valid full = true) (hd : S.valid d = true) :
    d = full := by
  by_cases hl : d.length < full.length
  · have : d = full.take d.length := by
      obtain ⟨t, rfl⟩ := hp
      simp
    rw [this, H.prefix_invalid full hf d.length hl] at hd
    exact absurd hd (by simp)
  · obtain ⟨t, rfl⟩ := hp
    have : t = [] := by
      simp only [List.length_append, Nat.not_lt] at hl
      exact List.eq_nil_of_length_eq_zero (by omega)
    simp [this]

/-- The tree cache is coherent: a file named by (grammar mtime, source mtime) of a module whose source carries exactly that
    mtime holds (a prefix of) the encoding of the fresh parse; mtimes named in the cache are older than the clock. -/
structure TInv (S : Sem) (w : World) : Prop where
  keys : ∀ k f, w.srcs.get? k = some f → KeyOK k
  fresh : ∀ k f, w.srcs.get? k = some f → f.mtime < w.clock
  tree : ∀ k g t f, KeyOK k → w.cache.get? (treePath S k g t) = some f →
    t < w.clock ∧ ∃ full, f.data <+: full ∧ S.valid full = true ∧
      (∀ sf, w.srcs.get? k = some sf → sf.mtime = t → g = w.grammarMtime → full = S.parse sf.data)

theorem treePath_inj {S : Sem} (H : Hyp S) {k k' : Str} {g t g' t' : Nat} (h : treePath S k g t = treePath S k' g' t') :
    k = k' ∧ g = g' ∧ t = t' := by
  obtain ⟨h1, h2⟩ := cachePath_inj (H.tree_nodash g t) (H.tree_nodash g' t') jsonExt_nodash h
  exact ⟨h1, H.tree_inj _ _ _ _ h2⟩

theorem treePath_ne_symPath {S : Sem} (H : Hyp S) {k k' : Str} {i : List Str} {g t : Nat} (hk : KeyOK k) :
    treePath S k g t ≠ symPath k' (S.identL i) :=
  cachePath_ne_symPath hk.1 (H.tree_nodash g t) (H.identL_nodash i) jsonExt_nodash

theorem treePath_ne_parserPath {S : Sem} (H : Hyp S) {k : Str} {g t g' : Nat} (hk : KeyOK k) :
    treePath S k g t ≠ parserPath S g' := by
  intro h
  have := dash_split (nodash_append (H.tree_nodash g t) jsonExt_nodash) (nodash_append (H.parser_nodash g') binExt_nodash) h
  exact hk.2 this.1

theorem TInv.erase {S : Sem} {w : World} (h : TInv S w) (p : Str) : TInv S { w with cache := w.cache.erase p } := by
  refine ⟨h.keys, h.fresh, ?_⟩
  intro k g t f hk hget
  simp only [Dir.get?_erase] at hget
  split at hget
  · simp at hget
  · exact h.tree k g t f hk hget

theorem TInv.eraseAll {S : Sem} {w : World} (h : TInv S w) (ps : List Str) : TInv S { w with cache := ps.foldl Dir.erase w.cache } := by
  induction ps generalizing w with
  | nil => exact h
  | cons p ps ih => exact ih (h.erase p)

/-- writing a file whose name is not the tree file of any module key -/
theorem TInv.put_other {S : Sem} {w : World} (h : TInv S w) (p : Str) (f : File)
    (hp : ∀ k g t, KeyOK k → treePath S k g t ≠ p) :
    TInv S { w with cache := w.cache.put p f, clock := w.clock + 1 } := by
  refine ⟨h.keys, fun k f hf => Nat.lt_succ_of_lt (h.fresh k f hf), ?_⟩
  intro k g t f' hk hget
  simp only at hget
  rw [Dir.get?_put_ne _ _ _ _ (hp k g t hk)] at hget
  obtain ⟨h1, h2⟩ := h.tree k g t f' hk hget
  exact ⟨Nat.lt_succ_of_lt h1, h2⟩

/-- writing the tree file of a module from a fresh parse of its current source -/
theorem TInv.put_tree {S : Sem} (H : Hyp S) {w : World} (h : TInv S w) (k : Str) (sf : File) (hsf : w.srcs.get? k = some sf) (m : Nat) :
    TInv S { w with cache := w.cache.put (treePath S k w.grammarMtime sf.mtime) ⟨S.parse sf.data, m⟩, clock := w.clock + 1 } := by
  refine ⟨h.keys, fun k f hf => Nat.lt_succ_of_lt (h.fresh k f hf), ?_⟩
  intro k' g t f' hk hget
  simp only at hget
  by_cases hp : treePath S k' g t = treePath S k w.grammarMtime sf.mtime
  · obtain ⟨rfl, rfl, rfl⟩ := treePath_inj H hp
    rw [Dir.get?_put_eq] at hget
    cases hget
    refine ⟨Nat.lt_succ_of_lt (h.fresh _ _ hsf), S.parse sf.data, List.prefix_refl _, H.valid_parse _, ?_⟩
    intro sf' hsf' _ _
    simp only at hsf'
    rw [hsf] at hsf'; cases hsf'; rfl
  · rw [Dir.get?_put_ne _ _ _ _ hp] at hget
    obtain ⟨h1, h2⟩ := h.tree k' g t f' hk hget
    exact ⟨Nat.lt_succ_of_lt h1, h2⟩

/-- an edit: new content, fresh mtime -/
theorem TInv.edit {S : Sem} {w : World} (h : TInv S w) (k src : Str) (hk : KeyOK k) :
    TInv S { w with srcs := w.srcs.put k ⟨src, w.clock⟩, clock := w.clock + 1 } := by
  refine ⟨?_, ?_, ?_⟩
  · intro k' f hf
    simp only at hf
    by_cases hkk : k' = k
    · subst hkk; exact hk
    · rw [Dir.get?_put_ne _ _ _ _ hkk] at hf; exact h.keys k' f hf
  · intro k' f hf
    simp only at hf ⊢
    by_cases hkk : k' = k
    · subst hkk; rw [Dir.get?_put_eq] at hf; cases hf; simp
    · rw [Dir.get?_put_ne _ _ _ _ hkk] at hf; exact Nat.lt_succ_of_lt (h.fresh k' f hf)
  · intro k' g t f hk' hget
    obtain ⟨h1, full, h2, h3, h4⟩ := h.tree k' g t f hk' hget
    refine ⟨Nat.lt_succ_of_lt h1, full, h2, h3, ?_⟩
    intro sf hsf hmt hg
    simp only at hsf hg
    by_cases hkk : k' = k
    · subst hkk; rw [Dir.get?_put_eq] at hsf; cases hsf
      simp only at hmt; omega
    · rw [Dir.get?_put_ne _ _ _ _ hkk] at hsf; exact h4 sf hsf hmt hg

/-- an interrupted write: the file keeps a proper prefix -/
theorem TInv.trunc {S : Sem} {w : World} (h : TInv S w) (p : Str) (f : File) (hf : w.cache.get? p = some f) (k : Nat) :
    TInv S { w with cache := w.cache.put p (truncFile f k) } := by
  refine ⟨h.keys, h.fresh, ?_⟩
  intro k' g t f' hk hget
  simp only at hget
  by_cases hp : treePath S k' g t = p
  · subst hp
    rw [Dir.get?_put_eq] at hget; cases hget
    obtain ⟨h1, full, h2, h3⟩ := h.tree k' g t f hk hf
    exact ⟨h1, full, List.IsPrefix.trans (List.take_prefix _ _) h2, h3⟩
  · rw [Dir.get?_put_ne _ _ _ _ hp] at hget
    exact h.tree k' g t f' hk hget

end Tranp.CacheFS

namespace Tranp.CacheFS
open Tranp

/-! ### the atomic cache actions preserve the tree invariant -/

theorem Sess.evict_eq (s : Sess) (ps : List Str) :
    s.evict ps = { s with w := { s.w with cache := ps.foldl Dir.erase s.w.cache }, log := s.log ++ ps.map (fun p => ('d', p)) } := by
  induction ps generalizing s with
  | nil => simp [Sess.evict]
  | cons p ps ih =>
    have : s.evict (p :: ps) = Sess.evict { (s.ev 'd' p) with w := { s.w with cache := s.w.cache.erase p } } ps := rfl
    rw [this, ih]
    simp [Sess.ev, List.append_assoc]

/-- session-level tree invariant: coherent world, sources and grammar as at the start of the run, every tree of the session is
    the fresh parse of its module's source -/
def TS (S : Sem) (w0 : World) (s : Sess) : Prop :=
  TInv S s.w ∧ s.w.srcs = w0.srcs ∧ s.w.grammarMtime = w0.grammarMtime ∧
    (∀ k t, (k, t) ∈ s.trees → ∃ sf, w0.srcs.get? k = some sf ∧ t = S.parse sf.data) ∧
    (∀ k i, (k, i) ∈ s.ids → '-' ∉ i)

theorem TS.fail {S : Sem} {w0 : World} {s : Sess} (h : TS S w0 s) (e : Err) : TS S w0 (s.fail e) := h
theorem TS.ev {S : Sem} {w0 : World} {s : Sess} (h : TS S w0 s) (k : Char) (p : Str) : TS S w0 (s.ev k p) := h

theorem TS.mkdirs {S : Sem} {w0 : World} {s : Sess} (h : TS S w0 s) (d : Str) : TS S w0 { s with w := s.w.mkdirs d } := by
  obtain ⟨h1, h2, h3, h4⟩ := h
  exact ⟨⟨h1.keys, h1.fresh, h1.tree⟩, h2, h3, h4⟩

theorem TS.evict {S : Sem} {w0 : World} {s : Sess} (h : TS S w0 s) (ps : List Str) : TS S w0 (s.evict ps) := by
  rw [Sess.evict_eq]
  obtain ⟨h1, h2, h3, h4⟩ := h
  exact ⟨h1.eraseAll ps, h2, h3, h4⟩

theorem TS.write {S : Sem} {w0 : World} {s : Sess} (h : TS S w0 s) (dir p data : Str)
    (hput : ∀ w m, TInv S w → w.srcs = w0.srcs → w.grammarMtime = w0.grammarMtime →
      TInv S { w with cache := w.cache.put p ⟨data, m⟩, clock := w.clock + 1 }) : TS S w0 (s.write dir p data) := by
  unfold Sess.write
  dsimp only
  split
  · obtain ⟨h1, h2, h3, h4⟩ := h
    exact ⟨hput _ _ h1 h2 h3, h2, h3, h4⟩
  · exact h

theorem cacheGet_TS {S : Sem} {w0 : World} {s : Sess} (h : TS S w0 s) (dir key ident ext fresh : Str) (bin : Bool)
    (hput : ∀ w m, TInv S w → w.srcs = w0.srcs → w.grammarMtime = w0.grammarMtime →
      TInv S { w with cache := w.cache.put (cachePath key ident ext) ⟨fresh, m⟩, clock := w.clock + 1 }) :
    TS S w0 (cacheGet S s dir key ident ext fresh bin).1 := by
  unfold cacheGet
  split
  · exact h
  · dsimp only
    split
    · split
      · exact h
      · exact h
    · exact TS.write (TS.evict (TS.mkdirs h dir) _) _ _ _ hput

/-- what `cacheGet` returns: the fresh value, or the content of a valid file of that name -/
theorem cacheGet_value {S : Sem} {s : Sess} {dir key ident ext fresh : Str} {bin : Bool} {v : Str}
    (h : (cacheGet S s dir key ident ext fresh bin).2 = some v) :
    v = fresh ∨ ∃ f, s.w.cache.get? (cachePath key ident ext) = some f ∧ S.valid f.data = true ∧ v = f.data := by
  unfold cacheGet at h
  split at h
  · left; simpa using h.symm
  · dsimp only at h
    split at h
    · rename_i f hf
      split at h
      · rename_i hv
        right; exact ⟨f, hf, hv, by simpa using h.symm⟩
      · simp at h
    · split at h
      · simp at h
      · left; simpa using h.symm

theorem cacheGet_trees {S : Sem} {s : Sess} {dir key ident ext fresh : Str} {bin : Bool} :
    (cacheGet S s dir key ident ext fresh bin).1.trees = s.trees ∧ (cacheGet S s dir key ident ext fresh bin).1.db = s.db ∧
    (cacheGet S s dir key ident ext fresh bin).1.cyc = s.cyc := by
  unfold cacheGet
  split
  · simp
  · dsimp only
    split
    · split <;> simp [Sess.ev, Sess.fail]
    · simp only [Sess.write, Sess.evict_eq, Sess.ev, Sess.fail]
      split <;> simp

end Tranp.CacheFS

namespace Tranp.CacheFS
open Tranp

/-- the fact `treeGet` establishes about the tree it returns -/
def FreshTree (S : Sem) (w0 : World) (key tree : Str) : Prop := ∃ sf, w0.srcs.get? key = some sf ∧ tree = S.parse sf.data

theorem TS.addTree {S : Sem} {w0 : World} {s : Sess} (h : TS S w0 s) {key tree : Str} (hF : FreshTree S w0 key tree) :
    TS S w0 { s with loaded := s.loaded ++ [key], trees := s.trees ++ [(key, tree)] } := by
  obtain ⟨h1, h2, h3, h4, h5⟩ := h
  refine ⟨h1, h2, h3, ?_, h5⟩
  intro k t hkt
  simp only [List.mem_append, List.mem_singleton, Prod.mk.injEq] at hkt
  rcases hkt with hkt | ⟨rfl, rfl⟩
  · exact h4 k t hkt
  · exact hF

theorem parserStep_TS {S : Sem} (H : Hyp S) {w0 : World} {s : Sess} (h : TS S w0 s) :
    TS S w0 (if s.parserUp then s else
      let (s', r) := cacheGet S s [] parserKey (S.parserIdent s.w.grammarMtime) binExt (S.parserBlob s.w.grammarMtime) true
      if r.isSome then { s' with parserUp := true } else s') := by
  split
  · exact h
  · have := cacheGet_TS (S := S) h [] parserKey (S.parserIdent s.w.grammarMtime) binExt (S.parserBlob s.w.grammarMtime) true
      (fun w m hw _ _ => hw.put_other _ _ (fun k g t hk => treePath_ne_parserPath H hk))
    generalize cacheGet S s [] parserKey (S.parserIdent s.w.grammarMtime) binExt (S.parserBlob s.w.grammarMtime) true = res at this
    obtain ⟨s', r⟩ := res
    dsimp only at this ⊢
    split
    · exact this
    · exact this

theorem treeGet_TS {S : Sem} (H : Hyp S) {w0 : World} {s : Sess} (h : TS S w0 s) (key : Str) {s' : Sess} {r : Option Str}
    (heq : treeGet S s key = (s', r)) :
    TS S w0 s' ∧ ∀ tree, r = some tree → FreshTree S w0 key tree ∧
      TS S w0 { s' with loaded := s'.loaded ++ [key], trees := s'.trees ++ [(key, tree)] } := by
  unfold treeGet at heq
  have h1 := parserStep_TS H h
  dsimp only at heq h1
  generalize (if s.parserUp then s else
      match cacheGet S s [] parserKey (S.parserIdent s.w.grammarMtime) binExt (S.parserBlob s.w.grammarMtime) true with
      | (s', r) => if r.isSome then { s' with parserUp := true } else s') = s1 at heq h1
  split at heq
  · cases heq; exact ⟨h1, fun _ h => by simp at h⟩
  · split at heq
    · cases heq; exact ⟨h1.fail _, fun _ h => by simp at h⟩
    · rename_i src hsrc
      have hsrc0 : w0.srcs.get? key = some src := by rw [← h1.2.1]; exact hsrc
      have hk : KeyOK key := h1.1.keys key src hsrc
      have h2 := cacheGet_TS (S := S) h1 (dirname key) key (S.treeIdent s1.w.grammarMtime src.mtime) jsonExt (S.parse src.data) false
        (fun w m hw hs hg => by
          have := hw.put_tree H key src (by rw [hs]; exact hsrc0) m
          have e : treePath S key w.grammarMtime src.mtime = cachePath key (S.treeIdent s1.w.grammarMtime src.mtime) jsonExt := by
            rw [hg, ← h1.2.2.1]; rfl
          rw [e] at this
          exact this)
      rw [heq] at h2
      refine ⟨h2, ?_⟩
      intro tree hr
      have hF : FreshTree S w0 key tree := by
        refine ⟨src, hsrc0, ?_⟩
        have hv : (cacheGet S s1 (dirname key) key (S.treeIdent s1.w.grammarMtime src.mtime) jsonExt (S.parse src.data) false).2 = some tree := by
          rw [heq]; exact hr
        rcases cacheGet_value hv with rfl | ⟨f, hf, hvalid, rfl⟩
        · rfl
        · obtain ⟨_, full, hp, hfv, hfull⟩ := h1.1.tree key _ _ f hk hf
          rw [prefix_valid_eq H hp hfv hvalid]
          exact hfull src hsrc rfl rfl
      exact ⟨hF, h2.addTree hF⟩

theorem lookup_mem' {α : Type} [BEq α] [LawfulBEq α] {β : Type} {k : α} {v : β} : ∀ {l : List (α × β)}, List.lookup k l = some v → (k, v) ∈ l
  | [], h => by simp [List.lookup] at h
  | (k', v') :: l, h => by
    simp only [List.lookup] at h
    split at h
    · rename_i hk
      have : k = k' := by simpa using hk
      cases h; subst this; simp
    · exact List.mem_cons_of_mem _ (lookup_mem' h)

/-- the identity functions touch nothing but the identity memo, and every digest they produce or cache is dash-free -/
def IdsNoDash (ids : List (Str × Str)) : Prop := ∀ k i, (k, i) ∈ ids → '-' ∉ i

theorem IdsNoDash.add {ids : List (Str × Str)} (h : IdsNoDash ids) (k i : Str) (hi : '-' ∉ i) : IdsNoDash (ids ++ [(k, i)]) := by
  intro k' i' hm
  simp only [List.mem_append, List.mem_singleton, Prod.mk.injEq] at hm
  rcases hm with hm | ⟨_, rfl⟩
  · exact h k' i' hm
  · exact hi

theorem depIdentity_frame {S : Sem} (H : Hyp S) (s : Sess) (d : Str) (hn : IdsNoDash s.ids) :
    ∃ ids', (depIdentity S s d).1 = { s with ids := ids' } ∧ IdsNoDash ids' ∧ ∀ i, (depIdentity S s d).2 = some i → '-' ∉ i := by
  unfold depIdentity
  split
  · rename_i i hl
    exact ⟨s.ids, rfl, hn, fun i' h => by cases h; exact hn d i (lookup_mem' hl)⟩
  · split
    · split
      · exact ⟨_, rfl, hn.add _ _ (H.identL_nodash _), fun i' h => by cases h; exact H.identL_nodash _⟩
      · exact ⟨s.ids, rfl, hn, fun _ h => by simp at h⟩
    · exact ⟨s.ids, rfl, hn, fun _ h => by simp at h⟩

theorem depIdentities_frame {S : Sem} (H : Hyp S) (s : Sess) (ds : List Str) (hn : IdsNoDash s.ids) :
    ∃ ids', (depIdentities S s ds).1 = { s with ids := ids' } ∧ IdsNoDash ids' := by
  induction ds generalizing s with
  | nil => exact ⟨s.ids, rfl, hn⟩
  | cons d ds ih =>
    unfold depIdentities
    obtain ⟨i1, h1, hn1, _⟩ := depIdentity_frame H s d hn
    generalize depIdentity S s d = r at h1
    obtain ⟨s1, o⟩ := r
    dsimp only at h1 ⊢
    subst h1
    cases o with
    | none => exact ⟨i1, rfl, hn1⟩
    | some i =>
      dsimp only
      obtain ⟨i2, h2, hn2⟩ := ih { s with ids := i1 } hn1
      generalize depIdentities S { s with ids := i1 } ds = r2 at h2
      obtain ⟨s2, o2⟩ := r2
      dsimp only at h2 ⊢
      subst h2
      cases o2 <;> exact ⟨i2, rfl, hn2⟩

theorem identityM_frame {S : Sem} (H : Hyp S) (s : Sess) (key tree : Str) (hn : IdsNoDash s.ids) :
    ∃ ids', (identityM S s key tree).1 = { s with ids := ids' } ∧ IdsNoDash ids' ∧ ∀ i, (identityM S s key tree).2 = some i → '-' ∉ i := by
  unfold identityM
  split
  · rename_i i hl
    exact ⟨s.ids, rfl, hn, fun i' h => by cases h; exact hn key i (lookup_mem' hl)⟩
  · split
    · exact ⟨s.ids, rfl, hn, fun _ h => by simp at h⟩
    · obtain ⟨i1, h1, hn1⟩ := depIdentities_frame H s (S.importsOf tree) hn
      generalize depIdentities S s (S.importsOf tree) = r at h1
      obtain ⟨s1, o⟩ := r
      dsimp only at h1 ⊢
      subst h1
      cases o with
      | none => exact ⟨i1, rfl, hn1, fun _ h => by simp at h⟩
      | some is => exact ⟨_, rfl, hn1.add _ _ (H.identL_nodash _), fun i' h => by cases h; exact H.identL_nodash _⟩

theorem preprocessWith_TS {S : Sem} (H : Hyp S) {w0 : World} {s : Sess} (h : TS S w0 s) (key tree : Str) (views : List Str)
    (ident : Str) (hident : '-' ∉ ident) {s' : Sess} {r : Option Str} (heq : preprocessWith S s key tree views ident = (s', r)) :
    TS S w0 s' ∧ ∀ table, r = some table → TS S w0 { s' with db := s'.db ++ [(key, table)] } := by
  have aux : ∀ s'', TS S w0 s'' → TS S w0 s'' ∧ ∀ table : Str, r = some table → TS S w0 { s'' with db := s''.db ++ [(key, table)] } :=
    fun s'' h'' => ⟨h'', fun _ _ => h''⟩
  unfold preprocessWith at heq
  dsimp only at heq
  split at heq
  · split at heq
    · split at heq
      · cases heq; exact aux _ h
      · cases heq; exact aux _ h
    · cases heq; exact aux _ h
  · split at heq
    · cases heq; exact aux _ h
    · cases heq
      apply aux
      exact TS.write (TS.evict h _) _ _ _ (fun w m hw _ _ => hw.put_other _ _ (fun k g t hk =>
        cachePath_ne_symPath hk.1 (H.tree_nodash g t) hident jsonExt_nodash))

theorem TS.setIds {S : Sem} {w0 : World} {s : Sess} (h : TS S w0 s) (ids' : List (Str × Str)) (hn : IdsNoDash ids') :
    TS S w0 { s with ids := ids' } := ⟨h.1, h.2.1, h.2.2.1, h.2.2.2.1, hn⟩

theorem preprocess_TS {S : Sem} (H : Hyp S) {w0 : World} {s : Sess} (h : TS S w0 s) (key tree : Str) (views : List Str)
    {s' : Sess} {r : Option Str} (heq : preprocess S s key tree views = (s', r)) :
    TS S w0 s' ∧ ∀ table, r = some table → TS S w0 { s' with db := s'.db ++ [(key, table)] } := by
  unfold preprocess at heq
  obtain ⟨ids', hf, hn, hd⟩ := identityM_frame H s key tree h.2.2.2.2
  generalize identityM S s key tree = ri at heq hf hd
  obtain ⟨s1, o⟩ := ri
  dsimp only at hf hd heq
  subst hf
  cases o with
  | none =>
    dsimp only at heq
    cases heq
    exact ⟨h.setIds ids' hn, fun _ hr => by simp at hr⟩
  | some ident =>
    dsimp only at heq
    exact preprocessWith_TS H (h.setIds ids' hn) key tree views ident (hd ident rfl) heq

end Tranp.CacheFS

namespace Tranp.CacheFS
open Tranp

/-! ### runs and histories preserve the tree invariant -/

theorem loadMod_TS {S : Sem} (H : Hyp S) {w0 : World} (f : Nat) (s : Sess) (key : Str) (h : TS S w0 s) : TS S w0 (loadMod S f s key) :=
  loadMod_inv S (TS S w0) (FreshTree S w0)
    (fun _ e hs => hs.fail e)
    (fun _ key _ _ hs heq => treeGet_TS H hs key heq)
    (fun _ hs => hs)
    (fun _ key tree _ _ hs _ _ heq => preprocess_TS H hs key tree _ heq)
    f s key h

theorem runTargets_TS {S : Sem} (H : Hyp S) {w0 : World} (targets : List Str) (s : Sess) (h : TS S w0 s) :
    TS S w0 (runTargets S s targets) := by
  unfold runTargets
  apply foldl_inv (TS S w0) _ _ _ _ h
  intro s key hs
  split
  · exact hs
  · have h1 := loadMod_TS H (fuelOf s.w) s key hs
    dsimp only
    generalize loadMod S (fuelOf s.w) s key = s1 at h1
    split
    · exact h1
    · split
      · obtain ⟨a, b, c, d⟩ := h1
        exact ⟨⟨a.keys, a.fresh, a.tree⟩, b, c, d⟩
      · exact h1

theorem run_TS {S : Sem} (H : Hyp S) (w : World) (force : Bool) (h : TInv S w) : TS S w (run S w force) := by
  unfold run
  exact runTargets_TS H _ _ ⟨h, rfl, rfl, fun _ _ hkt => by simp at hkt, fun _ _ hki => by simp at hki⟩

/-- the ops of a history that create files name module keys -/
def OpOK : Op → Prop
  | .edit k _ => KeyOK k
  | _ => True

theorem step_TInv {S : Sem} (H : Hyp S) (w : World) (op : Op) (hop : OpOK op) (h : TInv S w) : TInv S (step S w op) := by
  cases op with
  | edit k src => exact h.edit k src hop
  | run force => exact (run_TS H w force h).1
  | clear => exact ⟨h.keys, h.fresh, fun k g t f _ hget => by simp [step, World.clearCache, Dir.get?] at hget⟩
  | delete p => exact h.erase p
  | trunc p k =>
    simp only [step]
    split
    · rename_i f hf; exact h.trunc p f hf k
    · exact h
  | enable b => exact ⟨h.keys, h.fresh, h.tree⟩

theorem exec_TInv {S : Sem} (H : Hyp S) (w : World) (hist : List Op) (hok : ∀ op ∈ hist, OpOK op) (h : TInv S w) :
    TInv S (exec S w hist) := by
  induction hist generalizing w with
  | nil => exact h
  | cons op hist ih =>
    exact ih (step S w op) (fun o ho => hok o (by simp [ho])) (step_TInv H w op (hok op (by simp)) h)

theorem TInv.init {S : Sem} (w : World) (hc : w.cache = []) (hs : w.srcs = []) : TInv S w := by
  refine ⟨?_, ?_, ?_⟩
  · intro k f hf; simp [hs, Dir.get?] at hf
  · intro k f hf; simp [hs, Dir.get?] at hf
  · intro k g t f _ hf; simp [hc, Dir.get?] at hf

theorem exec_append (S : Sem) (w : World) (a b : List Op) : exec S w (a ++ b) = exec S (exec S w a) b := by
  simp [exec, List.foldl_append]

end Tranp.CacheFS

namespace Tranp.CacheFS
open Tranp

/-! ### the closure-keyed identity and the cache-free symbols, as relations over the sources -/

mutual
  /-- `IsId S srcs k i`: `i` is the identity of module `k` — the digest of the identities of its direct imports and of the
      hash of its own file — computed from the sources alone (exists iff the import closure is finite and acyclic) -/
  inductive IsId (S : Sem) (srcs : Dir) : Str → Str → Prop
    | mk {k : Str} {own : File} {is : List Str} (hown : srcs.get? k = some own)
        (hdeps : IsIds S srcs (S.importsOf (S.parse own.data)) is) : IsId S srcs k (S.identL (is ++ [S.hash own.data]))
  inductive IsIds (S : Sem) (srcs : Dir) : List Str → List Str → Prop
    | nil : IsIds S srcs [] []
    | cons {d i : Str} {ds is : List Str} (hd : IsId S srcs d i) (hds : IsIds S srcs ds is) : IsIds S srcs (d :: ds) (i :: is)
end

mutual
  /-- `IsTab S srcs k t`: `t` is the symbol table of module `k` analysed without any cache -/
  inductive IsTab (S : Sem) (srcs : Dir) : Str → Str → Prop
    | mk {k : Str} {own : File} {vs : List Str} (hown : srcs.get? k = some own)
        (hdeps : IsViews S srcs (S.importsOf (S.parse own.data)) vs) : IsTab S srcs k (S.analyse k (S.parse own.data) vs)
  inductive IsViews (S : Sem) (srcs : Dir) : List Str → List Str → Prop
    | nil : IsViews S srcs [] []
    | cons {d t : Str} {ds vs : List Str} (hd : IsTab S srcs d t) (hds : IsViews S srcs ds vs) : IsViews S srcs (d :: ds) (S.view t :: vs)
end

theorem IsId.inv {S : Sem} {srcs : Dir} {k i : Str} (h : IsId S srcs k i) :
    ∃ own is, srcs.get? k = some own ∧ IsIds S srcs (S.importsOf (S.parse own.data)) is ∧ i = S.identL (is ++ [S.hash own.data]) := by
  cases h with
  | mk hown hdeps => exact ⟨_, _, hown, hdeps, rfl⟩

theorem IsTab.inv {S : Sem} {srcs : Dir} {k t : Str} (h : IsTab S srcs k t) :
    ∃ own vs, srcs.get? k = some own ∧ IsViews S srcs (S.importsOf (S.parse own.data)) vs ∧ t = S.analyse k (S.parse own.data) vs := by
  cases h with
  | mk hown hdeps => exact ⟨_, _, hown, hdeps, rfl⟩

theorem IsIds.inv_cons {S : Sem} {srcs : Dir} {d : Str} {ds is : List Str} (h : IsIds S srcs (d :: ds) is) :
    ∃ i is', is = i :: is' ∧ IsId S srcs d i ∧ IsIds S srcs ds is' := by
  cases h with
  | cons hd hds => exact ⟨_, _, rfl, hd, hds⟩

theorem IsViews.inv_cons {S : Sem} {srcs : Dir} {d : Str} {ds vs : List Str} (h : IsViews S srcs (d :: ds) vs) :
    ∃ t vs', vs = S.view t :: vs' ∧ IsTab S srcs d t ∧ IsViews S srcs ds vs' := by
  cases h with
  | cons hd hds => exact ⟨_, _, rfl, hd, hds⟩

theorem IsViews.inv_nil {S : Sem} {srcs : Dir} {vs : List Str} (h : IsViews S srcs [] vs) : vs = [] := by
  cases h; rfl

/-- Key coverage of the closure-keyed identity: two source states that give a module the same identity give it the same
    cache-free symbol table (md5 injective). -/
theorem id_covers {S : Sem} (H : Hyp S) {srcs srcs' : Dir} {k i : Str} (h : IsId S srcs k i) :
    ∀ t t', IsId S srcs' k i → IsTab S srcs k t → IsTab S srcs' k t' → t = t' := by
  refine @IsId.rec S srcs
    (fun k i _ => ∀ t t', IsId S srcs' k i → IsTab S srcs k t → IsTab S srcs' k t' → t = t')
    (fun ds is _ => ∀ vs vs', IsIds S srcs' ds is → IsViews S srcs ds vs → IsViews S srcs' ds vs' → vs = vs')
    ?mk ?nil ?cons k i h
  case mk =>
    intro k own is hown hdeps ih t t' h2 ht ht'
    obtain ⟨own', is', hown', hdeps', hi⟩ := h2.inv
    obtain ⟨o1, vs, ho1, hv, rfl⟩ := ht.inv
    obtain ⟨o2, vs', ho2, hv', rfl⟩ := ht'.inv
    rw [hown] at ho1; cases ho1
    rw [hown'] at ho2; cases ho2
    have h1 := H.identL_inj _ _ hi
    obtain ⟨e1, e2⟩ := List.append_inj' h1 rfl
    have ed : own.data = own'.data := H.hash_inj _ _ (by simpa using e2)
    subst e1
    rw [← ed] at hdeps' hv' ⊢
    rw [ih vs vs' hdeps' hv hv']
  case nil =>
    intro vs vs' _ hv hv'
    rw [hv.inv_nil, hv'.inv_nil]
  case cons =>
    intro d i ds is hd hds ih1 ih2 vs vs' h2 hv hv'
    obtain ⟨i', is', e, hd', hds'⟩ := h2.inv_cons
    cases e
    obtain ⟨t, vs1, rfl, ht, hvs⟩ := hv.inv_cons
    obtain ⟨t', vs1', rfl, ht', hvs'⟩ := hv'.inv_cons
    rw [ih1 t t' hd' ht ht', ih2 vs1 vs1' hds' hvs hvs']

/-- the cache-free symbol table is unique -/
theorem tab_det {S : Sem} {srcs : Dir} {k t : Str} (h : IsTab S srcs k t) : ∀ t', IsTab S srcs k t' → t = t' := by
  refine @IsTab.rec S srcs
    (fun k t _ => ∀ t', IsTab S srcs k t' → t = t')
    (fun ds vs _ => ∀ vs', IsViews S srcs ds vs' → vs = vs')
    ?mk ?nil ?cons k t h
  case mk =>
    intro k own vs hown hdeps ih t' ht'
    obtain ⟨o2, vs', ho2, hv', rfl⟩ := ht'.inv
    rw [hown] at ho2; cases ho2
    rw [ih vs' hv']
  case nil =>
    intro vs' hv'
    rw [hv'.inv_nil]
  case cons =>
    intro d t ds vs hd hds ih1 ih2 vs' hv'
    obtain ⟨t', vs1', rfl, ht', hvs'⟩ := hv'.inv_cons
    rw [ih1 t' ht', ih2 vs1' hvs']

end Tranp.CacheFS

namespace Tranp.CacheFS
open Tranp

/-! ### coherence of the symbol files under the closure-keyed identity -/

/-- The content of `<key>-symbols-<ident>.json` is (a prefix of) the cache-free table of `key` for every source state in
    which `key` has the identity `ident`. Does not mention the current sources, hence stable under edits. -/
def SInv (S : Sem) (w : World) : Prop :=
  ∀ k ident f, '-' ∉ ident → w.cache.get? (symPath k ident) = some f →
    ∃ full, f.data <+: full ∧ S.valid full = true ∧ ∀ (srcs : Dir) t, IsId S srcs k ident → IsTab S srcs k t → full = t

theorem SInv.erase {S : Sem} {w : World} (h : SInv S w) (p : Str) : SInv S { w with cache := w.cache.erase p } := by
  intro k ident f hi hget
  simp only [Dir.get?_erase] at hget
  split at hget
  · simp at hget
  · exact h k ident f hi hget

theorem SInv.eraseAll {S : Sem} {w : World} (h : SInv S w) (ps : List Str) : SInv S { w with cache := ps.foldl Dir.erase w.cache } := by
  induction ps generalizing w with
  | nil => exact h
  | cons p ps ih => exact ih (h.erase p)

theorem SInv.put_other {S : Sem} {w : World} (h : SInv S w) (p : Str) (f : File) (c : Nat)
    (hp : ∀ k ident, '-' ∉ ident → symPath k ident ≠ p) : SInv S { w with cache := w.cache.put p f, clock := c } := by
  intro k ident f' hi hget
  simp only at hget
  rw [Dir.get?_put_ne _ _ _ _ (hp k ident hi)] at hget
  exact h k ident f' hi hget

theorem symPath_ne_cachePath {k ident key i e : Str} (hi : '-' ∉ ident) (hi' : '-' ∉ i) (he : '-' ∉ e) (hk : '-' ∉ key) :
    symPath k ident ≠ cachePath key i e := fun h => cachePath_ne_symPath hk hi' hi he h.symm

theorem SInv.put_sym {S : Sem} (H : Hyp S) {w : World} (h : SInv S w) (key ident table : Str) (m c : Nat) (hid : '-' ∉ ident)
    (hv : S.valid table = true) (srcs0 : Dir) (hI : IsId S srcs0 key ident) (hT : IsTab S srcs0 key table) :
    SInv S { w with cache := w.cache.put (symPath key ident) ⟨table, m⟩, clock := c } := by
  intro k ident' f hi hget
  simp only at hget
  by_cases hp : symPath k ident' = symPath key ident
  · obtain ⟨rfl, rfl⟩ := symPath_inj hi hid hp
    rw [Dir.get?_put_eq] at hget; cases hget
    exact ⟨table, List.prefix_refl _, hv, fun srcs t hI' hT' => id_covers H hI table t hI' hT hT'⟩
  · rw [Dir.get?_put_ne _ _ _ _ hp] at hget
    exact h k ident' f hi hget

theorem SInv.trunc {S : Sem} {w : World} (h : SInv S w) (p : Str) (f : File) (hf : w.cache.get? p = some f) (n : Nat) :
    SInv S { w with cache := w.cache.put p (truncFile f n) } := by
  intro k ident f' hi hget
  simp only at hget
  by_cases hp : symPath k ident = p
  · subst hp
    rw [Dir.get?_put_eq] at hget; cases hget
    obtain ⟨full, h2, h3⟩ := h k ident f hi hf
    exact ⟨full, List.IsPrefix.trans (List.take_prefix _ _) h2, h3⟩
  · rw [Dir.get?_put_ne _ _ _ _ hp] at hget
    exact h k ident f' hi hget

/-- every cached identity of the session is the closure-keyed identity of its module -/
def IdsOK (S : Sem) (w0 : World) (s : Sess) : Prop := ∀ k i, (k, i) ∈ s.ids → IsId S w0.srcs k i

/-- every table of the session's db is the cache-free one, and its module's identity is cached -/
def DbOK (S : Sem) (w0 : World) (s : Sess) : Prop :=
  ∀ k t, (k, t) ∈ s.db → IsTab S w0.srcs k t ∧ ∃ i, List.lookup k s.ids = some i

/-- session invariant for the symbol layer; the symbol part holds as long as no analysis ran inside an import cycle -/
def SS (S : Sem) (w0 : World) (s : Sess) : Prop :=
  TS S w0 s ∧ (s.cyc = false → SInv S s.w ∧ IdsOK S w0 s ∧ DbOK S w0 s)

theorem SInv_evict {S : Sem} {s : Sess} (h : SInv S s.w) (ps : List Str) : SInv S (s.evict ps).w := by
  rw [Sess.evict_eq]; exact h.eraseAll ps

theorem SInv_write {S : Sem} {s : Sess} (h : SInv S s.w) (dir p data : Str)
    (hput : ∀ w m c, SInv S w → SInv S { w with cache := w.cache.put p ⟨data, m⟩, clock := c }) :
    SInv S (s.write dir p data).w := by
  unfold Sess.write
  dsimp only
  split
  · exact hput _ _ _ h
  · exact h

theorem cacheGet_SInv {S : Sem} {s : Sess} (h : SInv S s.w) (dir key ident ext fresh : Str) (bin : Bool)
    (hput : ∀ w m c, SInv S w → SInv S { w with cache := w.cache.put (cachePath key ident ext) ⟨fresh, m⟩, clock := c }) :
    SInv S (cacheGet S s dir key ident ext fresh bin).1.w := by
  unfold cacheGet
  split
  · exact h
  · dsimp only
    split
    · split
      · exact h
      · exact h
    · exact SInv_write (SInv_evict (s := { s with w := s.w.mkdirs dir }) h _) _ _ _ hput

theorem parserKey_nodash : '-' ∉ parserKey := by decide

theorem cacheGet_rest {S : Sem} {s : Sess} {dir key ident ext fresh : Str} {bin : Bool} :
    (cacheGet S s dir key ident ext fresh bin).1.db = s.db ∧ (cacheGet S s dir key ident ext fresh bin).1.cyc = s.cyc ∧
    (cacheGet S s dir key ident ext fresh bin).1.ids = s.ids ∧ (cacheGet S s dir key ident ext fresh bin).1.w.srcs = s.w.srcs := by
  unfold cacheGet
  split
  · simp
  · dsimp only
    split
    · split <;> simp [Sess.ev, Sess.fail]
    · simp only [Sess.write, Sess.evict_eq, Sess.ev, Sess.fail, World.mkdirs]
      split <;> simp

theorem treeGet_sym {S : Sem} (H : Hyp S) {s : Sess} (key : Str) (hk : ∀ f, s.w.srcs.get? key = some f → KeyOK key) :
    (treeGet S s key).1.db = s.db ∧ (treeGet S s key).1.cyc = s.cyc ∧ (treeGet S s key).1.ids = s.ids ∧
      (SInv S s.w → SInv S (treeGet S s key).1.w) := by
  unfold treeGet
  have h1 : ∃ s1 : Sess, (if s.parserUp then s else
      match cacheGet S s [] parserKey (S.parserIdent s.w.grammarMtime) binExt (S.parserBlob s.w.grammarMtime) true with
      | (s', r) => if r.isSome then { s' with parserUp := true } else s') = s1 ∧ s1.db = s.db ∧ s1.cyc = s.cyc ∧ s1.ids = s.ids ∧
        s1.w.srcs = s.w.srcs ∧ (SInv S s.w → SInv S s1.w) := by
    split
    · exact ⟨s, rfl, rfl, rfl, rfl, rfl, id⟩
    · have hr := cacheGet_rest (S := S) (s := s) (dir := []) (key := parserKey) (ident := S.parserIdent s.w.grammarMtime) (ext := binExt)
        (fresh := S.parserBlob s.w.grammarMtime) (bin := true)
      have hsi : SInv S s.w → SInv S (cacheGet S s [] parserKey (S.parserIdent s.w.grammarMtime) binExt (S.parserBlob s.w.grammarMtime) true).1.w :=
        fun h => cacheGet_SInv h _ _ _ _ _ _
          (fun w m c hw => hw.put_other _ _ _ (fun k ident hi => symPath_ne_cachePath hi (H.parser_nodash _) binExt_nodash parserKey_nodash))
      generalize cacheGet S s [] parserKey (S.parserIdent s.w.grammarMtime) binExt (S.parserBlob s.w.grammarMtime) true = res at hr hsi
      obtain ⟨s', r⟩ := res
      dsimp only at hr hsi ⊢
      split
      · exact ⟨_, rfl, hr.1, hr.2.1, hr.2.2.1, hr.2.2.2, hsi⟩
      · exact ⟨_, rfl, hr.1, hr.2.1, hr.2.2.1, hr.2.2.2, hsi⟩
  obtain ⟨s1, he, hdb, hcyc, hids, hsrcs, hsinv⟩ := h1
  dsimp only
  rw [he]
  split
  · exact ⟨hdb, hcyc, hids, hsinv⟩
  · split
    · exact ⟨hdb, hcyc, hids, hsinv⟩
    · rename_i src hsrc
      have hkey : KeyOK key := hk src (by rw [← hsrcs]; exact hsrc)
      refine ⟨by rw [cacheGet_rest.1, hdb], by rw [cacheGet_rest.2.1, hcyc], by rw [cacheGet_rest.2.2.1, hids],
        fun h => cacheGet_SInv (hsinv h) _ _ _ _ _ _ ?_⟩
      exact fun w m c hw => hw.put_other _ _ _ (fun k ident hi => symPath_ne_cachePath hi (H.tree_nodash _ _) jsonExt_nodash hkey.1)

theorem treeGet_SS {S : Sem} (H : Hyp S) {w0 : World} {s : Sess} (h : SS S w0 s) (key : Str) {s' : Sess} {r : Option Str}
    (heq : treeGet S s key = (s', r)) :
    SS S w0 s' ∧ ∀ tree, r = some tree → FreshTree S w0 key tree ∧
      SS S w0 { s' with loaded := s'.loaded ++ [key], trees := s'.trees ++ [(key, tree)] } := by
  obtain ⟨hts, hsym⟩ := h
  obtain ⟨h1, h2⟩ := treeGet_TS H hts key heq
  have h3 := treeGet_sym H (s := s) key (fun f hf => hts.1.keys key f hf)
  rw [heq] at h3
  obtain ⟨hdb, hcyc, hids, hsinv⟩ := h3
  dsimp only at hdb hcyc hids hsinv
  have hS : s'.cyc = false → SInv S s'.w ∧ IdsOK S w0 s' ∧ DbOK S w0 s' := by
    intro hc
    obtain ⟨a, b, c⟩ := hsym (by rw [← hcyc]; exact hc)
    refine ⟨hsinv a, fun k i hki => b k i (by rw [← hids]; exact hki), fun k t hkt => ?_⟩
    have := c k t (by rw [← hdb]; exact hkt)
    rw [hids]; exact this
  exact ⟨⟨h1, hS⟩, fun tree hr => ⟨(h2 tree hr).1, (h2 tree hr).2, hS⟩⟩

end Tranp.CacheFS

namespace Tranp.CacheFS
open Tranp

theorem lookup_append_some {k v : Str} : ∀ {l l' : List (Str × Str)}, List.lookup k l = some v → List.lookup k (l ++ l') = some v
  | [], _, h => by simp [List.lookup] at h
  | (k', v') :: l, l', h => by
    simp only [List.cons_append, List.lookup] at h ⊢
    split
    · rename_i hk; simp only [hk] at h; exact h
    · rename_i hk; simp only [hk] at h; exact lookup_append_some h

theorem lookup_append_none {k v : Str} : ∀ {l : List (Str × Str)}, List.lookup k l = none → List.lookup k (l ++ [(k, v)]) = some v
  | [], _ => by simp [List.lookup]
  | (k', v') :: l, h => by
    simp only [List.cons_append, List.lookup] at h ⊢
    split
    · rename_i hk; simp only [hk] at h; cases h
    · rename_i hk; simp only [hk] at h; exact lookup_append_none h

theorem depIdentities_cached {S : Sem} {w0 : World} {s : Sess} (hdb : DbOK S w0 s) (hids : IdsOK S w0 s) (ims : List Str)
    (hall : ims.all (fun d => (List.lookup d s.db).isSome) = true) :
    ∃ is, depIdentities S s ims = (s, some is) ∧ IsIds S w0.srcs ims is := by
  induction ims with
  | nil => exact ⟨[], rfl, IsIds.nil⟩
  | cons d ims ih =>
    simp only [List.all_cons, Bool.and_eq_true] at hall
    obtain ⟨is, h1, h2⟩ := ih hall.2
    cases hl : List.lookup d s.db with
    | none => simp [hl] at hall
    | some t =>
      obtain ⟨_, i, hi⟩ := hdb d t (lookup_mem' hl)
      refine ⟨i :: is, ?_, IsIds.cons (hids d i (lookup_mem' hi)) h2⟩
      simp [depIdentities, depIdentity, hi, h1]

theorem viewsOf_isViews {S : Sem} {w0 : World} {s : Sess} (hdb : DbOK S w0 s) (ims : List Str)
    (hall : ims.all (fun d => (List.lookup d s.db).isSome) = true) : IsViews S w0.srcs ims (viewsOf S s.db ims) := by
  induction ims with
  | nil => exact IsViews.nil
  | cons d ims ih =>
    simp only [List.all_cons, Bool.and_eq_true] at hall
    cases hl : List.lookup d s.db with
    | none => simp [hl] at hall
    | some t =>
      have := IsViews.cons (hdb d t (lookup_mem' hl)).1 (ih hall.2)
      simpa [viewsOf, hl] using this

/-- in an acyclic session `identityM` answers the closure-keyed identity and leaves it cached -/
theorem identityM_ok {S : Sem} {w0 : World} {s : Sess} (hsrcs : s.w.srcs = w0.srcs) (hdb : DbOK S w0 s) (hids : IdsOK S w0 s)
    (key : Str) (sf : File) (hsf : w0.srcs.get? key = some sf)
    (hall : (S.importsOf (S.parse sf.data)).all (fun d => (List.lookup d s.db).isSome) = true) :
    ∃ ids' ident, identityM S s key (S.parse sf.data) = ({ s with ids := ids' }, some ident) ∧ IsId S w0.srcs key ident ∧
      List.lookup key ids' = some ident ∧ (∀ k i, List.lookup k s.ids = some i → List.lookup k ids' = some i) ∧
      (∀ k i, (k, i) ∈ ids' → IsId S w0.srcs k i) := by
  unfold identityM
  cases hl : List.lookup key s.ids with
  | some i =>
    exact ⟨s.ids, i, rfl, hids key i (lookup_mem' hl), hl, fun _ _ h => h, hids⟩
  | none =>
    dsimp only
    rw [hsrcs, hsf]
    obtain ⟨is, h1, h2⟩ := depIdentities_cached hdb hids _ hall
    rw [h1]
    dsimp only
    have hI : IsId S w0.srcs key (S.identL (is ++ [S.hash sf.data])) := IsId.mk hsf h2
    refine ⟨_, _, rfl, hI, lookup_append_none hl, fun _ _ h => lookup_append_some h, ?_⟩
    intro k i hm
    simp only [List.mem_append, List.mem_singleton, Prod.mk.injEq] at hm
    rcases hm with hm | ⟨rfl, rfl⟩
    · exact hids k i hm
    · exact hI

theorem preprocessWith_rest {S : Sem} (s : Sess) (key tree : Str) (views : List Str) (ident : Str) :
    (preprocessWith S s key tree views ident).1.cyc = s.cyc ∧ (preprocessWith S s key tree views ident).1.db = s.db ∧
      (preprocessWith S s key tree views ident).1.ids = s.ids := by
  unfold preprocessWith
  dsimp only
  split
  · split
    · split <;> exact ⟨rfl, rfl, rfl⟩
    · exact ⟨rfl, rfl, rfl⟩
  · split
    · exact ⟨rfl, rfl, rfl⟩
    · simp only [Sess.write, Sess.evict_eq, Sess.ev, Sess.fail]
      split <;> exact ⟨rfl, rfl, rfl⟩

theorem preprocess_cyc {S : Sem} {H : Hyp S} {w0 : World} (s : Sess) (hts : TS S w0 s) (key tree : Str) (views : List Str) :
    (preprocess S s key tree views).1.cyc = s.cyc := by
  unfold preprocess
  obtain ⟨ids', hf, _, _⟩ := identityM_frame H s key tree hts.2.2.2.2
  generalize identityM S s key tree = ri at hf
  obtain ⟨s1, o⟩ := ri
  dsimp only at hf ⊢
  subst hf
  cases o with
  | none => rfl
  | some ident => exact (preprocessWith_rest _ key tree views ident).1

/-- the persistor on a coherent cache: the world stays coherent and the returned table is the cache-free one -/
theorem preprocessWith_sym {S : Sem} (H : Hyp S) {w0 : World} {s : Sess} (hsinv : SInv S s.w) (key : Str) (sf : File)
    (views : List Str) (ident : Str) (hI : IsId S w0.srcs key ident) (hid : '-' ∉ ident)
    (hT : IsTab S w0.srcs key (S.analyse key (S.parse sf.data) views)) :
    SInv S (preprocessWith S s key (S.parse sf.data) views ident).1.w ∧
      ∀ table, (preprocessWith S s key (S.parse sf.data) views ident).2 = some table → IsTab S w0.srcs key table := by
  unfold preprocessWith
  dsimp only
  split
  · rename_i f hf
    split
    · split
      · rename_i hvalid
        refine ⟨hsinv, fun table hr => ?_⟩
        cases hr
        obtain ⟨full, hp, hfv, hfull⟩ := hsinv key ident f hid hf
        rw [prefix_valid_eq H hp hfv hvalid, hfull w0.srcs _ hI hT]
        exact hT
      · exact ⟨hsinv, fun _ h => by simp at h⟩
    · exact ⟨hsinv, fun table hr => by cases hr; exact hT⟩
  · split
    · exact ⟨hsinv, fun table hr => by cases hr; exact hT⟩
    · refine ⟨?_, fun table hr => ?_⟩
      · exact SInv_write (SInv_evict hsinv _) _ _ _
          (fun w m c hw => hw.put_sym H key ident _ m c hid (H.valid_analyse _ _ _) w0.srcs hI hT)
      · split at hr
        · simp at hr
        · cases hr; exact hT

theorem preprocess_SS {S : Sem} (H : Hyp S) {w0 : World} {s : Sess} (h : SS S w0 s)
    (key tree : Str) (hF : FreshTree S w0 key tree)
    (hall : (S.importsOf tree).all (fun d => (List.lookup d s.db).isSome) = true ∨ s.cyc = true)
    {s' : Sess} {r : Option Str} (heq : preprocess S s key tree (viewsOf S s.db (S.importsOf tree)) = (s', r)) :
    SS S w0 s' ∧ ∀ table, r = some table → SS S w0 { s' with db := s'.db ++ [(key, table)] } := by
  obtain ⟨hts, hsym⟩ := h
  obtain ⟨hT1, hT2⟩ := preprocess_TS H hts key tree _ heq
  have hcyc := preprocess_cyc (H := H) s hts key tree (viewsOf S s.db (S.importsOf tree))
  rw [heq] at hcyc
  dsimp only at hcyc
  by_cases hc : s.cyc = true
  · have : s'.cyc = true := by rw [hcyc]; exact hc
    exact ⟨⟨hT1, fun h' => by rw [this] at h'; cases h'⟩, fun table hr => ⟨hT2 table hr, fun h' => by
      have h'' : s'.cyc = false := h'
      rw [this] at h''; cases h''⟩⟩
  · have hc' : s.cyc = false := by simpa using hc
    have hall' : (S.importsOf tree).all (fun d => (List.lookup d s.db).isSome) = true := by
      rcases hall with h | h
      · exact h
      · exact absurd h hc
    obtain ⟨hsinv, hids, hdb⟩ := hsym hc'
    obtain ⟨sf, hsf, rfl⟩ := hF
    obtain ⟨ids', ident, hid, hI, hlk, hmono, hids'⟩ := identityM_ok hts.2.1 hdb hids key sf hsf hall'
    have hviews := viewsOf_isViews hdb _ hall'
    have hT : IsTab S w0.srcs key (S.analyse key (S.parse sf.data) (viewsOf S s.db (S.importsOf (S.parse sf.data)))) := IsTab.mk hsf hviews
    have hnd : '-' ∉ ident := by
      obtain ⟨_, is, _, _, e⟩ := hI.inv
      rw [e]; exact H.identL_nodash _
    unfold preprocess at heq
    rw [hid] at heq
    dsimp only at heq
    have hm := preprocessWith_sym H (s := { s with ids := ids' }) hsinv key sf (viewsOf S s.db (S.importsOf (S.parse sf.data))) ident hI hnd hT
    have hrest := preprocessWith_rest (S := S) { s with ids := ids' } key (S.parse sf.data) (viewsOf S s.db (S.importsOf (S.parse sf.data))) ident
    rw [heq] at hm hrest
    dsimp only at hm hrest
    obtain ⟨_, hdbeq, hidseq⟩ := hrest
    have hIds' : IdsOK S w0 s' := fun k i hki => hids' k i (by rw [← hidseq]; exact hki)
    have hDb' : DbOK S w0 s' := by
      intro k t hkt
      obtain ⟨a, i, hi⟩ := hdb k t (by rw [← hdbeq]; exact hkt)
      exact ⟨a, i, by rw [hidseq]; exact hmono k i hi⟩
    refine ⟨⟨hT1, fun _ => ⟨hm.1, hIds', hDb'⟩⟩, fun table hr => ⟨hT2 table hr, fun _ => ⟨hm.1, hIds', ?_⟩⟩⟩
    intro k t hkt
    simp only [List.mem_append, List.mem_singleton, Prod.mk.injEq] at hkt
    rcases hkt with hkt | ⟨rfl, rfl⟩
    · exact hDb' k t hkt
    · exact ⟨hm.2 t hr, ident, by rw [hidseq]; exact hlk⟩

end Tranp.CacheFS

namespace Tranp.CacheFS
open Tranp

theorem loadMod_SS {S : Sem} (H : Hyp S) {w0 : World} (f : Nat) (s : Sess) (key : Str) (h : SS S w0 s) : SS S w0 (loadMod S f s key) :=
  loadMod_inv S (SS S w0) (FreshTree S w0)
    (fun _ _ hs => hs)
    (fun _ key _ _ hs heq => treeGet_SS H hs key heq)
    (fun _ hs => ⟨hs.1, fun h => by cases h⟩)
    (fun _ key tree _ _ hs hF hall heq => preprocess_SS H hs key tree hF hall heq)
    f s key h

theorem runTargets_SS {S : Sem} (H : Hyp S) {w0 : World} (targets : List Str) (s : Sess) (h : SS S w0 s) :
    SS S w0 (runTargets S s targets) := by
  unfold runTargets
  apply foldl_inv (SS S w0) _ _ _ _ h
  intro s key hs
  split
  · exact hs
  · have h1 := loadMod_SS H (fuelOf s.w) s key hs
    dsimp only
    generalize loadMod S (fuelOf s.w) s key = s1 at h1
    split
    · exact h1
    · split
      · obtain ⟨⟨a, b, c, d⟩, e⟩ := h1
        exact ⟨⟨⟨a.keys, a.fresh, a.tree⟩, b, c, d⟩, e⟩
      · exact h1

/-- world-level invariant of both JSON layers -/
def WS (S : Sem) (w : World) : Prop := TInv S w ∧ SInv S w

theorem run_SS {S : Sem} (H : Hyp S) (w : World) (force : Bool) (h : WS S w) : SS S w (run S w force) := by
  unfold run
  exact runTargets_SS H _ _ ⟨⟨h.1, rfl, rfl, fun _ _ hkt => by simp at hkt, fun _ _ hki => by simp at hki⟩,
    fun _ => ⟨h.2, fun _ _ hki => by simp at hki, fun _ _ hkt => by simp at hkt⟩⟩

def OpAcyclic (S : Sem) (w : World) : Op → Prop
  | .run f => (run S w f).cyc = false
  | _ => True

/-- no run of the history analyses a module inside an import cycle -/
def Acyclic (S : Sem) : World → List Op → Prop
  | _, [] => True
  | w, op :: rest => OpAcyclic S w op ∧ Acyclic S (step S w op) rest

theorem step_WS {S : Sem} (H : Hyp S) (w : World) (op : Op) (hop : OpOK op) (hac : OpAcyclic S w op) (h : WS S w) :
    WS S (step S w op) := by
  refine ⟨step_TInv H w op hop h.1, ?_⟩
  cases op with
  | edit k src => exact h.2
  | run force => exact ((run_SS H w force h).2 hac).1
  | clear => intro k ident f _ hget; simp [step, World.clearCache, Dir.get?] at hget
  | delete p => exact h.2.erase p
  | trunc p k =>
    simp only [step]
    split
    · rename_i f hf; exact h.2.trunc p f hf k
    · exact h.2
  | enable b => exact h.2

theorem exec_WS {S : Sem} (H : Hyp S) (w : World) (hist : List Op) (hok : ∀ op ∈ hist, OpOK op) (hac : Acyclic S w hist)
    (h : WS S w) : WS S (exec S w hist) := by
  induction hist generalizing w with
  | nil => exact h
  | cons op hist ih =>
    exact ih (step S w op) (fun o ho => hok o (by simp [ho])) hac.2 (step_WS H w op (hok op (by simp)) hac.1 h)

theorem WS.init {S : Sem} (w : World) (hc : w.cache = []) (hs : w.srcs = []) : WS S w :=
  ⟨TInv.init w hc hs, fun k ident f _ hf => by simp [hc, Dir.get?] at hf⟩

/-! ### caching disabled -/

/-- nothing below the cache directory was opened, created or unlinked -/
def Quiet (c0 : Dir) (s : Sess) : Prop := s.log = [] ∧ s.w.cache = c0 ∧ s.w.enabled = false

theorem cacheGet_quiet {S : Sem} {c0 : Dir} {s : Sess} (h : Quiet c0 s) (dir key ident ext fresh : Str) (bin : Bool) :
    cacheGet S s dir key ident ext fresh bin = (s, some fresh) := by
  unfold cacheGet
  simp [h.2.2]

theorem treeGet_quiet {S : Sem} {c0 : Dir} {s : Sess} (h : Quiet c0 s) (key : Str) : Quiet c0 (treeGet S s key).1 := by
  unfold treeGet
  have h1 : Quiet c0 (if s.parserUp then s else
      match cacheGet S s [] parserKey (S.parserIdent s.w.grammarMtime) binExt (S.parserBlob s.w.grammarMtime) true with
      | (s', r) => if r.isSome then { s' with parserUp := true } else s') := by
    split
    · exact h
    · rw [cacheGet_quiet h]; exact h
  dsimp only
  generalize (if s.parserUp then s else
      match cacheGet S s [] parserKey (S.parserIdent s.w.grammarMtime) binExt (S.parserBlob s.w.grammarMtime) true with
      | (s', r) => if r.isSome then { s' with parserUp := true } else s') = s1 at h1
  split
  · exact h1
  · split
    · exact h1
    · rw [cacheGet_quiet h1]; exact h1

theorem identityM_quiet {S : Sem} {c0 : Dir} (s : Sess) (key tree : Str) (h : Quiet c0 s) : Quiet c0 (identityM S s key tree).1 := by
  have frame : ∀ (s : Sess) d, Quiet c0 s → Quiet c0 (depIdentity S s d).1 := by
    intro s d hs
    unfold depIdentity
    split
    · exact hs
    · split
      · split
        · exact hs
        · exact hs
      · exact hs
  have frames : ∀ (ds : List Str) (s : Sess), Quiet c0 s → Quiet c0 (depIdentities S s ds).1 := by
    intro ds
    induction ds with
    | nil => intro s hs; exact hs
    | cons d ds ih =>
      intro s hs
      unfold depIdentities
      have h1 := frame s d hs
      generalize depIdentity S s d = r at h1
      obtain ⟨s1, o⟩ := r
      cases o with
      | none => exact h1
      | some i =>
        dsimp only at h1 ⊢
        have h2 := ih s1 h1
        generalize depIdentities S s1 ds = r2 at h2
        obtain ⟨s2, o2⟩ := r2
        cases o2 <;> exact h2
  unfold identityM
  split
  · exact h
  · split
    · exact h
    · have h2 := frames (S.importsOf tree) s h
      generalize depIdentities S s (S.importsOf tree) = r at h2
      obtain ⟨s1, o⟩ := r
      cases o <;> exact h2

theorem preprocess_quiet {S : Sem} {c0 : Dir} {s : Sess} (h : Quiet c0 s) (key tree : Str) (views : List Str) :
    Quiet c0 (preprocess S s key tree views).1 := by
  unfold preprocess
  have h1 := identityM_quiet (S := S) s key tree h
  generalize identityM S s key tree = r at h1
  obtain ⟨s1, o⟩ := r
  cases o with
  | none => exact h1
  | some ident =>
    dsimp only at h1 ⊢
    unfold preprocessWith
    dsimp only
    split
    · simp only [h1.2.2, Bool.false_eq_true, ↓reduceIte]; exact h1
    · simp only [h1.2.2, Bool.not_false, ↓reduceIte]; exact h1

theorem loadMod_quiet {S : Sem} {c0 : Dir} (f : Nat) (s : Sess) (key : Str) (h : Quiet c0 s) : Quiet c0 (loadMod S f s key) :=
  loadMod_inv S (Quiet c0) (fun _ _ => True)
    (fun _ _ hs => hs)
    (fun s key s' r hs heq => by
      have := treeGet_quiet (S := S) hs key
      rw [heq] at this
      exact ⟨this, fun _ _ => ⟨trivial, this⟩⟩)
    (fun _ hs => hs)
    (fun s key tree s' r hs _ _ heq => by
      have := preprocess_quiet (S := S) hs key tree (viewsOf S s.db (S.importsOf tree))
      rw [heq] at this
      exact ⟨this, fun _ _ => this⟩)
    f s key h

theorem run_quiet {S : Sem} (w : World) (force : Bool) (he : w.enabled = false) : Quiet w.cache (run S w force) := by
  unfold run runTargets
  apply foldl_inv (Quiet w.cache) _ _ _ _ ⟨rfl, rfl, he⟩
  intro s key hs
  split
  · exact hs
  · have h1 := loadMod_quiet (S := S) (fuelOf s.w) s key hs
    dsimp only
    generalize loadMod S (fuelOf s.w) s key = s1 at h1
    split
    · exact h1
    · split
      · exact h1
      · exact h1

end Tranp.CacheFS

namespace Tranp.CacheFS
open Tranp

/-! ### the closure-keyed identity covers the symbols -/

theorem mid_covers {S : Sem} (H : Hyp S) (src src' : Str → Str) (f : Nat) (k : Str) (h : mid S src f k = mid S src' f k) :
    symPure S src f k = symPure S src' f k := by
  induction f generalizing k with
  | zero => rfl
  | succ f ih =>
    simp only [mid] at h
    have h1 := H.identL_inj _ _ h
    have hlen : ((S.importsOf (S.parse (src k))).map (mid S src f) ++ [S.hash (src k)]).length =
        ((S.importsOf (S.parse (src' k))).map (mid S src' f) ++ [S.hash (src' k)]).length := congrArg List.length h1
    obtain ⟨h2, h3⟩ := List.append_inj h1 (by simpa using hlen)
    have hs : src k = src' k := H.hash_inj _ _ (by simpa using h3)
    simp only [symPure, ← hs]
    rw [← hs] at h2
    congr 1
    apply List.map_congr_left
    intro d hd
    have : mid S src f d = mid S src' f d := List.map_inj_left.mp h2 d hd
    rw [ih d this]

end Tranp.CacheFS
