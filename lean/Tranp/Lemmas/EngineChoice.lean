/-
  How the matcher chooses among the derivations of the grammar (C11.T7): ordered choice takes the FIRST alternative that
  matches at the cursor, a `*` / `+` group repeats until its body no longer matches (or the tokens run out) — and nothing is
  ever reconsidered. Together with `sound_all` (Lemmas/EngineSound.lean) this pins the returned tree down as one specific
  derivation.
-/
import Tranp.Lemmas.Engine

namespace Tranp.Engine
open Tranp

/-- `_match_or` returns the result of the first entry that matches; every entry before it was tried at the same cursor and failed. -/
theorem or_first (env : Env) : ∀ (ps : List Pat) (fuel : Nat) (ctx : Ctx) (peek : Nat) (out : Out),
    matchOr env fuel ctx peek ps = .ok out → out.ok = true →
    ∃ pre p post f pk, ps = pre ++ p :: post ∧ matchEntry env f ctx pk p true = .ok out ∧
      ∀ q ∈ pre, ∃ f' pk' o, matchEntry env f' ctx pk' q true = .ok o ∧ o.ok = false := by
  intro ps
  induction ps with
  | nil =>
    intro fuel ctx peek out h hok
    cases fuel with
    | zero => simp [matchOr] at h
    | succ f => simp [matchOr] at h; subst h; simp [Out.ng] at hok
  | cons p ps ih =>
    intro fuel ctx peek out h hok
    cases fuel with
    | zero => simp [matchOr] at h
    | succ f =>
      simp only [matchOr] at h
      split at h
      · cases h
      · rename_i o ho
        split at h
        · simp only [Except.ok.injEq] at h; subst h
          exact ⟨[], p, ps, f, peek, rfl, ho, by simp⟩
        · rename_i hk
          obtain ⟨pre, p', post, f', pk', hps, hm, hpre⟩ := ih f ctx o.peek out h hok
          refine ⟨p :: pre, p', post, f', pk', by simp [hps], hm, ?_⟩
          intro q hq
          rcases List.mem_cons.mp hq with hq | hq
          · subst hq
            exact ⟨f, peek, o, ho, by simpa using hk⟩
          · exact hpre q hq

theorem repeatFinish_steps {rep : Rep} {found steps peek : Nat} {children : List Ast} {trace : List (Tok × Bool)}
    (h0 : found = 0 → steps = 0) (hok : (repeatFinish rep found steps children peek trace).ok = true) :
    (repeatFinish rep found steps children peek trace).steps = steps := by
  unfold repeatFinish at hok ⊢
  split
  · rename_i hf
    have := h0 (by simpa using hf)
    subst this
    split <;> simp_all [Out.ng]
  · rfl

/-- The `while` of `_match_repeat` for `*` / `+` ends only when no token is left or the body fails right where the loop stopped. -/
theorem repeat_greedy (env : Env) (es : List Pat) (op : Op) (rep : Rep) (hrep : rep = .overZero ∨ rep = .overOne) :
    ∀ (fuel : Nat) (ctx : Ctx) (peek found steps : Nat) (children : List Ast) (trace : List (Tok × Bool)) (out : Out),
    (found = 0 → steps = 0) →
    matchRepeat env fuel ctx peek es op rep found steps children trace = .ok out → out.ok = true →
    (ctx.rest.drop out.steps).isEmpty = true ∨
      ∃ f pk o, matchEntry env f (ctx.step out.steps) pk (.group es op rep) false = .ok o ∧ o.ok = false := by
  intro fuel
  induction fuel with
  | zero => intro ctx peek found steps children trace out _ h; simp [matchRepeat] at h
  | succ n ih =>
    intro ctx peek found steps children trace out h0 h hok
    simp only [matchRepeat] at h
    split at h
    · rename_i hemp
      simp only [Except.ok.injEq] at h; subst h
      left
      rw [repeatFinish_steps h0 hok]
      exact hemp
    · split at h
      · cases h
      · rename_i o ho
        split at h
        · rename_i hk
          have hnot : ¬ (rep = .oneOrZero ∨ rep = .oneOrEmpty) := by
            rcases hrep with hr | hr <;> subst hr <;> simp
          simp only [hnot, ↓reduceIte] at h
          exact ih ctx o.peek (found + 1) (steps + o.steps) _ _ out (by omega) h hok
        · rename_i hk
          simp only [Except.ok.injEq] at h; subst h
          right
          rw [repeatFinish_steps h0 hok]
          exact ⟨n, peek, o, ho, by simpa using hk⟩

end Tranp.Engine
