/-
  Helper lemmas for property C10: `ASTFinder.find` / `full_pathfy(entry, path, depth)` from an enumerated base path is the
  encoded enumeration of that subtree cut at `depth` (`under`), so every reported key is a full path of the whole tree.
-/
import Tranp.Lemmas.AstPath.Expand

namespace Tranp.AstPath
open Tranp Tranp.Str

mutual
theorem pathfySD_eq (d : Int) (e : Entry) (p : Path) (hp : WfPath p) (he : wfTagsB e = true) :
    pathfySD d e (encodePath p) = (under d e p).map encKV := by
  match e with
  | .tree t cs =>
    have hcs := (wfTagsB_tree t cs he).2
    simp only [pathfySD, under, List.map_cons]
    by_cases hd : (d == 0) = true
    · simp [hd, encKV]
    · simp only [hd, Bool.false_eq_true, if_false]
      rw [pathfySDList_eq (d - 1) cs cs 0 p hp hcs]
      rfl
  | .token t v => simp [pathfySD, under, encKV]
  | .empty => simp [pathfySD, under, encKV]
theorem pathfySDList_eq (d : Int) (all cs : List Entry) (i : Nat) (p : Path) (hp : WfPath p) (hcs : wfTagsListB cs = true) :
    pathfySDList d all cs i (encodePath p) = (underList d all cs i p).map encKV := by
  match cs with
  | [] => simp [pathfySDList, underList]
  | c :: rest =>
    simp only [wfTagsListB, Bool.and_eq_true] at hcs
    have hc := wfTagsB_name c hcs.1
    have hel : WfTag (elemFor all i c).tag := by rw [elemFor_tag]; exact hc
    have hin : (if countTag c.name all == 1 then dsnJoin [encodePath p, c.name]
        else dsnJoin [encodePath p, c.name ++ '[' :: Str.natToDec i ++ [']']])
        = encodePath (p ++ [elemFor all i c]) := by
      rw [← dsnJoin_encode_snoc p _ hp hel]
      unfold elemFor
      split <;> rfl
    simp only [pathfySDList, underList, List.map_append]
    rw [hin, pathfySD_eq d c _ (wfPath_snoc p _ hp hel) hcs.1, pathfySDList_eq d all rest (i+1) p hp hcs.2]
end

mutual
theorem wfTags_of_mem (e : Entry) (p : Path) (he : wfTagsB e = true) :
    ∀ q x, (q, x) ∈ pathfy e p → wfTagsB x = true := by
  intro q x h
  match e with
  | .tree t cs =>
    simp only [pathfy, List.mem_cons] at h
    rcases h with h | h
    · simp at h; rw [h.2]; exact he
    · exact wfTagsList_of_mem cs cs 0 p (wfTagsB_tree t cs he).2 q x h
  | .token t v => simp [pathfy] at h; rw [h.2]; exact he
  | .empty => simp [pathfy] at h; rw [h.2]; exact he
theorem wfTagsList_of_mem (all cs : List Entry) (i : Nat) (p : Path) (hcs : wfTagsListB cs = true) :
    ∀ q x, (q, x) ∈ pathfyList all cs i p → wfTagsB x = true := by
  intro q x h
  match cs with
  | [] => simp [pathfyList] at h
  | c :: rest =>
    simp only [wfTagsListB, Bool.and_eq_true] at hcs
    simp only [pathfyList, List.mem_append] at h
    rcases h with h | h
    · exact wfTags_of_mem c _ hcs.1 q x h
    · exact wfTagsList_of_mem all rest (i + 1) p hcs.2 q x h
end

/-- the keys of the enumeration cut at any depth are pairwise distinct -/
theorem under_keys_nodup' (d : Int) (e : Entry) (p : Path) (hp : WfPath p) (he : wfTagsB e = true) :
    (((under d e p).map encKV).map (·.1)).Nodup :=
  List.Nodup.sublist (((under_sublist d e p).map encKV).map (·.1)) (pathfy_keys_nodup e p hp he)

theorem mem_fullPathfy_of_mem (t : Entry) (h : WfTags t) (q : Path) (x : Entry) (hq : (q, x) ∈ pathfy t (rootPath t)) :
    (encodePath q, x) ∈ fullPathfy t := by
  rw [fullPathfy_eq t h]
  exact List.mem_map.2 ⟨(q, x), hq, rfl⟩

theorem ne_nil_of_mem_root (t : Entry) (q : Path) (x : Entry) (hq : (q, x) ∈ pathfy t (rootPath t)) : q ≠ [] := by
  obtain ⟨r, hr, _⟩ := pathfy_sound t _ q x hq
  rw [hr]; simp [rootPath]

/-- `find` from an enumerated base path: the encoded enumeration of that subtree, cut at `depth`, filtered -/
theorem findS_spec (t : Entry) (h : WfTags t) (q : Path) (x : Entry) (hq : (q, x) ∈ pathfy t (rootPath t))
    (tester : Entry → Str → Bool) (d : Int) :
    findS t (encodePath q) tester d = .ok (((under d x q).map encKV).filter (fun kv => tester kv.2 kv.1)) := by
  have hpl := pluckS_of_mem t h _ x (mem_fullPathfy_of_mem t h q x hq)
  have hwq := pathfy_wfPath t _ (wfPath_root t h) h q x hq
  have hx := wfTags_of_mem t _ h q x hq
  have hne : (encodePath q).isEmpty = false := by
    have := encodePath_ne_nil q hwq (ne_nil_of_mem_root t q x hq)
    cases hh : encodePath q with
    | nil => exact absurd hh this
    | cons a b => rfl
  simp only [findS, hpl, fullPathfyD, hne, Bool.false_eq_true, if_false]
  rw [pathfySD_eq d x q hwq hx, dictOfList_nodup _ (under_keys_nodup' d x q hwq hx)]

/-- every key `find` reports is a full path of the whole tree bound to that very entry, and looking it up returns it -/
theorem findS_sound (t : Entry) (h : WfTags t) (q : Path) (x : Entry) (hq : (q, x) ∈ pathfy t (rootPath t))
    (tester : Entry → Str → Bool) (d : Int) (l : List (Str × Entry)) (hl : findS t (encodePath q) tester d = .ok l) :
    ∀ s e, (s, e) ∈ l → (s, e) ∈ fullPathfy t ∧ pluckS t s = .ok e ∧ tester e s = true := by
  rw [findS_spec t h q x hq tester d] at hl
  injection hl with hl
  subst hl
  intro s e hm
  obtain ⟨hmem, htest⟩ := List.mem_filter.1 hm
  obtain ⟨⟨q', x'⟩, hq', heq⟩ := List.mem_map.1 hmem
  simp only [encKV, Prod.mk.injEq] at heq
  obtain ⟨rfl, rfl⟩ := heq
  have h1 : (q', x') ∈ pathfy x q := (under_sublist d x q).subset hq'
  have h2 : (q', x') ∈ pathfy t (rootPath t) := (subtree_sublist t _ q x hq).subset h1
  have h3 := mem_fullPathfy_of_mem t h q' x' h2
  exact ⟨h3, pluckS_of_mem t h _ _ h3, htest⟩

theorem finderExists_of_mem (t : Entry) (h : WfTags t) (s : Str) (e : Entry) (hm : (s, e) ∈ fullPathfy t) :
    finderExists t s = .ok true := by
  simp [finderExists, pluckS_of_mem t h s e hm]

end Tranp.AstPath
