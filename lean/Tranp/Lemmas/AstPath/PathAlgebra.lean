/-
  Helper lemmas for property C10: the `EntryPath` algebra (`identify`, `first`, `last`, `shift`, `joined`, `parent_tag`,
  `contains`, `consists_of_only`) on encoded well-formed paths acts as the corresponding list operation on elements.
-/
import Tranp.Lemmas.AstPath.Expand

namespace Tranp.AstPath
open Tranp Tranp.Str Tranp.StrCodec

theorem dsnJoin_map_encode (l : Path) : dsnJoin (l.map encodeElem) = encodePath l := rfl

theorem join_append_lists (d : Str) (xs ys : List Str) (hx : xs ≠ []) (hy : ys ≠ []) :
    join d (xs ++ ys) = join d xs ++ d ++ join d ys := by
  induction xs with
  | nil => exact absurd rfl hx
  | cons x rest ih =>
    cases rest with
    | nil =>
      cases ys with
      | nil => exact absurd rfl hy
      | cons y ys' => simp [join_cons_cons, join]
    | cons z zs =>
      have := ih (by simp)
      simp only [List.cons_append] at this ⊢
      rw [join_cons_cons, this, join_cons_cons]; simp

theorem encodePath_append (p r : Path) (hp : WfPath p) (hr : WfPath r) (hpn : p ≠ []) (hrn : r ≠ []) :
    encodePath (p ++ r) = encodePath p ++ dot ++ encodePath r := by
  have hpr : WfPath (p ++ r) := by
    intro el hel
    rw [List.mem_append] at hel
    exact hel.elim (hp el) (hr el)
  rw [encodePath_eq_join _ hpr, encodePath_eq_join p hp, encodePath_eq_join r hr, List.map_append,
    join_append_lists _ _ _ (by simpa using hpn) (by simpa using hrn)]

theorem encodePath_nil : encodePath [] = [] := rfl

theorem dsnJoin_pair (a b : Str) :
    dsnJoin [a, b] = if a = [] then b else if b = [] then a else a ++ dot ++ b := by
  cases a <;> cases b <;> simp [dsnJoin, join]

/-- `EntryPath.joined`: concatenation of element lists -/
theorem EP.joined_encode (p r : Path) (hp : WfPath p) (hr : WfPath r) :
    EP.joined (encodePath p) (encodePath r) = encodePath (p ++ r) := by
  unfold EP.joined
  rw [dsnJoin_pair]
  by_cases hpn : p = []
  · subst hpn; simp [encodePath_nil]
  · have h1 := encodePath_ne_nil p hp hpn
    by_cases hrn : r = []
    · subst hrn; simp [encodePath_nil, h1]
    · have h2 := encodePath_ne_nil r hr hrn
      simp only [h1, h2, if_false]
      exact (encodePath_append p r hp hr hpn hrn).symm

theorem intToDec_ofNat (i : Nat) : Str.intToDec (i : Int) = Str.natToDec i := by
  unfold Str.intToDec
  have : ¬ ((i : Int) < 0) := by omega
  simp [this]

/-- `EntryPath.identify` appends the indexed element, for every index -/
theorem EP.identify_encode (p : Path) (tag : Str) (i : Nat) (hp : WfPath p) (ht : WfTag tag) :
    EP.identify (encodePath p) tag (i : Int) = encodePath (p ++ [⟨tag, some i⟩]) := by
  unfold EP.identify
  rw [intToDec_ofNat]
  exact dsnJoin_encode_snoc p ⟨tag, some i⟩ hp ht

theorem EP.last_encode (p : Path) (el : Elem) (hp : WfPath (p ++ [el])) :
    EP.last (encodePath (p ++ [el])) = .ok (el.tag, el.idxInt) := by
  unfold EP.last
  rw [dsnElements_encodePath _ hp]
  simp only [List.map_append, List.map_cons, List.map_nil, List.getLast?_concat]
  exact breakTag_encodeElem el (hp el (by simp))

theorem EP.first_encode (el : Elem) (p : Path) (hp : WfPath (el :: p)) :
    EP.first (encodePath (el :: p)) = .ok (el.tag, el.idxInt) := by
  unfold EP.first
  rw [dsnElements_encodePath _ hp]
  simp only [List.map_cons, List.head?_cons]
  exact breakTag_encodeElem el (hp el (by simp))

theorem EP.shift_encode_pos (p : Path) (hp : WfPath p) (k : Nat) :
    EP.shift (encodePath p) (k : Int) = encodePath (p.drop k) := by
  unfold EP.shift
  rw [dsnElements_encodePath p hp]
  by_cases hk : k = 0
  · subst hk; simp [dsnJoin_map_encode]
  · have h0 : ((k : Int) == 0) = false := by simp; omega
    have h1 : (k : Int) > 0 := by omega
    simp only [h0, Bool.false_eq_true, if_false, h1, if_true, Int.toNat_natCast, ← List.map_drop, dsnJoin_map_encode]

theorem EP.shift_encode_neg (p : Path) (hp : WfPath p) (k : Nat) :
    EP.shift (encodePath p) (-((k + 1 : Nat) : Int)) = encodePath (p.take (p.length - (k + 1))) := by
  unfold EP.shift
  rw [dsnElements_encodePath p hp]
  have h0 : ((-((k + 1 : Nat) : Int)) == 0) = false := by simp; omega
  have h1 : ¬ (-((k + 1 : Nat) : Int)) > 0 := by omega
  have h2 : (- -((k + 1 : Nat) : Int)).toNat = k + 1 := by omega
  simp only [h0, Bool.false_eq_true, if_false, h1, h2, List.length_map, ← List.map_take, dsnJoin_map_encode]

theorem EP.parentTag_encode (p : Path) (a b : Elem) (hp : WfPath (p ++ [a, b])) :
    EP.parentTag (encodePath (p ++ [a, b])) = .ok a.tag := by
  unfold EP.parentTag
  have := EP.shift_encode_neg (p ++ [a, b]) hp 0
  simp only [Nat.zero_add, Int.natCast_one] at this
  rw [this]
  have htake : (p ++ [a, b]).take ((p ++ [a, b]).length - 1) = p ++ [a] := by
    have : p ++ [a, b] = (p ++ [a]) ++ [b] := by simp
    rw [this, List.length_append, List.length_singleton, Nat.add_sub_cancel, List.take_left']
    rfl
  rw [htake, EP.last_encode p a (fun el hel => hp el (by
    rw [List.mem_append] at hel ⊢
    rcases hel with h | h
    · exact Or.inl h
    · right; simp at h; simp [h]))]
  rfl

theorem EP.contains_encode (p : Path) (hp : WfPath p) (t : Str) :
    EP.contains (encodePath p) t = true ↔ ∃ el ∈ p, el.tag = t := by
  unfold EP.contains EP.deIdentify
  rw [dsnElements_strip p hp, List.contains_iff_mem, List.mem_map]

theorem EP.consistsOfOnly_encode (p : Path) (hp : WfPath p) (ts : List Str) :
    EP.consistsOfOnly (encodePath p) ts = true ↔ ∀ el ∈ p, el.tag ∈ ts := by
  unfold EP.consistsOfOnly EP.deIdentify
  rw [dsnElements_strip p hp, List.all_eq_true]
  constructor
  · intro h el hel
    have := h el.tag (List.mem_map.2 ⟨el, hel, rfl⟩)
    simpa using this
  · intro h t ht
    obtain ⟨el, hel, rfl⟩ := List.mem_map.1 ht
    simpa using h el hel

end Tranp.AstPath
