/-
  Helper lemmas for property C10, `full_pathfy` / `pluck` on strings and the `EntryCache` built from it:
  the cache's entry list is the enumeration itself, ids are positions in it.
-/
import Tranp.Lemmas.AstPath.Bijection

namespace Tranp.AstPath
open Tranp Tranp.Str Tranp.StrCodec

/-- the element list of the root path: `full_pathfy` starts at `entry.name` -/
def rootPath (t : Entry) : Path := [⟨t.name, none⟩]

theorem wfPath_root (t : Entry) (h : WfTags t) : WfPath (rootPath t) := by
  intro el hel
  simp [rootPath] at hel
  rw [hel]; exact wfTagsB_name t h

theorem encodePath_root (t : Entry) (h : WfTags t) : encodePath (rootPath t) = t.name := by
  have hne := (wfTagsB_name t h).1
  unfold encodePath dsnJoin rootPath
  cases hn : t.name with
  | nil => exact absurd hn hne
  | cons a as => simp [encodeElem, join]

/-- `pathfyS` from the root name is the encoded abstract enumeration -/
theorem pathfyS_root (t : Entry) (h : WfTags t) :
    pathfyS t t.name = (pathfy t (rootPath t)).map encKV := by
  rw [← pathfyS_eq t (rootPath t) (wfPath_root t h) h, encodePath_root t h]

/-- the dict `full_pathfy` returns holds exactly the insertions, in order -/
theorem fullPathfy_eq (t : Entry) (h : WfTags t) :
    fullPathfy t = (pathfy t (rootPath t)).map encKV := by
  unfold fullPathfy
  rw [pathfyS_root t h]
  exact dictOfList_nodup _ (pathfy_keys_nodup t _ (wfPath_root t h) h)

theorem fullPathfy_keys_nodup (t : Entry) (h : WfTags t) : ((fullPathfy t).map (·.1)).Nodup := by
  rw [fullPathfy_eq t h]; exact pathfy_keys_nodup t _ (wfPath_root t h) h

theorem fullPathfy_length (t : Entry) (h : WfTags t) : (fullPathfy t).length = size t := by
  rw [fullPathfy_eq t h, List.length_map, pathfy_length]

theorem pluckS_of_mem (t : Entry) (h : WfTags t) (s : Str) (e : Entry) (hm : (s, e) ∈ fullPathfy t) :
    pluckS t s = .ok e := by
  rw [fullPathfy_eq t h] at hm
  obtain ⟨⟨q, x⟩, hqx, heq⟩ := List.mem_map.1 hm
  simp only [encKV, Prod.mk.injEq] at heq
  obtain ⟨rfl, rfl⟩ := heq
  have hwq := pathfy_wfPath t _ (wfPath_root t h) h q x hqx
  obtain ⟨r, hq, hr⟩ := pathfy_sound t _ q x hqx
  subst hq
  have hwr : WfPath r := fun el hel => hwq el (by simp [hel])
  unfold pluckS
  split
  · rename_i hname
    rw [← encodePath_root t h] at hname
    have := encodePath_inj _ _ (wfPath_root t h) hwq hname
    have hr0 : r = [] := by simpa [rootPath] using this
    subst hr0
    simp [pluckRel] at hr
    rw [hr]
  · rw [dsnElements_encodePath _ hwq]
    simp only [rootPath, List.map_cons, List.singleton_append, List.tail_cons]
    exact pluckRaw_encode r t x hwr hr

/-! ### the cache -/

theorem dictGet?_of_mem_nodup {α : Type} (l : List (Str × α)) (s : Str) (v : α)
    (hnd : (l.map (·.1)).Nodup) (h : (s, v) ∈ l) : dictGet? l s = some v := by
  induction l with
  | nil => simp at h
  | cons kv rest ih =>
    simp only [List.map_cons, List.nodup_cons] at hnd
    simp only [List.mem_cons] at h
    unfold dictGet?
    rcases h with h | h
    · subst h; simp
    · have hne : ¬ kv.1 = s := by
        intro e; apply hnd.1; rw [e]; exact List.mem_map.2 ⟨(s, v), h, rfl⟩
      have := ih hnd.2 h
      unfold dictGet? at this
      simp [hne, this]

theorem findIdx?_key_nodup {α : Type} (l : List (Str × α)) (i : Nat) (s : Str) (v : α)
    (hnd : (l.map (·.1)).Nodup) (h : l[i]? = some (s, v)) :
    l.findIdx? (fun kv => kv.1 == s) = some i := by
  induction l generalizing i with
  | nil => simp at h
  | cons kv rest ih =>
    simp only [List.map_cons, List.nodup_cons] at hnd
    cases i with
    | zero => simp at h; subst h; simp [List.findIdx?_cons]
    | succ j =>
      simp at h
      have hne : ¬ kv.1 = s := by
        intro e; apply hnd.1; rw [e]; exact List.mem_map.2 ⟨(s, v), List.mem_of_getElem? h, rfl⟩
      simp [List.findIdx?_cons, hne, ih j hnd.2 h]

theorem Cache.add_entries_fresh (c : Cache) (p : Str) (e : Entry) (h : p ∉ c.entries.map (·.1)) :
    (c.add p e).entries = c.entries ++ [(p, e)] := by
  unfold Cache.add
  have : c.exists_ p = false := by
    unfold Cache.exists_
    rw [List.any_eq_false]
    intro kv hkv hk
    simp at hk
    exact h (List.mem_map.2 ⟨kv, hkv, hk⟩)
  simp [this]

theorem foldl_add_entries (kvs : List (Str × Entry)) (c : Cache) (h : ((c.entries ++ kvs).map (·.1)).Nodup) :
    (kvs.foldl (fun c kv => c.add kv.1 kv.2) c).entries = c.entries ++ kvs := by
  induction kvs generalizing c with
  | nil => simp
  | cons kv rest ih =>
    simp only [List.foldl_cons]
    have hfresh : kv.1 ∉ c.entries.map (·.1) := by
      intro hm
      rw [List.map_append, List.nodup_append] at h
      exact h.2.2 _ hm _ (by simp) rfl
    rw [ih]
    · rw [Cache.add_entries_fresh c kv.1 kv.2 hfresh]; simp
    · rw [Cache.add_entries_fresh c kv.1 kv.2 hfresh]; simpa using h

/-- the `EntryCache` of `Nodes` holds the `full_pathfy` dict, in the same order -/
theorem mkCache_entries (t : Entry) (h : WfTags t) : (mkCache t).entries = fullPathfy t := by
  unfold mkCache
  rw [foldl_add_entries]
  · rfl
  · simpa using fullPathfy_keys_nodup t h

theorem mkCache_indexOf (t : Entry) (h : WfTags t) (i : Nat) (s : Str) (e : Entry)
    (hi : (fullPathfy t)[i]? = some (s, e)) : (mkCache t).indexOf s = (i : Int) := by
  unfold Cache.indexOf
  rw [mkCache_entries t h, findIdx?_key_nodup _ i s e (fullPathfy_keys_nodup t h) hi]

theorem mkCache_by (t : Entry) (h : WfTags t) (s : Str) (e : Entry)
    (hm : (s, e) ∈ fullPathfy t) : (mkCache t).by_ s = .ok e := by
  unfold Cache.by_
  rw [mkCache_entries t h, dictGet?_of_mem_nodup _ s e (fullPathfy_keys_nodup t h) hm]

end Tranp.AstPath
