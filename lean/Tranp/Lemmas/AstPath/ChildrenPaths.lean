/-
  Helper lemmas for property C10: `Nodes.children` (before resolution) on the cache built from `full_pathfy`
  returns the paths `p ++ [element of child i]` in child order.
-/
import Tranp.Lemmas.AstPath.CacheChildren

namespace Tranp.AstPath
open Tranp Tranp.Str Tranp.StrCodec

/-- the enumerated element paths of a tree, rooted at its name -/
def enumPaths (t : Entry) : List Path := (pathfy t (rootPath t)).map (·.1)

theorem enum_wf (t : Entry) (h : WfTags t) (q : Path) (x : Entry) (hq : (q, x) ∈ pathfy t (rootPath t)) :
    WfPath q ∧ q ≠ [] := by
  refine ⟨pathfy_wfPath t _ (wfPath_root t h) h q x hq, ?_⟩
  obtain ⟨r, hr, _⟩ := pathfy_sound t _ q x hq
  rw [hr]; simp [rootPath]

theorem mem_fullPathfy_of_enum (t : Entry) (h : WfTags t) (q : Path) (x : Entry)
    (hq : (q, x) ∈ pathfy t (rootPath t)) : (encodePath q, x) ∈ fullPathfy t := by
  rw [fullPathfy_eq t h]
  exact List.mem_map.2 ⟨(q, x), hq, rfl⟩

theorem mkCache_children (t : Entry) (h : WfTags t) :
    (mkCache t).children = childrenSpec (enumPaths t) ∧ Closed (enumPaths t) := by
  unfold mkCache
  rw [fullPathfy_eq t h, List.foldl_map]
  have := foldl_add_children (pathfy t (rootPath t)) [] {} rfl rfl Closed.nil
    (pathfy_PF t _ [] (by simp [rootPath])) (by simpa using pathfy_nodup t (rootPath t))
    (by
      intro q hq
      obtain ⟨⟨q', x⟩, hqx, rfl⟩ := List.mem_map.1 hq
      exact enum_wf t h q' x hqx)
  simpa [enumPaths, encKV] using this

/-- `__children[p]` of the cache: the encoded elements of the children of the entry at `p`, in child order -/
theorem mkCache_childKeys (t : Entry) (h : WfTags t) (q : Path) (x : Entry)
    (hq : (q, x) ∈ pathfy t (rootPath t)) :
    (mkCache t).childKeys (encodePath q) = (childElems x).map encodeElem := by
  obtain ⟨hch, hcl⟩ := mkCache_children t h
  have hmem : q ∈ enumPaths t := List.mem_map.2 ⟨(q, x), hq, rfl⟩
  unfold Cache.childKeys
  rw [hch, childrenSpec_get _ hcl q hmem]
  simp only [Option.getD_some, kidsS, enumPaths]
  rw [pathfy_kids t _ (by simp [rootPath]) q x hq]

/-- every child element leads to an enumerated path, and the entry there is the child itself -/
theorem child_enumerated (t : Entry) (_h : WfTags t) (q : Path) (x : Entry)
    (hq : (q, x) ∈ pathfy t (rootPath t)) (el : Elem) (hel : el ∈ childElems x) :
    ∃ ce, (q ++ [el], ce) ∈ pathfy t (rootPath t) ∧ stepInto x el = some ce := by
  have hk := pathfy_kids t _ (by simp [rootPath]) q x hq
  rw [← hk, mem_kidsE] at hel
  obtain ⟨⟨q', ce⟩, hqc, hq'⟩ := List.mem_map.1 hel
  simp only at hq'; subst hq'
  refine ⟨ce, hqc, ?_⟩
  obtain ⟨r, hr, hpr⟩ := pathfy_sound t _ q x hq
  obtain ⟨r', hr', hpr'⟩ := pathfy_sound t _ _ ce hqc
  rw [hr, List.append_assoc] at hr'
  have := List.append_cancel_left hr'
  subst this
  rw [pluckRel_append, hpr] at hpr'
  simpa [pluckRel] using hpr'

theorem mapM_ok {α β γ : Type} (l : List α) (f : α → Except Err β) (k : α → γ) (g : β → γ)
    (H : ∀ a ∈ l, ∃ b, f a = .ok b ∧ g b = k a) : ∃ bs, l.mapM f = .ok bs ∧ bs.map g = l.map k := by
  induction l with
  | nil => exact ⟨[], by simp [pure, Except.pure], rfl⟩
  | cons a rest ih =>
    obtain ⟨b, hb, hgb⟩ := H a (by simp)
    obtain ⟨bs, hbs, hm⟩ := ih (fun a' ha' => H a' (by simp [ha']))
    refine ⟨b :: bs, ?_, by simp [hgb, hm]⟩
    simp [List.mapM_cons, hb, hbs, bind, Except.bind, pure, Except.pure]

theorem count_append (d : Char) (a b : Str) : count d (a ++ b) = count d a + count d b := by
  simp [count, List.filter_append]

theorem count_not_mem (d : Char) (a : Str) (h : d ∉ a) : count d a = 0 := by
  unfold count
  rw [List.length_eq_zero_iff, List.filter_eq_nil_iff]
  intro c hc hcd
  simp at hcd; subst hcd; exact h hc

theorem encodePath_snoc (q : Path) (el : Elem) (hq : WfPath q) (hne : q ≠ []) (hel : WfTag el.tag) :
    encodePath (q ++ [el]) = encodePath q ++ dot ++ encodeElem el := by
  rw [encodePath_eq_join _ (wfPath_snoc q el hq hel), encodePath_eq_join q hq, List.map_append,
    List.map_singleton, join_append_singleton _ _ _ (by simpa using hne)]

theorem count_dot_snoc (q : Path) (el : Elem) (hq : WfPath q) (hne : q ≠ []) (hel : WfTag el.tag) :
    count '.' (encodePath (q ++ [el])) = count '.' (encodePath q) + 1 := by
  rw [encodePath_snoc q el hq hne hel, count_append, count_append, count_not_mem '.' _ (encodeElem_no_dot el hel)]
  rfl

/-- `Nodes.children(via)` before resolution, on the cache of `Nodes.__init__`: exactly the paths of the children of the
    entry at `via`, in child order. -/
theorem childrenPaths_mkCache (t : Entry) (h : WfTags t) (w : World) (hw : w.cache = mkCache t)
    (q : Path) (x : Entry) (hq : (q, x) ∈ pathfy t (rootPath t)) :
    childrenPaths w (encodePath q) = .ok ((childElems x).map (fun el => encodePath (q ++ [el]))) := by
  obtain ⟨hqwf, hqne⟩ := enum_wf t h q x hq
  have hby := mkCache_by t h _ x (mem_fullPathfy_of_enum t h q x hq)
  have hel : ∀ el ∈ childElems x, WfTag el.tag ∧ ∃ ce, (mkCache t).by_ (encodePath (q ++ [el])) = .ok ce := by
    intro el hel
    obtain ⟨ce, hce, _⟩ := child_enumerated t h q x hq el hel
    exact ⟨(enum_wf t h _ ce hce).1 el (by simp), ce, mkCache_by t h _ ce (mem_fullPathfy_of_enum t h _ ce hce)⟩
  -- the `mapM` over the child keys succeeds and produces the child paths
  obtain ⟨kvs, hkvs, hfst⟩ := mapM_ok ((childElems x).map encodeElem)
    (fun key => do
      let path := dsnJoin [encodePath q, key]
      let ce ← (mkCache t).by_ path
      pure (path, ce))
    (fun key => dsnJoin [encodePath q, key]) (·.1)
    (by
      intro key hkey
      obtain ⟨el, hel', rfl⟩ := List.mem_map.1 hkey
      obtain ⟨hwf, ce, hce⟩ := hel el hel'
      refine ⟨(encodePath (q ++ [el]), ce), ?_, ?_⟩
      · simp only [dsnJoin_encode_snoc q el hqwf hwf, hce, bind, Except.bind, pure, Except.pure]
      · simp only [dsnJoin_encode_snoc q el hqwf hwf])
  have hfst' : kvs.map (·.1) = (childElems x).map (fun el => encodePath (q ++ [el])) := by
    rw [hfst, List.map_map]
    apply List.map_congr_left
    intro el hel'
    exact dsnJoin_encode_snoc q el hqwf (hel el hel').1
  -- keys of the group dict are pairwise distinct
  have hchild_nd : ((childElems x).map (fun el => encodePath (q ++ [el]))).Nodup := by
    have hnd : (childElems x).Nodup := by
      cases x with
      | tree tg cs => exact childElemsAux_nodup cs cs 0 (by simp)
      | token _ _ => simp [childElems]
      | empty => simp [childElems]
    unfold List.Nodup at hnd ⊢
    rw [List.pairwise_map]
    refine List.Pairwise.imp_of_mem ?_ hnd
    intro a b ha hb hab hcontra
    apply hab
    have := encodePath_inj _ _ (wfPath_snoc q a hqwf (hel a ha).1) (wfPath_snoc q b hqwf (hel b hb).1) hcontra
    simpa using this
  have hvia_notin : encodePath q ∉ (childElems x).map (fun el => encodePath (q ++ [el])) := by
    intro hm
    obtain ⟨el, hel', he⟩ := List.mem_map.1 hm
    have := encodePath_inj _ _ (wfPath_snoc q el hqwf (hel el hel').1) hqwf he
    have := congrArg List.length this
    simp at this
  have hdict : dictOfList ((encodePath q, x) :: kvs) = (encodePath q, x) :: kvs := by
    apply dictOfList_nodup
    simp only [List.map_cons, List.nodup_cons, hfst']
    exact ⟨hvia_notin, hchild_nd⟩
  unfold childrenPaths Cache.groupBy1
  rw [hw, mkCache_childKeys t h q x hq]
  simp only [bind, Except.bind, pure, Except.pure] at hkvs
  simp only [hby, bind, Except.bind, pure, Except.pure]
  simp only [hkvs, hdict]
  congr 1
  rw [List.filter_cons]
  have h0 : (count '.' (encodePath q) == count '.' (encodePath q) + 1) = false := by simp
  simp only [h0, Bool.false_eq_true, if_false]
  rw [← hfst']
  congr 1
  rw [List.filter_eq_self]
  intro kv hkv
  have : kv.1 ∈ kvs.map (·.1) := List.mem_map.2 ⟨kv, hkv, rfl⟩
  rw [hfst'] at this
  obtain ⟨el, hel', he⟩ := List.mem_map.1 this
  rw [← he, count_dot_snoc q el hqwf hqne (hel el hel').1]
  simp

theorem childElems_getElem? (tag : Str) (cs : List Entry) (i : Nat) :
    (childElems (.tree tag cs))[i]? = cs[i]?.map (fun c => elemFor cs i c) := by
  simp [childElems, childElemsAux_getElem?]

/-- the entry the cache holds at the path of child `i` is child `i` -/
theorem child_entry (t : Entry) (h : WfTags t) (q : Path) (tag : Str) (cs : List Entry)
    (hq : (q, .tree tag cs) ∈ pathfy t (rootPath t)) (i : Nat) (c : Entry) (hc : cs[i]? = some c) :
    (mkCache t).by_ (encodePath (q ++ [elemFor cs i c])) = .ok c := by
  have hel : elemFor cs i c ∈ childElems (.tree tag cs) := by
    apply List.mem_of_getElem? (i := i)
    rw [childElems_getElem?, hc]; rfl
  obtain ⟨ce, hce, hstep⟩ := child_enumerated t h q _ hq _ hel
  rw [step_elemFor tag cs i c hc] at hstep
  cases hstep
  exact mkCache_by t h _ c (mem_fullPathfy_of_enum t h _ c hce)

end Tranp.AstPath
