/-
  Helper lemmas for property C10: the query memo of `Nodes` is transparent — after any history every query returns what
  the memo-free, cache-free evaluation returns — because the generated memo keys determine the query.
-/
import Tranp.Model.NodesMemo
import Tranp.Lemmas.AstPath.Resolve

namespace Tranp.AstPath
open Tranp

/-! ### resolution of a path list does not depend on the instance cache -/

theorem nodeBy_error_of_by (w : World) (insts : List (Str × Str)) (p : Str) (er : Err)
    (hb : w.cache.by_ p = .error er) : nodeBy w insts p = .error er := by
  simp [nodeBy, hb, bind, Except.bind]

theorem resolvePaths_pure (w : World) (ps : List Str) (insts : List (Str × Str)) (h : InstsOk w insts) :
    (resolvePaths w insts ps).1 = (resolvePaths w [] ps).1 ∧ InstsOk w (resolvePaths w insts ps).2 := by
  have hnil : InstsOk w [] := fun _ _ hm => by simp at hm
  -- both sides equal the cache-free computation; state it for two arbitrary good caches
  suffices H : ∀ (ps : List Str) (i1 i2 : List (Str × Str)), InstsOk w i1 → InstsOk w i2 →
      (resolvePaths w i1 ps).1 = (resolvePaths w i2 ps).1 ∧ InstsOk w (resolvePaths w i1 ps).2 from H ps insts [] h hnil
  intro ps
  induction ps with
  | nil => intro i1 i2 h1 _; exact ⟨rfl, h1⟩
  | cons p rest ih =>
    intro i1 i2 h1 h2
    simp only [resolvePaths]
    cases hb : w.cache.by_ p with
    | error er =>
      rw [nodeBy_error_of_by w i1 p er hb, nodeBy_error_of_by w i2 p er hb]
      exact ⟨rfl, h1⟩
    | ok e =>
      have e1 := nodeBy_eq_classOf w i1 p e h1 hb
      have e2 := nodeBy_eq_classOf w i2 p e h2 hb
      cases hn1 : nodeBy w i1 p with
      | error er1 =>
        cases hn2 : nodeBy w i2 p with
        | error er2 =>
          rw [hn1] at e1; rw [hn2] at e2
          simp only [Except.map] at e1 e2
          have : Except.error (ε := Err) (α := Str) er1 = .error er2 := by rw [e1, e2]
          cases this
          exact ⟨rfl, h1⟩
        | ok r2 =>
          rw [hn1] at e1; rw [hn2] at e2
          simp only [Except.map] at e1 e2
          rw [← e1] at e2; cases e2
      | ok r1 =>
        obtain ⟨c1, j1⟩ := r1
        have hj1 := nodeBy_preserves w i1 j1 p c1 h1 hn1
        cases hn2 : nodeBy w i2 p with
        | error er2 =>
          rw [hn1] at e1; rw [hn2] at e2
          simp only [Except.map] at e1 e2
          rw [← e1] at e2; cases e2
        | ok r2 =>
          obtain ⟨c2, j2⟩ := r2
          have hj2 := nodeBy_preserves w i2 j2 p c2 h2 hn2
          rw [hn1] at e1; rw [hn2] at e2
          simp only [Except.map] at e1 e2
          have : Except.ok (ε := Err) c1 = .ok c2 := by rw [e1, e2]
          cases this
          obtain ⟨ihr, ihi⟩ := ih j1 j2 hj1 hj2
          simp only
          exact ⟨by rw [ihr], ihi⟩

theorem evalQuery_pure (w : World) (q : Query) (insts : List (Str × Str)) (h : InstsOk w insts) :
    (evalQuery w insts q).1 = evalPure w q ∧ InstsOk w (evalQuery w insts q).2 := by
  unfold evalPure
  cases q <;> simp only [evalQuery] <;>
    first
    | exact ⟨rfl, h⟩
    | exact ⟨trivial, h⟩
    | (split
       · exact ⟨rfl, h⟩
       · rename_i ps _
         obtain ⟨h1, h2⟩ := resolvePaths_pure w ps insts h
         exact ⟨by simp only [h1], h2⟩)

/-! ### the generated keys determine the query -/

theorem append_sep_inj (d : Char) (a a' b b' : Str) (ha : d ∉ a) (ha' : d ∉ a')
    (h : a ++ d :: b = a' ++ d :: b') : a = a' ∧ b = b' := by
  induction a generalizing a' with
  | nil =>
    cases a' with
    | nil => simpa using h
    | cons c cs => simp at h ha'; exact absurd h.1 (fun e => ha'.1 e)
  | cons x xs ih =>
    cases a' with
    | nil => simp at h ha; exact absurd h.1.symm (fun e => ha.1 e)
    | cons c cs =>
      simp at h ha ha'
      obtain ⟨h1, h2⟩ := ih cs ha.2 ha'.2 h.2
      exact ⟨by rw [h.1, h1], h2⟩

/-- two queries memoised under the same key are the same query (for `ancestor`: when `via` is free of `#`) -/
theorem memoKey_inj (q1 q2 : Query) (k : Str) (h1 : memoKey q1 = some k) (h2 : memoKey q2 = some k)
    (s1 : q1.keySafe) (s2 : q2.keySafe) : q1 = q2 := by
  cases q1 <;> cases q2 <;> simp only [memoKey, Option.some.injEq, reduceCtorEq] at h1 h2 <;>
    (subst h1) <;> simp only [List.cons_append, List.nil_append, List.cons.injEq, Char.reduceEq, false_and, and_false,
      true_and, List.append_assoc] at h2 <;>
    first
    | exact absurd h2 id
    | (subst h2; rfl)
    | (simp only [Query.keySafe] at s1 s2
       obtain ⟨ha, hb⟩ := append_sep_inj '#' _ _ _ _ s2 s1 h2
       rw [ha, hb])

/-! ### the memo invariant -/

/-- every slot is filed under the key of its own query and holds, if anything, the pure result of that query -/
def MemoOk (w : World) (s : NState) : Prop :=
  InstsOk w s.insts ∧
  ∀ k q0 r, (k, (q0, r)) ∈ s.memo → memoKey q0 = some k ∧ q0.keySafe ∧ ∀ out, r = some out → evalPure w q0 = .ok out

theorem memoOk_init (w : World) : MemoOk w {} :=
  ⟨fun _ _ hm => by simp at hm, fun _ _ _ hm => by simp at hm⟩

theorem mem_dictInsert {α : Type} (d : List (Str × α)) (k : Str) (v : α) (kv : Str × α) (h : kv ∈ dictInsert d k v) :
    kv ∈ d ∨ kv = (k, v) := by
  unfold dictInsert at h
  split at h
  · obtain ⟨x, hx, rfl⟩ := List.mem_map.1 h
    by_cases hk : (x.1 == k) = true
    · right; simp [hk]
    · left; simpa [hk] using hx
  · simpa using h

theorem runQuery_spec (w : World) (s : NState) (q : Query) (hs : MemoOk w s) (hq : q.keySafe) :
    (runQuery w s q).2 = evalPure w q ∧ MemoOk w (runQuery w s q).1 := by
  obtain ⟨hins, hmemo⟩ := hs
  unfold runQuery
  cases hk : memoKey q with
  | none =>
    obtain ⟨h1, h2⟩ := evalQuery_pure w q s.insts hins
    exact ⟨h1, h2, hmemo⟩
  | some k =>
    simp only
    -- the memo after `if key not in self._memos`
    have hmemo' : ∀ k' q0 r, (k', (q0, r)) ∈ (if (dictGet? s.memo k).isSome then s.memo else s.memo ++ [(k, (q, none))]) →
        memoKey q0 = some k' ∧ q0.keySafe ∧ ∀ out, r = some out → evalPure w q0 = .ok out := by
      intro k' q0 r hm
      split at hm
      · exact hmemo k' q0 r hm
      · rw [List.mem_append, List.mem_singleton] at hm
        rcases hm with hm | hm
        · exact hmemo k' q0 r hm
        · simp only [Prod.mk.injEq] at hm
          obtain ⟨rfl, rfl, rfl⟩ := hm
          exact ⟨hk, hq, fun _ h => by cases h⟩
    generalize hM : (if (dictGet? s.memo k).isSome then s.memo else s.memo ++ [(k, (q, none))]) = memo at hmemo'
    cases hg : dictGet? memo k with
    | none =>
      -- impossible: the key is present
      exfalso
      rw [← hM] at hg
      split at hg
      · rename_i hsome; rw [hg] at hsome; simp at hsome
      · unfold dictGet? at hg
        simp [List.find?_append] at hg
    | some slot =>
      obtain ⟨q0, r⟩ := slot
      have hmem := dictGet?_mem memo k (q0, r) hg
      obtain ⟨hkey, hsafe, hres⟩ := hmemo' k q0 r hmem
      have hq0 : q0 = q := memoKey_inj q0 q k hkey hk hsafe hq
      subst hq0
      cases r with
      | some out =>
        simp only
        exact ⟨(hres out rfl).symm, hins, hmemo'⟩
      | none =>
        simp only
        obtain ⟨h1, h2⟩ := evalQuery_pure w q0 s.insts hins
        cases he : (evalQuery w s.insts q0).1 with
        | error er =>
          simp only
          exact ⟨by rw [← h1, he], h2, hmemo'⟩
        | ok out =>
          simp only
          refine ⟨by rw [← h1, he], h2, ?_⟩
          intro k' q' r' hm
          rcases mem_dictInsert _ _ _ _ hm with hm | hm
          · exact hmemo' k' q' r' hm
          · simp only [Prod.mk.injEq] at hm
            obtain ⟨rfl, rfl, rfl⟩ := hm
            exact ⟨hkey, hsafe, fun o ho => by cases ho; rw [← h1, he]⟩

theorem runQueriesM_ok (w : World) (s : NState) (qs : List Query) (hs : MemoOk w s) (hq : ∀ q ∈ qs, q.keySafe) :
    MemoOk w (runQueriesM w s qs) := by
  induction qs generalizing s with
  | nil => exact hs
  | cons q rest ih =>
    simp only [runQueriesM]
    exact ih _ (runQuery_spec w s q hs (hq q (by simp))).2 (fun q' hq' => hq q' (by simp [hq']))

end Tranp.AstPath
