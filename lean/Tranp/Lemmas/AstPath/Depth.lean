/-
  Helper lemmas for property C10: when three levels are enough for `Nodes.expand` (`group_by(via, depth=3)`, query.py).
  `uheight` counts directly nested unresolvable tree entries; `expandAbs d` and the uncapped `expandFull` agree on an entry
  of `uheight ≤ d`; a tree that conforms to a child relation without three nested unresolvable tags has `uheight ≤ 2`
  everywhere.
-/
import Tranp.Lemmas.AstPath.Expand

namespace Tranp.AstPath
open Tranp Tranp.Str

theorem uheightList_le (canRes : Str → Bool) (k : Nat) (cs : List Entry) :
    uheightList canRes cs ≤ k ↔ ∀ c ∈ cs, uheight canRes c ≤ k := by
  induction cs with
  | nil => simp [uheightList]
  | cons c rest ih => simp [uheightList, Nat.max_le, ih]

theorem conformsListB_iff (rel : Str → Str → Bool) (t : Str) (cs : List Entry) :
    conformsListB rel t cs = true ↔ ∀ c ∈ cs, rel t c.name = true ∧ conformsB rel c = true := by
  induction cs with
  | nil => simp [conformsListB]
  | cons c rest ih => simp [conformsListB, Bool.and_eq_true, ih, and_assoc]

mutual
/-- looking `d` levels down is looking all the way down, on an entry with at most `d` nested unresolvable levels -/
theorem expandAbs_eq_full (canRes : Str → Bool) (d : Nat) (e : Entry) (p : Path) (h : uheight canRes e ≤ d) :
    expandAbs canRes d e p = expandFull canRes e p := by
  match e with
  | .tree t cs =>
    by_cases hr : canRes t = true
    · simp [expandAbs, expandFull, hr]
    · match cs with
      | [] => cases d <;> simp [expandAbs, expandFull, hr, expandAbsList, expandFullList]
      | c :: rest =>
        simp only [uheight, hr, List.isEmpty_cons, Bool.false_eq_true, if_false] at h
        match d with
        | 0 => omega
        | d' + 1 =>
          simp only [expandAbs, expandFull, hr, Bool.false_eq_true, if_false]
          exact expandAbsList_eq_full canRes d' (c :: rest) (c :: rest) 0 p (by omega)
  | .token t v => simp [expandAbs, expandFull]
  | .empty => simp [expandAbs, expandFull]
theorem expandAbsList_eq_full (canRes : Str → Bool) (d : Nat) (all cs : List Entry) (i : Nat) (p : Path)
    (h : uheightList canRes cs ≤ d) :
    expandAbsList canRes d all cs i p = expandFullList canRes all cs i p := by
  match cs with
  | [] => simp [expandAbsList, expandFullList]
  | c :: rest =>
    simp only [uheightList, Nat.max_le] at h
    simp only [expandAbsList, expandFullList]
    rw [expandAbs_eq_full canRes d c _ h.1, expandAbsList_eq_full canRes d all rest (i + 1) p h.2]
end

/-- the three levels of `expandOf … 3` are all levels when every child of `x` has at most two nested unresolvable levels -/
theorem expandOf_three_eq_full (canRes : Str → Bool) (x : Entry) (q : Path)
    (h : ∀ c ∈ x.children, uheight canRes c ≤ 2) :
    expandOf canRes 3 x q = expandFullOf canRes x q := by
  match x with
  | .tree t cs =>
    simp only [expandOf, expandFullOf]
    exact expandAbsList_eq_full canRes 2 cs cs 0 q ((uheightList_le canRes 2 cs).2 h)
  | .token t v => simp [expandOf, expandFullOf]
  | .empty => simp [expandOf, expandFullOf]

/-! ### conformance passes to every enumerated entry -/

mutual
theorem conforms_of_mem (rel : Str → Str → Bool) (e : Entry) (p : Path) (he : conformsB rel e = true) :
    ∀ q x, (q, x) ∈ pathfy e p → conformsB rel x = true := by
  intro q x h
  match e with
  | .tree t cs =>
    simp only [pathfy, List.mem_cons] at h
    rcases h with h | h
    · simp at h; rw [h.2]; exact he
    · simp only [conformsB] at he
      exact conformsList_of_mem rel t cs cs 0 p he q x h
  | .token t v => simp [pathfy] at h; rw [h.2]; exact he
  | .empty => simp [pathfy] at h; rw [h.2]; exact he
theorem conformsList_of_mem (rel : Str → Str → Bool) (t : Str) (all cs : List Entry) (i : Nat) (p : Path)
    (hcs : conformsListB rel t cs = true) :
    ∀ q x, (q, x) ∈ pathfyList all cs i p → conformsB rel x = true := by
  intro q x h
  match cs with
  | [] => simp [pathfyList] at h
  | c :: rest =>
    simp only [conformsListB, Bool.and_eq_true] at hcs
    simp only [pathfyList, List.mem_append] at h
    rcases h with h | h
    · exact conforms_of_mem rel c _ hcs.1.2 q x h
    · exact conformsList_of_mem rel t all rest (i + 1) p hcs.2 q x h
end

/-! ### a conforming tree over a chain-free relation has at most two nested unresolvable levels -/

theorem uheight_le_two (rel : Str → Str → Bool) (canRes : Str → Bool) (hcf : ChainFree rel canRes)
    (e : Entry) (he : conformsB rel e = true) : uheight canRes e ≤ 2 := by
  match e with
  | .token t v => simp [uheight]
  | .empty => simp [uheight]
  | .tree a cs =>
    by_cases ha : canRes a = true
    · simp [uheight, ha]
    simp only [uheight, ha, Bool.false_eq_true, if_false]
    split
    · omega
    simp only [conformsB] at he
    have hcs := (conformsListB_iff rel a cs).1 he
    suffices uheightList canRes cs ≤ 1 by omega
    rw [uheightList_le]
    intro b hb
    obtain ⟨hab, hbc⟩ := hcs b hb
    match b with
    | .token t v => simp [uheight]
    | .empty => simp [uheight]
    | .tree b' cs' =>
      by_cases hb' : canRes b' = true
      · simp [uheight, hb']
      simp only [uheight, hb', Bool.false_eq_true, if_false]
      split
      · omega
      simp only [conformsB] at hbc
      have hcs' := (conformsListB_iff rel b' cs').1 hbc
      suffices uheightList canRes cs' ≤ 0 by omega
      rw [uheightList_le]
      intro c hc
      obtain ⟨hbc', hcd⟩ := hcs' c hc
      match c with
      | .token t v => simp [uheight]
      | .empty => simp [uheight]
      | .tree c' cs'' =>
        by_cases hc' : canRes c' = true
        · simp [uheight, hc']
        simp only [uheight, hc', Bool.false_eq_true, if_false]
        split
        · omega
        rename_i hne
        exfalso
        simp only [conformsB] at hcd
        have hcs'' := (conformsListB_iff rel c' cs'').1 hcd
        match cs'', hne, hcs'' with
        | d :: _, _, hcs'' =>
          have hd := (hcs'' d (by simp)).1
          simp only [Entry.name] at hab hbc'
          rcases hcf a b' c' d.name hab hbc' hd with h | h | h
          · exact ha h
          · exact hb' h
          · exact hc' h
        | [], hne, _ => simp at hne

/-! ### the table computation decides `ChainFree` -/

theorem relOf_iff (kids : List (Str × List Str)) (a b : Str) :
    relOf kids a b = true ↔ ∃ kv ∈ kids, kv.1 = a ∧ b ∈ kv.2 := by
  simp [relOf, List.any_eq_true]

theorem mem_kidsOf (kids : List (Str × List Str)) (a b : Str) : b ∈ kidsOf kids a ↔ relOf kids a b = true := by
  rw [relOf_iff]
  simp only [kidsOf, List.mem_flatMap]
  constructor
  · rintro ⟨kv, hkv, hb⟩
    by_cases h : kv.1 = a
    · refine ⟨kv, hkv, h, ?_⟩; simpa [h] using hb
    · simp [h] at hb
  · rintro ⟨kv, hkv, h, hb⟩
    exact ⟨kv, hkv, by simpa [h] using hb⟩

theorem chainFree_of_chainFreeB (kids : List (Str × List Str)) (canRes : Str → Bool) (h : chainFreeB kids canRes = true) :
    ChainFree (relOf kids) canRes := by
  intro a b c d hab hbc hcd
  obtain ⟨kv, hkv, hka, hkb⟩ := (relOf_iff kids a b).1 hab
  simp only [chainFreeB, List.all_eq_true, Bool.or_eq_true] at h
  rcases h kv hkv with h1 | h1
  · left; rw [← hka]; exact h1
  rcases h1 b hkb with h2 | h2
  · right; left; exact h2
  rcases h2 c ((mem_kidsOf kids b c).2 hbc) with h3 | h3
  · right; right; exact h3
  · have hd : d ∈ kidsOf kids c := (mem_kidsOf kids c d).2 hcd
    rw [List.isEmpty_iff] at h3
    rw [h3] at hd
    simp at hd

theorem ChainFree.mono (rel : Str → Str → Bool) (r1 r2 : Str → Bool) (h : ChainFree rel r1)
    (hm : ∀ s, r1 s = true → r2 s = true) : ChainFree rel r2 := by
  intro a b c d hab hbc hcd
  rcases h a b c d hab hbc hcd with h | h | h
  · exact Or.inl (hm _ h)
  · exact Or.inr (Or.inl (hm _ h))
  · exact Or.inr (Or.inr (hm _ h))

end Tranp.AstPath
