/-
  Helper lemmas for property C10, resolver: the instance cache of `NodeResolver` only ever holds pairs
  `(path, class)` with `class = classOf (entry at path) path`, so a cached answer equals the cache-free one.
-/
import Tranp.Model.AstPath

namespace Tranp.AstPath
open Tranp

theorem dictGet?_mem {α : Type} (d : List (Str × α)) (k : Str) (v : α) (h : dictGet? d k = some v) :
    (k, v) ∈ d := by
  unfold dictGet? at h
  cases hf : d.find? (fun kv => kv.1 == k) with
  | none => simp [hf] at h
  | some kv =>
    simp [hf] at h
    have h1 := List.find?_some hf
    have h2 := List.mem_of_find?_eq_some hf
    simp at h1
    obtain ⟨a, b⟩ := kv
    simp at h1 h; subst h1; subst h; exact h2

/-- the resolver invariant: the instance cache is a sub-graph of the cache-free choice -/
def InstsOk (w : World) (insts : List (Str × Str)) : Prop :=
  ∀ path cls, (path, cls) ∈ insts → ∃ e, w.cache.by_ path = .ok e ∧ classOf w e.name path = .ok cls

theorem nodeBy_preserves (w : World) (insts insts' : List (Str × Str)) (q c : Str)
    (hinv : InstsOk w insts) (h : nodeBy w insts q = .ok (c, insts')) : InstsOk w insts' := by
  unfold nodeBy at h
  cases hb : w.cache.by_ q with
  | error er => simp [hb, bind, Except.bind] at h
  | ok e =>
    simp only [hb, bind, Except.bind, resolveCached] at h
    split at h
    · simp at h; rw [← h.2]; exact hinv
    · cases hc : classOf w e.name q with
      | error er => simp [hc] at h
      | ok c' =>
        simp [hc, pure, Except.pure] at h
        intro path cls hm
        rw [← h.2] at hm
        simp at hm
        rcases hm with hm | ⟨rfl, rfl⟩
        · exact hinv path cls hm
        · exact ⟨e, hb, hc⟩

theorem reachable_ok (w : World) (insts : List (Str × Str)) (h : Reachable w insts) : InstsOk w insts := by
  induction h with
  | init => intro _ _ hm; simp at hm
  | step _ hq ih => exact nodeBy_preserves w _ _ _ _ ih hq

theorem nodeBy_eq_classOf (w : World) (insts : List (Str × Str)) (p : Str) (e : Entry)
    (hinv : InstsOk w insts) (hb : w.cache.by_ p = .ok e) :
    (nodeBy w insts p).map (·.1) = classOf w e.name p := by
  unfold nodeBy
  simp only [hb, bind, Except.bind, resolveCached]
  split
  · rename_i c hc
    obtain ⟨e', hb', hc'⟩ := hinv p c (dictGet?_mem _ _ _ hc)
    rw [hb] at hb'; cases hb'
    simp [Except.map, hc']
  · cases hc : classOf w e.name p <;> simp [Except.map, pure, Except.pure]

theorem runQueries_reachable (w : World) (insts : List (Str × Str)) (qs : List Str)
    (h : Reachable w insts) : Reachable w (runQueries w insts qs) := by
  induction qs generalizing insts with
  | nil => exact h
  | cons q qs ih =>
    simp only [runQueries]
    split
    · rename_i c insts' hq; exact ih _ (.step h hq)
    · exact ih _ h

end Tranp.AstPath
