/-
  Helper lemmas for property C10: `DSN.left / right / shift / root / parent` on an encoded path act on the element list.
-/
import Tranp.Lemmas.AstPath.Codec

namespace Tranp.AstPath
open Tranp Tranp.Str

theorem pySliceTo_map {α β : Type} (f : α → β) (l : List α) (k : Int) : pySliceTo (l.map f) k = (pySliceTo l k).map f := by
  unfold pySliceTo
  split <;> simp [List.map_take]

theorem pySliceFrom_map {α β : Type} (f : α → β) (l : List α) (k : Int) : pySliceFrom (l.map f) k = (pySliceFrom l k).map f := by
  unfold pySliceFrom
  split <;> simp [List.map_drop]

theorem dsnLeft_encode (p : Path) (hp : WfPath p) (k : Int) : dsnLeft (encodePath p) k = encodePath (pySliceTo p k) := by
  unfold dsnLeft
  rw [dsnElements_encodePath p hp, pySliceTo_map]
  rfl

theorem dsnRight_encode (p : Path) (hp : WfPath p) (k : Int) : dsnRight (encodePath p) k = encodePath (pySliceFrom p (-k)) := by
  unfold dsnRight
  rw [dsnElements_encodePath p hp, pySliceFrom_map]
  rfl

theorem dsnShift_encode (p : Path) (hp : WfPath p) (k : Int) :
    dsnShift (encodePath p) k = encodePath (if k > 0 then pySliceFrom p k else if k < 0 then pySliceTo p k else p) := by
  unfold dsnShift
  rw [dsnElements_encodePath p hp]
  by_cases h0 : k = 0
  · subst h0; simp; rfl
  · by_cases hpos : k > 0
    · have : (k == 0) = false := by simp [h0]
      simp only [this, Bool.false_eq_true, if_false, hpos, if_true]
      rw [pySliceFrom_map]; rfl
    · have : (k == 0) = false := by simp [h0]
      have hneg : k < 0 := by omega
      simp only [this, Bool.false_eq_true, if_false, hpos, hneg, if_true]
      rw [pySliceTo_map]; rfl

theorem dsnRoot_encode (a : Elem) (p : Path) (hp : WfPath (a :: p)) : dsnRoot (encodePath (a :: p)) = .ok (encodeElem a) := by
  unfold dsnRoot
  rw [dsnElements_encodePath _ hp]
  rfl

theorem dsnParent_encode (p : Path) (a b : Elem) (hp : WfPath (p ++ [a, b])) :
    dsnParent (encodePath (p ++ [a, b])) = .ok (encodeElem a) := by
  unfold dsnParent
  rw [dsnElements_encodePath _ hp]
  simp

end Tranp.AstPath
