/-
  Helper lemmas for property C10 (tree addressing), abstract layer: soundness of pluck on full_pathfy,
  distinctness and number of paths.
-/
import Tranp.Model.AstPath

namespace Tranp.AstPath
open Tranp

theorem pluckRel_append (p q : Path) (e : Entry) :
    pluckRel (p ++ q) e = (pluckRel p e).bind (pluckRel q) := by
  induction p generalizing e with
  | nil => simp [pluckRel]
  | cons el rest ih =>
    simp only [List.cons_append, pluckRel]
    cases h : stepInto e el <;> simp [ih]

theorem lastWithTag_none (t : Str) (cs : List Entry) (h : ∀ a ∈ cs, ¬ a.name = t) :
    lastWithTag t cs = none := by
  induction cs with
  | nil => rfl
  | cons x xs ih =>
    have hx : ¬ x.name = t := h x (by simp)
    simp [lastWithTag, ih (fun a ha => h a (by simp [ha])), hx]

theorem lastWithTag_unique (t : Str) (cs : List Entry) (i : Nat) (c : Entry)
    (hc : cs[i]? = some c) (hn : c.name = t) (hu : countTag t cs = 1) :
    lastWithTag t cs = some c := by
  induction cs generalizing i with
  | nil => simp at hc
  | cons d rest ih =>
    unfold countTag at hu ih
    simp only [List.filter_cons] at hu
    cases i with
    | zero =>
      simp at hc; subst hc
      simp [hn] at hu
      simp [lastWithTag, lastWithTag_none t rest hu, hn]
    | succ j =>
      simp at hc
      split at hu
      · simp at hu
        exact absurd hn (hu c (List.mem_of_getElem? hc))
      · have := ih j hc hu
        simp [lastWithTag, this]

theorem step_elemFor (t : Str) (cs : List Entry) (i : Nat) (c : Entry) (hc : cs[i]? = some c) :
    stepInto (.tree t cs) (elemFor cs i c) = some c := by
  unfold elemFor
  split
  · rename_i h
    simp only [stepInto]
    exact lastWithTag_unique c.name cs i c hc rfl (by simpa using h)
  · simp [stepInto, hc]

mutual
theorem pathfy_sound (e : Entry) (p : Path) :
    ∀ q x, (q, x) ∈ pathfy e p → ∃ r, q = p ++ r ∧ pluckRel r e = some x := by
  intro q x h
  match e with
  | .tree t cs =>
    simp only [pathfy, List.mem_cons] at h
    rcases h with h | h
    · exact ⟨[], by simp_all [pluckRel]⟩
    · obtain ⟨j, c, r, hj, _, hq, hr⟩ := pathfyList_sound cs cs 0 p q x h
      refine ⟨elemFor cs j c :: r, by simp [hq], ?_⟩
      have hj' : cs[j]? = some c := by simpa using hj
      simp [pluckRel, step_elemFor t cs j c hj', hr]
  | .token t v => simp [pathfy] at h; exact ⟨[], by simp [h, pluckRel]⟩
  | .empty => simp [pathfy] at h; exact ⟨[], by simp [h, pluckRel]⟩
theorem pathfyList_sound (all cs : List Entry) (i : Nat) (p : Path) :
    ∀ q x, (q, x) ∈ pathfyList all cs i p →
      ∃ j c r, cs[j - i]? = some c ∧ i ≤ j ∧ q = p ++ elemFor all j c :: r ∧ pluckRel r c = some x := by
  intro q x h
  match cs with
  | [] => simp [pathfyList] at h
  | c :: rest =>
    simp only [pathfyList, List.mem_append] at h
    rcases h with h | h
    · obtain ⟨r, hq, hr⟩ := pathfy_sound c _ q x h
      exact ⟨i, c, r, by simp, Nat.le_refl _, by simp [hq], hr⟩
    · obtain ⟨j, c', r, hj, hij, hq, hr⟩ := pathfyList_sound all rest (i+1) p q x h
      refine ⟨j, c', r, ?_, by omega, hq, hr⟩
      have : j - i = (j - (i+1)) + 1 := by omega
      rw [this]; simpa using hj
end


theorem countTag_cons (t : Str) (d : Entry) (cs : List Entry) :
    countTag t (d :: cs) = (if d.name = t then 1 else 0) + countTag t cs := by
  unfold countTag
  by_cases h : d.name = t <;> simp [h] <;> omega

theorem countTag_pos (t : Str) (cs : List Entry) (i : Nat) (c : Entry)
    (hc : cs[i]? = some c) (hn : c.name = t) : 0 < countTag t cs := by
  unfold countTag
  apply List.length_pos_of_mem (a := c)
  simp [List.mem_filter, hn, List.mem_of_getElem? hc]

theorem countTag_one_unique (t : Str) (cs : List Entry) (i j : Nat) (c c' : Entry)
    (hu : countTag t cs = 1) (hi : cs[i]? = some c) (hj : cs[j]? = some c')
    (hn : c.name = t) (hn' : c'.name = t) : i = j := by
  induction cs generalizing i j with
  | nil => simp at hi
  | cons d rest ih =>
    rw [countTag_cons] at hu
    cases i with
    | zero =>
      cases j with
      | zero => rfl
      | succ j =>
        simp at hi hj; subst hi
        have := countTag_pos t rest j c' hj hn'
        simp [hn] at hu; omega
    | succ i =>
      cases j with
      | zero =>
        simp at hi hj; subst hj
        have := countTag_pos t rest i c hi hn
        simp [hn'] at hu; omega
      | succ j =>
        simp at hi hj
        have := countTag_pos t rest i c hi hn
        split at hu
        · omega
        · simp at hu; rw [ih i j hu hi hj]

theorem elemFor_inj (all : List Entry) (i j : Nat) (c c' : Entry)
    (hi : all[i]? = some c) (hj : all[j]? = some c')
    (h : elemFor all i c = elemFor all j c') : i = j := by
  unfold elemFor at h
  split at h <;> split at h
  · rename_i h1 h2
    simp at h
    exact countTag_one_unique c.name all i j c c' (by simpa using h1) hi hj rfl h.symm
  · simp at h
  · simp at h
  · simp at h; exact h.2

mutual
theorem pathfy_length (e : Entry) (p : Path) : (pathfy e p).length = size e := by
  match e with
  | .tree t cs => simp [pathfy, size, pathfyList_length cs cs 0 p]; omega
  | .token t v => simp [pathfy, size]
  | .empty => simp [pathfy, size]
theorem pathfyList_length (all cs : List Entry) (i : Nat) (p : Path) :
    (pathfyList all cs i p).length = sizeList cs := by
  match cs with
  | [] => simp [pathfyList, sizeList]
  | c :: rest => simp [pathfyList, sizeList, pathfy_length c, pathfyList_length all rest]
end

mutual
theorem pathfy_nodup (e : Entry) (p : Path) : ((pathfy e p).map (·.1)).Nodup := by
  match e with
  | .tree t cs =>
    simp only [pathfy, List.map_cons, List.nodup_cons]
    refine ⟨?_, pathfyList_nodup cs cs 0 p (by simp)⟩
    intro hmem
    obtain ⟨⟨q, x⟩, hqx, hq⟩ := List.mem_map.1 hmem
    obtain ⟨j, c, r, _, _, hq', _⟩ := pathfyList_sound cs cs 0 p q x hqx
    simp at hq; subst hq
    have := congrArg List.length hq'
    simp at this
  | .token t v => simp [pathfy]
  | .empty => simp [pathfy]
theorem pathfyList_nodup (all cs : List Entry) (i : Nat) (p : Path) (hcs : all.drop i = cs) :
    ((pathfyList all cs i p).map (·.1)).Nodup := by
  match cs with
  | [] => simp [pathfyList]
  | c :: rest =>
    have hrest : all.drop (i+1) = rest := by
      rw [← List.drop_drop, hcs]; rfl
    simp only [pathfyList, List.map_append]
    rw [List.nodup_append]
    refine ⟨pathfy_nodup c _, pathfyList_nodup all rest (i+1) p hrest, ?_⟩
    intro q ha b hb hab
    subst hab
    obtain ⟨⟨q1, x⟩, hqx, hq⟩ := List.mem_map.1 ha
    obtain ⟨⟨q2, x'⟩, hqx', hq'⟩ := List.mem_map.1 hb
    simp only at hq hq'
    rw [hq] at hqx; rw [hq'] at hqx'
    obtain ⟨r, hr, _⟩ := pathfy_sound c _ q x hqx
    obtain ⟨j, c', r', hj, hij, hr', _⟩ := pathfyList_sound all rest (i+1) p q x' hqx'
    rw [hr, List.append_assoc] at hr'
    have h2 := List.append_cancel_left hr'
    simp at h2
    have hci : all[i]? = some c := by
      have := congrArg (·[0]?) hcs
      simpa using this
    have hcj : all[j]? = some c' := by
      have := congrArg (·[j - (i+1)]?) hrest
      simp [hj] at this
      rw [← this]; congr 1; omega
    have := elemFor_inj all i j c c' hci hcj h2.1
    omega
end
end Tranp.AstPath
