/-
  Helper lemmas for property C10: what `Resolver.load` leaves under a symbol — the classes whose symbol list names it, in the
  order of `mapping.symbols` (one entry per occurrence).
-/
import Tranp.Lemmas.AstPath.Resolve

namespace Tranp.AstPath
open Tranp

theorem dictGet?_dictInsert {α : Type} (d : List (Str × α)) (k k' : Str) (v : α) :
    dictGet? (dictInsert d k v) k' = if k' = k then some v else dictGet? d k' := by
  unfold dictInsert dictGet?
  by_cases hany : d.any (fun kv => kv.1 == k) = true
  · simp only [hany, if_true, List.find?_map]
    have hcomp : ((fun kv : Str × α => kv.1 == k') ∘ fun kv => if (kv.1 == k) = true then (k, v) else kv)
        = fun kv => kv.1 == k' := by
      funext kv
      by_cases h : kv.1 = k <;> simp [h]
    rw [hcomp]
    by_cases hk : k' = k
    · subst hk
      simp only [if_true]
      obtain ⟨x, hx, hxk⟩ := List.any_eq_true.1 hany
      cases hf : d.find? (fun kv => kv.1 == k') with
      | none =>
        have := List.find?_eq_none.1 hf x hx
        simp at this hxk
        exact absurd hxk this
      | some y =>
        have hy := List.find?_some hf
        simp at hy
        simp [hy]
    · simp only [hk, if_false]
      cases hf : d.find? (fun kv => kv.1 == k') with
      | none => simp
      | some y =>
        have hy := List.find?_some hf
        simp at hy
        have : ¬ y.1 = k := by rw [hy]; exact hk
        simp [this]
  · simp only [hany, Bool.false_eq_true, if_false, List.find?_append]
    by_cases hk : k' = k
    · subst hk
      have hnone : d.find? (fun kv => kv.1 == k') = none := by
        apply List.find?_eq_none.2
        intro x hx hxk
        apply hany
        exact List.any_eq_true.2 ⟨x, hx, hxk⟩
      simp [hnone]
    · have : ¬ k = k' := fun h => hk h.symm
      simp [hk, this]

/-- what `register`-ing a list of `(symbol, class)` pairs leaves under a symbol -/
theorem registerAll_get (regs : List (Str × ClassDef)) (t : Table) (sym : Str) :
    dictGet? (t.registerAll regs).ctors sym =
      (let add := (regs.filter (fun r => r.1 == sym)).map (·.2)
       match dictGet? t.ctors sym with
       | some cs => some (cs ++ add)
       | none => if add.isEmpty then none else some add) := by
  induction regs generalizing t with
  | nil => simp [Table.registerAll]; cases dictGet? t.ctors sym <;> simp
  | cons r rest ih =>
    have hstep : t.registerAll (r :: rest) = (t.register r.1 r.2).registerAll rest := by simp [Table.registerAll]
    rw [hstep, ih]
    simp only [Table.register, dictGet?_dictInsert]
    by_cases hs : sym = r.1
    · subst hs
      simp only [if_true, List.filter_cons, beq_self_eq_true, List.map_cons]
      cases dictGet? t.ctors r.1 <;> simp
    · have hne : (r.1 == sym) = false := by simp; exact fun h => hs h.symm
      simp only [hs, if_false, List.filter_cons, hne, Bool.false_eq_true]

theorem canResolve_eq_isSome (t : Table) (sym : Str) : t.canResolve sym = (dictGet? t.ctors sym).isSome := by
  unfold Table.canResolve dictGet?
  rw [Bool.eq_iff_iff]
  simp [List.any_eq_true, List.find?_isSome]

/-- `Resolver.load(mapping).resolve(symbol)` -/
theorem load_resolve_eq (symbols : List (ClassDef × List Str)) (fb : Option ClassDef) (sym : Str) :
    (Table.load symbols fb).resolve sym =
      (let cs := ((Table.registrations symbols).filter (fun r => r.1 == sym)).map (·.2)
       if cs.isEmpty then (match fb with | some c => .ok [c] | none => .error .unresolvedNode) else .ok cs) := by
  have h0 : dictGet? ({} : Table).ctors sym = none := rfl
  unfold Table.load Table.resolve
  simp only [registerAll_get, h0]
  by_cases hE : (List.map (·.2) (List.filter (fun r => r.1 == sym) (Table.registrations symbols))).isEmpty = true
  · simp only [hE, if_true]
    cases fb <;> rfl
  · simp only [hE, Bool.false_eq_true, if_false]

theorem load_canResolve_eq (symbols : List (ClassDef × List Str)) (fb : Option ClassDef) (sym : Str) :
    (Table.load symbols fb).canResolve sym = (Table.registrations symbols).any (fun r => r.1 == sym) := by
  have h0 : dictGet? ({} : Table).ctors sym = none := rfl
  rw [canResolve_eq_isSome]
  unfold Table.load
  simp only [registerAll_get, h0]
  by_cases h : (Table.registrations symbols).filter (fun r => r.1 == sym) = []
  · have hany : (Table.registrations symbols).any (fun r => r.1 == sym) = false := by
      rw [List.any_eq_false]
      intro x hx hpx
      have hm : x ∈ (Table.registrations symbols).filter (fun r => r.1 == sym) := List.mem_filter.2 ⟨hx, hpx⟩
      rw [h] at hm
      simp at hm
    rw [hany, h]
    rfl
  · obtain ⟨x, hx⟩ := List.exists_mem_of_ne_nil _ h
    have hx' := List.mem_filter.1 hx
    have hany : (Table.registrations symbols).any (fun r => r.1 == sym) = true := List.any_eq_true.2 ⟨x, hx'.1, hx'.2⟩
    rw [hany]
    have hne : (List.map (·.2) (List.filter (fun r => r.1 == sym) (Table.registrations symbols))).isEmpty = false := by
      cases hl : List.filter (fun r => r.1 == sym) (Table.registrations symbols) with
      | nil => exact absurd hl h
      | cons a b => rfl
    simp only [hne, Bool.false_eq_true, if_false]
    rfl

end Tranp.AstPath
