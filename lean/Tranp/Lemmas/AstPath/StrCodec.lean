/-
  Lemmas about the `Tranp.Str` primitives used by the path codec of property C10
  (`str(int)`/`int(str)`, `split`/`join` for a one-character delimiter).
-/
import Tranp.Str
namespace Tranp.StrCodec
open Tranp Tranp.Str

/-! ### decimal codec -/

theorem decVal_digitChar : ∀ d, d < 10 → decVal (digitChar d) = some d := by
  decide

theorem decFold_append (acc : Nat) (s : Str) (c : Char) :
    decFold acc (s ++ [c]) = (decFold acc s).bind (fun a => (decVal c).map (fun d => a * 10 + d)) := by
  induction s generalizing acc with
  | nil => simp [decFold]; cases decVal c <;> simp
  | cons x xs ih =>
    simp only [List.cons_append, decFold]
    cases decVal x with
    | none => simp
    | some d => simp [ih]

theorem decFold_natToDec (n : Nat) : decFold 0 (natToDec n) = some n := by
  induction n using Nat.strongRecOn with
  | _ n ih =>
    rw [natToDec]
    split
    · rename_i h; simp [decFold, decVal_digitChar n h]
    · rename_i h
      rw [decFold_append, ih (n / 10) (by omega), decVal_digitChar (n % 10) (by omega)]
      simp; omega

theorem natToDec_ne_nil (n : Nat) : natToDec n ≠ [] := by
  rw [natToDec]; split <;> simp

/-- every character of `str(n)` is an ASCII digit -/
theorem natToDec_digits (n : Nat) : ∀ c ∈ natToDec n, (decVal c).isSome := by
  induction n using Nat.strongRecOn with
  | _ n ih =>
    rw [natToDec]
    split
    · rename_i h; intro c hc; simp at hc; subst hc; simp [decVal_digitChar n h]
    · rename_i h
      intro c hc
      simp at hc
      rcases hc with hc | hc
      · exact ih (n / 10) (by omega) c hc
      · subst hc; simp [decVal_digitChar (n % 10) (by omega)]

/-- `int(str(n)) = n` -/
theorem decToNat_natToDec (n : Nat) : decToNat? (natToDec n) = some n := by
  have h := decFold_natToDec n
  have hne := natToDec_ne_nil n
  cases hs : natToDec n with
  | nil => exact absurd hs hne
  | cons c cs => rw [hs] at h; simpa [decToNat?] using h

theorem decToInt_of_head (s : Str) (h : s.head? ≠ some '-') :
    decToInt? s = (decToNat? s).map (fun n => (n : Int)) := by
  unfold decToInt?
  split
  · simp at h
  · rfl

theorem decToInt_natToDec (n : Nat) : decToInt? (natToDec n) = some (n : Int) := by
  rw [decToInt_of_head, decToNat_natToDec]; rfl
  intro h
  cases hs : natToDec n with
  | nil => simp [hs] at h
  | cons c cs =>
    simp [hs] at h
    have := natToDec_digits n c (by simp [hs])
    subst h
    revert this; decide

/-! ### split / join -/

theorem splitOn_ne_nil (d : Char) (s : Str) : splitOn d s ≠ [] := by
  cases s with
  | nil => simp [splitOn]
  | cons c cs =>
    simp only [splitOn]
    split
    · simp
    · split <;> simp

theorem splitOn_not_mem (d : Char) (s : Str) (h : d ∉ s) : splitOn d s = [s] := by
  induction s with
  | nil => rfl
  | cons c cs ih =>
    simp at h
    have hc : ¬ c = d := fun e => h.1 e.symm
    simp [splitOn, hc, ih h.2]

theorem splitOn_append_cons (d : Char) (a b : Str) (h : d ∉ a) :
    splitOn d (a ++ d :: b) = a :: splitOn d b := by
  induction a with
  | nil => simp [splitOn]
  | cons c cs ih =>
    simp at h
    have hc : ¬ c = d := fun e => h.1 e.symm
    simp [splitOn, hc, ih h.2]

theorem join_cons_cons (d x y : Str) (xs : List Str) : join d (x :: y :: xs) = x ++ d ++ join d (y :: xs) := rfl

/-- `d.join(xs).split(d) == xs` for a one-character `d` that occurs in no piece (and `xs` non-empty: `''.split(d) == ['']`). -/
theorem splitOn_join (d : Char) (xs : List Str) (hne : xs ≠ []) (h : ∀ x ∈ xs, d ∉ x) :
    splitOn d (join [d] xs) = xs := by
  induction xs with
  | nil => exact absurd rfl hne
  | cons x rest ih =>
    cases rest with
    | nil => simp [join, splitOn_not_mem d x (h x (by simp))]
    | cons y ys =>
      rw [join_cons_cons, List.append_assoc]
      simp only [List.singleton_append]
      rw [splitOn_append_cons d x _ (h x (by simp)), ih (by simp) (fun z hz => h z (by simp [hz]))]

theorem join_append_singleton (d : Str) (xs : List Str) (y : Str) (hne : xs ≠ []) :
    join d (xs ++ [y]) = join d xs ++ d ++ y := by
  induction xs with
  | nil => exact absurd rfl hne
  | cons x rest ih =>
    cases rest with
    | nil => simp [join]
    | cons z zs =>
      have := ih (by simp)
      simp only [List.cons_append] at this ⊢
      rw [join_cons_cons, this, join_cons_cons]; simp

theorem join_ne_nil (d : Str) (xs : List Str) (hne : xs ≠ []) (h : ∀ x ∈ xs, x ≠ []) : join d xs ≠ [] := by
  cases xs with
  | nil => exact absurd rfl hne
  | cons x rest =>
    have hx := h x (by simp)
    cases rest with
    | nil => simpa [join] using hx
    | cons y ys => rw [join_cons_cons]; simp [hx]

end Tranp.StrCodec
