/-
  Helper lemmas for property C10: `EntryCache.group_by(via, depth)` on the cache built from `full_pathfy` is the
  pre-order enumeration of the subtree at `via`, cut at `depth` levels (`under`); unbounded depth gives the whole
  subtree enumeration, so `Nodes.values` lists the token values of the subtree in document order.
-/
import Tranp.Lemmas.AstPath.Ancestor
import Tranp.Lemmas.AstPath.Resolve

namespace Tranp.AstPath
open Tranp Tranp.Str Tranp.StrCodec

/-! ### `under` versus `pathfy` -/

mutual
theorem under_neg (d : Int) (hd : d < 0) (e : Entry) (p : Path) : under d e p = pathfy e p := by
  match e with
  | .tree t cs =>
    have h0 : (d == 0) = false := by simp; omega
    simp only [under, pathfy, h0, Bool.false_eq_true, if_false]
    rw [underList_neg (d - 1) (by omega) cs cs 0 p]
  | .token t v => simp [under, pathfy]
  | .empty => simp [under, pathfy]
theorem underList_neg (d : Int) (hd : d < 0) (all cs : List Entry) (i : Nat) (p : Path) :
    underList d all cs i p = pathfyList all cs i p := by
  match cs with
  | [] => simp [underList, pathfyList]
  | c :: rest =>
    simp only [underList, pathfyList]
    rw [under_neg d hd c, underList_neg d hd all rest]
end

mutual
theorem under_sublist (d : Int) (e : Entry) (p : Path) : (under d e p).Sublist (pathfy e p) := by
  match e with
  | .tree t cs =>
    simp only [under, pathfy]
    apply List.Sublist.cons_cons
    split
    · exact List.nil_sublist _
    · exact underList_sublist (d - 1) cs cs 0 p
  | .token t v => simp [under, pathfy]
  | .empty => simp [under, pathfy]
theorem underList_sublist (d : Int) (all cs : List Entry) (i : Nat) (p : Path) :
    (underList d all cs i p).Sublist (pathfyList all cs i p) := by
  match cs with
  | [] => simp [underList, pathfyList]
  | c :: rest =>
    simp only [underList, pathfyList]
    exact List.Sublist.append (under_sublist d c _) (underList_sublist d all rest (i+1) p)
end

theorem under_head (d : Int) (e : Entry) (p : Path) : ∃ tl, under d e p = (p, e) :: tl := by
  cases e <;> simp [under]

theorem pathfy_head (e : Entry) (p : Path) : ∃ tl, pathfy e p = (p, e) :: tl := by
  cases e <;> simp [pathfy]

mutual
/-- the enumeration of a subtree is a (contiguous, here: order-preserving) part of the enumeration of the tree -/
theorem subtree_sublist (e : Entry) (p : Path) :
    ∀ q x, (q, x) ∈ pathfy e p → (pathfy x q).Sublist (pathfy e p) := by
  intro q x h
  match e with
  | .tree t cs =>
    simp only [pathfy, List.mem_cons] at h
    rcases h with h | h
    · simp only [Prod.mk.injEq] at h
      rw [h.1, h.2]; exact List.Sublist.refl _
    · simp only [pathfy]
      exact List.Sublist.cons _ (subtreeList_sublist cs cs 0 p q x h)
  | .token t v => simp [pathfy] at h; rw [h.1, h.2]; exact List.Sublist.refl _
  | .empty => simp [pathfy] at h; rw [h.1, h.2]; exact List.Sublist.refl _
theorem subtreeList_sublist (all cs : List Entry) (i : Nat) (p : Path) :
    ∀ q x, (q, x) ∈ pathfyList all cs i p → (pathfy x q).Sublist (pathfyList all cs i p) := by
  intro q x h
  match cs with
  | [] => simp [pathfyList] at h
  | c :: rest =>
    simp only [pathfyList, List.mem_append] at h
    simp only [pathfyList]
    rcases h with h | h
    · exact (subtree_sublist c _ q x h).trans (List.sublist_append_left _ _)
    · exact (subtreeList_sublist all rest (i+1) p q x h).trans (List.sublist_append_right _ _)
end

theorem pathfyList_child_mem (all cs : List Entry) (i k : Nat) (p : Path) (c : Entry) (hc : cs[k]? = some c) :
    (p ++ [elemFor all (i + k) c], c) ∈ pathfyList all cs i p := by
  induction cs generalizing i k with
  | nil => simp at hc
  | cons d rest ih =>
    simp only [pathfyList, List.mem_append]
    cases k with
    | zero =>
      simp at hc; subst hc
      left
      obtain ⟨tl, htl⟩ := pathfy_head d (p ++ [elemFor all i d])
      rw [htl]; simp
    | succ k =>
      right
      have := ih (i+1) k (by simpa using hc)
      have he : i + 1 + k = i + (k + 1) := by omega
      rw [he] at this; exact this

/-- the child of an enumerated tree entry is enumerated at the extended path -/
theorem child_mem (e : Entry) (p q : Path) (tag : Str) (cs : List Entry) (h : (q, .tree tag cs) ∈ pathfy e p)
    (k : Nat) (c : Entry) (hc : cs[k]? = some c) : (q ++ [elemFor cs k c], c) ∈ pathfy e p := by
  apply (subtree_sublist e p q _ h).subset
  simp only [pathfy, List.mem_cons]
  right
  have := pathfyList_child_mem cs cs 0 k q c hc
  simpa using this

theorem size_pos (e : Entry) : 0 < size e := by
  cases e <;> simp [size] <;> omega

/-! ### dict algebra for the `group_by` loop -/

theorem dictUpdate_fresh {α : Type} (A S : List (Str × α)) (h : ((A ++ S).map (·.1)).Nodup) :
    dictUpdate A S = A ++ S :=
  foldl_dictInsert_nodup S A h

theorem dictInsert_last_same {α : Type} (A : List (Str × α)) (k : Str) (v : α) (h : k ∉ A.map (·.1)) :
    dictInsert (A ++ [(k, v)]) k v = A ++ [(k, v)] := by
  rw [dictInsert_mem _ _ _ (by simp)]
  rw [List.map_append]
  congr 1
  · conv => rhs; rw [← List.map_id A]
    apply List.map_congr_left
    intro kv hkv
    have : ¬ kv.1 = k := fun e => h (List.mem_map.2 ⟨kv, hkv, e⟩)
    simp [this]
  · simp

/-- the two insertions of one loop step: the child itself, then its own `group_by` (which starts with the child again) -/
theorem dict_step {α : Type} (A : List (Str × α)) (k : Str) (v : α) (S : List (Str × α))
    (h : ((A ++ (k, v) :: S).map (·.1)).Nodup) :
    dictUpdate (dictInsert A k v) ((k, v) :: S) = A ++ (k, v) :: S ∧ dictUpdate (dictInsert A k v) [] = A ++ [(k, v)] := by
  have hk : k ∉ A.map (·.1) := by
    intro hm
    rw [List.map_append, List.nodup_append] at h
    exact h.2.2 _ hm _ (by simp) rfl
  rw [dictInsert_fresh A k v hk]
  refine ⟨?_, rfl⟩
  unfold dictUpdate
  rw [List.foldl_cons, dictInsert_last_same A k v hk]
  have := foldl_dictInsert_nodup S (A ++ [(k, v)]) (by simpa using h)
  simpa using this

/-! ### the cache facts the loop needs -/

/-- what `group_by` needs to know about a cache, for the enumerated `(path, entry)` pairs `E` -/
structure CacheOK (c : Cache) (E : List (Path × Entry)) : Prop where
  by_ok : ∀ P y, (P, y) ∈ E → c.by_ (encodePath P) = .ok y
  keys : ∀ P y, (P, y) ∈ E → c.childKeys (encodePath P) = (childElems y).map encodeElem
  wf : ∀ P y, (P, y) ∈ E → WfPath P ∧ P ≠ []

theorem exists_of_by (c : Cache) (s : Str) (e : Entry) (h : c.by_ s = .ok e) : c.exists_ s = true := by
  unfold Cache.by_ at h
  unfold Cache.exists_
  cases hg : dictGet? c.entries s with
  | none => simp [hg] at h
  | some v =>
    have := dictGet?_mem _ _ _ hg
    rw [List.any_eq_true]
    exact ⟨(s, v), this, by simp⟩

theorem mkCache_ok (t : Entry) (h : WfTags t) : CacheOK (mkCache t) (pathfy t (rootPath t)) :=
  ⟨fun P y hm => mkCache_by t h _ y (mem_fullPathfy_of_enum t h P y hm),
   fun P y hm => mkCache_childKeys t h P y hm,
   fun P y hm => enum_wf t h P y hm⟩

/-! ### `group_by` = `under` -/

mutual
theorem groupBy_under (c : Cache) (E : List (Path × Entry)) (hc : CacheOK c E)
    (y : Entry) (P : Path) (d : Int) (fuel : Nat) (hd : d ≠ 0) (hf : size y ≤ fuel)
    (hE : ∀ z ∈ pathfy y P, z ∈ E) :
    c.groupBy fuel (encodePath P) d = .ok ((under d y P).map encKV) := by
  have hPy : (P, y) ∈ E := by
    obtain ⟨tl, htl⟩ := pathfy_head y P
    exact hE _ (by rw [htl]; simp)
  have hby := hc.by_ok P y hPy
  have hex := exists_of_by c _ y hby
  have hd0 : (d == 0) = false := by simpa using hd
  cases fuel with
  | zero => have := size_pos y; omega
  | succ f =>
    match y with
    | .tree tg cs =>
      obtain ⟨hwf, hne⟩ := hc.wf P _ hPy
      have hnd : (([(encodePath P, Entry.tree tg cs)] ++ (underList (d - 1) cs cs 0 P).map encKV).map (·.1)).Nodup := by
        have h1 : ((under d (.tree tg cs) P).map encKV).map (·.1) =
            ([(encodePath P, Entry.tree tg cs)] ++ (underList (d - 1) cs cs 0 P).map encKV).map (·.1) := by
          simp [under, hd0, encKV]
        rw [← h1]
        exact under_keys_nodup c E hc d _ P hE
      have hloop := groupLoop_under c E hc cs cs 0 P (d - 1) f [(encodePath P, .tree tg cs)] (by simp)
        (by simp [size] at hf; omega)
        (fun z hz => hE z (by simp [pathfy, hz])) hwf hne hnd
      simp only [Cache.groupBy, hex, Bool.not_true, Bool.false_eq_true, if_false, hd0, hby]
      rw [hc.keys P _ hPy]
      simp only [childElems]
      rw [hloop]
      simp [under, hd0, encKV]
    | .token tg v =>
      simp only [Cache.groupBy, hex, Bool.not_true, Bool.false_eq_true, if_false, hd0, hby]
      rw [hc.keys P _ hPy]
      simp [childElems, Cache.groupLoop, under, encKV]
    | .empty =>
      simp only [Cache.groupBy, hex, Bool.not_true, Bool.false_eq_true, if_false, hd0, hby]
      rw [hc.keys P _ hPy]
      simp [childElems, Cache.groupLoop, under, encKV]
theorem groupLoop_under (c : Cache) (E : List (Path × Entry)) (hc : CacheOK c E)
    (all cs : List Entry) (i : Nat) (P : Path) (d : Int) (fuel : Nat) (acc : List (Str × Entry))
    (hcs : all.drop i = cs) (hf : sizeList cs ≤ fuel) (hE : ∀ z ∈ pathfyList all cs i P, z ∈ E)
    (hwf : WfPath P) (hne : P ≠ [])
    (hnd : ((acc ++ (underList d all cs i P).map encKV).map (·.1)).Nodup) :
    c.groupLoop (encodePath P) (fun path => c.groupBy fuel path d)
      ((childElemsAux all cs i).map encodeElem) acc = .ok (acc ++ (underList d all cs i P).map encKV) := by
  match cs with
  | [] => simp [childElemsAux, Cache.groupLoop, underList]
  | ch :: rest =>
    have hrest : all.drop (i+1) = rest := by rw [← List.drop_drop, hcs]; rfl
    simp only [sizeList] at hf
    have hchE : ∀ z ∈ pathfy ch (P ++ [elemFor all i ch]), z ∈ E :=
      fun z hz => hE z (by simp [pathfyList, hz])
    have hPc : (P ++ [elemFor all i ch], ch) ∈ E := by
      obtain ⟨tl, htl⟩ := pathfy_head ch (P ++ [elemFor all i ch])
      exact hchE _ (by rw [htl]; simp)
    have hwfc := (hc.wf _ _ hPc).1
    have hjoin : dsnJoin [encodePath P, encodeElem (elemFor all i ch)] = encodePath (P ++ [elemFor all i ch]) :=
      dsnJoin_encode_snoc P _ hwf (hwfc _ (by simp))
    have hbyc := hc.by_ok _ _ hPc
    obtain ⟨tl, htl⟩ := under_head d ch (P ++ [elemFor all i ch])
    have hnd' : ((acc ++ (under d ch (P ++ [elemFor all i ch])).map encKV
        ++ (underList d all rest (i+1) P).map encKV).map (·.1)).Nodup := by
      simpa [underList, List.append_assoc] using hnd
    have hgoal : acc ++ (underList d all (ch :: rest) i P).map encKV =
        acc ++ (under d ch (P ++ [elemFor all i ch])).map encKV ++ (underList d all rest (i+1) P).map encKV := by
      simp [underList, List.append_assoc]
    rw [hgoal]
    -- the new accumulator after this child
    have hstep : ∃ sub, c.groupBy fuel (encodePath (P ++ [elemFor all i ch])) d = .ok sub ∧
        dictUpdate (dictInsert acc (encodePath (P ++ [elemFor all i ch])) ch) sub
          = acc ++ (under d ch (P ++ [elemFor all i ch])).map encKV := by
      have hnd1 : ((acc ++ (under d ch (P ++ [elemFor all i ch])).map encKV).map (·.1)).Nodup := by
        rw [List.map_append] at hnd'
        exact (List.nodup_append.1 hnd').1
      rw [htl] at hnd1
      simp only [List.map_cons, encKV] at hnd1
      have hds := dict_step acc _ ch (tl.map encKV) (by simpa [encKV] using hnd1)
      by_cases hd : d = 0
      · subst hd
        cases fuel with
        | zero => have := size_pos ch; omega
        | succ f =>
          refine ⟨[], by simp [Cache.groupBy, exists_of_by c _ ch hbyc], ?_⟩
          have htl0 : tl = [] := by
            cases ch <;> simp [under] at htl <;> simp [htl]
          rw [htl, htl0]
          simpa [encKV] using hds.2
      · refine ⟨_, groupBy_under c E hc ch _ d fuel hd (by omega) hchE, ?_⟩
        rw [htl]
        simpa [encKV] using hds.1
    obtain ⟨sub, hsub, hacc⟩ := hstep
    simp only [childElemsAux, List.map_cons, Cache.groupLoop, hjoin, hbyc, hsub, bind, Except.bind, hacc]
    exact groupLoop_under c E hc all rest (i+1) P d fuel _ hrest (by omega)
      (fun z hz => hE z (by simp [pathfyList, hz])) hwf hne hnd'
theorem under_keys_nodup (c : Cache) (E : List (Path × Entry)) (hc : CacheOK c E)
    (d : Int) (y : Entry) (P : Path) (hE : ∀ z ∈ pathfy y P, z ∈ E) :
    (((under d y P).map encKV).map (·.1)).Nodup := by
  have hsub := under_sublist d y P
  have hnd := pathfy_nodup y P
  have h1 : ((under d y P).map (·.1)).Nodup := (hsub.map _).nodup hnd
  rw [List.map_map]
  unfold List.Nodup at h1 ⊢
  rw [List.pairwise_map] at h1 ⊢
  refine List.Pairwise.imp_of_mem ?_ h1
  intro a b ha hb hab hcontra
  apply hab
  exact encodePath_inj a.1 b.1 (hc.wf a.1 a.2 (hE _ (hsub.subset ha))).1 (hc.wf b.1 b.2 (hE _ (hsub.subset hb))).1 hcontra
end

end Tranp.AstPath
