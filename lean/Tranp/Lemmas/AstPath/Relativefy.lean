/-
  Helper lemmas for property C10: `DSN.relativefy` / `EntryPath.relativefy` return the true relative path whenever the
  string `starts` does not occur again to the right; a tag-level sufficient condition (`RootNameFree`) for `RelativefySafe`.
-/
import Tranp.Lemmas.AstPath.PathAlgebra

namespace Tranp.AstPath
open Tranp Tranp.Str Tranp.StrCodec

/-! ### substring occurrence -/

theorem startsWith_sep_prefix (d : Char) (s a b : Str) (hd : d ∉ s) (h : startsWith (a ++ d :: b) s = true) :
    startsWith a s = true := by
  induction a generalizing s with
  | nil =>
    cases s with
    | nil => rfl
    | cons c cs => simp [startsWith] at h hd; exact absurd h.1 hd.1
  | cons x xs ih =>
    cases s with
    | nil => simp [startsWith]
    | cons c cs =>
      simp [startsWith] at h hd ⊢
      exact ⟨h.1, ih cs hd.2 h.2⟩

theorem occursB_nil_false (s : Str) (hs : s ≠ []) : occursB s [] = false := by
  cases s with
  | nil => exact absurd rfl hs
  | cons c cs => rfl

theorem occursB_sep (d : Char) (s a b : Str) (hd : d ∉ s) (hs : s ≠ []) (h : occursB s (a ++ d :: b) = true) :
    occursB s a = true ∨ occursB s b = true := by
  induction a with
  | nil =>
    simp only [List.nil_append, occursB, Bool.or_eq_true] at h
    rcases h with h | h
    · cases s with
      | nil => exact absurd rfl hs
      | cons c cs => simp [startsWith] at h hd; exact absurd h.1 hd.1
    · exact Or.inr h
  | cons x xs ih =>
    simp only [List.cons_append, occursB, Bool.or_eq_true] at h ⊢
    rcases h with h | h
    · left; left
      have := startsWith_sep_prefix d s (x :: xs) b hd (by simpa using h)
      exact this
    · rcases ih h with h' | h'
      · exact Or.inl (Or.inr h')
      · exact Or.inr h'

theorem occursB_mem (s t : Str) (h : occursB s t = true) (hs : s ≠ []) : ∀ c ∈ s, c ∈ t := by
  induction t with
  | nil => rw [occursB_nil_false s hs] at h; cases h
  | cons x xs ih =>
    simp only [occursB, Bool.or_eq_true] at h
    intro c hc
    rcases h with h | h
    · obtain ⟨b, hb⟩ := startsWith_iff_append _ _ h
      rw [hb]; simp [hc]
    · exact List.mem_cons_of_mem _ (ih h c hc)

theorem occursB_of_prefix (a b t : Str) (h : occursB (a ++ b) t = true) : occursB a t = true := by
  induction t with
  | nil =>
    cases a with
    | nil => rfl
    | cons c cs => simp [occursB] at h
  | cons x xs ih =>
    simp only [occursB, Bool.or_eq_true] at h ⊢
    rcases h with h | h
    · left
      obtain ⟨r, hr⟩ := startsWith_iff_append _ _ h
      rw [hr, List.append_assoc]; exact startsWith_append _ _
    · exact Or.inr (ih h)

theorem occursB_join (s : Str) (xs : List Str) (hd : '.' ∉ s) (hs : s ≠ []) (h : occursB s (join dot xs) = true) :
    ∃ x ∈ xs, occursB s x = true := by
  induction xs with
  | nil => rw [show join dot [] = [] from rfl, occursB_nil_false s hs] at h; cases h
  | cons x rest ih =>
    cases rest with
    | nil => exact ⟨x, by simp, by simpa [join] using h⟩
    | cons y ys =>
      rw [join_cons_cons, List.append_assoc] at h
      have h' : occursB s (x ++ '.' :: join dot (y :: ys)) = true := h
      rcases occursB_sep '.' s x _ hd hs h' with h1 | h1
      · exact ⟨x, by simp, h1⟩
      · obtain ⟨z, hz, hz'⟩ := ih h1
        exact ⟨z, by simp [hz], hz'⟩

/-- a name with a non-digit character that occurs in an encoded element occurs in its tag -/
theorem occursB_encodeElem (s : Str) (el : Elem) (hl : '[' ∉ s) (hr : ']' ∉ s) (hs : s ≠ [])
    (hnd : ∃ c ∈ s, (decVal c).isSome = false) (h : occursB s (encodeElem el) = true) : occursB s el.tag = true := by
  obtain ⟨tag, idx⟩ := el
  cases idx with
  | none => simpa [encodeElem] using h
  | some i =>
    have henc : encodeElem ⟨tag, some i⟩ = tag ++ '[' :: (natToDec i ++ ']' :: []) := by simp [encodeElem]
    rw [henc] at h
    rcases occursB_sep '[' s tag _ hl hs h with h1 | h1
    · exact h1
    · exfalso
      rcases occursB_sep ']' s _ _ hr hs h1 with h2 | h2
      · obtain ⟨c, hc, hcd⟩ := hnd
        have := natToDec_digits i c (occursB_mem s _ h2 hs c hc)
        rw [hcd] at this; cases this
      · rw [occursB_nil_false s hs] at h2; cases h2

/-! ### `str.split(sep)` when `sep` does not occur again -/

theorem occursB_false_ne_nil (sep s : Str) (h : occursB sep s = false) : sep ≠ [] := by
  intro he; subst he
  cases s <;> simp [occursB, startsWith] at h

theorem splitOnStrAux_noocc (sep : Str) (s acc : Str) (fuel : Nat) (h : occursB sep s = false) (hf : s.length + 1 ≤ fuel) :
    splitOnStrAux sep fuel acc s = [acc.reverse ++ s] := by
  induction s generalizing acc fuel with
  | nil =>
    cases fuel with
    | zero => simp at hf
    | succ f => simp [splitOnStrAux]
  | cons c cs ih =>
    cases fuel with
    | zero => simp at hf
    | succ f =>
      simp only [occursB, Bool.or_eq_false_iff] at h
      simp only [splitOnStrAux, h.1, Bool.false_eq_true, if_false]
      rw [ih (c :: acc) f h.2 (by simp at hf ⊢; omega)]
      simp

theorem splitOnStr_prefix (sep rest : Str) (h : occursB sep rest = false) :
    splitOnStr sep (sep ++ rest) = [[], rest] := by
  have hne := occursB_false_ne_nil sep rest h
  unfold splitOnStr
  cases hs : sep ++ rest with
  | nil => simp at hs; exact absurd hs.1 hne
  | cons c cs =>
    have hsw : startsWith (c :: cs) sep = true := by rw [← hs]; exact startsWith_append _ _
    simp only [splitOnStrAux, hsw, if_true, List.reverse_nil]
    rw [← hs, List.drop_left]
    rw [splitOnStrAux_noocc sep rest [] _ h (by
      have : 0 < sep.length := List.length_pos_iff.2 hne
      simp; omega)]
    simp

/-! ### `DSN.relativefy` on encoded paths -/

theorem dsnRelativefy_encode (q r : Path) (hq : WfPath q) (hr : WfPath r) (hqn : q ≠ []) (hrn : r ≠ [])
    (hocc : occursB (encodePath q) (dot ++ encodePath r) = false) :
    dsnRelativefy (encodePath (q ++ r)) (encodePath q) = .ok (encodePath r) := by
  have happ := encodePath_append q r hq hr hqn hrn
  have hsw : startsWith (encodePath (q ++ r)) (encodePath q ++ dot) = true := by
    rw [happ]; exact startsWith_append _ _
  have hqne := encodePath_ne_nil q hq hqn
  unfold dsnRelativefy
  simp only [hsw, Bool.not_true, Bool.and_false, Bool.false_eq_true, if_false]
  cases hq' : encodePath q with
  | nil => exact absurd hq' hqne
  | cons c cs =>
    rw [← hq', happ, List.append_assoc, splitOnStr_prefix _ _ hocc]
    simp only [List.getElem?_cons_succ, List.getElem?_cons_zero]
    have : splitOn '.' (dot ++ encodePath r) = [] :: r.map encodeElem := by
      show splitOn '.' ('.' :: encodePath r) = _
      simp [splitOn, splitOn_encodePath r hr hrn]
    rw [this]
    have hf := filter_nonempty_map_encodeElem r hr
    simp only [dsnJoin, List.filter_cons, List.isEmpty_nil, Bool.not_true, Bool.false_eq_true, if_false, hf]
    rw [← encodePath_eq_join r hr]

/-! ### the tag-level condition -/

/-- no element below the first carries a tag containing `name` -/
def FreeTail (name : Str) (p : Path) : Prop := ∀ el ∈ p.tail, occursB name el.tag = false

theorem nameFreeB_name (name : Str) (e : Entry) (h : nameFreeB name e = true) : occursB name e.name = false := by
  cases e <;> simp [nameFreeB, Entry.name] at h ⊢ <;> first | exact h.1 | exact h

theorem freeTail_snoc (name : Str) (p : Path) (el : Elem) (hp : FreeTail name p) (hne : p ≠ [])
    (hel : occursB name el.tag = false) : FreeTail name (p ++ [el]) := by
  intro a ha
  cases p with
  | nil => exact absurd rfl hne
  | cons x xs =>
    simp only [List.cons_append, List.tail_cons, List.mem_append, List.mem_singleton] at ha
    rcases ha with ha | rfl
    · exact hp a (by simpa using ha)
    · exact hel

mutual
theorem pathfy_freeTail (name : Str) (e : Entry) (p : Path) (hp : FreeTail name p) (hne : p ≠ [])
    (he : match e with | .tree _ cs => nameFreeListB name cs = true | _ => True) :
    ∀ q x, (q, x) ∈ pathfy e p → FreeTail name q := by
  intro q x h
  match e with
  | .tree t cs =>
    simp only [pathfy, List.mem_cons] at h
    rcases h with h | h
    · simp at h; rw [h.1]; exact hp
    · exact pathfyList_freeTail name cs cs 0 p hp hne he q x h
  | .token t v => simp [pathfy] at h; rw [h.1]; exact hp
  | .empty => simp [pathfy] at h; rw [h.1]; exact hp
theorem pathfyList_freeTail (name : Str) (all cs : List Entry) (i : Nat) (p : Path) (hp : FreeTail name p) (hne : p ≠ [])
    (hcs : nameFreeListB name cs = true) :
    ∀ q x, (q, x) ∈ pathfyList all cs i p → FreeTail name q := by
  intro q x h
  match cs with
  | [] => simp [pathfyList] at h
  | c :: rest =>
    simp only [nameFreeListB, Bool.and_eq_true] at hcs
    simp only [pathfyList, List.mem_append] at h
    rcases h with h | h
    · have hc := nameFreeB_name name c hcs.1
      refine pathfy_freeTail name c _ (freeTail_snoc name p _ hp hne (by rw [elemFor_tag]; exact hc)) (by simp) ?_ q x h
      cases c with
      | tree t cs' =>
        have := hcs.1
        simp only [nameFreeB, Bool.and_eq_true] at this
        exact this.2
      | token t v => trivial
      | empty => trivial
    · exact pathfyList_freeTail name all rest (i+1) p hp hne hcs.2 q x h
end

/-- `RootNameFree t` makes `RelativefySafe` hold at every enumerated path of `t` -/
theorem relativefySafe_of_rootNameFree (t : Entry) (h : WfTags t) (hfree : RootNameFree t)
    (q : Path) (x : Entry) (hq : (q, x) ∈ pathfy t (rootPath t)) : RelativefySafe q x := by
  obtain ⟨hnd, hlist⟩ := hfree
  have hname := wfTagsB_name t h
  obtain ⟨hqwf, hqne⟩ := enum_wf t h q x hq
  obtain ⟨r0, hr0, _⟩ := pathfy_sound t _ q x hq
  have hft : ∀ q' x', (q', x') ∈ pathfy t (rootPath t) → FreeTail t.name q' := by
    apply pathfy_freeTail t.name t (rootPath t) (by intro el hel; simp [rootPath] at hel) (by simp [rootPath])
    cases t with
    | tree tg cs => simpa [Entry.children] using hlist
    | token _ _ => trivial
    | empty => trivial
  obtain ⟨tl, htl⟩ := under_head 3 x q
  intro pe hpe hleaf
  rw [htl, List.tail_cons] at hpe
  obtain ⟨el, r, hr⟩ := under_tail_ext 3 x q tl htl pe hpe
  have hpeU : pe ∈ under 3 x q := by rw [htl]; exact List.mem_cons_of_mem _ hpe
  have hpeE : (pe.1, pe.2) ∈ pathfy t (rootPath t) :=
    (subtree_sublist t _ q x hq).subset ((under_sublist 3 x q).subset hpeU)
  obtain ⟨hpwf, _⟩ := enum_wf t h pe.1 pe.2 hpeE
  have hfree' := hft pe.1 pe.2 hpeE
  rw [hr] at hpwf hfree' ⊢
  have hrwf : WfPath (el :: r) := fun a ha => hpwf a (by simp at ha ⊢; exact Or.inr ha)
  -- the name does not occur to the right of `via`
  have hocc : occursB (encodePath q) (dot ++ encodePath (el :: r)) = false := by
    cases hc : occursB (encodePath q) (dot ++ encodePath (el :: r)) with
    | false => rfl
    | true =>
      exfalso
      -- `encodePath q` starts with the root's name
      have hqpre : ∃ s, encodePath q = t.name ++ s := by
        rw [hr0]
        have := encodePath_append_exists (rootPath t) r0 (by rw [← hr0]; exact hqwf) (by simp [rootPath])
        rw [encodePath_root t h] at this; exact this
      obtain ⟨s, hs⟩ := hqpre
      rw [hs] at hc
      have h1 := occursB_of_prefix _ _ _ hc
      have h2 : occursB t.name ([] ++ '.' :: encodePath (el :: r)) = true := h1
      rcases occursB_sep '.' t.name [] _ hname.2.1 hname.1 h2 with h3 | h3
      · rw [occursB_nil_false _ hname.1] at h3; cases h3
      · rw [encodePath_eq_join _ hrwf] at h3
        obtain ⟨xe, hxe, hocc'⟩ := occursB_join t.name _ hname.2.1 hname.1 h3
        obtain ⟨a, ha, rfl⟩ := List.mem_map.1 hxe
        have hnd' : ∃ c ∈ t.name, (decVal c).isSome = false := by
          rw [List.any_eq_true] at hnd
          obtain ⟨c, hc1, hc2⟩ := hnd
          exact ⟨c, hc1, by cases hv : decVal c <;> simp [hv] at hc2 ⊢⟩
        have := occursB_encodeElem t.name a hname.2.2.1 hname.2.2.2 hname.1 hnd' hocc'
        have hfa := hfree' a (by
          rw [hr0]
          simp only [rootPath, List.cons_append, List.nil_append, List.tail_cons, List.mem_append]
          exact Or.inr ha)
        rw [hfa] at this; cases this
  have hrel := dsnRelativefy_encode q (el :: r) hqwf hrwf hqne (by simp) hocc
  have hsw : startsWith (encodePath (q ++ el :: r)) (encodePath q ++ dot) = true :=
    startsWith_encode_child q r el hpwf hqne
  simp only [relTags, hsw, Bool.not_true, Bool.false_eq_true, if_false, hrel, Except.map, Except.toOption,
    dsnElements_strip _ hrwf, List.drop_left]

mutual
theorem nameFree_of_namesIn (name : Str) (tags : List Str) (htags : ∀ g ∈ tags, occursB name g = false) (e : Entry)
    (h : namesInB tags e = true) : nameFreeB name e = true := by
  match e with
  | .tree t cs =>
    simp only [namesInB, Bool.and_eq_true, List.contains_iff_mem] at h
    simp only [nameFreeB, Bool.and_eq_true, Bool.not_eq_true']
    exact ⟨htags t h.1, nameFreeList_of_namesIn name tags htags cs h.2⟩
  | .token t v =>
    simp only [namesInB, List.contains_iff_mem] at h
    simp only [nameFreeB, Bool.not_eq_true']
    exact htags t h
  | .empty =>
    simp only [namesInB, List.contains_iff_mem] at h
    simp only [nameFreeB, Bool.not_eq_true']
    exact htags _ h
theorem nameFreeList_of_namesIn (name : Str) (tags : List Str) (htags : ∀ g ∈ tags, occursB name g = false)
    (cs : List Entry) (h : namesInListB tags cs = true) : nameFreeListB name cs = true := by
  match cs with
  | [] => rfl
  | c :: rest =>
    simp only [namesInListB, Bool.and_eq_true] at h
    simp only [nameFreeListB, Bool.and_eq_true]
    exact ⟨nameFree_of_namesIn name tags htags c h.1, nameFreeList_of_namesIn name tags htags rest h.2⟩
end

/-- a tree over a tag alphabet in which the root's tag never occurs inside another tag is `RootNameFree` -/
theorem rootNameFree_of_alphabet (t : Entry) (start : Str) (tags : List Str) (hroot : t.name = start)
    (hnd : start.any (fun c => (decVal c).isNone) = true) (htags : ∀ g ∈ tags, occursB start g = false)
    (hin : namesInListB tags t.children = true) : RootNameFree t :=
  ⟨by rw [hroot]; exact hnd, by rw [hroot]; exact nameFreeList_of_namesIn start tags htags _ hin⟩

/-! ### `valid`, `relativefy`, `escaped_origin` -/

theorem EP.valid_encode (p : Path) (hp : WfPath p) : EP.valid (encodePath p) = !p.isEmpty := by
  unfold EP.valid
  cases p with
  | nil => simp [encodePath_nil, dsnElemCounts]
  | cons a as =>
    have := dsnElemCounts_ne_zero _ (encodePath_ne_nil (a :: as) hp (by simp))
    simp at this ⊢
    omega

theorem EP.relativefy_encode (q r : Path) (hq : WfPath q) (hr : WfPath r) (hqn : q ≠ []) (hrn : r ≠ [])
    (hocc : occursB (encodePath q) (dot ++ encodePath r) = false) :
    EP.relativefy (encodePath (q ++ r)) (encodePath q) = .ok (encodePath r) := by
  unfold EP.relativefy
  have hsw : startsWith (encodePath (q ++ r)) (encodePath q ++ dot) = true := by
    rw [encodePath_append q r hq hr hqn hrn]; exact startsWith_append _ _
  simp only [hsw, Bool.not_true, Bool.false_eq_true, if_false]
  exact dsnRelativefy_encode q r hq hr hqn hrn hocc

/-- inverse of the escaping: a backslash makes the next character literal -/
def unescape : Str → Str
  | [] => []
  | '\\' :: c :: rest => c :: unescape rest
  | c :: rest => c :: unescape rest

theorem unescape_cons_ne (c : Char) (rest : Str) (hc : ¬ c = '\\') : unescape (c :: rest) = c :: unescape rest := by
  rw [unescape]
  intro c' rest' he _
  exact hc he

theorem EP.unescape_escaped (s : Str) (h : '\\' ∉ s) : unescape (EP.escaped s) = s := by
  induction s with
  | nil => rfl
  | cons c cs ih =>
    simp at h
    have hc : ¬ c = '\\' := fun e => h.1 e.symm
    have hrec := ih h.2
    unfold EP.escaped at hrec ⊢
    simp only [List.flatMap_cons]
    by_cases hm : c = '.' ∨ c = '[' ∨ c = ']'
    · simp only [hm, if_true, List.cons_append, List.nil_append]
      rw [unescape, hrec]
    · simp only [hm, if_false, List.cons_append, List.nil_append]
      rw [unescape_cons_ne c _ hc, hrec]

end Tranp.AstPath
