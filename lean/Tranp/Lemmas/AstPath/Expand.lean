/-
  Helper lemmas for property C10: `Nodes.expand` (before resolution) on the cache built from `full_pathfy`, under the
  string-level side condition `RelativefySafe`, returns `expandOf … 3`: for each child subtree the
  entry itself when its tag is resolvable or it is a terminal, else the same one level down — three levels deep.
-/
import Tranp.Lemmas.AstPath.GroupBy

namespace Tranp.AstPath
open Tranp Tranp.Str Tranp.StrCodec

/-! ### top-level `group_by` / `values` on the cache of `Nodes` -/

theorem size_le_of_mem (t : Entry) (p q : Path) (x : Entry) (hq : (q, x) ∈ pathfy t p) : size x ≤ size t := by
  have := (subtree_sublist t p q x hq).length_le
  rwa [pathfy_length, pathfy_length] at this

theorem groupByAll_mkCache (t : Entry) (h : WfTags t) (q : Path) (x : Entry)
    (hq : (q, x) ∈ pathfy t (rootPath t)) (d : Int) (hd : d ≠ 0) :
    (mkCache t).groupByAll (encodePath q) d = .ok ((under d x q).map encKV) := by
  unfold Cache.groupByAll
  apply groupBy_under _ _ (mkCache_ok t h) x q d _ hd
  · rw [mkCache_entries t h, fullPathfy_length t h]
    have := size_le_of_mem t _ q x hq
    omega
  · exact fun z hz => (subtree_sublist t _ q x hq).subset hz

theorem groupByAll_zero (t : Entry) (h : WfTags t) (q : Path) (x : Entry)
    (hq : (q, x) ∈ pathfy t (rootPath t)) : (mkCache t).groupByAll (encodePath q) 0 = .ok [] := by
  unfold Cache.groupByAll
  have hby := (mkCache_ok t h).by_ok q x hq
  simp [Cache.groupBy, exists_of_by _ _ x hby]

theorem valuesOf_mkCache (t : Entry) (h : WfTags t) (w : World) (hw : w.cache = mkCache t) (q : Path) (x : Entry)
    (hq : (q, x) ∈ pathfy t (rootPath t)) :
    valuesOf w (encodePath q) = .ok (((pathfy x q).map (fun pe => pe.2.value)).filter (fun v => !v.isEmpty)) := by
  unfold valuesOf
  rw [hw, groupByAll_mkCache t h q x hq (-1) (by decide), under_neg (-1) (by decide)]
  simp [Except.map, List.map_map, Function.comp_def, encKV]

/-! ### string prefixes of encoded paths -/

theorem startsWith_append (a b : Str) : startsWith (a ++ b) a = true := by
  induction a with
  | nil => cases b <;> simp [startsWith]
  | cons c cs ih => simp [startsWith, ih]

theorem encodePath_append_exists (P r : Path) (hwf : WfPath (P ++ r)) (hne : P ≠ []) :
    ∃ s, encodePath (P ++ r) = encodePath P ++ s := by
  induction r generalizing P with
  | nil => exact ⟨[], by simp⟩
  | cons el r' ih =>
    have hassoc : P ++ el :: r' = (P ++ [el]) ++ r' := by simp
    rw [hassoc] at hwf ⊢
    obtain ⟨s, hs⟩ := ih (P ++ [el]) hwf (by simp)
    have hwP : WfPath P := fun a ha => hwf a (by simp [ha])
    have hel : WfTag el.tag := hwf el (by simp)
    rw [hs, encodePath_snoc P el hwP hne hel]
    exact ⟨dot ++ encodeElem el ++ s, by simp⟩

theorem startsWith_encode_prefix (P r : Path) (hwf : WfPath (P ++ r)) (hne : P ≠ []) :
    startsWith (encodePath (P ++ r)) (encodePath P) = true := by
  obtain ⟨s, hs⟩ := encodePath_append_exists P r hwf hne
  rw [hs]; exact startsWith_append _ _

theorem startsWith_encode_child (P r : Path) (el : Elem) (hwf : WfPath (P ++ el :: r)) (hne : P ≠ []) :
    startsWith (encodePath (P ++ el :: r)) (encodePath P ++ dot) = true := by
  have hassoc : P ++ el :: r = (P ++ [el]) ++ r := by simp
  rw [hassoc] at hwf ⊢
  obtain ⟨s, hs⟩ := encodePath_append_exists (P ++ [el]) r hwf (by simp)
  have hwP : WfPath P := fun a ha => hwf a (by simp [ha])
  rw [hs, encodePath_snoc P el hwP hne (hwf el (by simp))]
  have : encodePath P ++ dot ++ encodeElem el ++ s = (encodePath P ++ dot) ++ (encodeElem el ++ s) := by simp
  rw [this]; exact startsWith_append _ _

theorem startsWith_iff_append (s a : Str) (h : startsWith s a = true) : ∃ b, s = a ++ b := by
  induction a generalizing s with
  | nil => exact ⟨s, rfl⟩
  | cons c cs ih =>
    cases s with
    | nil => simp [startsWith] at h
    | cons d ds =>
      simp [startsWith] at h
      obtain ⟨b, hb⟩ := ih ds h.2
      exact ⟨b, by rw [h.1, hb]; rfl⟩

theorem splitOn_append_sep (d : Char) (a b : Str) : splitOn d (a ++ d :: b) = splitOn d a ++ splitOn d b := by
  induction a with
  | nil => simp [splitOn]
  | cons c cs ih =>
    simp only [List.cons_append, splitOn]
    by_cases hc : c = d
    · simp [hc, ih]
    · simp only [hc, if_false, ih]
      cases hs : splitOn d cs with
      | nil => exact absurd hs (splitOn_ne_nil d cs)
      | cons x xs => simp

theorem map_encodeElem_prefix (R P : Path) (hR : WfPath R) (hP : WfPath P) (tl : List Str)
    (h : P.map encodeElem = R.map encodeElem ++ tl) : R <+: P := by
  induction R generalizing P with
  | nil => exact List.nil_prefix
  | cons a as ih =>
    cases P with
    | nil => simp at h
    | cons b bs =>
      simp only [List.map_cons, List.cons_append, List.cons.injEq] at h
      have hab := encodeElem_inj b a (hP b (by simp)) (hR a (by simp)) h.1
      have := ih bs (fun x hx => hR x (by simp [hx])) (fun x hx => hP x (by simp [hx])) h.2
      rw [hab]
      exact (List.prefix_cons_inj a).2 this

/-- with the delimiter, a string prefix is an element-wise prefix -/
theorem prefix_of_startsWith_dot (R P : Path) (hR : WfPath R) (hRne : R ≠ []) (hP : WfPath P) (hPne : P ≠ [])
    (h : startsWith (encodePath P) (encodePath R ++ dot) = true) : R <+: P := by
  obtain ⟨b, hb⟩ := startsWith_iff_append _ _ h
  have h1 := splitOn_encodePath P hP hPne
  rw [hb] at h1
  have hd : encodePath R ++ dot ++ b = encodePath R ++ '.' :: b := by simp [dot]
  rw [hd, splitOn_append_sep, splitOn_encodePath R hR hRne] at h1
  exact map_encodeElem_prefix R P hR hP _ h1.symm

/-! ### the loop with its final `record` -/

/-- `expandLoop` that also returns the final `record` -/
def expandLoopR (w : World) (via : Str) : List (Str × Entry) → List Str → Except Err (List Str × List Str)
  | [], record => .ok ([], record)
  | (path, e) :: rest, record =>
    match expandTest w via record path e with
    | .error er => .error er
    | .ok (keep, record') =>
      match expandLoopR w via rest record' with
      | .error er => .error er
      | .ok (tl, r'') => .ok (if keep then path :: tl else tl, r'')

theorem expandLoop_eq (w : World) (via : Str) (l : List (Str × Entry)) (record : List Str) :
    expandLoop w via l record = (expandLoopR w via l record).map (·.1) := by
  induction l generalizing record with
  | nil => rfl
  | cons pe rest ih =>
    obtain ⟨path, e⟩ := pe
    simp only [expandLoop, expandLoopR]
    cases ht : expandTest w via record path e with
    | error er => rfl
    | ok kr =>
      obtain ⟨keep, r'⟩ := kr
      simp only [ih r']
      cases hl : expandLoopR w via rest r' with
      | error er => rfl
      | ok tr => obtain ⟨tl, r''⟩ := tr; rfl

theorem expandLoopR_append (w : World) (via : Str) (A B : List (Str × Entry)) (r r' r'' : List Str) (ka kb : List Str)
    (hA : expandLoopR w via A r = .ok (ka, r')) (hB : expandLoopR w via B r' = .ok (kb, r'')) :
    expandLoopR w via (A ++ B) r = .ok (ka ++ kb, r'') := by
  induction A generalizing r ka with
  | nil => simp [expandLoopR] at hA; obtain ⟨rfl, rfl⟩ := hA; simpa using hB
  | cons pe rest ih =>
    obtain ⟨path, e⟩ := pe
    simp only [List.cons_append, expandLoopR] at hA ⊢
    cases ht : expandTest w via r path e with
    | error er => simp [ht] at hA
    | ok kr =>
      obtain ⟨keep, r1⟩ := kr
      simp only [ht] at hA ⊢
      cases hl : expandLoopR w via rest r1 with
      | error er => simp [hl] at hA
      | ok tr =>
        obtain ⟨tl, r2⟩ := tr
        simp only [hl, Except.ok.injEq, Prod.mk.injEq] at hA
        obtain ⟨hka, hr2⟩ := hA
        subst hr2
        rw [ih r1 tl hl]
        subst hka
        cases keep <;> simp

/-- entries below a recorded path are all skipped -/
theorem expandLoopR_skip (w : World) (via : Str) (l : List (Str × Entry)) (record : List Str)
    (h : ∀ z ∈ l, (via == z.1) = false ∧ record.any (fun cached => startsWith z.1 (cached ++ dot)) = true) :
    expandLoopR w via l record = .ok ([], record) := by
  induction l with
  | nil => rfl
  | cons pe rest ih =>
    obtain ⟨path, e⟩ := pe
    obtain ⟨h1, h2⟩ := h (path, e) (by simp)
    simp only at h1 h2
    simp only [expandLoopR, expandTest, h1, h2, Bool.false_eq_true, if_false, if_true]
    rw [ih (fun z hz => h z (by simp [hz]))]

/-- the tester on an encoded path that is neither `via` nor below a recorded path -/
theorem expandTest_enc (w : World) (via : Str) (record : List Str) (P0 : Path) (el : Elem) (e : Entry)
    (hwf : WfPath (P0 ++ [el])) (hvia : (via == encodePath (P0 ++ [el])) = false)
    (hrec : record.any (fun cached => startsWith (encodePath (P0 ++ [el])) (cached ++ dot)) = false) :
    expandTest w via record (encodePath (P0 ++ [el])) e =
      if w.table.canResolve el.tag then .ok (true, record ++ [encodePath (P0 ++ [el])])
      else if e.hasChild then .ok (false, record)
      else (relTags (encodePath (P0 ++ [el])) via).map (fun tags => (!(tags.any w.table.canResolve), record)) := by
  simp only [expandTest, hvia, hrec, Bool.false_eq_true, if_false, lastTag_encodePath P0 el hwf]

/-! ### the blocks of `group_by(via, 3)` -/

theorem under_zero_tree (t : Str) (cs : List Entry) (p : Path) :
    under ((0 : Nat) : Int) (.tree t cs) p = [(p, .tree t cs)] := by
  simp [under]

theorem under_succ_tree (d : Nat) (t : Str) (cs : List Entry) (p : Path) :
    under ((d + 1 : Nat) : Int) (.tree t cs) p = (p, .tree t cs) :: underList (d : Int) cs cs 0 p := by
  have h0 : (((d + 1 : Nat) : Int) == 0) = false := by simp; omega
  have h1 : ((d + 1 : Nat) : Int) - 1 = (d : Int) := by omega
  simp only [under, h0, Bool.false_eq_true, if_false, h1]

theorem under_mem_ext (d : Int) (c : Entry) (pc : Path) (z : Path × Entry) (hz : z ∈ under d c pc) :
    ∃ r, z.1 = pc ++ r :=  by
  obtain ⟨r, hr, _⟩ := pathfy_sound c pc z.1 z.2 ((under_sublist d c pc).subset hz)
  exact ⟨r, hr⟩

theorem underList_mem_ext (d : Int) (all cs : List Entry) (i : Nat) (p : Path) (z : Path × Entry)
    (hz : z ∈ underList d all cs i p) :
    ∃ j c r, cs[j - i]? = some c ∧ i ≤ j ∧ z.1 = p ++ elemFor all j c :: r := by
  obtain ⟨j, c, r, hj, hij, hr, _⟩ := pathfyList_sound all cs i p z.1 z.2 ((underList_sublist d all cs i p).subset hz)
  exact ⟨j, c, r, hj, hij, hr⟩

theorem under_tail_ext (d : Int) (c : Entry) (pc : Path) (tl : List (Path × Entry))
    (htl : under d c pc = (pc, c) :: tl) (z : Path × Entry) (hz : z ∈ tl) : ∃ el r, z.1 = pc ++ el :: r := by
  cases c with
  | tree t cs =>
    simp only [under, List.cons.injEq, true_and] at htl
    split at htl
    · rw [← htl] at hz; simp at hz
    · rw [← htl] at hz
      obtain ⟨j, c', r, _, _, hr⟩ := underList_mem_ext _ _ _ _ _ z hz
      exact ⟨_, r, hr⟩
  | token t v => simp [under] at htl; rw [htl] at hz; simp at hz
  | empty => simp [under] at htl; rw [htl] at hz; simp at hz

/-- last tag of the path is resolvable -/
def lastRes (w : World) (R : Path) : Prop :=
  R.getLast?.map (fun el => w.table.canResolve el.tag) = some true

section blocks
set_option linter.unusedSectionVars false
variable (w : World) (q : Path) (x : Entry)
variable (hUwf : ∀ z ∈ under 3 x q, WfPath z.1 ∧ z.1 ≠ [])
variable (hqwf : WfPath q ∧ q ≠ [])
variable (hrel : RelativefySafe q x)
include hUwf hqwf hrel

/-- a terminal entry below `via` whose path elements below `via` are all unresolvable is kept -/
theorem expand_leaf (c : Entry) (pc r : Path) (el : Elem) (record : List Str) (hpc : pc = q ++ r ++ [el])
    (hleaf : c.hasChild = false) (hmem : (pc, c) ∈ under 3 x q)
    (hr : ∀ a ∈ r, w.table.canResolve a.tag = false) (hres' : w.table.canResolve el.tag = false) :
    (relTags (encodePath pc) (encodePath q)).map (fun tags => (!(tags.any w.table.canResolve), record))
      = .ok (true, record) := by
  have hin : (pc, c) ∈ (under 3 x q).tail := by
    obtain ⟨tl0, htl0⟩ := under_head 3 x q
    rw [htl0] at hmem ⊢
    simp only [List.mem_cons, Prod.mk.injEq, List.tail_cons] at hmem ⊢
    rcases hmem with ⟨h1, _⟩ | hm
    · rw [hpc] at h1; have := congrArg List.length h1; simp at this
    · exact hm
  have hrt := hrel _ hin hleaf
  have hdrop : pc.drop q.length = r ++ [el] := by rw [hpc, List.append_assoc, List.drop_left]
  simp only [hdrop] at hrt
  cases hx : relTags (encodePath pc) (encodePath q) with
  | error er => simp [hx, Except.toOption] at hrt
  | ok ts =>
    simp only [hx, Except.toOption, Option.some.injEq] at hrt
    subst hrt
    have hnone : ((r ++ [el]).map (·.tag)).any w.table.canResolve = false := by
      rw [List.any_eq_false]
      intro tg' htg'
      obtain ⟨a, ha, rfl⟩ := List.mem_map.1 htg'
      rw [List.mem_append, List.mem_singleton] at ha
      rcases ha with ha | rfl
      · simp [hr a ha]
      · simp [hres']
    simp only [Except.map, hnone, Bool.not_false]

/-- facts about the first entry of a block shared by all cases -/
theorem expand_pre (c : Entry) (pc r : Path) (el : Elem) (d : Nat) (record : List Str) (hpc : pc = q ++ r ++ [el])
    (hU : ∀ z ∈ under (d : Int) c pc, z ∈ under 3 x q)
    (hrec : ∀ s ∈ record, ∀ z ∈ under (d : Int) c pc, startsWith (encodePath z.1) (s ++ dot) = false) :
    (pc, c) ∈ under (d : Int) c pc ∧
    (∀ z ∈ under (d : Int) c pc, (encodePath q == encodePath z.1) = false) ∧
    expandTest w (encodePath q) record (encodePath pc) c =
      (if w.table.canResolve el.tag then .ok (true, record ++ [encodePath pc])
      else if c.hasChild then .ok (false, record)
      else (relTags (encodePath pc) (encodePath q)).map (fun tags => (!(tags.any w.table.canResolve), record))) := by
  obtain ⟨tl, htl⟩ := under_head (d : Int) c pc
  have hhead : (pc, c) ∈ under (d : Int) c pc := by rw [htl]; exact List.mem_cons_self
  have hwf : WfPath pc := (hUwf _ (hU _ hhead)).1
  have hwf' : WfPath ((q ++ r) ++ [el]) := by rw [← hpc]; exact hwf
  have hvia : ∀ z ∈ under (d : Int) c pc, (encodePath q == encodePath z.1) = false := by
    intro z hz
    obtain ⟨r', hr'⟩ := under_mem_ext _ _ _ z hz
    simp only [beq_eq_false_iff_ne, ne_eq]
    intro he
    have := encodePath_inj _ _ hqwf.1 (hUwf z (hU z hz)).1 he
    rw [hr', hpc] at this
    have := congrArg List.length this
    simp at this
  have hrec0 : record.any (fun cached => startsWith (encodePath pc) (cached ++ dot)) = false := by
    rw [List.any_eq_false]
    intro s hs
    simpa using hrec s hs _ hhead
  refine ⟨hhead, hvia, ?_⟩
  have := expandTest_enc w (encodePath q) record (q ++ r) el c hwf'
    (by rw [← hpc]; exact hvia _ hhead) (by rw [← hpc]; exact hrec0)
  rw [← hpc] at this; exact this

/-- a block whose first entry has a resolvable tag: that entry is recorded and kept, everything below is skipped -/
theorem expand_block_res (c : Entry) (pc r : Path) (el : Elem) (d : Nat) (record : List Str) (hpc : pc = q ++ r ++ [el])
    (hU : ∀ z ∈ under (d : Int) c pc, z ∈ under 3 x q) (hel : el.tag = c.name)
    (hrec : ∀ s ∈ record, ∀ z ∈ under (d : Int) c pc, startsWith (encodePath z.1) (s ++ dot) = false)
    (hres : w.table.canResolve el.tag = true) :
    ∃ new, expandLoopR w (encodePath q) ((under (d : Int) c pc).map encKV) record =
        .ok ((expandAbs w.table.canResolve d c pc).map encodePath, record ++ new) ∧
      ∀ s ∈ new, ∃ R y, s = encodePath R ∧ (R, y) ∈ under (d : Int) c pc ∧ lastRes w R := by
  obtain ⟨hhead, hvia, htest⟩ := expand_pre w q x hUwf hqwf hrel c pc r el d record hpc hU hrec
  obtain ⟨tl, htl⟩ := under_head (d : Int) c pc
  have habs : expandAbs w.table.canResolve d c pc = [pc] := by
    cases c with
    | tree tg cs => simp only [Entry.name] at hel; simp [expandAbs, ← hel, hres]
    | token tg v => simp [expandAbs]
    | empty => simp [expandAbs]
  refine ⟨[encodePath pc], ?_, ?_⟩
  · rw [htl, List.map_cons]
    simp only [expandLoopR, encKV, htest, hres, if_true]
    rw [expandLoopR_skip, habs]
    · rfl
    · intro z hz
      obtain ⟨z', hz', rfl⟩ := List.mem_map.1 hz
      have hzin : z' ∈ under (d : Int) c pc := by rw [htl]; exact List.mem_cons_of_mem _ hz'
      refine ⟨hvia z' hzin, ?_⟩
      rw [List.any_eq_true]
      refine ⟨encodePath pc, by simp, ?_⟩
      obtain ⟨el', r', hr'⟩ := under_tail_ext _ _ _ _ htl z' hz'
      show startsWith (encodePath z'.1) (encodePath pc ++ dot) = true
      rw [hr']
      apply startsWith_encode_child _ _ _ _ (by rw [hpc]; simp)
      rw [← hr']; exact (hUwf z' (hU z' hzin)).1
  · intro s hs
    rw [List.mem_singleton] at hs; subst hs
    refine ⟨pc, c, rfl, hhead, ?_⟩
    simp [lastRes, hpc, hres]

/-- a terminal block whose tag is not resolvable: kept, nothing recorded -/
theorem expand_block_leaf (c : Entry) (pc r : Path) (el : Elem) (d : Nat) (record : List Str) (hpc : pc = q ++ r ++ [el])
    (hleaf : c.hasChild = false)
    (hU : ∀ z ∈ under (d : Int) c pc, z ∈ under 3 x q)
    (hr : ∀ a ∈ r, w.table.canResolve a.tag = false)
    (hrec : ∀ s ∈ record, ∀ z ∈ under (d : Int) c pc, startsWith (encodePath z.1) (s ++ dot) = false)
    (hres' : w.table.canResolve el.tag = false) :
    ∃ new, expandLoopR w (encodePath q) ((under (d : Int) c pc).map encKV) record =
        .ok ((expandAbs w.table.canResolve d c pc).map encodePath, record ++ new) ∧
      ∀ s ∈ new, ∃ R y, s = encodePath R ∧ (R, y) ∈ under (d : Int) c pc ∧ lastRes w R := by
  obtain ⟨hhead, hvia, htest⟩ := expand_pre w q x hUwf hqwf hrel c pc r el d record hpc hU hrec
  have hl := expand_leaf w q x hUwf hqwf hrel c pc r el record hpc hleaf (hU _ hhead) hr hres'
  refine ⟨[], ?_, by simp⟩
  cases c with
  | tree tg cs => simp [Entry.hasChild] at hleaf
  | token tg v =>
    simp only [under, List.map_cons, List.map_nil, expandLoopR, encKV, htest, hres', Bool.false_eq_true, if_false,
      Entry.hasChild, hl]
    simp [expandAbs]
  | empty =>
    simp only [under, List.map_cons, List.map_nil, expandLoopR, encKV, htest, hres', Bool.false_eq_true, if_false,
      Entry.hasChild, hl]
    simp [expandAbs]

mutual
theorem expand_block (c : Entry) (pc r : Path) (el : Elem) (d : Nat) (record : List Str) (hpc : pc = q ++ r ++ [el])
    (hU : ∀ z ∈ under (d : Int) c pc, z ∈ under 3 x q)
    (hr : ∀ a ∈ r, w.table.canResolve a.tag = false) (hel : el.tag = c.name)
    (hrec : ∀ s ∈ record, ∀ z ∈ under (d : Int) c pc, startsWith (encodePath z.1) (s ++ dot) = false) :
    ∃ new, expandLoopR w (encodePath q) ((under (d : Int) c pc).map encKV) record =
        .ok ((expandAbs w.table.canResolve d c pc).map encodePath, record ++ new) ∧
      ∀ s ∈ new, ∃ R y, s = encodePath R ∧ (R, y) ∈ under (d : Int) c pc ∧ lastRes w R := by
  match c with
  | .tree tg cs =>
    by_cases hres : w.table.canResolve el.tag = true
    · exact expand_block_res w q x hUwf hqwf hrel _ pc r el d record hpc hU hel hrec hres
    · have hres' : w.table.canResolve el.tag = false := by simpa using hres
      obtain ⟨hhead, hvia, htest⟩ := expand_pre w q x hUwf hqwf hrel _ pc r el d record hpc hU hrec
      simp only [Entry.name] at hel
      have hcr : w.table.canResolve tg = false := by rw [← hel]; exact hres'
      cases d with
      | zero =>
        refine ⟨[], ?_, by simp⟩
        rw [under_zero_tree]
        simp only [List.map_cons, List.map_nil, expandLoopR, encKV, htest, hres', Bool.false_eq_true, if_false,
          Entry.hasChild, if_true]
        simp [expandAbs, hcr]
      | succ d' =>
        rw [under_succ_tree] at hU hrec ⊢
        obtain ⟨new, hloop, hnew⟩ := expand_blocks cs cs 0 pc (r ++ [el]) d' record
          (by rw [hpc, List.append_assoc]) (by simp)
          (fun z hz => hU z (List.mem_cons_of_mem _ hz))
          (by
            intro a ha
            rw [List.mem_append, List.mem_singleton] at ha
            rcases ha with ha | rfl
            · exact hr a ha
            · exact hres')
          (fun s hs z hz => hrec s hs z (List.mem_cons_of_mem _ hz))
        refine ⟨new, ?_, ?_⟩
        · simp only [List.map_cons, expandLoopR, encKV, htest, hres', Bool.false_eq_true, if_false,
            Entry.hasChild, if_true]
          rw [hloop]
          simp [expandAbs, hcr]
        · intro s hs
          obtain ⟨R, y, hs', hR, hlr⟩ := hnew s hs
          exact ⟨R, y, hs', List.mem_cons_of_mem _ hR, hlr⟩
  | .token tg v =>
    by_cases hres : w.table.canResolve el.tag = true
    · exact expand_block_res w q x hUwf hqwf hrel _ pc r el d record hpc hU hel hrec hres
    · exact expand_block_leaf w q x hUwf hqwf hrel _ pc r el d record hpc rfl hU hr hrec (by simpa using hres)
  | .empty =>
    by_cases hres : w.table.canResolve el.tag = true
    · exact expand_block_res w q x hUwf hqwf hrel _ pc r el d record hpc hU hel hrec hres
    · exact expand_block_leaf w q x hUwf hqwf hrel _ pc r el d record hpc rfl hU hr hrec (by simpa using hres)
theorem expand_blocks (all cs : List Entry) (i : Nat) (p r : Path) (d : Nat) (record : List Str) (hp : p = q ++ r)
    (hcs : all.drop i = cs)
    (hU : ∀ z ∈ underList (d : Int) all cs i p, z ∈ under 3 x q)
    (hr : ∀ a ∈ r, w.table.canResolve a.tag = false)
    (hrec : ∀ s ∈ record, ∀ z ∈ underList (d : Int) all cs i p, startsWith (encodePath z.1) (s ++ dot) = false) :
    ∃ new, expandLoopR w (encodePath q) ((underList (d : Int) all cs i p).map encKV) record =
        .ok ((expandAbsList w.table.canResolve d all cs i p).map encodePath, record ++ new) ∧
      ∀ s ∈ new, ∃ R y, s = encodePath R ∧ (R, y) ∈ underList (d : Int) all cs i p ∧ lastRes w R := by
  match cs with
  | [] => exact ⟨[], by simp [underList, expandAbsList, expandLoopR], by simp⟩
  | ch :: rest =>
    have hrest : all.drop (i+1) = rest := by rw [← List.drop_drop, hcs]; rfl
    have hci : all[i]? = some ch := by
      have := congrArg (·[0]?) hcs
      simpa using this
    simp only [underList] at hU hrec ⊢
    obtain ⟨new1, hloop1, hnew1⟩ := expand_block ch (p ++ [elemFor all i ch]) r (elemFor all i ch) d record
      (by rw [hp])
      (fun z hz => hU z (List.mem_append_left _ hz)) hr (elemFor_tag all i ch)
      (fun s hs z hz => hrec s hs z (List.mem_append_left _ hz))
    obtain ⟨new2, hloop2, hnew2⟩ := expand_blocks all rest (i+1) p r d (record ++ new1) hp hrest
      (fun z hz => hU z (List.mem_append_right _ hz)) hr
      (by
        intro s hs z hz
        rw [List.mem_append] at hs
        rcases hs with hs | hs
        · exact hrec s hs z (List.mem_append_right _ hz)
        · -- a path recorded in the block of `ch` is not a string prefix of a path in a later sibling's block
          obtain ⟨R, y, rfl, hR, hlr⟩ := hnew1 s hs
          cases hsw : startsWith (encodePath z.1) (encodePath R ++ dot) with
          | false => rfl
          | true =>
            exfalso
            have hRU := hUwf _ (hU _ (List.mem_append_left _ hR))
            have hzU := hUwf _ (hU _ (List.mem_append_right _ hz))
            have hpre := prefix_of_startsWith_dot R z.1 hRU.1 hRU.2 hzU.1 hzU.2 hsw
            obtain ⟨r1, hr1⟩ := under_mem_ext _ _ _ _ hR
            obtain ⟨j, c', r2, hj, hij, hr2⟩ := underList_mem_ext _ _ _ _ _ _ hz
            simp only at hr1
            rw [hr1, hr2, List.append_assoc, List.singleton_append] at hpre
            have hpre' := (List.prefix_append_right_inj _).1 hpre
            obtain ⟨s', hs'⟩ := hpre'
            simp only [List.cons_append, List.cons.injEq] at hs'
            have hcj : all[j]? = some c' := by
              have := congrArg (·[j - (i+1)]?) hrest
              simp [hj] at this
              rw [← this]; congr 1; omega
            have := elemFor_inj all i j ch c' hci hcj hs'.1
            omega)
    refine ⟨new1 ++ new2, ?_, ?_⟩
    · rw [List.map_append, expandLoopR_append w _ _ _ _ _ _ _ _ hloop1 hloop2]
      simp [expandAbsList]
    · intro s hs
      rw [List.mem_append] at hs
      rcases hs with hs | hs
      · obtain ⟨R, y, h1, h2, h3⟩ := hnew1 s hs
        exact ⟨R, y, h1, List.mem_append_left _ h2, h3⟩
      · obtain ⟨R, y, h1, h2, h3⟩ := hnew2 s hs
        exact ⟨R, y, h1, List.mem_append_right _ h2, h3⟩
end

end blocks

/-- `Nodes.expand(via)` before resolution, on the cache of `Nodes.__init__`, under the string-level side condition -/
theorem expandPaths_mkCache (t : Entry) (h : WfTags t) (w : World) (hw : w.cache = mkCache t)
    (q : Path) (x : Entry) (hq : (q, x) ∈ pathfy t (rootPath t))
    (hrel : RelativefySafe q x) :
    expandPaths w (encodePath q) = .ok ((expandOf w.table.canResolve 3 x q).map encodePath) := by
  have hqwf := enum_wf t h q x hq
  have hUwf : ∀ z ∈ under 3 x q, WfPath z.1 ∧ z.1 ≠ [] := by
    intro z hz
    have h1 := (under_sublist 3 x q).subset hz
    have h2 := (subtree_sublist t _ q x hq).subset h1
    exact enum_wf t h z.1 z.2 h2
  unfold expandPaths
  rw [hw, groupByAll_mkCache t h q x hq 3 (by decide)]
  simp only []
  rw [expandLoop_eq]
  have h3 : (3 : Int) = ((2 + 1 : Nat) : Int) := rfl
  cases x with
  | tree tg cs =>
    obtain ⟨new, hloop, _⟩ := expand_blocks w q (.tree tg cs) hUwf hqwf hrel cs cs 0 q [] 2 [] (by simp) (by simp)
      (by
        intro z hz
        rw [h3, under_succ_tree]
        exact List.mem_cons_of_mem _ hz)
      (by simp) (by simp)
    rw [h3, under_succ_tree, List.map_cons]
    have hself : expandTest w (encodePath q) [] (encodePath q) (.tree tg cs) = .ok (false, []) := by
      simp [expandTest]
    simp only [expandLoopR, encKV, hself]
    rw [hloop]
    simp [Except.map, expandOf]
  | token tg v =>
    have hself : expandTest w (encodePath q) [] (encodePath q) (.token tg v) = .ok (false, []) := by
      simp [expandTest]
    simp [under, expandLoopR, encKV, hself, Except.map, expandOf]
  | empty =>
    have hself : expandTest w (encodePath q) [] (encodePath q) .empty = .ok (false, []) := by
      simp [expandTest]
    simp [under, expandLoopR, encKV, hself, Except.map, expandOf]

end Tranp.AstPath
