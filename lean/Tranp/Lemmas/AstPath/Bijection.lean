/-
  Helper lemmas for property C10, string-level bijection: `full_pathfy` on strings is the image of the abstract
  enumeration under the path encoder, its keys are pairwise distinct (so the Python dict keeps every insertion),
  and `pluck` on an encoded path follows the abstract lookup.
-/
import Tranp.Lemmas.AstPath.Codec

namespace Tranp.AstPath
open Tranp Tranp.Str Tranp.StrCodec

/-! ### well-formedness bookkeeping -/

theorem wfTagsB_tree (t : Str) (cs : List Entry) (h : wfTagsB (.tree t cs) = true) :
    WfTag t ∧ wfTagsListB cs = true := by
  simpa [wfTagsB] using h

theorem wfTagsListB_mem (cs : List Entry) (h : wfTagsListB cs = true) : ∀ c ∈ cs, wfTagsB c = true := by
  induction cs with
  | nil => intro c hc; simp at hc
  | cons d rest ih =>
    simp [wfTagsListB] at h
    intro c hc
    simp at hc
    rcases hc with rfl | hc
    · exact h.1
    · exact ih h.2 c hc

theorem wfTag_emptyName : WfTag emptyName := by decide

theorem wfTagsB_name (e : Entry) (h : wfTagsB e = true) : WfTag e.name := by
  cases e with
  | tree t cs => exact (wfTagsB_tree t cs h).1
  | token t v => simpa [wfTagsB, Entry.name] using h
  | empty => exact wfTag_emptyName

theorem wfPath_snoc (p : Path) (el : Elem) (hp : WfPath p) (hel : WfTag el.tag) : WfPath (p ++ [el]) := by
  intro x hx
  simp at hx
  rcases hx with hx | rfl
  · exact hp x hx
  · exact hel

theorem elemFor_tag (all : List Entry) (i : Nat) (c : Entry) : (elemFor all i c).tag = c.name := by
  unfold elemFor; split <;> rfl

/-! ### `DSN.join(path, element)` = encoding of the extended path -/

theorem encodePath_eq_join (p : Path) (hp : WfPath p) : encodePath p = join dot (p.map encodeElem) := by
  unfold encodePath dsnJoin
  rw [filter_nonempty_map_encodeElem p hp]

theorem dsnJoin_encode_snoc (p : Path) (el : Elem) (hp : WfPath p) (hel : WfTag el.tag) :
    dsnJoin [encodePath p, encodeElem el] = encodePath (p ++ [el]) := by
  have hy := encodeElem_ne_nil el hel
  rw [encodePath_eq_join _ (wfPath_snoc p el hp hel), encodePath_eq_join p hp]
  cases p with
  | nil =>
    cases hx : encodeElem el with
    | nil => exact absurd hx hy
    | cons a as => simp [dsnJoin, join, hx]
  | cons a as =>
    have hx : join dot ((a :: as).map encodeElem) ≠ [] := by
      apply join_ne_nil _ _ (by simp)
      intro x hx
      obtain ⟨el', hel', rfl⟩ := List.mem_map.1 hx
      exact encodeElem_ne_nil el' (hp el' hel')
    rw [List.map_append, List.map_singleton, join_append_singleton _ _ _ (by simp)]
    cases hx' : join dot ((a :: as).map encodeElem) with
    | nil => exact absurd hx' hx
    | cons b bs =>
      cases hy' : encodeElem el with
      | nil => exact absurd hy' hy
      | cons c cs => simp [dsnJoin, join]

/-! ### string enumeration = encoded abstract enumeration -/

/-- encode the key of an abstract `(path, entry)` pair -/
def encKV (pe : Path × Entry) : Str × Entry := (encodePath pe.1, pe.2)

mutual
theorem pathfyS_eq (e : Entry) (p : Path) (hp : WfPath p) (he : wfTagsB e = true) :
    pathfyS e (encodePath p) = (pathfy e p).map encKV := by
  match e with
  | .tree t cs =>
    have hcs := (wfTagsB_tree t cs he).2
    simp only [pathfyS, pathfy, List.map_cons]
    rw [pathfySList_eq cs cs 0 p hp hcs]
    rfl
  | .token t v => simp [pathfyS, pathfy, encKV]
  | .empty => simp [pathfyS, pathfy, encKV]
theorem pathfySList_eq (all cs : List Entry) (i : Nat) (p : Path) (hp : WfPath p) (hcs : wfTagsListB cs = true) :
    pathfySList all cs i (encodePath p) = (pathfyList all cs i p).map encKV := by
  match cs with
  | [] => simp [pathfySList, pathfyList]
  | c :: rest =>
    simp only [wfTagsListB, Bool.and_eq_true] at hcs
    have hc := wfTagsB_name c hcs.1
    have hel : WfTag (elemFor all i c).tag := by rw [elemFor_tag]; exact hc
    have hin : (if countTag c.name all == 1 then dsnJoin [encodePath p, c.name]
        else dsnJoin [encodePath p, c.name ++ '[' :: Str.natToDec i ++ [']']])
        = encodePath (p ++ [elemFor all i c]) := by
      rw [← dsnJoin_encode_snoc p _ hp hel]
      unfold elemFor
      split <;> rfl
    simp only [pathfySList, pathfyList, List.map_append]
    rw [hin, pathfyS_eq c _ (wfPath_snoc p _ hp hel) hcs.1, pathfySList_eq all rest (i+1) p hp hcs.2]
end

mutual
theorem pathfy_wfPath (e : Entry) (p : Path) (hp : WfPath p) (he : wfTagsB e = true) :
    ∀ q x, (q, x) ∈ pathfy e p → WfPath q := by
  intro q x h
  match e with
  | .tree t cs =>
    simp only [pathfy, List.mem_cons] at h
    rcases h with h | h
    · simp at h; rw [h.1]; exact hp
    · exact pathfyList_wfPath cs cs 0 p hp (wfTagsB_tree t cs he).2 q x h
  | .token t v => simp [pathfy] at h; rw [h.1]; exact hp
  | .empty => simp [pathfy] at h; rw [h.1]; exact hp
theorem pathfyList_wfPath (all cs : List Entry) (i : Nat) (p : Path) (hp : WfPath p) (hcs : wfTagsListB cs = true) :
    ∀ q x, (q, x) ∈ pathfyList all cs i p → WfPath q := by
  intro q x h
  match cs with
  | [] => simp [pathfyList] at h
  | c :: rest =>
    simp only [wfTagsListB, Bool.and_eq_true] at hcs
    simp only [pathfyList, List.mem_append] at h
    rcases h with h | h
    · refine pathfy_wfPath c _ (wfPath_snoc p _ hp ?_) hcs.1 q x h
      rw [elemFor_tag]; exact wfTagsB_name c hcs.1
    · exact pathfyList_wfPath all rest (i+1) p hp hcs.2 q x h
end

/-- string keys of the enumeration are pairwise distinct -/
theorem pathfy_keys_nodup (e : Entry) (p : Path) (hp : WfPath p) (he : wfTagsB e = true) :
    (((pathfy e p).map encKV).map (·.1)).Nodup := by
  have hnd := pathfy_nodup e p
  rw [List.map_map]
  unfold List.Nodup at hnd ⊢
  rw [List.pairwise_map] at hnd ⊢
  refine List.Pairwise.imp_of_mem ?_ hnd
  intro a b ha hb hab hcontra
  apply hab
  exact encodePath_inj a.1 b.1 (pathfy_wfPath e p hp he a.1 a.2 ha) (pathfy_wfPath e p hp he b.1 b.2 hb) hcontra

/-! ### a Python dict built from pairwise distinct keys keeps every insertion -/

theorem dictInsert_fresh {α : Type} (d : List (Str × α)) (k : Str) (v : α) (h : k ∉ d.map (·.1)) :
    dictInsert d k v = d ++ [(k, v)] := by
  unfold dictInsert
  have : d.any (fun kv => kv.1 == k) = false := by
    rw [List.any_eq_false]
    intro kv hkv hk
    simp at hk
    exact h (List.mem_map.2 ⟨kv, hkv, hk⟩)
  simp [this]

theorem foldl_dictInsert_nodup {α : Type} (kvs d : List (Str × α)) (h : ((d ++ kvs).map (·.1)).Nodup) :
    kvs.foldl (fun d kv => dictInsert d kv.1 kv.2) d = d ++ kvs := by
  induction kvs generalizing d with
  | nil => simp
  | cons kv rest ih =>
    simp only [List.foldl_cons]
    have hfresh : kv.1 ∉ d.map (·.1) := by
      intro hm
      rw [List.map_append, List.nodup_append] at h
      exact h.2.2 _ hm _ (by simp) rfl
    rw [dictInsert_fresh d kv.1 kv.2 hfresh, ih]
    · simp
    · simpa using h

theorem dictOfList_nodup {α : Type} (kvs : List (Str × α)) (h : (kvs.map (·.1)).Nodup) : dictOfList kvs = kvs := by
  unfold dictOfList
  rw [foldl_dictInsert_nodup kvs [] (by simpa using h)]; simp

/-! ### `pluck` on an encoded path -/

theorem pluckRaw_encode (r : Path) (e x : Entry) (hr : WfPath r) (h : pluckRel r e = some x) :
    pluckRaw (r.map encodeElem) e = .ok x := by
  induction r generalizing e with
  | nil => simp [pluckRel] at h; simp [pluckRaw, h]
  | cons el rest ih =>
    have hel := hr el (by simp)
    have hrest : WfPath rest := fun a ha => hr a (by simp [ha])
    simp only [pluckRel] at h
    cases hs : stepInto e el with
    | none => simp [hs] at h
    | some c =>
      simp [hs] at h
      have hrec := ih c hrest h
      obtain ⟨tag, idx⟩ := el
      cases e with
      | tree t cs =>
        simp only [List.map_cons, pluckRaw, Entry.hasChild, if_true, breakTag_encodeElem _ hel, Entry.children]
        cases idx with
        | none =>
          simp only [stepInto] at hs
          simp [Elem.idxInt, hs, hrec]
        | some i =>
          simp only [stepInto] at hs
          have h1 : ((i : Int) != -1) = true := by simp
          simp [Elem.idxInt, h1, hs, hrec]
      | token t v => simp [stepInto] at hs
      | empty => simp [stepInto] at hs

end Tranp.AstPath
