/-
  Helper lemmas for property C10: `Nodes.parent` (before resolution) on the cache built from `full_pathfy`
  returns the nearest proper prefix whose last tag is resolvable.
-/
import Tranp.Lemmas.AstPath.ChildrenPaths

namespace Tranp.AstPath
open Tranp Tranp.Str Tranp.StrCodec

theorem dsnElemCounts_ne_zero (s : Str) (h : s ≠ []) : (dsnElemCounts s == 0) = false := by
  cases s with
  | nil => exact absurd rfl h
  | cons c cs =>
    unfold dsnElemCounts
    by_cases hc : c = '.'
    · subst hc; simp [count]
    · simp [hc]

theorem encodePath_ne_nil (q : Path) (hq : WfPath q) (hne : q ≠ []) : encodePath q ≠ [] := by
  rw [encodePath_eq_join q hq]
  apply join_ne_nil _ _ (by simpa using hne)
  intro x hx
  obtain ⟨el, hel, rfl⟩ := List.mem_map.1 hx
  exact encodeElem_ne_nil el (hq el hel)

theorem shiftLast_encodePath (q : Path) (hq : WfPath q) : shiftLast (encodePath q) = encodePath q.dropLast := by
  unfold shiftLast
  rw [dsnElements_encodePath q hq, ← List.map_dropLast]
  rfl

theorem lastTag_encodePath (q : Path) (el : Elem) (hq : WfPath (q ++ [el])) :
    lastTag (encodePath (q ++ [el])) = .ok el.tag := by
  unfold lastTag
  rw [dsnElements_encodePath _ hq]
  simp only [List.map_append, List.map_cons, List.map_nil, List.getLast?_concat]
  rw [breakTag_encodeElem el (hq el (by simp))]
  rfl

/-- the search loop of `Nodes.parent` started at an enumerated path (or at the empty path) -/
theorem parentGo_spec (w : World) (P : List Path) (hP : Closed P)
    (hby : ∀ q ∈ P, ∃ e, w.cache.by_ (encodePath q) = .ok e)
    (rq : List Elem) (fuel : Nat) (hfuel : rq.length + 1 ≤ fuel) (hq : rq = [] ∨ rq.reverse ∈ P) :
    parentPath.go w fuel (encodePath rq.reverse) =
      match nearestRes w.table.canResolve rq with
      | some r => .ok (encodePath r.reverse)
      | none => .error .nodeNotFound := by
  induction rq generalizing fuel with
  | nil =>
    cases fuel with
    | zero => simp at hfuel
    | succ f => simp [parentPath.go, nearestRes, encodePath, dsnJoin, join, dsnElemCounts]
  | cons el rest ih =>
    cases fuel with
    | zero => simp at hfuel
    | succ f =>
      have hmem : (el :: rest).reverse ∈ P := by
        rcases hq with h0 | h1
        · simp at h0
        · exact h1
      obtain ⟨hwf, hne⟩ := hP.wf _ hmem
      have hrev : (el :: rest).reverse = rest.reverse ++ [el] := by simp
      have hlt : lastTag (encodePath (el :: rest).reverse) = .ok el.tag := by
        rw [hrev]; apply lastTag_encodePath; rw [← hrev]; exact hwf
      simp only [parentPath.go, dsnElemCounts_ne_zero _ (encodePath_ne_nil _ hwf hne), Bool.false_eq_true, if_false,
        hlt, nearestRes]
      by_cases hc : w.table.canResolve el.tag = true
      · obtain ⟨e, he⟩ := hby _ hmem
        simp only [hc, if_true, he, Except.map]
      · simp only [hc, Bool.false_eq_true, if_false]
        rw [shiftLast_encodePath _ hwf, hrev, List.dropLast_concat]
        apply ih f (by simp at hfuel; omega)
        have := hP.parent _ hmem
        rw [hrev, List.dropLast_concat] at this
        rcases this with h0 | h1
        · left; simpa using h0
        · right; exact h1

/-- `Nodes.parent(via)` before resolution, on the cache of `Nodes.__init__` -/
theorem parentPath_mkCache (t : Entry) (h : WfTags t) (w : World) (hw : w.cache = mkCache t)
    (q : Path) (x : Entry) (hq : (q, x) ∈ pathfy t (rootPath t)) :
    parentPath w (encodePath q) =
      match nearestRes w.table.canResolve q.dropLast.reverse with
      | some r => .ok (encodePath r.reverse)
      | none => .error .nodeNotFound := by
  obtain ⟨hqwf, hqne⟩ := enum_wf t h q x hq
  obtain ⟨_, hcl⟩ := mkCache_children t h
  have hmem : q ∈ enumPaths t := List.mem_map.2 ⟨(q, x), hq, rfl⟩
  have hby : ∀ q' ∈ enumPaths t, ∃ e, w.cache.by_ (encodePath q') = .ok e := by
    intro q' hq'
    obtain ⟨⟨q'', x'⟩, hqx, rfl⟩ := List.mem_map.1 hq'
    exact ⟨x', by rw [hw]; exact mkCache_by t h _ x' (mem_fullPathfy_of_enum t h _ x' hqx)⟩
  unfold parentPath
  rw [dsnElements_encodePath q hqwf, shiftLast_encodePath q hqwf, List.length_map]
  have := parentGo_spec w (enumPaths t) hcl hby q.dropLast.reverse q.length
    (by
      have : 0 < q.length := List.length_pos_iff.2 hqne
      simp; omega)
    (by
      rcases hcl.parent q hmem with h0 | h1
      · left; simp [h0]
      · right; simpa using h1)
  simpa using this

/-- `Nodes.siblings(via)` before resolution = `Nodes.children` of the path without its last element -/
theorem siblingsPaths_mkCache (t : Entry) (h : WfTags t) (w : World)
    (q : Path) (x : Entry) (hq : (q, x) ∈ pathfy t (rootPath t)) (hd : q.dropLast ≠ []) :
    siblingsPaths w (encodePath q) = childrenPaths w (encodePath q.dropLast) := by
  obtain ⟨hqwf, hqne⟩ := enum_wf t h q x hq
  obtain ⟨q1, last, rfl⟩ : ∃ q1 last, q = q1 ++ [last] :=
    ⟨q.dropLast, q.getLast hqne, (List.dropLast_concat_getLast hqne).symm⟩
  simp only [List.dropLast_concat] at hd ⊢
  have hwf1 : WfPath q1 := fun el hel => hqwf el (by simp [hel])
  unfold siblingsPaths childrenPaths
  simp only [shiftLast_encodePath _ hqwf, List.dropLast_concat,
    dsnElemCounts_ne_zero _ (encodePath_ne_nil _ hwf1 hd), Bool.false_eq_true, if_false]
  rw [count_dot_snoc q1 last hwf1 hd (hqwf last (by simp))]

/-- the root has no siblings: `Errors.NodeNotFound` -/
theorem siblingsPaths_root (t : Entry) (h : WfTags t) (w : World) :
    siblingsPaths w (encodePath (rootPath t)) = .error .nodeNotFound := by
  unfold siblingsPaths
  rw [shiftLast_encodePath _ (wfPath_root t h)]
  simp [rootPath, encodePath, dsnJoin, join, dsnElemCounts]

/-- the parent of a child path is the path itself when its own tag is resolvable -/
theorem parentPath_child (t : Entry) (h : WfTags t) (w : World) (hw : w.cache = mkCache t)
    (q1 : Path) (l : Elem) (x : Entry) (hq : (q1 ++ [l], x) ∈ pathfy t (rootPath t))
    (el : Elem) (hel : el ∈ childElems x) (hres : w.table.canResolve l.tag = true) :
    parentPath w (encodePath (q1 ++ [l] ++ [el])) = .ok (encodePath (q1 ++ [l])) := by
  obtain ⟨ce, hce, _⟩ := child_enumerated t h _ x hq el hel
  rw [parentPath_mkCache t h w hw _ ce hce]
  simp [nearestRes, hres]

end Tranp.AstPath
