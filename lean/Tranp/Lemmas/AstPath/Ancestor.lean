/-
  Helper lemmas for property C10: `Nodes.ancestor` (before resolution) on the cache built from `full_pathfy`
  returns the prefix ending at the nearest element (from the end, the path's own last element included) with the tag.
-/
import Tranp.Lemmas.AstPath.Parent

namespace Tranp.AstPath
open Tranp Tranp.Str Tranp.StrCodec

/-! ### `re.sub(r'\[\d+\]', '', path)` on an encoded path drops exactly the index groups -/

theorem stripAux_nil (fuel : Nat) : stripIndexGroupsAux fuel [] = [] := by
  cases fuel <;> simp [stripIndexGroupsAux]

theorem stripAux_plain (a b : Str) (fuel : Nat) (ha : '[' ∉ a) (hf : (a ++ b).length ≤ fuel) :
    stripIndexGroupsAux fuel (a ++ b) = a ++ stripIndexGroupsAux (fuel - a.length) b := by
  induction a generalizing fuel with
  | nil => simp
  | cons c cs ih =>
    simp at ha
    cases fuel with
    | zero => simp at hf
    | succ f =>
      have hc : ¬ c = '[' := fun e => ha.1 e.symm
      simp only [List.cons_append]
      rw [stripIndexGroupsAux]
      · rw [ih f ha.2 (by simp at hf ⊢; omega)]
        simp
      · intro e; exact hc e

theorem takeWhile_append_stop {α : Type} (p : α → Bool) (a : List α) (x : α) (t : List α)
    (ha : ∀ c ∈ a, p c = true) (hx : p x = false) :
    (a ++ x :: t).takeWhile p = a ∧ (a ++ x :: t).dropWhile p = x :: t := by
  induction a with
  | nil => simp [hx]
  | cons c cs ih =>
    have hc := ha c (by simp)
    have := ih (fun d hd => ha d (by simp [hd]))
    simp [hc, this]

theorem stripAux_group (i : Nat) (tail : Str) (f : Nat) :
    stripIndexGroupsAux (f + 1) ('[' :: (natToDec i ++ ']' :: tail)) = stripIndexGroupsAux f tail := by
  have h := takeWhile_append_stop (fun c => (decVal c).isSome) (natToDec i) ']' tail
    (natToDec_digits i) (by decide)
  rw [stripIndexGroupsAux]
  simp only [h.1, h.2]
  cases hn : natToDec i with
  | nil => exact absurd hn (natToDec_ne_nil i)
  | cons d ds => rfl

/-- one encoded element followed by anything: the tag stays, the index group goes -/
theorem stripAux_elem (el : Elem) (hel : WfTag el.tag) (b : Str) (fuel : Nat)
    (hf : (encodeElem el ++ b).length ≤ fuel) :
    ∃ fuel', b.length ≤ fuel' ∧
      stripIndexGroupsAux fuel (encodeElem el ++ b) = el.tag ++ stripIndexGroupsAux fuel' b := by
  obtain ⟨tag, idx⟩ := el
  obtain ⟨_, _, hl, _⟩ := hel
  simp only at hl
  cases idx with
  | none =>
    simp only [encodeElem] at hf ⊢
    exact ⟨fuel - tag.length, by simp at hf; omega, stripAux_plain tag b fuel hl hf⟩
  | some i =>
    have henc : encodeElem ⟨tag, some i⟩ ++ b = tag ++ ('[' :: (natToDec i ++ ']' :: b)) := by simp [encodeElem]
    rw [henc] at hf ⊢
    rw [stripAux_plain tag _ fuel hl hf]
    simp only [List.length_append, List.length_cons] at hf
    obtain ⟨f, hfe⟩ : ∃ f, fuel - tag.length = f + 1 := ⟨fuel - tag.length - 1, by omega⟩
    rw [hfe, stripAux_group]
    exact ⟨f, by omega, rfl⟩

theorem stripAux_join (q : Path) (hq : WfPath q) (fuel : Nat)
    (hf : (join dot (q.map encodeElem)).length ≤ fuel) :
    stripIndexGroupsAux fuel (join dot (q.map encodeElem)) = join dot (q.map (·.tag)) := by
  induction q generalizing fuel with
  | nil => simp [join, stripAux_nil]
  | cons el rest ih =>
    have hel := hq el (by simp)
    have hrest : WfPath rest := fun a ha => hq a (by simp [ha])
    cases rest with
    | nil =>
      simp only [List.map_cons, List.map_nil, join] at hf ⊢
      obtain ⟨fuel', _, h⟩ := stripAux_elem el hel [] fuel (by simpa using hf)
      simp only [List.append_nil] at h
      rw [h, stripAux_nil, List.append_nil]
    | cons el2 rest2 =>
      simp only [List.map_cons, join_cons_cons, List.append_assoc] at hf ⊢
      obtain ⟨fuel', hf', h⟩ := stripAux_elem el hel _ fuel hf
      rw [h]
      congr 1
      have hcons : ∀ X : Str, dot ++ X = '.' :: X := fun _ => rfl
      rw [hcons] at hf' ⊢
      simp only [List.length_cons] at hf'
      cases fuel' with
      | zero => omega
      | succ f =>
        rw [stripIndexGroupsAux]
        · congr 1
          have := ih hrest f (by simp only [List.map_cons]; omega)
          simpa using this
        · intro e; exact absurd e (by decide)

theorem stripIndexGroups_encodePath (q : Path) (hq : WfPath q) :
    stripIndexGroups (encodePath q) = join dot (q.map (·.tag)) := by
  unfold stripIndexGroups
  rw [encodePath_eq_join q hq]
  exact stripAux_join q hq _ (Nat.le_refl _)

/-- the path with every index dropped -/
def tagsOnly (q : Path) : Path := q.map (fun el => ⟨el.tag, none⟩)

theorem dsnElements_strip (q : Path) (hq : WfPath q) :
    dsnElements (stripIndexGroups (encodePath q)) = q.map (·.tag) := by
  have hw : WfPath (tagsOnly q) := by
    intro el hel
    obtain ⟨el', hel', rfl⟩ := List.mem_map.1 hel
    exact hq el' hel'
  have h1 : join dot (q.map (·.tag)) = encodePath (tagsOnly q) := by
    rw [encodePath_eq_join _ hw, tagsOnly, List.map_map]
    congr 1
  rw [stripIndexGroups_encodePath q hq, h1, dsnElements_encodePath _ hw, tagsOnly, List.map_map]
  apply List.map_congr_left
  intro el _
  rfl

/-! ### the search -/

theorem findIdx_nearestRes (tg : Str) (rq : List Elem) :
    match (rq.map (·.tag)).findIdx? (· == tg) with
    | none => nearestRes (· == tg) rq = none
    | some i => nearestRes (· == tg) rq = some (rq.drop i) ∧ i < rq.length := by
  induction rq with
  | nil => simp [nearestRes]
  | cons el rest ih =>
    simp only [List.map_cons, List.findIdx?_cons, nearestRes]
    by_cases he : (el.tag == tg) = true
    · simp [he]
    · simp only [he, Bool.false_eq_true, if_false]
      cases hf : (rest.map (·.tag)).findIdx? (· == tg) with
      | none => simp [hf] at ih ⊢; exact ih
      | some i => simp [hf] at ih ⊢; exact ih

theorem closed_drop (P : List Path) (hP : Closed P) (rq : List Elem) (hm : rq.reverse ∈ P) (i : Nat)
    (hi : i < rq.length) : (rq.drop i).reverse ∈ P := by
  induction i with
  | zero => simpa using hm
  | succ j ih =>
    have hj := ih (by omega)
    have hsplit : rq.drop j = rq[j] :: rq.drop (j+1) := by
      rw [List.drop_eq_getElem_cons (by omega)]
    rw [hsplit, List.reverse_cons] at hj
    have := hP.parent _ hj
    rw [List.dropLast_concat] at this
    rcases this with h0 | h1
    · have : (rq.drop (j+1)).length = 0 := by
        have := congrArg List.length h0; simpa using this
      simp at this; omega
    · exact h1

/-- `Nodes.ancestor(via, tag)` before resolution, on the cache of `Nodes.__init__` -/
theorem ancestorPath_mkCache (t : Entry) (h : WfTags t) (w : World) (hw : w.cache = mkCache t)
    (q : Path) (x : Entry) (hq : (q, x) ∈ pathfy t (rootPath t)) (tg : Str) :
    ancestorPath w (encodePath q) tg =
      match nearestRes (· == tg) q.reverse with
      | some r => .ok (encodePath r.reverse)
      | none => .error .valueError := by
  obtain ⟨hqwf, hqne⟩ := enum_wf t h q x hq
  obtain ⟨_, hcl⟩ := mkCache_children t h
  have hmem : q ∈ enumPaths t := List.mem_map.2 ⟨(q, x), hq, rfl⟩
  unfold ancestorPath
  simp only [dsnElements_strip q hqwf, dsnElements_encodePath q hqwf, ← List.map_reverse]
  have hfn := findIdx_nearestRes tg q.reverse
  cases hf : (q.reverse.map (·.tag)).findIdx? (· == tg) with
  | none =>
    rw [hf] at hfn
    simp only [hfn]
  | some i =>
    rw [hf] at hfn
    obtain ⟨hn, hi⟩ := hfn
    simp only [hn, List.length_map, List.length_reverse]
    have hpre : (q.reverse.drop i).reverse = q.take (q.length - i) := by
      rw [List.drop_reverse, List.reverse_reverse]
    have hfound : dsnJoin ((q.map encodeElem).take (q.length - i)) = encodePath (q.take (q.length - i)) := by
      rw [← List.map_take]; rfl
    rw [hfound, hpre]
    have hin : q.take (q.length - i) ∈ enumPaths t := by
      rw [← hpre]
      exact closed_drop _ hcl q.reverse (by simpa using hmem) i hi
    obtain ⟨⟨q', x'⟩, hqx, hq'⟩ := List.mem_map.1 hin
    simp only at hq'; subst hq'
    rw [hw, mkCache_by t h _ x' (mem_fullPathfy_of_enum t h _ x' hqx)]
    rfl

end Tranp.AstPath
