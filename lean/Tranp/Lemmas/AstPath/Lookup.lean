/-
  Helper lemmas for property C10: `pluck` on a path with the index of one element dropped — the element then addresses the
  last child carrying the tag, i.e. the path indexed with that child's position.
-/
import Tranp.Lemmas.AstPath.Cache

namespace Tranp.AstPath
open Tranp Tranp.Str

theorem lastIdxWithTag_name (t : Str) (cs : List Entry) (j : Nat) (h : lastIdxWithTag t cs = some j) :
    ∃ c, cs[j]? = some c ∧ c.name = t := by
  induction cs generalizing j with
  | nil => simp [lastIdxWithTag] at h
  | cons c rest ih =>
    simp only [lastIdxWithTag] at h
    cases hr : lastIdxWithTag t rest with
    | none =>
      simp only [hr] at h
      by_cases hc : c.name == t
      · simp [hc] at h; subst h; exact ⟨c, by simp, by simpa using hc⟩
      · simp [hc] at h
    | some k =>
      simp only [hr] at h
      injection h with h; subst h
      obtain ⟨c', h1, h2⟩ := ih k hr
      exact ⟨c', by simpa using h1, h2⟩

theorem lastWithTag_eq_idx (t : Str) (cs : List Entry) :
    lastWithTag t cs = (lastIdxWithTag t cs).bind (fun j => cs[j]?) := by
  induction cs with
  | nil => rfl
  | cons c rest ih =>
    simp only [lastWithTag, lastIdxWithTag, ih]
    cases h : lastIdxWithTag t rest with
    | none => by_cases hc : c.name == t <;> simp [hc]
    | some j =>
      obtain ⟨c', h1, _⟩ := lastIdxWithTag_name t rest j h
      simp [h1]

theorem stepInto_deindexed (e : Entry) (tag : Str) :
    stepInto e ⟨tag, none⟩ = (lastIdxWithTag tag e.children).bind (fun j => stepInto e ⟨tag, some j⟩) := by
  cases e with
  | tree t cs => simp only [stepInto, Entry.children, lastWithTag_eq_idx]
  | token t v => simp [stepInto, Entry.children, lastIdxWithTag]
  | empty => simp [stepInto, Entry.children, lastIdxWithTag]

/-- `pluck` below an entry: the de-indexed element addresses the last child with the tag -/
theorem pluckRel_deindexed (p q : Path) (tag : Str) (t e : Entry) (hp : pluckRel p t = some e) :
    pluckRel (p ++ ⟨tag, none⟩ :: q) t
      = (lastIdxWithTag tag e.children).bind (fun j => pluckRel (p ++ ⟨tag, some j⟩ :: q) t) := by
  rw [pluckRel_append, hp]
  simp only [Option.bind_some, pluckRel, stepInto_deindexed]
  cases h : lastIdxWithTag tag e.children with
  | none => simp
  | some j =>
    simp only [Option.bind_some]
    rw [pluckRel_append, hp]
    simp [pluckRel]

/-- `ASTFinder.pluck` on the strings: any first element stands for the root; the rest is looked up element by element -/
theorem pluckS_encode (t : Entry) (h : WfTags t) (a : Elem) (r : Path) (x : Entry) (hw : WfPath (a :: r)) (hne : r ≠ [])
    (hx : pluckRel r t = some x) : pluckS t (encodePath (a :: r)) = .ok x := by
  have hwr : WfPath r := fun el hel => hw el (by simp [hel])
  unfold pluckS
  split
  · rename_i hname
    exfalso
    have hroot : WfPath (rootPath t) := wfPath_root t h
    rw [← encodePath_root t h] at hname
    have := encodePath_inj _ _ hroot hw hname
    simp [rootPath] at this
    exact hne this.2
  · rw [dsnElements_encodePath _ hw]
    simp only [List.map_cons, List.tail_cons]
    exact pluckRaw_encode r t x hwr hx

end Tranp.AstPath
