/-
  Helper lemmas for property C10, children: which enumerated paths have a given path as their parent
  (abstract layer), as a function of the entry at that path.
-/
import Tranp.Lemmas.AstPath.Cache

namespace Tranp.AstPath
open Tranp Tranp.Str Tranp.StrCodec

/-- last elements of the paths in `l` whose parent path (all but the last element) is `q`, in list order -/
def kidsE (l : List Path) (q : Path) : List Elem :=
  l.filterMap (fun q2 => if q2.dropLast = q then q2.getLast? else none)

theorem kidsE_append (a b : List Path) (q : Path) : kidsE (a ++ b) q = kidsE a q ++ kidsE b q := by
  simp [kidsE, List.filterMap_append]

theorem kidsE_cons (x : Path) (l : List Path) (q : Path) :
    kidsE (x :: l) q = (if x.dropLast = q then x.getLast? else none).toList ++ kidsE l q := by
  unfold kidsE
  rw [List.filterMap_cons]
  cases h : (if x.dropLast = q then x.getLast? else none) <;> simp

theorem kidsE_eq_nil (l : List Path) (q : Path) (h : ∀ q2 ∈ l, q2 ≠ [] → q2.dropLast ≠ q) : kidsE l q = [] := by
  unfold kidsE
  rw [List.filterMap_eq_nil_iff]
  intro q2 hq2
  by_cases hd : q2.dropLast = q
  · have : q2 = [] := by
      apply Classical.byContradiction
      intro hne; exact h q2 hq2 hne hd
    simp [this]
  · simp [hd]

theorem dropLast_append_cons (p : Path) (el : Elem) (r : Path) :
    (p ++ el :: r).dropLast = p ++ (el :: r).dropLast := by
  rw [List.dropLast_append_of_ne_nil (by simp)]

theorem mem_childElemsAux (all cs : List Entry) (i : Nat) (el : Elem) (h : el ∈ childElemsAux all cs i) :
    ∃ j c, i ≤ j ∧ cs[j - i]? = some c ∧ el = elemFor all j c := by
  induction cs generalizing i with
  | nil => simp [childElemsAux] at h
  | cons d rest ih =>
    simp only [childElemsAux, List.mem_cons] at h
    rcases h with h | h
    · exact ⟨i, d, Nat.le_refl _, by simp, h⟩
    · obtain ⟨j, c, hij, hj, hel⟩ := ih (i+1) h
      refine ⟨j, c, by omega, ?_, hel⟩
      have : j - i = (j - (i+1)) + 1 := by omega
      rw [this]; simpa using hj

theorem childElemsAux_getElem? (all cs : List Entry) (i k : Nat) :
    (childElemsAux all cs i)[k]? = cs[k]?.map (fun c => elemFor all (i + k) c) := by
  induction cs generalizing i k with
  | nil => simp [childElemsAux]
  | cons d rest ih =>
    cases k with
    | zero => simp [childElemsAux]
    | succ k =>
      simp only [childElemsAux, List.getElem?_cons_succ]
      rw [ih (i+1) k]
      have : i + 1 + k = i + (k + 1) := by omega
      rw [this]

theorem childElemsAux_nodup (all cs : List Entry) (i : Nat) (hcs : all.drop i = cs) :
    (childElemsAux all cs i).Nodup := by
  induction cs generalizing i with
  | nil => simp [childElemsAux]
  | cons d rest ih =>
    have hrest : all.drop (i+1) = rest := by rw [← List.drop_drop, hcs]; rfl
    simp only [childElemsAux, List.nodup_cons]
    refine ⟨?_, ih (i+1) hrest⟩
    intro hm
    obtain ⟨j, c, hij, hj, hel⟩ := mem_childElemsAux all rest (i+1) _ hm
    have hci : all[i]? = some d := by
      have := congrArg (·[0]?) hcs
      simpa using this
    have hcj : all[j]? = some c := by
      have := congrArg (·[j - (i+1)]?) hrest
      simp [hj] at this
      rw [← this]; congr 1; omega
    have := elemFor_inj all i j d c hci hcj hel
    omega

/-- in the enumeration of a subtree rooted at `p ++ [el]`, exactly the first path has parent `p` -/
theorem kidsE_subtree_parent (c : Entry) (p : Path) (el : Elem) :
    kidsE ((pathfy c (p ++ [el])).map (·.1)) p = [el] := by
  have hfirst : (if (p ++ [el]).dropLast = p then (p ++ [el]).getLast? else none).toList = [el] := by simp
  match c with
  | .tree t cs =>
    simp only [pathfy, List.map_cons]
    rw [kidsE_cons, hfirst, kidsE_eq_nil]
    · rfl
    · intro q2 hq2 _ hd
      obtain ⟨⟨q, x⟩, hqx, rfl⟩ := List.mem_map.1 hq2
      obtain ⟨j, c', r, _, _, hq, _⟩ := pathfyList_sound cs cs 0 (p ++ [el]) q x hqx
      simp only at hd
      have := congrArg List.length hd
      rw [hq] at this
      simp at this
  | .token t v => simp [pathfy, kidsE]
  | .empty => simp [pathfy, kidsE]

mutual
theorem pathfy_kids (e : Entry) (p : Path) (hp : p ≠ []) :
    ∀ q x, (q, x) ∈ pathfy e p → kidsE ((pathfy e p).map (·.1)) q = childElems x := by
  intro q x h
  match e with
  | .tree t cs =>
    have hq : ¬ p.dropLast = q := by
      obtain ⟨r, hr, _⟩ := pathfy_sound (.tree t cs) p q x h
      intro hd
      have := congrArg List.length hd
      rw [hr] at this
      have : 0 < p.length := List.length_pos_iff.2 hp
      simp at *
      omega
    simp only [pathfy, List.map_cons, kidsE_cons, hq, if_false, Option.toList_none, List.nil_append]
    simp only [pathfy, List.mem_cons] at h
    rcases h with h | h
    · simp only [Prod.mk.injEq] at h
      rw [h.1, h.2]
      exact pathfyList_kids_parent cs cs 0 p (by simp)
    · exact pathfyList_kids cs cs 0 p hp (by simp) q x h
  | .token t v =>
    simp [pathfy] at h
    have : ¬ p.dropLast = p := by
      intro hd; have := congrArg List.length hd
      have : 0 < p.length := List.length_pos_iff.2 hp
      simp at *; omega
    simp [pathfy, kidsE, h.1, h.2, this, childElems]
  | .empty =>
    simp [pathfy] at h
    have : ¬ p.dropLast = p := by
      intro hd; have := congrArg List.length hd
      have : 0 < p.length := List.length_pos_iff.2 hp
      simp at *; omega
    simp [pathfy, kidsE, h.1, h.2, this, childElems]
theorem pathfyList_kids_parent (all cs : List Entry) (i : Nat) (p : Path) (hcs : all.drop i = cs) :
    kidsE ((pathfyList all cs i p).map (·.1)) p = childElemsAux all cs i := by
  match cs with
  | [] => simp [pathfyList, kidsE, childElemsAux]
  | c :: rest =>
    have hrest : all.drop (i+1) = rest := by rw [← List.drop_drop, hcs]; rfl
    simp only [pathfyList, List.map_append, kidsE_append, childElemsAux]
    rw [kidsE_subtree_parent, pathfyList_kids_parent all rest (i+1) p hrest]
    rfl
theorem pathfyList_kids (all cs : List Entry) (i : Nat) (p : Path) (hp : p ≠ []) (hcs : all.drop i = cs) :
    ∀ q x, (q, x) ∈ pathfyList all cs i p → kidsE ((pathfyList all cs i p).map (·.1)) q = childElems x := by
  intro q x h
  match cs with
  | [] => simp [pathfyList] at h
  | c :: rest =>
    have hrest : all.drop (i+1) = rest := by rw [← List.drop_drop, hcs]; rfl
    have hci : all[i]? = some c := by
      have := congrArg (·[0]?) hcs
      simpa using this
    have hcj : ∀ j c', rest[j - (i+1)]? = some c' → i + 1 ≤ j → all[j]? = some c' := by
      intro j c' hj hij
      have := congrArg (·[j - (i+1)]?) hrest
      simp [hj] at this
      rw [← this]; congr 1; omega
    simp only [pathfyList, List.map_append, kidsE_append]
    simp only [pathfyList, List.mem_append] at h
    rcases h with h | h
    · -- q lies in the subtree of `c`: no path of a later sibling's subtree is a child of q
      rw [pathfy_kids c _ (by simp) q x h, kidsE_eq_nil, List.append_nil]
      intro q2 hq2 hne hd
      obtain ⟨⟨q2', x2⟩, hqx2, rfl⟩ := List.mem_map.1 hq2
      simp only at hd hne
      obtain ⟨r, hr, _⟩ := pathfy_sound c _ q x h
      obtain ⟨j, c', r', hj, hij, hr', _⟩ := pathfyList_sound all rest (i+1) p q2' x2 hqx2
      obtain ⟨lastEl, hq2⟩ : ∃ y, q2' = q2'.dropLast ++ [y] :=
        ⟨q2'.getLast hne, (List.dropLast_concat_getLast hne).symm⟩
      rw [hd, hr] at hq2
      rw [hr'] at hq2
      simp only [List.append_assoc, List.singleton_append] at hq2
      have h2 := List.append_cancel_left hq2
      simp only [List.cons_append, List.cons.injEq] at h2
      have := elemFor_inj all j i c' c (hcj j c' hj hij) hci h2.1
      omega
    · -- q lies in a later sibling's subtree: no path of `c`'s subtree is a child of q
      rw [pathfyList_kids all rest (i+1) p hp hrest q x h, kidsE_eq_nil, List.nil_append]
      intro q2 hq2 hne hd
      obtain ⟨⟨q2', x2⟩, hqx2, rfl⟩ := List.mem_map.1 hq2
      simp only at hd hne
      obtain ⟨r, hr, _⟩ := pathfy_sound c _ q2' x2 hqx2
      obtain ⟨j, c', r', hj, hij, hr', _⟩ := pathfyList_sound all rest (i+1) p q x h
      rw [hr, hr', List.append_assoc, List.singleton_append, dropLast_append_cons] at hd
      have h2 := List.append_cancel_left hd
      cases r with
      | nil => simp at h2
      | cons a as =>
        simp only [List.dropLast_cons_cons, List.cons.injEq] at h2
        have := elemFor_inj all i j c c' hci (hcj j c' hj hij) h2.1
        omega
end

end Tranp.AstPath
