/-
  Helper lemmas for property C10, string codec: `EntryPath.__break_tag` inverts the element encoder and
  `DSN.elements` inverts `DSN.join` on paths whose tags are well formed (non-empty, free of `.`, `[`, `]`).
-/
import Tranp.Lemmas.AstPath.Abstract
import Tranp.Lemmas.AstPath.StrCodec

namespace Tranp.AstPath
open Tranp Tranp.Str Tranp.StrCodec

theorem digit_ne_meta (c : Char) (h : (decVal c).isSome) : c ≠ '.' ∧ c ≠ '[' ∧ c ≠ ']' ∧ c ≠ '-' := by
  refine ⟨?_, ?_, ?_, ?_⟩ <;> (intro e; subst e; revert h; decide)

theorem natToDec_not_mem (n : Nat) : '.' ∉ natToDec n ∧ '[' ∉ natToDec n ∧ ']' ∉ natToDec n := by
  refine ⟨?_, ?_, ?_⟩ <;> intro hm
  · exact (digit_ne_meta _ (natToDec_digits n _ hm)).1 rfl
  · exact (digit_ne_meta _ (natToDec_digits n _ hm)).2.1 rfl
  · exact (digit_ne_meta _ (natToDec_digits n _ hm)).2.2.1 rfl

theorem encodeElem_ne_nil (el : Elem) (h : WfTag el.tag) : encodeElem el ≠ [] := by
  unfold encodeElem
  cases el.idx with
  | none => exact h.1
  | some i => simp

theorem encodeElem_no_dot (el : Elem) (h : WfTag el.tag) : '.' ∉ encodeElem el := by
  unfold encodeElem
  cases el.idx with
  | none => exact h.2.1
  | some i =>
    simp [h.2.1, (natToDec_not_mem i).1]

/-- `__break_tag` recovers tag and index of an encoded element -/
theorem breakTag_encodeElem (el : Elem) (h : WfTag el.tag) :
    breakTag (encodeElem el) = .ok (el.tag, el.idxInt) := by
  obtain ⟨tag, idx⟩ := el
  obtain ⟨hne, _, hl, hr⟩ := h
  simp only at hne hl hr
  cases idx with
  | none =>
    have hlast : ¬ tag.getLast? = some ']' := fun e => hr (List.mem_of_getLast? e)
    simp [breakTag, encodeElem, Elem.idxInt, hlast]
  | some i =>
    have hsplit : splitOn '[' (tag ++ '[' :: (natToDec i ++ [']'])) = [tag, natToDec i ++ [']']] := by
      rw [splitOn_append_cons _ _ _ hl, splitOn_not_mem]
      simp only [List.mem_append, List.mem_cons, List.not_mem_nil, or_false, not_or]
      exact ⟨(natToDec_not_mem i).2.1, by decide⟩
    have hlast : (tag ++ '[' :: (natToDec i ++ [']'])).getLast? = some ']' := by
      have : tag ++ '[' :: (natToDec i ++ [']']) = (tag ++ '[' :: natToDec i) ++ [']'] := by simp
      rw [this, List.getLast?_concat]
    have henc : encodeElem ⟨tag, some i⟩ = tag ++ '[' :: (natToDec i ++ [']']) := by simp [encodeElem]
    rw [henc]
    unfold breakTag
    simp only [Elem.idxInt]
    rw [if_pos hlast, hsplit]
    simp [decToInt_natToDec]

theorem encodeElem_inj (a b : Elem) (ha : WfTag a.tag) (hb : WfTag b.tag)
    (h : encodeElem a = encodeElem b) : a = b := by
  have h1 := breakTag_encodeElem a ha
  rw [h, breakTag_encodeElem b hb] at h1
  obtain ⟨ta, ia⟩ := a
  obtain ⟨tb, ib⟩ := b
  simp [Elem.idxInt] at h1
  obtain ⟨rfl, hi⟩ := h1
  cases ia <;> cases ib <;> simp at hi ⊢ <;> omega

theorem filter_nonempty_map_encodeElem (p : Path) (h : WfPath p) :
    (p.map encodeElem).filter (fun s => !s.isEmpty) = p.map encodeElem := by
  rw [List.filter_eq_self]
  intro s hs
  obtain ⟨el, hel, rfl⟩ := List.mem_map.1 hs
  have := encodeElem_ne_nil el (h el hel)
  cases hx : encodeElem el with
  | nil => exact absurd hx this
  | cons _ _ => rfl

/-- `DSN.elements(DSN.join(*encoded elements))` gives the encoded elements back -/
theorem dsnElements_encodePath (p : Path) (h : WfPath p) :
    dsnElements (encodePath p) = p.map encodeElem := by
  unfold dsnElements encodePath dsnJoin
  rw [filter_nonempty_map_encodeElem p h]
  cases p with
  | nil => rfl
  | cons el rest =>
    rw [show dot = ['.'] from rfl, splitOn_join '.' _ (by simp)]
    · exact filter_nonempty_map_encodeElem _ h
    · intro x hx
      obtain ⟨el', hel', rfl⟩ := List.mem_map.1 hx
      exact encodeElem_no_dot el' (h el' hel')

theorem map_encodeElem_inj (p q : Path) (hp : WfPath p) (hq : WfPath q)
    (h : p.map encodeElem = q.map encodeElem) : p = q := by
  induction p generalizing q with
  | nil => cases q <;> simp_all
  | cons a as ih =>
    cases q with
    | nil => simp at h
    | cons b bs =>
      simp at h
      have hab := encodeElem_inj a b (hp a (by simp)) (hq b (by simp)) h.1
      have := ih bs (fun el hel => hp el (by simp [hel])) (fun el hel => hq el (by simp [hel])) h.2
      rw [hab, this]

/-- the codec is injective on well-formed paths: decode (encode p) = p -/
theorem encodePath_inj (p q : Path) (hp : WfPath p) (hq : WfPath q) (h : encodePath p = encodePath q) : p = q := by
  apply map_encodeElem_inj p q hp hq
  rw [← dsnElements_encodePath p hp, ← dsnElements_encodePath q hq, h]

end Tranp.AstPath
