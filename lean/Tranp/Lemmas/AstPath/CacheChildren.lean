/-
  Helper lemmas for property C10, the child map of `EntryCache`: after adding a parents-first sequence of
  distinct well-formed paths, `__children[p]` lists the last elements of the added paths whose parent is `p`,
  in insertion order. Instantiated with the pre-order enumeration of `full_pathfy`.
-/
import Tranp.Lemmas.AstPath.Children

namespace Tranp.AstPath
open Tranp Tranp.Str Tranp.StrCodec

/-- child keys recorded for `q` once the paths `P` were added -/
def kidsS (P : List Path) (q : Path) : List Str := (kidsE P q).map encodeElem

/-- the `__children` dict once the paths `P` were added -/
def childrenSpec (P : List Path) : List (Str × List Str) := P.map (fun q => (encodePath q, kidsS P q))

/-- what the cache algebra needs from the set of added paths -/
structure Closed (P : List Path) : Prop where
  wf : ∀ q ∈ P, WfPath q ∧ q ≠ []
  nodup : P.Nodup
  parent : ∀ q ∈ P, q.dropLast = [] ∨ q.dropLast ∈ P

/-- parents first: every path of `l` is a root (one element) or has its parent in `seen` or earlier in `l` -/
def PF : List Path → List Path → Prop
  | _, [] => True
  | seen, q :: l => (q.dropLast = [] ∨ q.dropLast ∈ seen) ∧ PF (seen ++ [q]) l

theorem PF_append (seen a b : List Path) : PF seen (a ++ b) ↔ PF seen a ∧ PF (seen ++ a) b := by
  induction a generalizing seen with
  | nil => simp [PF]
  | cons q l ih => simp [PF, ih, and_assoc]

theorem PF_mono (seen seen' l : List Path) (hs : ∀ q ∈ seen, q ∈ seen') (h : PF seen l) : PF seen' l := by
  induction l generalizing seen seen' with
  | nil => trivial
  | cons q l ih =>
    refine ⟨h.1.imp id (hs _), ih (seen ++ [q]) (seen' ++ [q]) ?_ h.2⟩
    intro x hx
    simp at hx ⊢
    exact hx.imp (hs x) id

mutual
theorem pathfy_PF (e : Entry) (p : Path) (seen : List Path) (hp : p.dropLast = [] ∨ p.dropLast ∈ seen) :
    PF seen ((pathfy e p).map (·.1)) := by
  match e with
  | .tree t cs =>
    simp only [pathfy, List.map_cons, PF]
    exact ⟨hp, pathfyList_PF cs cs 0 p (seen ++ [p]) (by simp)⟩
  | .token t v => simp [pathfy, PF, hp]
  | .empty => simp [pathfy, PF, hp]
theorem pathfyList_PF (all cs : List Entry) (i : Nat) (p : Path) (seen : List Path) (hp : p ∈ seen) :
    PF seen ((pathfyList all cs i p).map (·.1)) := by
  match cs with
  | [] => simp [pathfyList, PF]
  | c :: rest =>
    simp only [pathfyList, List.map_append]
    rw [PF_append]
    exact ⟨pathfy_PF c _ seen (by simp [hp]), pathfyList_PF all rest (i+1) p _ (by simp [hp])⟩
end

/-! ### facts about `Closed` sets -/

theorem Closed.nil : Closed [] := ⟨by simp, by simp, by simp⟩

theorem Closed.snoc (P : List Path) (q : Path) (h : Closed P) (hq : WfPath q ∧ q ≠ []) (hfresh : q ∉ P)
    (hpar : q.dropLast = [] ∨ q.dropLast ∈ P) : Closed (P ++ [q]) := by
  refine ⟨?_, ?_, ?_⟩
  · intro x hx
    simp at hx
    rcases hx with hx | rfl
    · exact h.wf x hx
    · exact hq
  · rw [List.nodup_append]
    refine ⟨h.nodup, by simp, ?_⟩
    intro a ha b hb hab
    simp at hb; subst hb; subst hab; exact hfresh ha
  · intro x hx
    simp at hx
    rcases hx with hx | rfl
    · exact (h.parent x hx).imp id (fun hm => by simp [hm])
    · exact hpar.imp id (fun hm => by simp [hm])

theorem Closed.enc_inj (P : List Path) (h : Closed P) (a b : Path) (ha : a ∈ P) (hb : b ∈ P)
    (hab : encodePath a = encodePath b) : a = b :=
  encodePath_inj a b (h.wf a ha).1 (h.wf b hb).1 hab

theorem Closed.keys_nodup (P : List Path) (h : Closed P) : ((childrenSpec P).map (·.1)).Nodup := by
  unfold childrenSpec
  rw [List.map_map]
  have hnd := h.nodup
  unfold List.Nodup at hnd ⊢
  rw [List.pairwise_map]
  refine List.Pairwise.imp_of_mem ?_ hnd
  intro a b ha hb hab hcontra
  exact hab (h.enc_inj P a b ha hb hcontra)

theorem childrenSpec_get (P : List Path) (h : Closed P) (q : Path) (hq : q ∈ P) :
    dictGet? (childrenSpec P) (encodePath q) = some (kidsS P q) :=
  dictGet?_of_mem_nodup _ _ _ (h.keys_nodup P) (List.mem_map.2 ⟨q, hq, rfl⟩)

theorem childrenSpec_key_mem (P : List Path) (q : Path) (hq : q ∈ P) :
    encodePath q ∈ (childrenSpec P).map (·.1) := by
  unfold childrenSpec
  rw [List.map_map]
  exact List.mem_map.2 ⟨q, hq, rfl⟩

theorem dictGet?_append_left {α : Type} (d t : List (Str × α)) (k : Str) (v : α) (h : dictGet? d k = some v) :
    dictGet? (d ++ t) k = some v := by
  unfold dictGet? at h ⊢
  cases hf : d.find? (fun kv => kv.1 == k) with
  | none => simp [hf] at h
  | some kv => simp [hf] at h; simp [List.find?_append, hf, h]

theorem dictInsert_mem {α : Type} (d : List (Str × α)) (k : Str) (v : α) (h : k ∈ d.map (·.1)) :
    dictInsert d k v = d.map (fun kv => if kv.1 == k then (k, v) else kv) := by
  unfold dictInsert
  have : d.any (fun kv => kv.1 == k) = true := by
    rw [List.any_eq_true]
    obtain ⟨kv, hkv, hk⟩ := List.mem_map.1 h
    exact ⟨kv, hkv, by simp [hk]⟩
  simp [this]

theorem mem_kidsE (P : List Path) (q : Path) (el : Elem) : el ∈ kidsE P q ↔ (q ++ [el]) ∈ P := by
  unfold kidsE
  rw [List.mem_filterMap]
  constructor
  · rintro ⟨q2, hq2, h⟩
    split at h
    · rename_i hd
      obtain ⟨ys, hys⟩ := List.getLast?_eq_some_iff.1 h
      subst hys
      simp at hd
      rw [← hd]; exact hq2
    · simp at h
  · intro h
    exact ⟨q ++ [el], h, by simp⟩

theorem kidsE_snoc (P : List Path) (q1 : Path) (last : Elem) (q' : Path) :
    kidsE (P ++ [q1 ++ [last]]) q' = kidsE P q' ++ (if q1 = q' then [last] else []) := by
  rw [kidsE_append]
  congr 1
  simp only [kidsE, List.filterMap_cons, List.filterMap_nil, List.dropLast_concat, List.getLast?_concat]
  by_cases h : q1 = q' <;> simp [h]

theorem splitOn_encodePath (q : Path) (hq : WfPath q) (hne : q ≠ []) :
    splitOn '.' (encodePath q) = q.map encodeElem := by
  rw [encodePath_eq_join q hq, show dot = ['.'] from rfl, splitOn_join '.' _ (by simpa using hne)]
  intro x hx
  obtain ⟨el, hel, rfl⟩ := List.mem_map.1 hx
  exact encodeElem_no_dot el (hq el hel)

/-! ### `addLinks` on a closed set -/

/-- linking a child that is already recorded changes nothing -/
theorem linkChild_noop (P : List Path) (h : Closed P) (q1 : Path) (last : Elem) (hq1 : q1 ∈ P)
    (hm : (q1 ++ [last]) ∈ P) :
    Cache.linkChild (childrenSpec P) (encodePath q1) (encodeElem last) = childrenSpec P := by
  unfold Cache.linkChild
  simp only [childrenSpec_get P h _ hq1, Option.getD_some]
  have hc : (kidsS P q1).contains (encodeElem last) = true := by
    simp only [List.contains_iff_mem]
    exact List.mem_map.2 ⟨last, (mem_kidsE P _ last).2 hm, rfl⟩
  simp only [hc, if_true]
  rw [dictInsert_mem _ _ _ (childrenSpec_key_mem P _ hq1)]
  conv => rhs; rw [← List.map_id (childrenSpec P)]
  apply List.map_congr_left
  intro kv hkv
  obtain ⟨q', hq', rfl⟩ := List.mem_map.1 hkv
  by_cases he : encodePath q' = encodePath q1
  · have := h.enc_inj P _ _ hq' hq1 he
    subst this; simp
  · simp [he]

/-- re-linking a path that is already recorded changes nothing (the `while len(remain)` loop above the parent) -/
theorem addLinks_noop (P : List Path) (h : Closed P) (revq : List Elem) (last : Elem)
    (hm : (revq.reverse ++ [last]) ∈ P) :
    Cache.addLinks (childrenSpec P) (revq.map encodeElem) (encodeElem last) = childrenSpec P := by
  induction revq generalizing last with
  | nil => rfl
  | cons r rest ih =>
    have hq1 : (r :: rest).reverse ∈ P := by
      have := h.parent _ hm
      simp only [List.dropLast_concat] at this
      rcases this with h0 | h1
      · simp at h0
      · exact h1
    have hwf := (h.wf _ hq1).1
    have hin : join dot (encodeElem r :: rest.map encodeElem).reverse = encodePath (r :: rest).reverse := by
      rw [encodePath_eq_join _ hwf, List.map_reverse]; rfl
    simp only [List.map_cons, Cache.addLinks]
    rw [hin]
    have hlink := linkChild_noop P h _ last hq1 hm
    rw [hlink]
    apply ih r
    simpa using hq1

/-- adding one fresh path whose parent is already there -/
theorem add_children_step (P : List Path) (h : Closed P) (c : Cache) (q : Path) (e : Entry)
    (hce : c.entries.map (·.1) = P.map encodePath) (hcc : c.children = childrenSpec P)
    (hq : WfPath q ∧ q ≠ []) (hfresh : q ∉ P) (hpar : q.dropLast = [] ∨ q.dropLast ∈ P) :
    (c.add (encodePath q) e).children = childrenSpec (P ++ [q]) ∧
    (c.add (encodePath q) e).entries.map (·.1) = (P ++ [q]).map encodePath := by
  have hP' := Closed.snoc P q h hq hfresh hpar
  have hkey : encodePath q ∉ P.map encodePath := by
    intro hm
    obtain ⟨q', hq', he⟩ := List.mem_map.1 hm
    have := encodePath_inj q' q (h.wf q' hq').1 hq.1 he
    subst this; exact hfresh hq'
  have hex : c.exists_ (encodePath q) = false := by
    unfold Cache.exists_
    rw [List.any_eq_false]
    intro kv hkv hk
    simp at hk
    apply hkey; rw [← hce]; exact List.mem_map.2 ⟨kv, hkv, hk⟩
  obtain ⟨q1, last, rfl⟩ : ∃ q1 last, q = q1 ++ [last] :=
    ⟨q.dropLast, q.getLast hq.2, (List.dropLast_concat_getLast hq.2).symm⟩
  simp only [List.dropLast_concat] at hpar
  unfold Cache.add
  simp only [hex, Bool.false_eq_true, if_false]
  refine ⟨?_, by simp [hce]⟩
  rw [splitOn_encodePath _ hq.1 hq.2, hcc]
  have hfreshkey : encodePath (q1 ++ [last]) ∉ (childrenSpec P).map (·.1) := by
    unfold childrenSpec; rw [List.map_map]; exact hkey
  rw [dictInsert_fresh _ _ _ hfreshkey]
  simp only [List.map_append, List.map_cons, List.map_nil, List.dropLast_concat, List.getLast?_concat,
    Option.getD_some]
  -- the spec after the step, entry by entry
  have hspec : childrenSpec (P ++ [q1 ++ [last]]) =
      P.map (fun q' => (encodePath q', kidsS P q' ++ (if q1 = q' then [encodeElem last] else [])))
        ++ [(encodePath (q1 ++ [last]), [])] := by
    unfold childrenSpec kidsS
    rw [List.map_append]
    congr 1
    · apply List.map_congr_left
      intro q' _
      rw [kidsE_snoc]
      by_cases hq1 : q1 = q' <;> simp [hq1]
    · simp only [List.map_cons, List.map_nil, List.cons.injEq, Prod.mk.injEq, and_true, true_and]
      rw [kidsE_snoc]
      have h1 : kidsE P (q1 ++ [last]) = [] := by
        apply kidsE_eq_nil
        intro q2 hq2 _ hd
        have := h.parent q2 hq2
        rw [hd] at this
        rcases this with h0 | h1
        · simp at h0
        · exact hfresh h1
      have h2 : ¬ q1 = q1 ++ [last] := by
        intro he; have := congrArg List.length he; simp at this
      simp [h1, h2]
  cases hrev : q1.reverse with
  | nil =>
    have hq1 : q1 = [] := by simpa using hrev
    subst hq1
    simp only [List.map_nil, List.reverse_nil, Cache.addLinks]
    rw [hspec]
    congr 1
    apply List.map_congr_left
    intro q' hq'
    have : ¬ [] = q' := fun he => (h.wf q' hq').2 he.symm
    simp [kidsS, this]
  | cons r rest =>
    have hq1eq : q1 = (r :: rest).reverse := by rw [← hrev, List.reverse_reverse]
    have hq1P : q1 ∈ P := by
      rcases hpar with h0 | h1
      · rw [h0] at hrev; simp at hrev
      · exact h1
    have hwf1 := (h.wf _ hq1P).1
    rw [← List.map_reverse, hrev]
    simp only [List.map_cons, Cache.addLinks]
    have hin : join dot (encodeElem r :: rest.map encodeElem).reverse = encodePath q1 := by
      rw [encodePath_eq_join _ hwf1, hq1eq, List.map_reverse]; rfl
    rw [hin]
    have hlink : Cache.linkChild (childrenSpec P ++ [(encodePath (q1 ++ [last]), [])]) (encodePath q1) (encodeElem last)
        = childrenSpec (P ++ [q1 ++ [last]]) := by
      unfold Cache.linkChild
      simp only [dictGet?_append_left _ _ _ _ (childrenSpec_get P h _ hq1P), Option.getD_some]
      have hc : (kidsS P q1).contains (encodeElem last) = false := by
        rw [← Bool.not_eq_true, List.contains_iff_mem]
        intro hm
        obtain ⟨el2, hel2, he⟩ := List.mem_map.1 hm
        have hq2 := (mem_kidsE P q1 el2).1 hel2
        have hw2 := (h.wf _ hq2).1 el2 (by simp)
        have := encodeElem_inj el2 last hw2 (hq.1 last (by simp)) he
        subst this; exact hfresh hq2
      simp only [hc, Bool.false_eq_true, if_false]
      rw [dictInsert_mem _ _ _ (by
        rw [List.map_append, List.mem_append]; left
        exact childrenSpec_key_mem P _ hq1P)]
      rw [hspec, List.map_append]
      congr 1
      · unfold childrenSpec
        rw [List.map_map]
        apply List.map_congr_left
        intro q' hq'
        by_cases he : q1 = q'
        · subst he; simp
        · have : ¬ encodePath q' = encodePath q1 := fun hc' => he (h.enc_inj P _ _ hq' hq1P hc').symm
          simp [he, this]
      · have : ¬ encodePath (q1 ++ [last]) = encodePath q1 := by
          intro hc'
          have := encodePath_inj _ _ hq.1 hwf1 hc'
          have := congrArg List.length this; simp at this
        simp [this]
    rw [hlink]
    apply addLinks_noop _ hP' rest r
    have : rest.reverse ++ [r] = q1 := by rw [hq1eq]; simp
    rw [this]; simp [hq1P]

theorem foldl_add_children (rest : List (Path × Entry)) (P : List Path) (c : Cache)
    (hce : c.entries.map (·.1) = P.map encodePath) (hcc : c.children = childrenSpec P)
    (hP : Closed P) (hpf : PF P (rest.map (·.1))) (hnd : (P ++ rest.map (·.1)).Nodup)
    (hwf : ∀ q ∈ rest.map (·.1), WfPath q ∧ q ≠ []) :
    (rest.foldl (fun c pe => c.add (encodePath pe.1) pe.2) c).children = childrenSpec (P ++ rest.map (·.1)) ∧
    Closed (P ++ rest.map (·.1)) := by
  induction rest generalizing P c with
  | nil => simpa using ⟨hcc, hP⟩
  | cons pe rest ih =>
    obtain ⟨q, e⟩ := pe
    simp only [List.map_cons, PF] at hpf hnd hwf
    have hq := hwf q (by simp)
    have hfresh : q ∉ P := by
      intro hm
      rw [List.nodup_append] at hnd
      exact hnd.2.2 q hm q (by simp) rfl
    obtain ⟨h1, h2⟩ := add_children_step P hP c q e hce hcc hq hfresh hpf.1
    have hP' := Closed.snoc P q hP hq hfresh hpf.1
    simp only [List.foldl_cons, List.map_cons]
    have := ih (P ++ [q]) (c.add (encodePath q) e) h2 h1 hP' hpf.2 (by simpa using hnd)
      (fun x hx => hwf x (by simp [hx]))
    simpa using this

end Tranp.AstPath
