/-
  Helper lemmas for property C16 (quotation arithmetic, hull model).
-/
import Tranp.Model.Quotation
import Tranp.Model.Hull

namespace Tranp.Quote
open Tranp Tranp.Lark

theorem markedColsFrom_spaces (i a : Nat) (rest : Str) :
    markedColsFrom i (List.replicate a ' ' ++ rest) = markedColsFrom (i + a) rest := by
  induction a generalizing i with
  | zero => simp
  | succ n ih =>
    simp only [List.replicate_succ, List.cons_append, markedColsFrom]
    have : (' ' = '^') = False := by decide
    simp only [this, if_false]
    rw [ih]; congr 1; omega

theorem markedColsFrom_carets (i w : Nat) : markedColsFrom i (List.replicate w '^') = List.range' i w := by
  induction w generalizing i with
  | zero => simp [markedColsFrom]
  | succ n ih => simp [List.replicate_succ, markedColsFrom, ih, List.range'_succ]

/-- the mark line is `begin` blanks followed by `max 1 (end - begin)` carets -/
theorem markedCols_lineMark (b e : Int) (hb : 0 ≤ b) :
    markedCols (lineMark (b, e)) = List.range' b.toNat (max 1 (e - b)).toNat := by
  simp only [markedCols, lineMark, pyRepeat]
  rw [markedColsFrom_spaces, markedColsFrom_carets]
  simp

theorem length_tabToSpace (s : Str) : (tabToSpace s).length = s.length := by simp [tabToSpace]

theorem getElem?_tabToSpace (s : Str) (k : Nat) :
    (tabToSpace s)[k]? = (s[k]?).map (fun c => if c = '\t' then ' ' else c) := by
  simp [tabToSpace]

/-- no character of a loaded line is a tab or a line feed -/
theorem tabToSpace_no_tab (s : Str) : '\t' ∉ tabToSpace s := by
  simp only [tabToSpace, List.mem_map, not_exists, not_and]
  intro c _
  split
  · decide
  · rename_i h; exact h

theorem pyIndex_nonneg {α : Type} (xs : List α) (i : Int) (hi : 0 ≤ i) (x : α) :
    pyIndex xs i = .ok x ↔ xs[i.toNat]? = some x := by
  have h1 : ¬ i < 0 := by omega
  simp only [pyIndex, h1, if_false]
  cases h : xs[i.toNat]? <;> simp

/-- `readlines` and `split('\n')` agree line by line (up to the kept line feed) on every line `readlines` has -/
theorem readlines_split (c : Str) (i : Nat) (hi : i < (readlines c).length) :
    (Str.splitOn '\n' c)[i]? = ((readlines c)[i]?).map dropNl := by
  induction c generalizing i with
  | nil => simp [readlines] at hi
  | cons x xs ih =>
    by_cases hx : x = '\n'
    · subst hx
      simp only [readlines, if_true, Str.splitOn] at hi ⊢
      cases i with
      | zero => simp [dropNl]
      | succ j =>
        simp only [List.length_cons, Nat.add_lt_add_iff_right] at hi
        simp [ih j hi]
    · simp only [readlines, hx, if_false, Str.splitOn] at hi ⊢
      cases hr : readlines xs with
      | nil =>
        -- xs has no line: xs = []
        have hxs : xs = [] := by
          cases xs with
          | nil => rfl
          | cons y ys =>
            simp only [readlines] at hr
            split at hr
            · cases hr
            · split at hr <;> cases hr
        subst hxs
        simp only [hr, List.length_singleton, Nat.lt_one_iff] at hi
        subst hi
        simp [Str.splitOn, dropNl, hx]
      | cons l ls =>
        rw [hr] at hi ih
        cases hs : Str.splitOn '\n' xs with
        | nil =>
          have := ih 0 (by simp)
          simp [hs] at this
        | cons p ps =>
          rw [hs] at ih
          cases i with
          | zero =>
            have := ih 0 (by simp)
            simp only [List.getElem?_cons_zero, Option.map_some, Option.some.injEq] at this
            simp [dropNl, hx, this] at *
          | succ j =>
            have := ih (j + 1) (by simpa using hi)
            simpa using this

end Tranp.Quote

namespace Tranp.Hull

theorem P.le_refl (a : P) : a ≤ a := by
  show a.line < a.line ∨ (a.line = a.line ∧ a.col ≤ a.col); omega

theorem P.le_trans {a b c : P} (h1 : a ≤ b) (h2 : b ≤ c) : a ≤ c := by
  have h1' : a.line < b.line ∨ (a.line = b.line ∧ a.col ≤ b.col) := h1
  have h2' : b.line < c.line ∨ (b.line = c.line ∧ b.col ≤ c.col) := h2
  show a.line < c.line ∨ (a.line = c.line ∧ a.col ≤ c.col); omega

/-- the pairwise content of `Chain`: every earlier token ends before every later one begins -/
def Before (x y : TSpan) : Prop := x.b ≤ x.e ∧ x.e ≤ y.b ∧ y.b ≤ y.e

theorem chain_pairwise (ts : List TSpan) (h : Chain ts) : ts.Pairwise Before := by
  induction ts with
  | nil => exact List.Pairwise.nil
  | cons a rest ih =>
    cases rest with
    | nil => exact List.pairwise_singleton _ _
    | cons b rest' =>
      obtain ⟨h1, h2, h3⟩ := h
      have ihp := ih h3
      refine List.Pairwise.cons ?_ ihp
      intro y hy
      have hb : b.b ≤ b.e := by
        cases rest' with
        | nil => exact h3
        | cons _ _ => exact h3.1
      cases hy with
      | head => exact ⟨h1, h2, hb⟩
      | tail _ hy' =>
        have hby : Before b y := (List.pairwise_cons.mp ihp).1 y hy'
        exact ⟨h1, P.le_trans h2 (P.le_trans hb hby.2.1), hby.2.2⟩

theorem chain_wf (ts : List TSpan) (h : Chain ts) : ∀ x ∈ ts, x.b ≤ x.e := by
  induction ts with
  | nil => intro x hx; cases hx
  | cons a rest ih =>
    cases rest with
    | nil => intro x hx; simp at hx; subst hx; exact h
    | cons b rest' =>
      intro x hx
      cases hx with
      | head => exact h.1
      | tail _ hx' => exact ih h.2.2 x hx'


theorem tokensList_split (pre post : List HTree) (c : HTree) :
    tokensList (pre ++ c :: post) = tokensList pre ++ (tokens c ++ tokensList post) := by
  induction pre with
  | nil => simp [tokensList]
  | cons x xs ih => simp [tokensList, ih]

theorem hullOf_eq_some {ts : List TSpan} {s : TSpan} (h : hullOf ts = some s) :
    ∃ f l, ts.head? = some f ∧ ts.getLast? = some l ∧ s = ⟨f.b, l.e⟩ := by
  unfold hullOf at h
  split at h
  · rename_i f l hf hl
    cases h
    exact ⟨f, l, hf, hl, rfl⟩
  · cases h

/-- hull of a contiguous run inside an ordered token sequence lies inside the hull of the whole sequence -/
theorem hull_infix (A M B : List TSpan) (s : TSpan) (hch : Chain (A ++ (M ++ B))) (hs : hullOf M = some s) :
    ∃ p, hullOf (A ++ (M ++ B)) = some p ∧ p.b ≤ s.b ∧ s.e ≤ p.e := by
  obtain ⟨f, l, hf, hl, rfl⟩ := hullOf_eq_some hs
  have hpw := chain_pairwise _ hch
  have hfM : f ∈ M := List.mem_of_head? hf
  have hlM : l ∈ M := List.mem_of_getLast? hl
  have hwf := chain_wf _ hch
  rw [List.pairwise_append] at hpw
  obtain ⟨_, hMB, hAM⟩ := hpw
  rw [List.pairwise_append] at hMB
  obtain ⟨_, _, hMBx⟩ := hMB
  -- first token of the whole sequence
  have hhead : ∃ a, (A ++ (M ++ B)).head? = some a ∧ a.b ≤ f.b := by
    cases A with
    | nil => exact ⟨f, by simp [List.head?_append, hf], P.le_refl _⟩
    | cons a A' =>
      refine ⟨a, by simp, ?_⟩
      have := hAM a (by simp) f (by simp [hfM])
      exact P.le_trans this.1 this.2.1
  -- last token of the whole sequence
  have hlast : ∃ z, (A ++ (M ++ B)).getLast? = some z ∧ l.e ≤ z.e := by
    cases hB : B.getLast? with
    | none =>
      have : B = [] := by simpa using hB
      subst this
      exact ⟨l, by simp [List.getLast?_append, hl], P.le_refl _⟩
    | some z =>
      have hz : z ∈ B := List.mem_of_getLast? hB
      refine ⟨z, by simp [List.getLast?_append, hB], ?_⟩
      have := hMBx l hlM z hz
      exact P.le_trans this.2.1 this.2.2
  obtain ⟨a, ha, hab⟩ := hhead
  obtain ⟨z, hz, hlz⟩ := hlast
  exact ⟨⟨a.b, z.e⟩, by simp [hullOf, ha, hz], hab, hlz⟩

/-- hulls of two disjoint runs of an ordered token sequence are ordered and do not overlap -/
theorem hull_ordered (A M B N C : List TSpan) (s u : TSpan) (hch : Chain (A ++ (M ++ (B ++ (N ++ C)))))
    (hs : hullOf M = some s) (hu : hullOf N = some u) : s.e ≤ u.b := by
  obtain ⟨f, l, hf, hl, rfl⟩ := hullOf_eq_some hs
  obtain ⟨f', l', hf', hl', rfl⟩ := hullOf_eq_some hu
  have hpw := chain_pairwise _ hch
  have hlM : l ∈ M := List.mem_of_getLast? hl
  have hfN : f' ∈ N := List.mem_of_head? hf'
  rw [List.pairwise_append] at hpw
  obtain ⟨_, hrest, _⟩ := hpw
  rw [List.pairwise_append] at hrest
  obtain ⟨_, _, hx⟩ := hrest
  exact (hx l hlM f' (by simp [hfN])).2.1


theorem chain_tail {a : TSpan} {l : List TSpan} (h : Chain (a :: l)) : Chain l := by
  cases l with
  | nil => trivial
  | cons b r => exact h.2.2

theorem chain_suffix (A L : List TSpan) (h : Chain (A ++ L)) : Chain L := by
  induction A with
  | nil => exact h
  | cons a A' ih => exact ih (chain_tail h)

theorem chain_prefix (M B : List TSpan) (h : Chain (M ++ B)) : Chain M := by
  induction M with
  | nil => trivial
  | cons a M' ih =>
    cases M' with
    | nil =>
      cases B with
      | nil => exact h
      | cons b B' => exact h.1
    | cons b M'' => exact ⟨h.1, h.2.1, ih h.2.2⟩

theorem chain_infix (A M B : List TSpan) (h : Chain (A ++ (M ++ B))) : Chain M :=
  chain_prefix M B (chain_suffix A _ h)

end Tranp.Hull
