/-
  Helper lemmas for property C16 (quotation arithmetic, hull model).
-/
import Tranp.Model.Quotation
import Tranp.Model.Hull
import Tranp.Lemmas.AstPath.StrCodec

namespace Tranp.Quote
open Tranp Tranp.Lark

theorem markedColsFrom_spaces (i a : Nat) (rest : Str) :
    markedColsFrom i (List.replicate a ' ' ++ rest) = markedColsFrom (i + a) rest := by
  induction a generalizing i with
  | zero => simp
  | succ n ih =>
    simp only [List.replicate_succ, List.cons_append, markedColsFrom]
    have : (' ' = '^') = False := by decide
    simp only [this, if_false]
    rw [ih]; congr 1; omega

theorem markedColsFrom_carets (i w : Nat) : markedColsFrom i (List.replicate w '^') = List.range' i w := by
  induction w generalizing i with
  | zero => simp [markedColsFrom]
  | succ n ih => simp [List.replicate_succ, markedColsFrom, ih, List.range'_succ]

/-- the mark line is `begin` blanks followed by `max 1 (end - begin)` carets -/
theorem markedCols_lineMark (b e : Int) (hb : 0 ≤ b) :
    markedCols (lineMark (b, e)) = List.range' b.toNat (max 1 (e - b)).toNat := by
  simp only [markedCols, lineMark, pyRepeat]
  rw [markedColsFrom_spaces, markedColsFrom_carets]
  simp

theorem length_tabToSpace (s : Str) : (tabToSpace s).length = s.length := by simp [tabToSpace]

theorem getElem?_tabToSpace (s : Str) (k : Nat) :
    (tabToSpace s)[k]? = (s[k]?).map (fun c => if c = '\t' then ' ' else c) := by
  simp [tabToSpace]

/-- no character of a loaded line is a tab or a line feed -/
theorem tabToSpace_no_tab (s : Str) : '\t' ∉ tabToSpace s := by
  simp only [tabToSpace, List.mem_map, not_exists, not_and]
  intro c _
  split
  · decide
  · rename_i h; exact h

theorem pyIndex_nonneg {α : Type} (xs : List α) (i : Int) (hi : 0 ≤ i) (x : α) :
    pyIndex xs i = .ok x ↔ xs[i.toNat]? = some x := by
  have h1 : ¬ i < 0 := by omega
  simp only [pyIndex, h1, if_false]
  cases h : xs[i.toNat]? <;> simp

/-- `readlines` and `split('\n')` agree line by line (up to the kept line feed) on every line `readlines` has -/
theorem readlines_split (c : Str) (i : Nat) (hi : i < (readlines c).length) :
    (Str.splitOn '\n' c)[i]? = ((readlines c)[i]?).map dropNl := by
  induction c generalizing i with
  | nil => simp [readlines] at hi
  | cons x xs ih =>
    by_cases hx : x = '\n'
    · subst hx
      simp only [readlines, if_true, Str.splitOn] at hi ⊢
      cases i with
      | zero => simp [dropNl]
      | succ j =>
        simp only [List.length_cons, Nat.add_lt_add_iff_right] at hi
        simp [ih j hi]
    · simp only [readlines, hx, if_false, Str.splitOn] at hi ⊢
      cases hr : readlines xs with
      | nil =>
        -- xs has no line: xs = []
        have hxs : xs = [] := by
          cases xs with
          | nil => rfl
          | cons y ys =>
            simp only [readlines] at hr
            split at hr
            · cases hr
            · split at hr <;> cases hr
        subst hxs
        simp only [hr, List.length_singleton, Nat.lt_one_iff] at hi
        subst hi
        simp [Str.splitOn, dropNl, hx]
      | cons l ls =>
        rw [hr] at hi ih
        cases hs : Str.splitOn '\n' xs with
        | nil =>
          have := ih 0 (by simp)
          simp [hs] at this
        | cons p ps =>
          rw [hs] at ih
          cases i with
          | zero =>
            have := ih 0 (by simp)
            simp only [List.getElem?_cons_zero, Option.map_some, Option.some.injEq] at this
            simp [dropNl, hx, this] at *
          | succ j =>
            have := ih (j + 1) (by simpa using hi)
            simpa using this

/-- splitting `d.join(xs) + d + b` on `d` gives the pieces `xs` and then the pieces of `b` -/
theorem splitOn_join_append (d : Char) (xs : List Str) (b : Str) (hne : xs ≠ []) (h : ∀ x ∈ xs, d ∉ x) :
    Str.splitOn d (Str.join [d] xs ++ d :: b) = xs ++ Str.splitOn d b := by
  induction xs with
  | nil => exact absurd rfl hne
  | cons x rest ih =>
    cases rest with
    | nil => simp [Str.join, StrCodec.splitOn_append_cons d x b (h x (by simp))]
    | cons y ys =>
      rw [StrCodec.join_cons_cons, List.append_assoc, List.append_assoc]
      simp only [List.singleton_append]
      rw [StrCodec.splitOn_append_cons d x _ (h x (by simp)), ih (by simp) (fun z hz => h z (by simp [hz]))]
      simp

end Tranp.Quote

namespace Tranp.Hull

theorem P.le_refl (a : P) : a ≤ a := by
  show a.line < a.line ∨ (a.line = a.line ∧ a.col ≤ a.col); omega

theorem P.le_trans {a b c : P} (h1 : a ≤ b) (h2 : b ≤ c) : a ≤ c := by
  have h1' : a.line < b.line ∨ (a.line = b.line ∧ a.col ≤ b.col) := h1
  have h2' : b.line < c.line ∨ (b.line = c.line ∧ b.col ≤ c.col) := h2
  show a.line < c.line ∨ (a.line = c.line ∧ a.col ≤ c.col); omega

/-- the pairwise content of `Chain`: every earlier token ends before every later one begins -/
def Before (x y : TSpan) : Prop := x.b ≤ x.e ∧ x.e ≤ y.b ∧ y.b ≤ y.e

theorem chain_pairwise (ts : List TSpan) (h : Chain ts) : ts.Pairwise Before := by
  induction ts with
  | nil => exact List.Pairwise.nil
  | cons a rest ih =>
    cases rest with
    | nil => exact List.pairwise_singleton _ _
    | cons b rest' =>
      obtain ⟨h1, h2, h3⟩ := h
      have ihp := ih h3
      refine List.Pairwise.cons ?_ ihp
      intro y hy
      have hb : b.b ≤ b.e := by
        cases rest' with
        | nil => exact h3
        | cons _ _ => exact h3.1
      cases hy with
      | head => exact ⟨h1, h2, hb⟩
      | tail _ hy' =>
        have hby : Before b y := (List.pairwise_cons.mp ihp).1 y hy'
        exact ⟨h1, P.le_trans h2 (P.le_trans hb hby.2.1), hby.2.2⟩

theorem chain_wf (ts : List TSpan) (h : Chain ts) : ∀ x ∈ ts, x.b ≤ x.e := by
  induction ts with
  | nil => intro x hx; cases hx
  | cons a rest ih =>
    cases rest with
    | nil => intro x hx; simp at hx; subst hx; exact h
    | cons b rest' =>
      intro x hx
      cases hx with
      | head => exact h.1
      | tail _ hx' => exact ih h.2.2 x hx'


theorem tokensList_split (pre post : List HTree) (c : HTree) :
    tokensList (pre ++ c :: post) = tokensList pre ++ (tokens c ++ tokensList post) := by
  induction pre with
  | nil => simp [tokensList]
  | cons x xs ih => simp [tokensList, ih]

theorem hullOf_eq_some {ts : List TSpan} {s : TSpan} (h : hullOf ts = some s) :
    ∃ f l, ts.head? = some f ∧ ts.getLast? = some l ∧ s = ⟨f.b, l.e⟩ := by
  unfold hullOf at h
  split at h
  · rename_i f l hf hl
    cases h
    exact ⟨f, l, hf, hl, rfl⟩
  · cases h

/-- hull of a contiguous run inside an ordered token sequence lies inside the hull of the whole sequence -/
theorem hull_infix (A M B : List TSpan) (s : TSpan) (hch : Chain (A ++ (M ++ B))) (hs : hullOf M = some s) :
    ∃ p, hullOf (A ++ (M ++ B)) = some p ∧ p.b ≤ s.b ∧ s.e ≤ p.e := by
  obtain ⟨f, l, hf, hl, rfl⟩ := hullOf_eq_some hs
  have hpw := chain_pairwise _ hch
  have hfM : f ∈ M := List.mem_of_head? hf
  have hlM : l ∈ M := List.mem_of_getLast? hl
  have hwf := chain_wf _ hch
  rw [List.pairwise_append] at hpw
  obtain ⟨_, hMB, hAM⟩ := hpw
  rw [List.pairwise_append] at hMB
  obtain ⟨_, _, hMBx⟩ := hMB
  -- first token of the whole sequence
  have hhead : ∃ a, (A ++ (M ++ B)).head? = some a ∧ a.b ≤ f.b := by
    cases A with
    | nil => exact ⟨f, by simp [List.head?_append, hf], P.le_refl _⟩
    | cons a A' =>
      refine ⟨a, by simp, ?_⟩
      have := hAM a (by simp) f (by simp [hfM])
      exact P.le_trans this.1 this.2.1
  -- last token of the whole sequence
  have hlast : ∃ z, (A ++ (M ++ B)).getLast? = some z ∧ l.e ≤ z.e := by
    cases hB : B.getLast? with
    | none =>
      have : B = [] := by simpa using hB
      subst this
      exact ⟨l, by simp [List.getLast?_append, hl], P.le_refl _⟩
    | some z =>
      have hz : z ∈ B := List.mem_of_getLast? hB
      refine ⟨z, by simp [List.getLast?_append, hB], ?_⟩
      have := hMBx l hlM z hz
      exact P.le_trans this.2.1 this.2.2
  obtain ⟨a, ha, hab⟩ := hhead
  obtain ⟨z, hz, hlz⟩ := hlast
  exact ⟨⟨a.b, z.e⟩, by simp [hullOf, ha, hz], hab, hlz⟩

/-- hulls of two disjoint runs of an ordered token sequence are ordered and do not overlap -/
theorem hull_ordered (A M B N C : List TSpan) (s u : TSpan) (hch : Chain (A ++ (M ++ (B ++ (N ++ C)))))
    (hs : hullOf M = some s) (hu : hullOf N = some u) : s.e ≤ u.b := by
  obtain ⟨f, l, hf, hl, rfl⟩ := hullOf_eq_some hs
  obtain ⟨f', l', hf', hl', rfl⟩ := hullOf_eq_some hu
  have hpw := chain_pairwise _ hch
  have hlM : l ∈ M := List.mem_of_getLast? hl
  have hfN : f' ∈ N := List.mem_of_head? hf'
  rw [List.pairwise_append] at hpw
  obtain ⟨_, hrest, _⟩ := hpw
  rw [List.pairwise_append] at hrest
  obtain ⟨_, _, hx⟩ := hrest
  exact (hx l hlM f' (by simp [hfN])).2.1


theorem chain_tail {a : TSpan} {l : List TSpan} (h : Chain (a :: l)) : Chain l := by
  cases l with
  | nil => trivial
  | cons b r => exact h.2.2

theorem chain_suffix (A L : List TSpan) (h : Chain (A ++ L)) : Chain L := by
  induction A with
  | nil => exact h
  | cons a A' ih => exact ih (chain_tail h)

theorem chain_prefix (M B : List TSpan) (h : Chain (M ++ B)) : Chain M := by
  induction M with
  | nil => trivial
  | cons a M' ih =>
    cases M' with
    | nil =>
      cases B with
      | nil => exact h
      | cons b B' => exact h.1
    | cons b M'' => exact ⟨h.1, h.2.1, ih h.2.2⟩

theorem chain_infix (A M B : List TSpan) (h : Chain (A ++ (M ++ B))) : Chain M :=
  chain_prefix M B (chain_suffix A _ h)

/-! ### positions from the text, trees as token intervals -/

theorem le_advance (p : P) (c : Char) : p ≤ advance p c := by
  unfold advance
  split
  · show p.line < p.line + 1 ∨ _; omega
  · show p.line < p.line ∨ (p.line = p.line ∧ p.col ≤ p.col + 1); omega

theorem le_posFrom (p : P) (s : Str) (n : Nat) : p ≤ posFrom p s n := by
  induction s generalizing p n with
  | nil => cases n <;> exact P.le_refl p
  | cons c cs ih =>
    cases n with
    | zero => exact P.le_refl p
    | succ n => exact P.le_trans (le_advance p c) (ih (advance p c) n)

theorem posFrom_mono (p : P) (s : Str) (a b : Nat) (h : a ≤ b) : posFrom p s a ≤ posFrom p s b := by
  induction s generalizing p a b with
  | nil => cases a <;> cases b <;> exact P.le_refl p
  | cons c cs ih =>
    cases a with
    | zero => exact le_posFrom p (c :: cs) b
    | succ a =>
      cases b with
      | zero => omega
      | succ b => exact ih (advance p c) a b (by omega)

/-- positions computed from the text are monotone in the offset -/
theorem posOf_mono (src : Str) (a b : Nat) (h : a ≤ b) : posOf src a ≤ posOf src b := posFrom_mono _ src a b h

/-- tokens handed out left to right have ordered, non-overlapping spans -/
theorem chain_of_offChain (src : Str) (ts : List OTok) (h : OffChain ts) : Chain (ts.map (tokSpan src)) := by
  induction ts with
  | nil => trivial
  | cons a rest ih =>
    cases rest with
    | nil => exact posOf_mono src _ _ h
    | cons b rest' =>
      obtain ⟨h1, h2, h3⟩ := h
      exact ⟨posOf_mono src _ _ h1, posOf_mono src _ _ h2, ih h3⟩

theorem chain_get_lt (S : List TSpan) (h : Chain S) (i j : Nat) (hi : i < S.length) (hj : j < S.length) (hij : i < j) :
    S[i].b ≤ S[i].e ∧ S[i].e ≤ S[j].b ∧ S[j].b ≤ S[j].e :=
  (List.pairwise_iff_getElem.mp (chain_pairwise S h)) i j hi hj hij

theorem chain_get_le_b (S : List TSpan) (h : Chain S) (i j : Nat) (hi : i < S.length) (hj : j < S.length) (hij : i ≤ j) :
    S[i].b ≤ S[j].b := by
  rcases Nat.lt_or_eq_of_le hij with hlt | heq
  · have := chain_get_lt S h i j hi hj hlt
    exact P.le_trans this.1 this.2.1
  · subst heq; exact P.le_refl _

theorem chain_get_le_e (S : List TSpan) (h : Chain S) (i j : Nat) (hi : i < S.length) (hj : j < S.length) (hij : i ≤ j) :
    S[i].e ≤ S[j].e := by
  rcases Nat.lt_or_eq_of_le hij with hlt | heq
  · have := chain_get_lt S h i j hi hj hlt
    exact P.le_trans this.2.1 this.2.2
  · subst heq; exact P.le_refl _

theorem spanOf_some (S : List TSpan) (lo hi : Nat) (h1 : lo < hi) (h2 : hi ≤ S.length) :
    spanOf S lo hi = some ⟨(S[lo]'(by omega)).b, (S[hi - 1]'(by omega)).e⟩ := by
  have a : S[lo]? = some (S[lo]'(by omega)) := List.getElem?_eq_getElem (by omega)
  have b : S[hi - 1]? = some (S[hi - 1]'(by omega)) := List.getElem?_eq_getElem (by omega)
  simp [spanOf, a, b, h1]

/-- a sub-interval's span lies inside the interval's span -/
theorem span_nest_idx (S : List TSpan) (hch : Chain S) (lo hi clo chi : Nat)
    (h1 : lo ≤ clo) (h2 : clo < chi) (h3 : chi ≤ hi) (h4 : hi ≤ S.length) :
    ∃ p s, spanOf S lo hi = some p ∧ spanOf S clo chi = some s ∧ p.b ≤ s.b ∧ s.e ≤ p.e := by
  refine ⟨_, _, spanOf_some S lo hi (by omega) h4, spanOf_some S clo chi h2 (by omega), ?_, ?_⟩
  · exact chain_get_le_b S hch lo clo (by omega) (by omega) h1
  · exact chain_get_le_e S hch (chi - 1) (hi - 1) (by omega) (by omega) (by omega)

/-- the spans of two intervals that follow each other do not overlap -/
theorem span_siblings_idx (S : List TSpan) (hch : Chain S) (a b c d : Nat)
    (h1 : a < b) (h2 : b ≤ c) (h3 : c < d) (h4 : d ≤ S.length) :
    ∃ s1 s2, spanOf S a b = some s1 ∧ spanOf S c d = some s2 ∧ s1.e ≤ s2.b := by
  refine ⟨_, _, spanOf_some S a b h1 (by omega), spanOf_some S c d h3 h4, ?_⟩
  exact (chain_get_lt S hch (b - 1) c (by omega) (by omega) (by omega)).2.1

/-- what `childrenOrdered` says about each child and about each pair of children -/
theorem childrenOrdered_mem (lo hi : Nat) (cs : List ITree) (h : childrenOrdered lo hi cs = true) :
    lo ≤ hi ∧ ∀ c ∈ cs, lo ≤ c.lo ∧ c.lo < c.hi ∧ c.hi ≤ hi := by
  induction cs generalizing lo with
  | nil => simp [childrenOrdered] at h; exact ⟨h, by intro c hc; cases hc⟩
  | cons x xs ih =>
    simp only [childrenOrdered, Bool.and_eq_true, decide_eq_true_eq] at h
    obtain ⟨⟨h1, h2⟩, h3⟩ := h
    obtain ⟨h4, h5⟩ := ih x.hi h3
    refine ⟨by omega, ?_⟩
    intro c hc
    rcases List.mem_cons.mp hc with rfl | hc
    · exact ⟨h1, h2, h4⟩
    · have := h5 c hc; exact ⟨by omega, this.2.1, this.2.2⟩

theorem childrenOrdered_pair (lo hi : Nat) (pre mid post : List ITree) (c1 c2 : ITree)
    (h : childrenOrdered lo hi (pre ++ c1 :: (mid ++ c2 :: post)) = true) : c1.hi ≤ c2.lo := by
  induction pre generalizing lo with
  | nil =>
    simp only [List.nil_append, childrenOrdered, Bool.and_eq_true, decide_eq_true_eq] at h
    have := (childrenOrdered_mem c1.hi hi (mid ++ c2 :: post) h.2).2 c2 (by simp)
    exact this.1
  | cons x xs ih =>
    simp only [List.cons_append, childrenOrdered, Bool.and_eq_true] at h
    exact ih x.hi h.2

/-- the one-pass table holds `posFrom` of every offset -/
theorem posScan_get (p : P) (s : Str) (k : Nat) (h : k ≤ s.length) : (posScan p s)[k]? = some (posFrom p s k) := by
  induction s generalizing p k with
  | nil => simp at h; subst h; simp [posScan, posFrom]
  | cons c cs ih =>
    cases k with
    | zero => simp [posScan, posFrom]
    | succ k => simp only [posScan, List.getElem?_cons_succ, posFrom]; exact ih (advance p c) k (by simpa using h)

end Tranp.Hull
