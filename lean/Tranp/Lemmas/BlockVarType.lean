/-
  Lemmas for property C18, part 8: `Param.var_type_origin` — the generated regular expression `Param.VarType` run by the
  backtracking matcher of Tranp.Model.Regex, on texts of the shape [const ␠+] base [<…>] [*|&].
-/
import Tranp.Model.BlockView

namespace Tranp.Block
open Tranp Tranp.Regex

section
variable {R : Type}

theorem mAux_seq (f : Nat) (a b : Re) (inp : Str) (pos : Nat) (caps : Caps) (k : Str → Nat → Caps → Option R) :
    mAux (f + 1) (.seq a b) inp pos caps k = mAux f a inp pos caps (fun i p c => mAux f b i p c k) := by
  rw [mAux]

theorem mAux_group (f idx : Nat) (r : Re) (inp : Str) (pos : Nat) (caps : Caps) (k : Str → Nat → Caps → Option R) :
    mAux (f + 1) (.group idx r) inp pos caps k = mAux f r inp pos caps (fun i p c => k i p (c.set idx (pos, p))) := by
  rw [mAux]

theorem mAux_lit_cons (f : Nat) (c x : Char) (xs : Str) (pos : Nat) (caps : Caps) (k : Str → Nat → Caps → Option R) :
    mAux (f + 1) (.lit c) (x :: xs) pos caps k = if x = c then k xs (pos + 1) caps else none := by
  rw [mAux]

theorem mAux_lit_nil (f : Nat) (c : Char) (pos : Nat) (caps : Caps) (k : Str → Nat → Caps → Option R) :
    mAux (f + 1) (.lit c) [] pos caps k = none := by
  rw [mAux]

theorem mAux_set_cons (f : Nat) (S : CharSet) (x : Char) (xs : Str) (pos : Nat) (caps : Caps) (k : Str → Nat → Caps → Option R) :
    mAux (f + 1) (.set S) (x :: xs) pos caps k = if S.matches x then k xs (pos + 1) caps else none := by
  rw [mAux]

theorem mAux_set_nil (f : Nat) (S : CharSet) (pos : Nat) (caps : Caps) (k : Str → Nat → Caps → Option R) :
    mAux (f + 1) (.set S) [] pos caps k = none := by
  rw [mAux]

theorem mAux_bol (f : Nat) (inp : Str) (pos : Nat) (caps : Caps) (k : Str → Nat → Caps → Option R) :
    mAux (f + 1) .bol inp pos caps k = if pos = 0 then k inp pos caps else none := by
  rw [mAux]

/-- the "one more iteration" branch of a greedy repetition -/
def repMore (f mn : Nat) (mx : Option Nat) (r : Re) (inp : Str) (pos : Nat) (caps : Caps) (k : Str → Nat → Caps → Option R) : Option R :=
  if mx = some 0 then none
  else mAux f r inp pos caps (fun i p c =>
    if p = pos then none else mAux f (.rep (mn - 1) (mx.map (· - 1)) r) i p c k)

theorem mAux_rep_some (f mn : Nat) (mx : Option Nat) (r : Re) (inp : Str) (pos : Nat) (caps : Caps) (k : Str → Nat → Caps → Option R)
    (res : R) (h : repMore f mn mx r inp pos caps k = some res) :
    mAux (f + 1) (.rep mn mx r) inp pos caps k = some res := by
  rw [mAux]
  simp only [repMore] at h
  simp only [h]

theorem mAux_rep_none (f mn : Nat) (mx : Option Nat) (r : Re) (inp : Str) (pos : Nat) (caps : Caps) (k : Str → Nat → Caps → Option R)
    (h : repMore f mn mx r inp pos caps k = none) :
    mAux (f + 1) (.rep mn mx r) inp pos caps k = if mn = 0 then k inp pos caps else none := by
  rw [mAux]
  simp only [repMore] at h
  simp only [h]

/-- greedy repetition of a character set: over a maximal run of set characters, when the continuation accepts behind the
    whole run, the result is the continuation's (the longest alternative is tried first) -/
theorem rep_set_greedy (S : CharSet) (k : Str → Nat → Caps → Option R) (rest : Str) (caps : Caps)
    (hrest : ∀ c, rest.head? = some c → S.matches c = false) :
    ∀ (run : Str) (f mn pos : Nat), (∀ c ∈ run, S.matches c = true) → mn ≤ run.length → run.length + 2 ≤ f →
      (k rest (pos + run.length) caps).isSome →
      mAux f (.rep mn none (.set S)) (run ++ rest) pos caps k = k rest (pos + run.length) caps := by
  intro run
  induction run with
  | nil =>
    intro f mn pos _ hmn hf hk
    obtain ⟨f', rfl⟩ : ∃ f', f = f' + 2 := ⟨f - 2, by omega⟩
    have hmn0 : mn = 0 := by simpa using hmn
    subst hmn0
    have hnone : repMore (f' + 1) 0 none (.set S) rest pos caps k = none := by
      simp only [repMore, reduceCtorEq, if_false]
      cases rest with
      | nil => rw [mAux_set_nil]
      | cons x xs => rw [mAux_set_cons, if_neg]; simp [hrest x rfl]
    rw [List.nil_append, mAux_rep_none _ _ _ _ _ _ _ _ hnone]
    simp
  | cons x run ih =>
    intro f mn pos hall hmn hf hk
    obtain ⟨f', rfl⟩ : ∃ f', f = f' + 2 := ⟨f - 2, by omega⟩
    have hx : S.matches x = true := hall x (by simp)
    have hstep := ih (f' + 1) (mn - 1) (pos + 1) (fun c hc => hall c (by simp [hc]))
      (by simp only [List.length_cons] at hmn; omega) (by simp only [List.length_cons] at hf; omega)
      (by simpa [Nat.add_assoc, Nat.add_comm 1] using hk)
    have hpos : pos + 1 + run.length = pos + (x :: run).length := by simp only [List.length_cons]; omega
    rw [hpos] at hstep
    obtain ⟨res, hres⟩ := Option.isSome_iff_exists.mp hk
    have hmore : repMore (f' + 1) mn none (.set S) (x :: run ++ rest) pos caps k = some res := by
      simp only [repMore, reduceCtorEq, if_false, List.cons_append]
      rw [mAux_set_cons, if_pos hx, if_neg (by omega)]
      simp only [Option.map_none]
      rw [hstep, hres]
    rw [mAux_rep_some _ _ _ _ _ _ _ _ res hmore, hres]

theorem mAux_zero (r : Re) (inp : Str) (pos : Nat) (caps : Caps) (k : Str → Nat → Caps → Option R) :
    mAux 0 r inp pos caps k = none := by
  rw [mAux]

theorem seq_some (f : Nat) (a b : Re) (inp : Str) (pos : Nat) (caps : Caps) (k : Str → Nat → Caps → Option R) (r : R)
    (h : mAux f (.seq a b) inp pos caps k = some r) :
    ∃ f', f = f' + 1 ∧ mAux f' a inp pos caps (fun i p c => mAux f' b i p c k) = some r := by
  cases f with
  | zero => rw [mAux_zero] at h; cases h
  | succ f' => exact ⟨f', rfl, by rwa [mAux_seq] at h⟩

theorem lit_some (f : Nat) (c : Char) (inp : Str) (pos : Nat) (caps : Caps) (k : Str → Nat → Caps → Option R) (r : R)
    (h : mAux f (.lit c) inp pos caps k = some r) : ∃ xs, inp = c :: xs ∧ k xs (pos + 1) caps = some r := by
  cases f with
  | zero => rw [mAux_zero] at h; cases h
  | succ f' =>
    cases inp with
    | nil => rw [mAux_lit_nil] at h; cases h
    | cons x xs =>
      rw [mAux_lit_cons] at h
      by_cases hx : x = c
      · rw [if_pos hx] at h; exact ⟨xs, by rw [hx], h⟩
      · rw [if_neg hx] at h; cases h

/-- `c X` matched: the text starts with `c` and `X` matches behind it -/
theorem seq_lit_some (f : Nat) (c : Char) (X : Re) (inp : Str) (pos : Nat) (caps : Caps) (k : Str → Nat → Caps → Option R) (r : R)
    (h : mAux f (.seq (.lit c) X) inp pos caps k = some r) :
    ∃ f' xs, inp = c :: xs ∧ mAux f' X xs (pos + 1) caps k = some r := by
  obtain ⟨f', _, h1⟩ := seq_some f _ _ inp pos caps k r h
  obtain ⟨xs, hx, h2⟩ := lit_some f' c inp pos caps _ r h1
  exact ⟨f', xs, hx, h2⟩

theorem rep1_set_some (f : Nat) (S : CharSet) (inp : Str) (pos : Nat) (caps : Caps) (k : Str → Nat → Caps → Option R) (r : R)
    (h : mAux f (.rep 1 none (.set S)) inp pos caps k = some r) : ∃ x rest, inp = x :: rest ∧ S.matches x = true := by
  cases f with
  | zero => rw [mAux_zero] at h; cases h
  | succ f' =>
    cases hm : repMore f' 1 none (.set S) inp pos caps k with
    | none => rw [mAux_rep_none _ _ _ _ _ _ _ _ hm] at h; simp at h
    | some res =>
      simp only [repMore, reduceCtorEq, if_false] at hm
      cases f' with
      | zero => rw [mAux_zero] at hm; cases hm
      | succ f'' =>
        cases inp with
        | nil => rw [mAux_set_nil] at hm; cases hm
        | cons x xs =>
          rw [mAux_set_cons] at hm
          by_cases hx : S.matches x = true
          · exact ⟨x, xs, rfl, hx⟩
          · rw [if_neg hx] at hm; cases hm

/-- `c X` on a text that starts with `c`: one step -/
theorem seq_lit_step (f : Nat) (c : Char) (X : Re) (xs : Str) (pos : Nat) (caps : Caps) (k : Str → Nat → Caps → Option R) :
    mAux (f + 2) (.seq (.lit c) X) (c :: xs) pos caps k = mAux (f + 1) X xs (pos + 1) caps k := by
  rw [mAux_seq, mAux_lit_cons, if_pos rfl]

theorem split_run (S : CharSet) : ∀ inp : Str, ∃ run rest, inp = run ++ rest ∧ (∀ c ∈ run, S.matches c = true) ∧
    (∀ c, rest.head? = some c → S.matches c = false) := by
  intro inp
  induction inp with
  | nil => exact ⟨[], [], rfl, by simp, by simp⟩
  | cons x xs ih =>
    by_cases hx : S.matches x = true
    · obtain ⟨run, rest, he, hr, hh⟩ := ih
      refine ⟨x :: run, rest, by simp [he], ?_, hh⟩
      intro c hc
      rcases List.mem_cons.mp hc with hc | hc
      · rw [hc]; exact hx
      · exact hr c hc
    · refine ⟨[], x :: xs, rfl, by simp, ?_⟩
      intro c hc
      simp only [List.head?_cons, Option.some.injEq] at hc
      rw [← hc]; simpa using hx

end

/-! ### the pattern `Param.VarType` = `^(const\s+)?([\w\d\:]+)[^\*&]*[\*&]?` -/

def setW : CharSet := ⟨false, [.word, .digit, .lit ':']⟩
def setSP : CharSet := ⟨false, [.space]⟩
def setNP : CharSet := ⟨true, [.lit '*', .lit '&']⟩
def setPT : CharSet := ⟨false, [.lit '*', .lit '&']⟩
def reTail : Re := .seq (.rep 0 none (.set setNP)) (.rep 0 (some 1) (.set setPT))
def reName : Re := .seq (.group 2 (.rep 1 none (.set setW))) reTail
def reConst : Re :=
  .seq (.lit 'c') (.seq (.lit 'o') (.seq (.lit 'n') (.seq (.lit 's') (.seq (.lit 't') (.rep 1 none (.set setSP))))))
def reOptConst : Re := .rep 0 (some 1) (.group 1 reConst)

/-- the tie to the generated term: a changed pattern in cpp_view_helper.py breaks this proof -/
theorem varType_pattern : Generated.C08Regex.CppViewHelper_Param_VarType = .seq .bol (.seq reOptConst reName) := rfl

def kfin : Str → Nat → Caps → Option Match := fun _ p c => some (p, c)

theorem setSP_matches (c : Char) : setSP.matches c = isSpaceChar c := by
  simp [setSP, CharSet.matches, SetItem.matches]

theorem isNameChar_setW (c : Char) (h : isNameChar c = true) : setW.matches c = true := by
  simp only [isNameChar, Bool.or_eq_true, beq_iff_eq] at h
  simp only [setW, CharSet.matches, SetItem.matches, List.any_cons, List.any_nil, Bool.or_false, bne_iff_ne, ne_eq]
  rcases h with h | h
  · simp [h]
  · simp [h]

theorem space_not_setW (c : Char) (h : isSpaceChar c = true) : setW.matches c = false := by
  simp only [isSpaceChar, Bool.or_eq_true, decide_eq_true_eq] at h
  rcases h with ((((((((h | h) | h) | h) | h) | h) | h) | h) | h) | h <;> subst h <;> decide

theorem setW_not_space (c : Char) (h : setW.matches c = true) : isSpaceChar c = false := by
  cases hs : isSpaceChar c with
  | false => rfl
  | true => rw [space_not_setW c hs] at h; cases h

/-- the optional `[*&]` behind everything: always matches, keeps the captures -/
theorem opt_ok (f : Nat) (inp : Str) (pos : Nat) (caps : Caps) (hf : 3 ≤ f) :
    ∃ p', mAux f (.rep 0 (some 1) (.set setPT)) inp pos caps kfin = some (p', caps) := by
  obtain ⟨f', rfl⟩ : ∃ f', f = f' + 3 := ⟨f - 3, by omega⟩
  have hinner : ∀ (xs : Str), mAux (f' + 2) (.rep 0 (some 0) (.set setPT)) xs (pos + 1) caps kfin = some (pos + 1, caps) := by
    intro xs
    have : repMore (f' + 1) 0 (some 0) (.set setPT) xs (pos + 1) caps kfin = none := by simp [repMore]
    rw [mAux_rep_none _ _ _ _ _ _ _ _ this]; simp [kfin]
  cases inp with
  | nil =>
    have : repMore (f' + 2) 0 (some 1) (.set setPT) [] pos caps kfin = none := by
      simp only [repMore, Option.some.injEq, Nat.succ_ne_self, if_false]; rw [mAux_set_nil]
    exact ⟨pos, by rw [mAux_rep_none _ _ _ _ _ _ _ _ this]; simp [kfin]⟩
  | cons x xs =>
    by_cases hx : setPT.matches x = true
    · have : repMore (f' + 2) 0 (some 1) (.set setPT) (x :: xs) pos caps kfin = some (pos + 1, caps) := by
        simp only [repMore, Option.some.injEq, Nat.succ_ne_self, if_false]
        rw [mAux_set_cons, if_pos hx, if_neg (by omega)]
        exact hinner xs
      exact ⟨pos + 1, mAux_rep_some _ _ _ _ _ _ _ _ _ this⟩
    · have : repMore (f' + 2) 0 (some 1) (.set setPT) (x :: xs) pos caps kfin = none := by
        simp only [repMore, Option.some.injEq, Nat.succ_ne_self, if_false]
        rw [mAux_set_cons, if_neg hx]
      exact ⟨pos, by rw [mAux_rep_none _ _ _ _ _ _ _ _ this]; simp [kfin]⟩

/-- `[^*&]*[*&]?` always matches and keeps the captures -/
theorem tail_ok (f : Nat) (inp : Str) (pos : Nat) (caps : Caps) (hf : inp.length + 6 ≤ f) :
    ∃ p', mAux f reTail inp pos caps kfin = some (p', caps) := by
  obtain ⟨f', rfl⟩ : ∃ f', f = f' + 1 := ⟨f - 1, by omega⟩
  obtain ⟨run, rest, he, hr, hh⟩ := split_run setNP inp
  subst he
  simp only [List.length_append] at hf
  obtain ⟨p', hp⟩ := opt_ok f' rest (pos + run.length) caps (by omega)
  refine ⟨p', ?_⟩
  rw [reTail, mAux_seq]
  rw [rep_set_greedy setNP _ rest caps hh run f' 0 pos hr (by omega) (by omega) (by rw [hp]; rfl)]
  exact hp

/-- `([\w\d:]+)[^*&]*[*&]?` on a name followed by something that is not a name character: group 2 is the name -/
theorem name_ok (f : Nat) (base after : Str) (pos : Nat) (caps : Caps) (hb : base ≠ [])
    (hW : ∀ c ∈ base, setW.matches c = true) (ha : ∀ c, after.head? = some c → setW.matches c = false)
    (hf : (base ++ after).length + 9 ≤ f) :
    ∃ p', mAux f reName (base ++ after) pos caps kfin = some (p', caps.set 2 (pos, pos + base.length)) := by
  obtain ⟨f', rfl⟩ : ∃ f', f = f' + 3 := ⟨f - 3, by omega⟩
  simp only [List.length_append] at hf
  have hlen : 1 ≤ base.length := List.length_pos_iff.mpr hb
  obtain ⟨p', hp⟩ := tail_ok (f' + 2) after (pos + base.length) (caps.set 2 (pos, pos + base.length)) (by omega)
  refine ⟨p', ?_⟩
  rw [reName, mAux_seq, mAux_group]
  rw [rep_set_greedy setW _ after caps ha base (f' + 1) 1 pos hW hlen (by omega) (by show (mAux (f' + 2) reTail after (pos + base.length) (caps.set 2 (pos, pos + base.length)) kfin).isSome = true; rw [hp]; rfl)]
  exact hp

/-- `const\s+` matched: the text starts with `const` and a white-space character -/
theorem const_some {R : Type} (f : Nat) (inp : Str) (pos : Nat) (caps : Caps) (k : Str → Nat → Caps → Option R) (r : R)
    (h : mAux f reConst inp pos caps k = some r) :
    ∃ x rest, inp = 'c' :: 'o' :: 'n' :: 's' :: 't' :: x :: rest ∧ isSpaceChar x = true := by
  obtain ⟨f1, x1, e1, h1⟩ := seq_lit_some f _ _ inp pos caps k r h
  obtain ⟨f2, x2, e2, h2⟩ := seq_lit_some f1 _ _ x1 _ caps k r h1
  obtain ⟨f3, x3, e3, h3⟩ := seq_lit_some f2 _ _ x2 _ caps k r h2
  obtain ⟨f4, x4, e4, h4⟩ := seq_lit_some f3 _ _ x3 _ caps k r h3
  obtain ⟨f5, x5, e5, h5⟩ := seq_lit_some f4 _ _ x4 _ caps k r h4
  obtain ⟨x, rest, e6, hx⟩ := rep1_set_some f5 setSP x5 _ caps k r h5
  rw [setSP_matches] at hx
  exact ⟨x, rest, by rw [e1, e2, e3, e4, e5, e6], hx⟩

/-- a text that starts with a name and goes on with something that is neither a name character nor white space does not
    start with `const` + white space … -/
theorem prefix_in_base (after rest : Str) (ha : ∀ c, after.head? = some c → setW.matches c = false) :
    ∀ (pre base : Str), (∀ c ∈ pre, setW.matches c = true) → base ++ after = pre ++ rest → ∃ base', base = pre ++ base' := by
  intro pre
  induction pre with
  | nil => intro base _ _; exact ⟨base, rfl⟩
  | cons p pre ih =>
    intro base hp he
    cases base with
    | nil =>
      simp only [List.nil_append] at he
      have := ha p (by rw [he]; rfl)
      rw [hp p (by simp)] at this; cases this
    | cons b base =>
      simp only [List.cons_append, List.cons.injEq] at he
      obtain ⟨base', hb⟩ := ih base (fun c hc => hp c (by simp [hc])) he.2
      exact ⟨base', by rw [he.1, hb]; rfl⟩

theorem no_const (base after : Str) (hW : ∀ c ∈ base, setW.matches c = true)
    (ha : ∀ c, after.head? = some c → setW.matches c = false ∧ isSpaceChar c = false) (x : Char) (rest : Str)
    (hx : isSpaceChar x = true) : base ++ after ≠ 'c' :: 'o' :: 'n' :: 's' :: 't' :: x :: rest := by
  intro he
  have he' : base ++ after = ['c', 'o', 'n', 's', 't'] ++ (x :: rest) := he
  obtain ⟨base', hb⟩ := prefix_in_base after (x :: rest) (fun c hc => (ha c hc).1) ['c', 'o', 'n', 's', 't'] base
    (by intro c hc; simp only [List.mem_cons, List.not_mem_nil, or_false] at hc
        rcases hc with h | h | h | h | h <;> subst h <;> decide) he'
  subst hb
  simp only [List.append_assoc, List.append_cancel_left_eq] at he'
  cases base' with
  | nil =>
    simp only [List.nil_append] at he'
    have := (ha x (by rw [he']; rfl)).2
    rw [hx] at this; cases this
  | cons b base' =>
    simp only [List.cons_append, List.cons.injEq] at he'
    have := hW b (by simp)
    rw [he'.1, space_not_setW x hx] at this; cases this

/-- … so the optional `(const\s+)` group is skipped and the name is read from the start -/
theorem optConst_skip (f : Nat) (base after : Str) (hb : base ≠ []) (hW : ∀ c ∈ base, setW.matches c = true)
    (ha : ∀ c, after.head? = some c → setW.matches c = false ∧ isSpaceChar c = false)
    (hf : (base ++ after).length + 12 ≤ f) :
    ∃ p', mAux f (.seq reOptConst reName) (base ++ after) 0 [] kfin = some (p', Caps.set [] 2 (0, 0 + base.length)) := by
  obtain ⟨f', rfl⟩ : ∃ f', f = f' + 2 := ⟨f - 2, by omega⟩
  obtain ⟨p', hp⟩ := name_ok (f' + 1) base after 0 [] hb hW (fun c hc => (ha c hc).1) (by omega)
  refine ⟨p', ?_⟩
  have hnone : repMore f' 0 (some 1) (.group 1 reConst) (base ++ after) 0 []
      (fun i p c => mAux (f' + 1) reName i p c kfin) = none := by
    simp only [repMore, Option.some.injEq, Nat.succ_ne_self, if_false]
    cases hm : mAux f' (.group 1 reConst) (base ++ after) 0 [] _ with
    | none => rfl
    | some r =>
      exfalso
      cases f' with
      | zero => rw [mAux_zero] at hm; cases hm
      | succ f'' =>
        rw [mAux_group] at hm
        obtain ⟨x, rest, he, hx⟩ := const_some _ _ _ _ _ _ hm
        exact no_const base after hW ha x rest hx he
  rw [mAux_seq, reOptConst, mAux_rep_none _ _ _ _ _ _ _ _ hnone, if_pos rfl]
  exact hp

/-- `const` + white space + name: group 1 takes `const␠…`, group 2 is the name -/
theorem optConst_take (f : Nat) (ws base after : Str) (hws : ws ≠ []) (hS : ∀ c ∈ ws, isSpaceChar c = true)
    (hb : base ≠ []) (hW : ∀ c ∈ base, setW.matches c = true)
    (ha : ∀ c, after.head? = some c → setW.matches c = false)
    (hf : (ws ++ (base ++ after)).length + 20 ≤ f) :
    ∃ p' c1, mAux f (.seq reOptConst reName) ('c' :: 'o' :: 'n' :: 's' :: 't' :: (ws ++ (base ++ after))) 0 [] kfin
      = some (p', Caps.set c1 2 (5 + ws.length, 5 + ws.length + base.length)) := by
  obtain ⟨f', rfl⟩ : ∃ f', f = f' + 9 := ⟨f - 9, by omega⟩
  simp only [List.length_append] at hf
  have hlen : 1 ≤ ws.length := List.length_pos_iff.mpr hws
  obtain ⟨p', hp⟩ := name_ok (f' + 8) base after (5 + ws.length) (Caps.set [] 1 (0, 5 + ws.length)) hb hW ha
    (by simp only [List.length_append]; omega)
  refine ⟨p', Caps.set [] 1 (0, 5 + ws.length), ?_⟩
  have hhead : ∀ c, (base ++ after).head? = some c → setSP.matches c = false := by
    intro c hc
    rw [setSP_matches]
    cases base with
    | nil => exact absurd rfl hb
    | cons b base =>
      simp only [List.cons_append, List.head?_cons, Option.some.injEq] at hc
      rw [← hc]; exact setW_not_space b (hW b (by simp))
  -- behind the white space: the repetition of group 1 is exhausted (max 1), the name follows
  have hafter : mAux (f' + 7) (.rep (0 - 1) ((some 1).map (· - 1)) (.group 1 reConst)) (base ++ after) (5 + ws.length)
      (Caps.set [] 1 (0, 5 + ws.length)) (fun i p c => mAux (f' + 8) reName i p c kfin)
      = some (p', Caps.set (Caps.set [] 1 (0, 5 + ws.length)) 2 (5 + ws.length, 5 + ws.length + base.length)) := by
    have : repMore (f' + 6) (0 - 1) ((some 1).map (· - 1)) (.group 1 reConst) (base ++ after) (5 + ws.length)
        (Caps.set [] 1 (0, 5 + ws.length)) (fun i p c => mAux (f' + 8) reName i p c kfin) = none := by
      simp [repMore]
    rw [mAux_rep_none _ _ _ _ _ _ _ _ this, if_pos (by omega)]
    exact hp
  have hmore : repMore (f' + 7) 0 (some 1) (.group 1 reConst) ('c' :: 'o' :: 'n' :: 's' :: 't' :: (ws ++ (base ++ after))) 0 []
      (fun i p c => mAux (f' + 8) reName i p c kfin)
      = some (p', Caps.set (Caps.set [] 1 (0, 5 + ws.length)) 2 (5 + ws.length, 5 + ws.length + base.length)) := by
    simp only [repMore, Option.some.injEq, Nat.succ_ne_self, if_false]
    rw [mAux_group, reConst, seq_lit_step, seq_lit_step, seq_lit_step, seq_lit_step, seq_lit_step]
    rw [rep_set_greedy setSP _ (base ++ after) [] hhead ws (f' + 1) 1 (0 + 1 + 1 + 1 + 1 + 1)
      (fun c hc => by rw [setSP_matches]; exact hS c hc) hlen (by omega)
      (by
        show (if 0 + 1 + 1 + 1 + 1 + 1 + ws.length = 0 then none else mAux (f' + 7) _ (base ++ after) (0 + 1 + 1 + 1 + 1 + 1 + ws.length)
          (Caps.set [] 1 (0, 0 + 1 + 1 + 1 + 1 + 1 + ws.length)) _).isSome = true
        rw [if_neg (by omega)]
        have e : 0 + 1 + 1 + 1 + 1 + 1 + ws.length = 5 + ws.length := by omega
        have h2 := hafter
        simp only [reConst] at h2
        rw [e, h2]; rfl)]
    show (if 0 + 1 + 1 + 1 + 1 + 1 + ws.length = 0 then none else mAux (f' + 7) _ (base ++ after) (0 + 1 + 1 + 1 + 1 + 1 + ws.length)
          (Caps.set [] 1 (0, 0 + 1 + 1 + 1 + 1 + 1 + ws.length)) _) = _
    rw [if_neg (by omega)]
    have e : 0 + 1 + 1 + 1 + 1 + 1 + ws.length = 5 + ws.length := by omega
    have h2 := hafter
    simp only [reConst] at h2
    rw [e, h2]
  rw [mAux_seq, reOptConst, mAux_rep_some _ _ _ _ _ _ _ _ _ hmore]

/-! ### `Param.VarType.search(var_type)[2]` -/

theorem varType_fuel (s : Str) : s.length + 40 ≤ fuelFor Generated.C08Regex.CppViewHelper_Param_VarType s := by
  have : Generated.C08Regex.CppViewHelper_Param_VarType.size = 26 := by decide
  simp only [fuelFor, this]
  omega

theorem groupText_set2 (s : Str) (c1 : Caps) (a b : Nat) : groupText s (Caps.set c1 2 (a, b)) 2 = some ((s.drop a).take (b - a)) := by
  simp [groupText, Caps.set, Caps.get?]

/-- whenever the part behind `^` matches from the start with group 2 = `[a, b)`, `search(...)[2]` is that slice -/
theorem varTypeGroup2_of (s : Str) (a b : Nat)
    (hm : ∀ f, s.length + 30 ≤ f → ∃ p' c1, mAux f (.seq reOptConst reName) s 0 [] kfin = some (p', Caps.set c1 2 (a, b))) :
    varTypeGroup2 s = .ok ((s.drop a).take (b - a)) := by
  have hF := varType_fuel s
  obtain ⟨F, hFe⟩ : ∃ F, fuelFor Generated.C08Regex.CppViewHelper_Param_VarType s = F + 2 :=
    ⟨fuelFor Generated.C08Regex.CppViewHelper_Param_VarType s - 2, by omega⟩
  obtain ⟨p', c1, hp⟩ := hm (F + 1) (by omega)
  have hmatch : matchAt Generated.C08Regex.CppViewHelper_Param_VarType s 0 = some (p', Caps.set c1 2 (a, b)) := by
    rw [matchAt, hFe, varType_pattern, mAux_seq, mAux_bol, if_pos rfl]
    exact hp
  have hsearch : search Generated.C08Regex.CppViewHelper_Param_VarType s = some (0, (p', Caps.set c1 2 (a, b))) := by
    rw [search, searchFrom, if_neg (by omega), hmatch]
  rw [varTypeGroup2, hsearch]
  simp only [groupText_set2]

/-! ### the failing side: no name at the start -/

/-- `[set]{mn,}` fails when the continuation fails behind every prefix of set characters it can stop at -/
theorem rep_set_fail {R : Type} (S : CharSet) (k : Str → Nat → Caps → Option R) (caps : Caps) :
    ∀ (inp : Str) (f mn pos : Nat),
      (∀ (j : Nat), mn ≤ j → j ≤ inp.length → (∀ c ∈ inp.take j, S.matches c = true) → k (inp.drop j) (pos + j) caps = none) →
      mAux f (.rep mn none (.set S)) inp pos caps k = none := by
  intro inp
  induction inp with
  | nil =>
    intro f mn pos hk
    cases f with
    | zero => rw [mAux_zero]
    | succ f =>
      have hm : repMore f mn none (.set S) [] pos caps k = none := by
        simp only [repMore, reduceCtorEq, if_false]
        cases f with
        | zero => rw [mAux_zero]
        | succ f => rw [mAux_set_nil]
      rw [mAux_rep_none _ _ _ _ _ _ _ _ hm]
      split
      · rename_i h0
        have := hk 0 (by omega) (by simp) (by simp)
        simpa using this
      · rfl
  | cons x xs ih =>
    intro f mn pos hk
    cases f with
    | zero => rw [mAux_zero]
    | succ f =>
      have hm : repMore f mn none (.set S) (x :: xs) pos caps k = none := by
        simp only [repMore, reduceCtorEq, if_false]
        cases f with
        | zero => rw [mAux_zero]
        | succ f =>
          rw [mAux_set_cons]
          split
          · rename_i hx
            rw [if_neg (by omega)]
            apply ih
            intro j hmn hj hall
            have := hk (j + 1) (by omega) (by simp only [List.length_cons]; omega) (by
              intro c hc
              simp only [List.take_succ_cons, List.mem_cons] at hc
              rcases hc with hc | hc
              · rw [hc]; exact hx
              · exact hall c hc)
            simp only [List.drop_succ_cons] at this
            rw [← this]; congr 1; omega
          · rfl
      rw [mAux_rep_none _ _ _ _ _ _ _ _ hm]
      split
      · rename_i h0
        have := hk 0 (by omega) (by simp) (by simp)
        simpa using this
      · rfl

/-- the name part fails when the text does not begin with a name character -/
theorem name_fail (f : Nat) (inp : Str) (pos : Nat) (caps : Caps) (h : ∀ c, inp.head? = some c → setW.matches c = false) :
    mAux f reName inp pos caps kfin = none := by
  cases f with
  | zero => rw [mAux_zero]
  | succ f =>
    rw [reName, mAux_seq]
    cases f with
    | zero => rw [mAux_zero]
    | succ f =>
      rw [mAux_group]
      cases f with
      | zero => rw [mAux_zero]
      | succ f =>
        have hm : repMore f 1 none (.set setW) inp pos caps
            (fun i p c => (fun i p c => mAux (f + 1 + 1) reTail i p c kfin) i p (Caps.set c 2 (pos, p))) = none := by
          simp only [repMore, reduceCtorEq, if_false]
          cases f with
          | zero => rw [mAux_zero]
          | succ f =>
            cases inp with
            | nil => rw [mAux_set_nil]
            | cons x xs => rw [mAux_set_cons, if_neg (by simp [h x rfl])]
        rw [mAux_rep_none _ _ _ _ _ _ _ _ hm]
        simp

theorem rep_set_some {R : Type} (S : CharSet) (k : Str → Nat → Caps → Option R) (caps : Caps) (inp : Str) (f mn pos : Nat) (r : R)
    (h : mAux f (.rep mn none (.set S)) inp pos caps k = some r) :
    ∃ j, mn ≤ j ∧ j ≤ inp.length ∧ (∀ c ∈ inp.take j, S.matches c = true) ∧ k (inp.drop j) (pos + j) caps ≠ none := by
  apply Classical.byContradiction
  intro hcon
  have := rep_set_fail S k caps inp f mn pos (fun j h1 h2 h3 =>
    Classical.byContradiction (fun hne => hcon ⟨j, h1, h2, h3, hne⟩))
  rw [this] at h
  cases h

def constWord : Str := ['c', 'o', 'n', 's', 't']

/-- the optional group `(const\s+)` cannot be taken when behind `const` and every possible run of white space the name part
    fails -/
theorem group1_fail (f g : Nat) (s : Str)
    (h : ∀ x5, s = constWord ++ x5 → ∀ j, 1 ≤ j → j ≤ x5.length → (∀ c ∈ x5.take j, isSpaceChar c = true) →
      ∀ p c, mAux g reName (x5.drop j) p c kfin = none) :
    mAux f (.group 1 reConst) s 0 []
      (fun i p c => if p = 0 then none else mAux f (.rep (0 - 1) ((some 1).map (· - 1)) (.group 1 reConst)) i p c
        (fun i p c => mAux g reName i p c kfin)) = none := by
  cases hm : mAux f (.group 1 reConst) s 0 [] _ with
  | none => rfl
  | some r0 =>
    exfalso
    cases f with
    | zero => rw [mAux_zero] at hm; cases hm
    | succ f1 =>
      rw [mAux_group, reConst] at hm
      obtain ⟨g1, x1, e1, h1⟩ := seq_lit_some _ _ _ _ _ _ _ _ hm
      obtain ⟨g2, x2, e2, h2⟩ := seq_lit_some _ _ _ _ _ _ _ _ h1
      obtain ⟨g3, x3, e3, h3⟩ := seq_lit_some _ _ _ _ _ _ _ _ h2
      obtain ⟨g4, x4, e4, h4⟩ := seq_lit_some _ _ _ _ _ _ _ _ h3
      obtain ⟨g5, x5, e5, h5⟩ := seq_lit_some _ _ _ _ _ _ _ _ h4
      have hs : s = constWord ++ x5 := by rw [e1, e2, e3, e4, e5]; rfl
      obtain ⟨j, hj1, hj, hall, hk⟩ := rep_set_some _ _ _ _ _ _ _ _ h5
      have hall' : ∀ c ∈ x5.take j, isSpaceChar c = true := fun c hc => by rw [← setSP_matches]; exact hall c hc
      have hfail := h x5 hs j hj1 hj hall'
      apply hk
      show (if 0 + 1 + 1 + 1 + 1 + 1 + j = 0 then none else mAux (f1 + 1) _ (x5.drop j) (0 + 1 + 1 + 1 + 1 + 1 + j) _ _) = none
      rw [if_neg (by omega)]
      have hmm : repMore f1 (0 - 1) ((some 1).map (· - 1)) (.group 1 reConst) (x5.drop j) (0 + 1 + 1 + 1 + 1 + 1 + j)
          (Caps.set [] 1 (0, 0 + 1 + 1 + 1 + 1 + 1 + j)) (fun i p c => mAux g reName i p c kfin) = none := by simp [repMore]
      have e := mAux_rep_none _ _ _ _ _ _ _ _ hmm
      simp only [reConst] at e
      rw [e]
      have := hfail (0 + 1 + 1 + 1 + 1 + 1 + j) (Caps.set [] 1 (0, 0 + 1 + 1 + 1 + 1 + 1 + j))
      simpa using this

/-- … then the whole pattern reads the name from the start -/
theorem optConst_fallback (f : Nat) (s : Str) (hf : 2 ≤ f)
    (h : ∀ x5, s = constWord ++ x5 → ∀ j, 1 ≤ j → j ≤ x5.length → (∀ c ∈ x5.take j, isSpaceChar c = true) →
      ∀ p c, mAux (f - 1) reName (x5.drop j) p c kfin = none) :
    mAux f (.seq reOptConst reName) s 0 [] kfin = mAux (f - 1) reName s 0 [] kfin := by
  obtain ⟨f', rfl⟩ : ∃ f', f = f' + 2 := ⟨f - 2, by omega⟩
  have hnone : repMore f' 0 (some 1) (.group 1 reConst) s 0 [] (fun i p c => mAux (f' + 1) reName i p c kfin) = none := by
    simp only [repMore, Option.some.injEq, Nat.succ_ne_self, if_false]
    exact group1_fail f' (f' + 1) s h
  rw [mAux_seq, reOptConst, mAux_rep_none _ _ _ _ _ _ _ _ hnone, if_pos rfl]
  rfl

theorem searchFrom_pos_none (s : Str) : ∀ (fuel start : Nat), 0 < start →
    searchFrom Generated.C08Regex.CppViewHelper_Param_VarType s fuel start = none := by
  intro fuel
  induction fuel with
  | zero => intro _ _; rfl
  | succ n ih =>
    intro start hs
    rw [searchFrom]
    split
    · rfl
    · have hm : matchAt Generated.C08Regex.CppViewHelper_Param_VarType s start = none := by
        rw [matchAt, varType_pattern]
        cases fuelFor (Re.seq Re.bol (Re.seq reOptConst reName)) s with
        | zero => rw [mAux_zero]
        | succ F =>
          rw [mAux_seq]
          cases F with
          | zero => rw [mAux_zero]
          | succ F => rw [mAux_bol, if_neg (by omega)]
      rw [hm]
      exact ih (start + 1) (by omega)

/-- no match at the start: `search(...)` is `None` and `[2]` raises TypeError -/
theorem varTypeGroup2_none (s : Str) (hm : ∀ f, mAux f (.seq reOptConst reName) s 0 [] kfin = none) :
    varTypeGroup2 s = .error .TypeError := by
  have hmatch : matchAt Generated.C08Regex.CppViewHelper_Param_VarType s 0 = none := by
    rw [matchAt, varType_pattern]
    cases fuelFor (Re.seq Re.bol (Re.seq reOptConst reName)) s with
    | zero => rw [mAux_zero]
    | succ F =>
      rw [mAux_seq]
      cases F with
      | zero => rw [mAux_zero]
      | succ F => rw [mAux_bol, if_pos rfl]; exact hm _
  have hsearch : search Generated.C08Regex.CppViewHelper_Param_VarType s = none := by
    rw [search, searchFrom, if_neg (by omega), hmatch]
    exact searchFrom_pos_none s _ 1 (by omega)
  rw [varTypeGroup2, hsearch]

end Tranp.Block
