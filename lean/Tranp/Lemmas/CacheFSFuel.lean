/-
  The fuel of `collect` (Model/CacheFS.lean, the model of `Module.__collect_hashes`, module.py:100-120) never runs out:
  every descent first puts a not yet visited key of the session's tree list into the visited dict, so for every fuel above the
  number of unvisited registered modules the result does not depend on the fuel — on every import graph, cycles included.
  (`none` then always means FileNotFoundError, never "fuel".)
-/
import Tranp.Lemmas.CacheFS

namespace Tranp.CacheFS
open Tranp

/-- the visited dict only grows -/
def Ext (H H' : List (Str × Str)) : Prop := ∀ x, (List.lookup x H).isSome = true → (List.lookup x H').isSome = true

theorem Ext.refl (H : List (Str × Str)) : Ext H H := fun _ h => h
theorem Ext.trans {A B C : List (Str × Str)} (h1 : Ext A B) (h2 : Ext B C) : Ext A C := fun x h => h2 x (h1 x h)

theorem Ext.append (H : List (Str × Str)) (p : Str × Str) : Ext H (H ++ [p]) := by
  intro x h
  obtain ⟨v, hv⟩ := lookup_isSome_iff.mp h
  exact lookup_isSome_iff.mpr ⟨v, by simp [hv]⟩

theorem shallow_ext (S : Sem) (srcs : Dir) : ∀ (ds : List Str) (H H' : List (Str × Str)), shallow S srcs H ds = some H' → Ext H H' := by
  intro ds
  induction ds with
  | nil => intro H H' h; simp [shallow] at h; subst h; exact Ext.refl _
  | cons d ds ih =>
    intro H H' h
    rw [shallow] at h
    split at h
    · exact ih H H' h
    · split at h
      · exact (Ext.append H _).trans (ih _ H' h)
      · cases h

/-- one step of the loop over the imports in `collect` -/
def stepF (S : Sem) (srcs : Dir) (trees : List (Str × Str)) (depd : List Str) (f : Nat) :
    Option (List (Str × Str)) → Str → Option (List (Str × Str)) :=
  fun acc d => match acc with
    | none => none
    | some H => if (srcs.get? d).isSome then collect S srcs trees depd f H d else some H

theorem collect_succ (S : Sem) (srcs : Dir) (trees : List (Str × Str)) (depd : List Str) (f : Nat) (H : List (Str × Str)) (k : Str) :
    collect S srcs trees depd (f + 1) H k =
      if (List.lookup k H).isSome then some H else
      match srcs.get? k, List.lookup k trees with
      | some own, some tree =>
        if depd.contains k then (S.importsOf tree).foldl (stepF S srcs trees depd f) (some (H ++ [(k, S.hash own.data)]))
        else shallow S srcs (H ++ [(k, S.hash own.data)]) (S.importsOf tree)
      | _, _ => none := by
  rw [collect]; rfl

theorem foldl_stepF_none (S : Sem) (srcs : Dir) (trees : List (Str × Str)) (depd : List Str) (f : Nat) (ds : List Str) :
    ds.foldl (stepF S srcs trees depd f) none = none := by
  induction ds with
  | nil => rfl
  | cons _ _ ih => simpa [stepF] using ih

theorem collect_ext (S : Sem) (srcs : Dir) (trees : List (Str × Str)) (depd : List Str) :
    ∀ (f : Nat) (H : List (Str × Str)) (k : Str) (H' : List (Str × Str)), collect S srcs trees depd f H k = some H' → Ext H H' := by
  intro f
  induction f with
  | zero => intro H k H' h; simp [collect] at h
  | succ f ih =>
    intro H k H' h
    rw [collect_succ] at h
    split at h
    · cases h; exact Ext.refl _
    · split at h
      · rename_i own tree _ _
        split at h
        · -- the fold
          have hfold : ∀ (ds : List Str) (H0 H1 : List (Str × Str)), ds.foldl (stepF S srcs trees depd f) (some H0) = some H1 → Ext H0 H1 := by
            intro ds
            induction ds with
            | nil => intro H0 H1 he; simp at he; subst he; exact Ext.refl _
            | cons d ds ihd =>
              intro H0 H1 he
              simp only [List.foldl_cons] at he
              cases hs : stepF S srcs trees depd f (some H0) d with
              | none => rw [hs, foldl_stepF_none] at he; cases he
              | some H2 =>
                rw [hs] at he
                have e02 : Ext H0 H2 := by
                  simp only [stepF] at hs
                  split at hs
                  · exact ih H0 d H2 hs
                  · cases hs; exact Ext.refl _
                exact e02.trans (ihd H2 H1 he)
          exact (Ext.append H _).trans (hfold _ _ _ h)
        · exact (Ext.append H _).trans (shallow_ext S srcs _ _ _ h)
      · cases h

/-! ### the measure: registered modules that are not yet in the visited dict -/

def unvisited (trees : List (Str × Str)) (H : List (Str × Str)) : Nat :=
  ((trees.map (·.1)).filter (fun k => (List.lookup k H).isNone)).length

theorem filter_length_mono {α : Type} (p q : α → Bool) (l : List α) (h : ∀ x, q x = true → p x = true) :
    (l.filter q).length ≤ (l.filter p).length := by
  induction l with
  | nil => simp
  | cons x xs ih =>
    simp only [List.filter_cons]
    cases hq : q x with
    | false =>
      cases hp : p x with
      | false => simpa using ih
      | true => simp; omega
    | true =>
      rw [h x hq]
      simpa using ih

theorem filter_length_lt {α : Type} (p q : α → Bool) (l : List α) (h : ∀ x, q x = true → p x = true)
    (a : α) (ha : a ∈ l) (hpa : p a = true) (hqa : q a = false) : (l.filter q).length < (l.filter p).length := by
  induction l with
  | nil => cases ha
  | cons x xs ih =>
    simp only [List.filter_cons]
    simp only [List.mem_cons] at ha
    rcases ha with rfl | ha
    · rw [hpa, hqa]
      have := filter_length_mono p q xs h
      simp; omega
    · have := ih ha
      cases hq : q x with
      | false =>
        cases hp : p x with
        | false => simpa using this
        | true => simp; omega
      | true =>
        rw [h x hq]
        simpa using this

theorem unvisited_mono (trees : List (Str × Str)) {H H' : List (Str × Str)} (h : Ext H H') : unvisited trees H' ≤ unvisited trees H := by
  unfold unvisited
  apply filter_length_mono
  intro x hx
  cases hl : List.lookup x H with
  | none => rfl
  | some v =>
    have := h x (by simp [hl])
    cases hl' : List.lookup x H' with
    | none => simp [hl'] at this
    | some w => simp [hl'] at hx

theorem lookup_some_mem_keys {k v : Str} {l : List (Str × Str)} (h : List.lookup k l = some v) : k ∈ l.map (·.1) := by
  have : (List.lookup k l).isSome = true := by simp [h]
  obtain ⟨w, hw⟩ := lookup_isSome_iff.mp this
  exact List.mem_map.mpr ⟨(k, w), hw, rfl⟩

/-- visiting a registered module that was not visited before strictly decreases the measure -/
theorem unvisited_lt (trees : List (Str × Str)) {H H' : List (Str × Str)} {k v tree : Str}
    (hk : (List.lookup k H).isSome = false) (ht : List.lookup k trees = some tree) (h : Ext (H ++ [(k, v)]) H') :
    unvisited trees H' < unvisited trees H := by
  unfold unvisited
  have hHH' : Ext H H' := (Ext.append H _).trans h
  apply filter_length_lt _ _ _ _ k (lookup_some_mem_keys ht)
  · cases hl : List.lookup k H with
    | none => rfl
    | some w => simp [hl] at hk
  · have : (List.lookup k H').isSome = true := h k (lookup_isSome_iff.mpr ⟨v, by simp⟩)
    cases hl : List.lookup k H' with
    | none => simp [hl] at this
    | some w => rfl
  · intro x hx
    cases hl : List.lookup x H with
    | none => rfl
    | some w =>
      have := hHH' x (by simp [hl])
      cases hl' : List.lookup x H' with
      | none => simp [hl'] at this
      | some w' => simp [hl'] at hx

/-- **Fuel independence.** With more fuel than unvisited registered modules one more unit of fuel changes nothing. -/
theorem collect_fuel_succ (S : Sem) (srcs : Dir) (trees : List (Str × Str)) (depd : List Str) :
    ∀ (f : Nat) (H : List (Str × Str)) (k : Str), unvisited trees H < f →
      collect S srcs trees depd (f + 1) H k = collect S srcs trees depd f H k := by
  intro f
  induction f with
  | zero => intro H k h; omega
  | succ f ih =>
    intro H k hlt
    rw [collect_succ S srcs trees depd (f + 1), collect_succ S srcs trees depd f]
    split
    · rfl
    · rename_i hnv
      split
      · rename_i own tree hown htree
        split
        · -- both folds agree: every accumulator extends H ++ [k], so fewer than f modules are unvisited
          have hfold : ∀ (ds : List Str) (H0 : List (Str × Str)), unvisited trees H0 < f →
              ds.foldl (stepF S srcs trees depd (f + 1)) (some H0) = ds.foldl (stepF S srcs trees depd f) (some H0) := by
            intro ds
            induction ds with
            | nil => intro _ _; rfl
            | cons d ds ihd =>
              intro H0 h0
              simp only [List.foldl_cons]
              have hstep : stepF S srcs trees depd (f + 1) (some H0) d = stepF S srcs trees depd f (some H0) d := by
                simp only [stepF]
                split
                · exact ih H0 d h0
                · rfl
              rw [hstep]
              cases hs : stepF S srcs trees depd f (some H0) d with
              | none => rw [foldl_stepF_none, foldl_stepF_none]
              | some H2 =>
                apply ihd
                have e02 : Ext H0 H2 := by
                  simp only [stepF] at hs
                  split at hs
                  · exact collect_ext S srcs trees depd f H0 d H2 hs
                  · cases hs; exact Ext.refl _
                exact Nat.lt_of_le_of_lt (unvisited_mono trees e02) h0
          apply hfold
          have := unvisited_lt trees (k := k) (v := S.hash own.data) (Bool.eq_false_iff.mpr hnv) htree (Ext.refl _)
          omega
        · rfl
      · rfl

/-- … hence every fuel from `trees.length + 2` (what `identityCore` passes) on gives the same result: the model's answer
    `none` is FileNotFoundError, never the fuel — on every import graph, cyclic ones included. -/
theorem collect_fuel_bound (S : Sem) (srcs : Dir) (trees : List (Str × Str)) (depd : List Str) (k : Str) (f : Nat)
    (hf : trees.length + 2 ≤ f) :
    collect S srcs trees depd f [] k = collect S srcs trees depd (trees.length + 2) [] k := by
  have hu : unvisited trees [] ≤ trees.length := by
    unfold unvisited
    exact Nat.le_trans (List.length_filter_le _ _) (by simp)
  obtain ⟨n, rfl⟩ : ∃ n, f = trees.length + 2 + n := ⟨f - (trees.length + 2), by omega⟩
  induction n with
  | zero => rfl
  | succ n ihn =>
    rw [show trees.length + 2 + (n + 1) = (trees.length + 2 + n) + 1 from by omega, collect_fuel_succ S srcs trees depd _ [] k (by omega)]
    exact ihn (by omega)

end Tranp.CacheFS
