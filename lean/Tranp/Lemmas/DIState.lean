/-
  Tranp.Lemmas.DIState — which dictionaries the model `Cont` writes per operation (property C19).
  Counterpart of the effect table the translator reads from di.py (Generated/DIState.lean).
-/
import Tranp.Model.DIState

namespace Tranp.DI

/-- the dictionaries of `c'` outside `fs` are those of `c`, and the class is the same -/
def agreeOutside (fs : List Field) (c c' : Cont) : Prop :=
  c'.lazy = c.lazy ∧
  (Field.instances ∉ fs → c'.instances = c.instances) ∧
  (Field.injectors ∉ fs → c'.injectors = c.injectors) ∧
  (Field.invocations ∉ fs → c'.invocations = c.invocations) ∧
  (Field.definitions ∉ fs → c'.definitions = c.definitions)

namespace Cont

theorem diBind_keeps (c : Cont) (r : SymRef) (f : Factory) :
    (c.diBind r f).1.lazy = c.lazy ∧ (c.diBind r f).1.instances = c.instances ∧
    (c.diBind r f).1.invocations = c.invocations ∧ (c.diBind r f).1.definitions = c.definitions := by
  simp only [Cont.diBind]
  split <;> simp

theorem register_keeps (c : Cont) (p : Nat) (inj : Injector) :
    (c.register p inj).1.lazy = c.lazy ∧ (c.register p inj).1.instances = c.instances ∧
    (c.register p inj).1.invocations = c.invocations ∧ (c.register p inj).1.injectors = c.injectors := by
  simp only [Cont.register]
  split <;> simp

theorem unregister_keeps (c : Cont) (p : Nat) :
    (c.unregister p).lazy = c.lazy ∧ (c.unregister p).instances = c.instances ∧
    (c.unregister p).invocations = c.invocations ∧ (c.unregister p).injectors = c.injectors := by
  simp only [Cont.unregister]
  split <;> simp

theorem lazyBind_keeps (c : Cont) (r : SymRef) (f : Factory) :
    (c.lazyBind r f).1.lazy = c.lazy ∧ (c.lazyBind r f).1.instances = c.instances ∧
    (c.lazyBind r f).1.invocations = c.invocations := by
  simp only [Cont.lazyBind]
  have h := register_keeps c (symbolize r) (.direct f)
  split
  · have h2 := diBind_keeps (c.register (symbolize r) (.direct f)).1 r f
    exact ⟨h2.1.trans h.1, h2.2.1.trans h.2.1, h2.2.2.1.trans h.2.2.1⟩
  · have h2 := diBind_keeps c r f
    exact ⟨h2.1, h2.2.1, h2.2.2.1⟩

theorem diUnbind_keeps (c : Cont) (r : SymRef) :
    (c.diUnbind r).lazy = c.lazy ∧ (c.diUnbind r).invocations = c.invocations ∧ (c.diUnbind r).definitions = c.definitions := by
  simp only [Cont.diUnbind]
  split <;> simp

theorem lazyUnbind_keeps (c : Cont) (r : SymRef) :
    (c.lazyUnbind r).lazy = c.lazy ∧ (c.lazyUnbind r).invocations = c.invocations := by
  simp only [Cont.lazyUnbind]
  have h := unregister_keeps c (symbolize r)
  split
  · have h2 := diUnbind_keeps (c.unregister (symbolize r)) r
    exact ⟨h2.1.trans h.1, h2.2.1.trans h.2.2.1⟩
  · have h2 := diUnbind_keeps c r
    exact ⟨h2.1, h2.2.1⟩

/-- `bind`: the instances and the annotation cache are not touched; a plain DI has no definitions to touch -/
theorem bind_keeps (c : Cont) (r : SymRef) (f : Factory) :
    (c.bind r f).1.lazy = c.lazy ∧ (c.bind r f).1.instances = c.instances ∧ (c.bind r f).1.invocations = c.invocations ∧
    (c.lazy = false → (c.bind r f).1.definitions = c.definitions) := by
  unfold Cont.bind
  cases hl : c.lazy
  · have h := diBind_keeps c r f
    simp only [Bool.false_eq_true, if_false]
    exact ⟨h.1.trans hl, h.2.1, h.2.2.1, fun _ => h.2.2.2⟩
  · have h := lazyBind_keeps c r f
    simp only [if_true]
    exact ⟨h.1.trans hl, h.2.1, h.2.2, fun h' => by cases h'⟩

/-- `unbind`: the annotation cache is not touched; a plain DI has no definitions to touch -/
theorem unbind_keeps (c : Cont) (r : SymRef) :
    (c.unbind r).lazy = c.lazy ∧ (c.unbind r).invocations = c.invocations ∧
    (c.lazy = false → (c.unbind r).definitions = c.definitions) := by
  unfold Cont.unbind
  cases hl : c.lazy
  · have h := diUnbind_keeps c r
    simp only [Bool.false_eq_true, if_false]
    exact ⟨h.1.trans hl, h.2.1, fun _ => h.2.2⟩
  · have h := lazyUnbind_keeps c r
    simp only [if_true]
    exact ⟨h.1.trans hl, h.2, fun h' => by cases h'⟩

theorem rebind_keeps (c : Cont) (r : SymRef) (f : Factory) :
    (c.rebind r f).1.lazy = c.lazy ∧ (c.rebind r f).1.invocations = c.invocations ∧
    (c.lazy = false → (c.rebind r f).1.definitions = c.definitions) := by
  unfold Cont.rebind
  split
  · have h1 := unbind_keeps c r
    have h2 := bind_keeps (c.unbind r) r f
    exact ⟨h2.1.trans h1.1, h2.2.2.1.trans h1.2.1, fun hl => (h2.2.2.2 (h1.1.trans hl)).trans (h1.2.2 hl)⟩
  · have h2 := bind_keeps c r f
    exact ⟨h2.1, h2.2.2.1, h2.2.2.2⟩

theorem bindProxy_lazy (c : Cont) (p : Nat) : (c.bindProxy p).1.lazy = c.lazy := by
  unfold Cont.bindProxy
  split
  · rfl
  · split
    · rfl
    · split
      · rfl
      · exact (bind_keeps c _ _).1

end Cont

/-- what `resolve` / `invoke` never do: change the class, and — on a plain DI — the registry or the definitions -/
def Keep (c c' : Cont) : Prop :=
  c'.lazy = c.lazy ∧ (c.lazy = false → c'.injectors = c.injectors ∧ c'.definitions = c.definitions)

theorem Keep.refl (c : Cont) : Keep c c := ⟨rfl, fun _ => ⟨rfl, rfl⟩⟩

theorem Keep.trans {a b c : Cont} (h1 : Keep a b) (h2 : Keep b c) : Keep a c :=
  ⟨h2.1.trans h1.1, fun hl =>
    have hb := h2.2 (h1.1.trans hl)
    have ha := h1.2 hl
    ⟨hb.1.trans ha.1, hb.2.trans ha.2⟩⟩

def RecKeep (rec : Cont → Nat → SymRef → Res Obj) : Prop := ∀ c nx r, Keep c (rec c nx r).1

theorem curryWith_keep {rec : Cont → Nat → SymRef → Res Obj} (hr : RecKeep rec) :
    ∀ (annos : List SymRef) (c : Cont) (nx : Nat) (acc : List Obj), Keep c (curryWith rec c nx annos acc).1 := by
  intro annos
  induction annos with
  | nil => intro c nx acc; exact Keep.refl c
  | cons a as ih =>
    intro c nx acc
    unfold curryWith
    split
    · have h := hr c nx a
      split
      · next c' nx' o heq =>
        rw [heq] at h
        exact h.trans (ih c' nx' _)
      · next c' nx' e heq =>
        rw [heq] at h
        exact h
    · exact Keep.refl c

theorem invokeWith_keep {rec : Cont → Nat → SymRef → Res Obj} (hr : RecKeep rec) (c : Cont) (nx : Nat) (f : Factory)
    (args : List Arg) : Keep c (invokeWith rec c nx f args).1 := by
  unfold invokeWith
  have h1 : Keep c (if c.invocations.contains f.annotated then c
      else { c with invocations := c.invocations.set f.annotated (pluckA f.annotated) }) := by
    split
    · exact Keep.refl c
    · exact ⟨rfl, fun _ => ⟨rfl, rfl⟩⟩
  have h2 := curryWith_keep hr (annosFor (c.invocations.get? f.annotated) f)
    (if c.invocations.contains f.annotated then c
      else { c with invocations := c.invocations.set f.annotated (pluckA f.annotated) }) nx []
  simp only []
  split
  · next c2 nx2 e heq => rw [heq] at h2; exact h1.trans h2
  · next c2 nx2 curried heq =>
    rw [heq] at h2
    split
    · exact h1.trans h2
    · exact h1.trans h2

theorem diResolveWith_keep {rec : Cont → Nat → SymRef → Res Obj} (hr : RecKeep rec) : RecKeep (diResolveWith rec) := by
  intro c nx r
  unfold diResolveWith
  simp only []
  cases hi : c.injectors.get? r.accept with
  | none => exact Keep.refl c
  | some f =>
    simp only []
    cases ho : c.instances.get? r.accept with
    | some o => exact Keep.refl c
    | none =>
      simp only []
      have h := invokeWith_keep hr c nx f []
      rcases hinv : invokeWith rec c nx f [] with ⟨c', nx', res⟩
      rw [hinv] at h
      cases res with
      | error e => exact h
      | ok o => exact h.trans ⟨rfl, fun _ => ⟨rfl, rfl⟩⟩

theorem lazyResolveWith_keep {rec : Cont → Nat → SymRef → Res Obj} (hr : RecKeep rec) (c : Cont) (hl : c.lazy = true)
    (nx : Nat) (r : SymRef) : Keep c (lazyResolveWith rec c nx r).1 := by
  unfold lazyResolveWith
  simp only []
  split
  · have hb := Cont.bindProxy_lazy c (symbolize r)
    split
    · next c1 e heq =>
      rw [heq] at hb
      exact ⟨hb, fun h => by rw [hl] at h; cases h⟩
    · next c1 heq =>
      rw [heq] at hb
      have h := diResolveWith_keep hr c1 nx r
      exact ⟨h.1.trans hb, fun h => by rw [hl] at h; cases h⟩
  · exact diResolveWith_keep hr c nx r

theorem resolveF_keep : ∀ fuel, RecKeep (resolveF fuel) := by
  intro fuel
  induction fuel with
  | zero => intro c nx r; exact Keep.refl c
  | succ n ih =>
    intro c nx r
    unfold resolveF
    cases hl : c.lazy
    · simp only [Bool.false_eq_true, if_false]
      exact diResolveWith_keep ih c nx r
    · simp only [if_true]
      exact lazyResolveWith_keep ih c hl nx r

theorem invokeF_keep (fuel : Nat) (c : Cont) (nx : Nat) (f : Factory) (args : List Arg) :
    Keep c (invokeF fuel c nx f args).1 :=
  invokeWith_keep (resolveF_keep fuel) c nx f args

end Tranp.DI
