/-
  Helper lemmas for property C06: with a fallback-only `output_dirs` the output path function is injective on all clean module paths
  (`split`/`join` algebra, `normpath` on a common prefix followed by clean components).
-/
import Tranp.Lemmas.Runner

namespace Tranp.Runner
open Tranp Tranp.Str

/-- a module path as the module includer produces it: dotted, no slash, every component non-empty -/
def CleanMod (m : Str) : Prop := '/' ∉ m ∧ ∀ c ∈ Str.splitOn '.' m, c ≠ []

/-! ### split / join -/

theorem splitOn_append (d : Char) (a b : Str) : splitOn d (a ++ d :: b) = splitOn d a ++ splitOn d b := by
  induction a with
  | nil => simp [splitOn]
  | cons c cs ih =>
    by_cases h : c = d
    · simp [splitOn, h, ih]
    · simp only [List.cons_append, splitOn, h, if_false, ih]
      cases hs : splitOn d cs with
      | nil => exact absurd hs (StrCodec.splitOn_ne_nil d cs)
      | cons p ps => simp

theorem splitOn_piece_no_delim (d : Char) (s : Str) : ∀ x ∈ splitOn d s, d ∉ x := by
  induction s with
  | nil => simp [splitOn]
  | cons c cs ih =>
    by_cases h : c = d
    · simp only [splitOn, h, if_true, List.mem_cons]
      rintro x (rfl | hx)
      · simp
      · exact ih x hx
    · simp only [splitOn, h, if_false]
      cases hs : splitOn d cs with
      | nil => exact absurd hs (StrCodec.splitOn_ne_nil d cs)
      | cons p ps =>
        rw [hs] at ih
        simp only [List.mem_cons]
        rintro x (rfl | hx)
        · simp only [List.mem_cons, not_or]
          exact ⟨fun e => h e.symm, ih p (by simp)⟩
        · exact ih x (by simp [hx])

theorem splitOn_piece_subset (d : Char) (s : Str) : ∀ x ∈ splitOn d s, ∀ c ∈ x, c ∈ s := by
  induction s with
  | nil => simp [splitOn]
  | cons c cs ih =>
    by_cases h : c = d
    · simp only [splitOn, h, if_true, List.mem_cons]
      rintro x (rfl | hx) y hy
      · cases hy
      · exact Or.inr (ih x hx y hy)
    · simp only [splitOn, h, if_false]
      cases hs : splitOn d cs with
      | nil => exact absurd hs (StrCodec.splitOn_ne_nil d cs)
      | cons p ps =>
        rw [hs] at ih
        simp only [List.mem_cons]
        rintro x (rfl | hx) y hy
        · simp only [List.mem_cons] at hy
          rcases hy with rfl | hy
          · exact Or.inl rfl
          · exact Or.inr (ih p (by simp) y hy)
        · exact Or.inr (ih x (by simp [hx]) y hy)

theorem join_splitOn (d : Char) (s : Str) : join [d] (splitOn d s) = s := by
  induction s with
  | nil => simp [splitOn, join]
  | cons c cs ih =>
    by_cases h : c = d
    · simp only [splitOn, h, if_true]
      cases hs : splitOn d cs with
      | nil => exact absurd hs (StrCodec.splitOn_ne_nil d cs)
      | cons p ps => rw [StrCodec.join_cons_cons, ← hs, ih]; simp
    · simp only [splitOn, h, if_false]
      cases hs : splitOn d cs with
      | nil => exact absurd hs (StrCodec.splitOn_ne_nil d cs)
      | cons p ps =>
        rw [hs] at ih
        cases ps with
        | nil => simp only [join] at ih ⊢; rw [ih]
        | cons q qs =>
          rw [StrCodec.join_cons_cons] at ih ⊢
          simp only [List.cons_append, List.append_assoc] at ih ⊢
          rw [ih]

/-- append `y` to the last piece -/
def appLast : List Str → Str → List Str
  | [], _ => []
  | [x], y => [x ++ y]
  | x :: x' :: xs, y => x :: appLast (x' :: xs) y

theorem appLast_cons (x : Str) (xs : List Str) (y : Str) (h : xs ≠ []) : appLast (x :: xs) y = x :: appLast xs y := by
  cases xs with
  | nil => exact absurd rfl h
  | cons a as => rfl

theorem appLast_ne_nil (l : List Str) (y : Str) (h : l ≠ []) : appLast l y ≠ [] := by
  cases l with
  | nil => exact absurd rfl h
  | cons x xs => cases xs <;> simp [appLast]

theorem splitOn_append_notin (d : Char) (x y : Str) (h : d ∉ y) : splitOn d (x ++ y) = appLast (splitOn d x) y := by
  induction x with
  | nil => simp [splitOn, appLast, StrCodec.splitOn_not_mem d y h]
  | cons c cs ih =>
    by_cases hc : c = d
    · simp only [List.cons_append, splitOn, hc, if_true, ih]
      rw [appLast_cons _ _ _ (StrCodec.splitOn_ne_nil d cs)]
    · simp only [List.cons_append, splitOn, hc, if_false, ih]
      cases hs : splitOn d cs with
      | nil => exact absurd hs (StrCodec.splitOn_ne_nil d cs)
      | cons p ps =>
        cases ps with
        | nil => simp [appLast]
        | cons q qs => simp [appLast]

theorem mem_appLast (l : List Str) (y x : Str) (h : x ∈ appLast l y) : x ∈ l ∨ ∃ z ∈ l, x = z ++ y := by
  induction l with
  | nil => simp [appLast] at h
  | cons a as ih =>
    cases as with
    | nil =>
      simp only [appLast, List.mem_singleton] at h
      exact Or.inr ⟨a, by simp, h⟩
    | cons b bs =>
      simp only [appLast, List.mem_cons] at h
      rcases h with rfl | h
      · exact Or.inl (by simp)
      · rcases ih (by simpa [appLast] using h) with h' | ⟨z, hz, rfl⟩
        · exact Or.inl (by simp only [List.mem_cons] at h' ⊢; exact Or.inr h')
        · exact Or.inr ⟨z, by simp only [List.mem_cons] at hz ⊢; exact Or.inr hz, rfl⟩

theorem appLast_inj (l1 l2 : List Str) (y : Str) (h : appLast l1 y = appLast l2 y) : l1 = l2 := by
  induction l1 generalizing l2 with
  | nil =>
    cases l2 with
    | nil => rfl
    | cons b bs => exact absurd h.symm (appLast_ne_nil _ _ (by simp))
  | cons a as ih =>
    cases l2 with
    | nil => exact absurd h (appLast_ne_nil _ _ (by simp))
    | cons b bs =>
      cases as with
      | nil =>
        cases bs with
        | nil =>
          simp only [appLast, List.cons.injEq, and_true] at h
          rw [List.append_cancel_right h]
        | cons b' bs' =>
          simp only [appLast, List.cons.injEq] at h
          exact absurd h.2.symm (appLast_ne_nil _ _ (by simp))
      | cons a' as' =>
        cases bs with
        | nil =>
          simp only [appLast, List.cons.injEq] at h
          exact absurd h.2 (appLast_ne_nil _ _ (by simp))
        | cons b' bs' =>
          simp only [appLast, List.cons.injEq] at h
          rw [h.1, ih (b' :: bs') h.2]

theorem splitOn_map_dot (m : Str) (h : '/' ∉ m) :
    splitOn '/' (m.map (fun c => if c = '.' then '/' else c)) = splitOn '.' m := by
  induction m with
  | nil => rfl
  | cons c cs ih =>
    simp only [List.mem_cons, not_or] at h
    have ih' := ih h.2
    by_cases hc : c = '.'
    · simp [splitOn, hc, ih']
    · have hs : ¬ c = '/' := fun e => h.1 e.symm
      simp only [List.map_cons, hc, if_false, splitOn, hs, ih']

/-! ### components of the file path of a clean module -/

/-- a path component that `normpath` keeps as it is -/
def GoodComp (x : Str) : Prop := x ≠ [] ∧ '/' ∉ x ∧ x ≠ ['.'] ∧ x ≠ ['.', '.']

/-- the components of `module_path_to_filepath(m, '.' + ext)` -/
def fileComps (m ext : Str) : List Str := appLast (splitOn '.' m) ('.' :: ext)

theorem splitOn_filepath (m ext : Str) (hm : '/' ∉ m) (hext : '/' ∉ ext) :
    splitOn '/' (moduleToFilepath m ('.' :: ext)) = fileComps m ext := by
  unfold moduleToFilepath fileComps
  rw [splitOn_append_notin '/' _ ('.' :: ext) (by simp only [List.mem_cons, not_or]; exact ⟨by decide, hext⟩), splitOn_map_dot m hm]

theorem fileComps_good (m ext : Str) (hm : CleanMod m) (hext : '/' ∉ ext) : ∀ x ∈ fileComps m ext, GoodComp x := by
  intro x hx
  have hbase : ∀ z ∈ splitOn '.' m, z ≠ [] ∧ '/' ∉ z ∧ '.' ∉ z := fun z hz =>
    ⟨hm.2 z hz, fun hc => hm.1 (splitOn_piece_subset '.' m z hz _ hc), splitOn_piece_no_delim '.' m z hz⟩
  rcases mem_appLast _ _ _ hx with h | ⟨z, hz, rfl⟩
  · obtain ⟨h1, h2, h3⟩ := hbase x h
    refine ⟨h1, h2, ?_, ?_⟩
    · intro e; subst e; exact h3 (by simp)
    · intro e; subst e; exact h3 (by simp)
  · obtain ⟨h1, h2, h3⟩ := hbase z hz
    cases z with
    | nil => exact absurd rfl h1
    | cons a as =>
      have ha : a ≠ '.' := fun e => h3 (by simp [e])
      refine ⟨by simp, ?_, ?_, ?_⟩
      · intro hmem
        rcases List.mem_append.1 hmem with h | h
        · exact h2 h
        · simp only [List.mem_cons] at h
          rcases h with h | h
          · exact absurd h (by decide)
          · exact hext h
      · intro e
        simp only [List.cons_append, List.cons.injEq] at e
        exact ha e.1
      · intro e
        simp only [List.cons_append, List.cons.injEq] at e
        exact ha e.1

theorem filepath_head (m ext : Str) (hm : CleanMod m) :
    ∃ a t, moduleToFilepath m ('.' :: ext) = a :: t ∧ a ≠ '/' := by
  unfold moduleToFilepath
  cases m with
  | nil =>
    exact absurd rfl (hm.2 [] (by simp [splitOn]))
  | cons c cs =>
    refine ⟨if c = '.' then '/' else c, _, rfl, ?_⟩
    have hc : c ≠ '.' := by
      intro e; subst e
      exact absurd rfl (hm.2 [] (by simp [splitOn]))
    have hs : c ≠ '/' := fun e => hm.1 (by simp [e])
    simp [hc, hs]

/-! ### normpath over a common prefix -/

theorem foldl_normStep_good (isAbs : Bool) (stack comps : List Str) (h : ∀ x ∈ comps, GoodComp x) :
    comps.foldl (normStep isAbs) stack = stack ++ comps := by
  induction comps generalizing stack with
  | nil => simp
  | cons x xs ih =>
    obtain ⟨h1, _, h3, h4⟩ := h x (by simp)
    have hstep : normStep isAbs stack x = stack ++ [x] := by
      unfold normStep
      simp [h1, h3, h4]
    simp only [List.foldl_cons, hstep]
    rw [ih _ (fun y hy => h y (by simp [hy]))]
    simp

theorem normComps_append_good (isAbs : Bool) (a comps : List Str) (h : ∀ x ∈ comps, GoodComp x) :
    normComps isAbs (a ++ comps) = normComps isAbs a ++ comps := by
  unfold normComps
  rw [List.foldl_append, foldl_normStep_good isAbs _ comps h]

theorem normStep_subset (isAbs : Bool) (stack : List Str) (x : Str) : ∀ y ∈ normStep isAbs stack x, y ∈ stack ∨ y = x := by
  intro y hy
  unfold normStep at hy
  split at hy
  · exact Or.inl hy
  · split at hy
    · simp only [List.mem_append, List.mem_singleton] at hy; exact hy
    · exact Or.inl (List.dropLast_subset _ hy)

theorem foldl_normStep_subset (isAbs : Bool) (comps stack : List Str) :
    ∀ y ∈ comps.foldl (normStep isAbs) stack, y ∈ stack ∨ y ∈ comps := by
  induction comps generalizing stack with
  | nil => intro y hy; exact Or.inl hy
  | cons x xs ih =>
    intro y hy
    simp only [List.foldl_cons] at hy
    rcases ih _ y hy with h | h
    · rcases normStep_subset isAbs stack x y h with h' | h'
      · exact Or.inl h'
      · exact Or.inr (by simp [h'])
    · exact Or.inr (by simp [h])

theorem normComps_subset (isAbs : Bool) (comps : List Str) : ∀ y ∈ normComps isAbs comps, y ∈ comps := by
  intro y hy
  rcases foldl_normStep_subset isAbs comps [] y hy with h | h
  · cases h
  · exact h

theorem initialSlashes_prefix (p : Str) (a b : Char) (s t : Str) (hp : startsWith p ['/'] = true) (ha : a ≠ '/') (hb : b ≠ '/') :
    initialSlashes (p ++ a :: s) = initialSlashes (p ++ b :: t) := by
  match p with
  | [] => simp [startsWith] at hp
  | [x] => simp [initialSlashes, startsWith, ha, hb]
  | [x, y] => simp [initialSlashes, startsWith, ha, hb]
  | x :: y :: z :: r => simp [initialSlashes, startsWith]

theorem initialSlashes_pos (p : Str) (hp : startsWith p ['/'] = true) : initialSlashes p ≠ 0 := by
  unfold initialSlashes
  rw [hp]
  simp only [if_true]
  split <;> simp

theorem endsWith_slash (a : Str) (h : endsWith a ['/'] = true) : ∃ a', a = a' ++ ['/'] := by
  unfold endsWith at h
  cases hr : a.reverse with
  | nil => rw [hr] at h; simp [startsWith] at h
  | cons c r =>
    rw [hr] at h
    simp only [List.reverse_cons, List.reverse_nil, List.nil_append, startsWith, Bool.and_eq_true, decide_eq_true_eq] at h
    refine ⟨r.reverse, ?_⟩
    have : a = (c :: r).reverse := by rw [← hr, List.reverse_reverse]
    rw [this, h.1]; simp

theorem startsWith_slash_append (a b : Str) (h : a ≠ []) : startsWith (a ++ b) ['/'] = startsWith a ['/'] := by
  cases a with
  | nil => exact absurd rfl h
  | cons c cs => simp [startsWith]

/-- the string handed to `normpath` is a fixed prefix (absolute, ending with a slash) followed by the module's file path -/
theorem abspath_prefix (cwd d : Str) (hcwd : startsWith cwd ['/'] = true) :
    ∃ p', startsWith (p' ++ ['/']) ['/'] = true ∧
      ∀ (a : Char) (t : Str), a ≠ '/' → abspath cwd (osJoin d (a :: t)) = normpath ((p' ++ ['/']) ++ a :: t) := by
  -- the part contributed by the output directory: `dd ++ fp`
  have hjoin : ∀ (x : Str), x ≠ [] → startsWith x ['/'] = true →
      ∃ x', startsWith (x' ++ ['/']) ['/'] = true ∧ ∀ (a : Char) (t : Str), a ≠ '/' → osJoin x (a :: t) = (x' ++ ['/']) ++ a :: t := by
    intro x hx hsx
    by_cases he : endsWith x ['/'] = true
    · obtain ⟨x', rfl⟩ := endsWith_slash x he
      exact ⟨x', hsx, fun a t ha => by simp [osJoin, startsWith, ha, he]⟩
    · refine ⟨x, by rw [startsWith_slash_append x _ hx]; exact hsx, fun a t ha => ?_⟩
      simp [osJoin, startsWith, ha, he, hx]
  have hcwdne : cwd ≠ [] := by
    intro e; subst e; simp [startsWith] at hcwd
  by_cases hd : d = []
  · -- relative: cwd joined with the bare file path
    subst hd
    obtain ⟨c', hc1, hc2⟩ := hjoin cwd hcwdne hcwd
    refine ⟨c', hc1, fun a t ha => ?_⟩
    have h1 : osJoin [] (a :: t) = a :: t := by simp [osJoin, startsWith, ha]
    rw [h1]
    unfold abspath
    have h2 : startsWith (a :: t) ['/'] = false := by simp [startsWith, ha]
    simp only [h2, Bool.false_eq_true, if_false]
    rw [hc2 a t ha]
  · by_cases hsd : startsWith d ['/'] = true
    · -- absolute output directory
      obtain ⟨d', hd1, hd2⟩ := hjoin d hd hsd
      refine ⟨d', hd1, fun a t ha => ?_⟩
      unfold abspath
      rw [hd2 a t ha]
      have : startsWith (d' ++ ['/'] ++ a :: t) ['/'] = true := by
        rw [startsWith_slash_append _ _ (by simp)]; exact hd1
      simp only [this, if_true]
    · -- relative output directory below cwd
      obtain ⟨c', hc1, hc2⟩ := hjoin cwd hcwdne hcwd
      -- d ++ "/"-or-not
      have hdj : ∃ dd : Str, dd ≠ [] ∧ startsWith dd ['/'] = false ∧ ∃ dd', dd = dd' ++ ['/'] ∧
          ∀ (a : Char) (t : Str), a ≠ '/' → osJoin d (a :: t) = dd ++ a :: t := by
        by_cases he : endsWith d ['/'] = true
        · obtain ⟨d', rfl⟩ := endsWith_slash d he
          exact ⟨d' ++ ['/'], by simp, by simpa using hsd, d', rfl, fun a t ha => by simp [osJoin, startsWith, ha, he]⟩
        · refine ⟨d ++ ['/'], by simp, ?_, d, rfl, fun a t ha => ?_⟩
          · rw [startsWith_slash_append d _ hd]; simpa using hsd
          · simp [osJoin, startsWith, ha, he, hd]
      obtain ⟨dd, hdd1, hdd2, dd', hdd3, hdd4⟩ := hdj
      cases hdd : dd with
      | nil => exact absurd hdd hdd1
      | cons b bs =>
        have hb : b ≠ '/' := by
          rw [hdd] at hdd2
          simpa [startsWith] using hdd2
        have hstart : startsWith (c' ++ ['/'] ++ dd' ++ ['/']) ['/'] = true := by
          rw [List.append_assoc, startsWith_slash_append (c' ++ ['/']) _ (by simp)]; exact hc1
        refine ⟨c' ++ ['/'] ++ dd', hstart, fun a t ha => ?_⟩
        unfold abspath
        rw [hdd4 a t ha]
        have h2 : startsWith (dd ++ a :: t) ['/'] = false := by
          rw [startsWith_slash_append dd _ hdd1]; exact hdd2
        simp only [h2, Bool.false_eq_true, if_false]
        have h3 : dd ++ a :: t = b :: (bs ++ a :: t) := by rw [hdd]; rfl
        rw [h3, hc2 b _ hb, ← h3, hdd3]
        simp

/-! ### the fallback-only configuration -/

theorem fetch_fallback_only (d fp : Str) : fetchOutputPath [d] fp = .ok (osJoin d fp) := by
  simp [fetchOutputPath, fetchLoop]

theorem normpath_prefix (p' fp : Str) (comps : List Str) (hp : startsWith (p' ++ ['/']) ['/'] = true)
    (hsplit : splitOn '/' fp = comps) (hgood : ∀ x ∈ comps, GoodComp x) :
    normpath ((p' ++ ['/']) ++ fp) =
      List.replicate (initialSlashes ((p' ++ ['/']) ++ fp)) '/' ++
        join ['/'] (normComps (initialSlashes ((p' ++ ['/']) ++ fp) != 0) (splitOn '/' p') ++ comps) := by
  have hne : (p' ++ ['/']) ++ fp ≠ [] := by simp
  have hsw : startsWith ((p' ++ ['/']) ++ fp) ['/'] = true := by
    rw [startsWith_slash_append _ _ (by simp)]; exact hp
  have hpos := initialSlashes_pos _ hsw
  have hsp : splitOn '/' ((p' ++ ['/']) ++ fp) = splitOn '/' p' ++ comps := by
    rw [List.append_assoc]
    simp only [List.singleton_append]
    rw [splitOn_append, hsplit]
  unfold normpath
  simp only [hne, if_false, hsp, normComps_append_good _ _ _ hgood]
  have hr : List.replicate (initialSlashes ((p' ++ ['/']) ++ fp)) '/' ++
      join ['/'] (normComps (initialSlashes ((p' ++ ['/']) ++ fp) != 0) (splitOn '/' p') ++ comps) ≠ [] := by
    intro e
    have := (List.append_eq_nil_iff.1 e).1
    rw [List.replicate_eq_nil_iff] at this
    exact hpos this
  simp only [hr, if_false]

theorem outputFilepath_fallback_ok (cfg : Cfg) (d : Str) (hd : cfg.dirs = [d]) (m : Str) : ∃ p, outputFilepath cfg m = .ok p := by
  unfold outputFilepath
  rw [hd, fetch_fallback_only]
  exact ⟨_, rfl⟩

/-- With a fallback-only `output_dirs` distinct clean module paths never share an output path. -/
theorem outputFilepath_fallback_inj (cfg : Cfg) (d : Str) (hd : cfg.dirs = [d])
    (hcwd : Str.startsWith cfg.cwd ['/'] = true) (hext : '/' ∉ extension cfg.lang)
    (m1 m2 : Str) (h1 : CleanMod m1) (h2 : CleanMod m2)
    (h : outputFilepath cfg m1 = outputFilepath cfg m2) : m1 = m2 := by
  obtain ⟨p', hp1, hp2⟩ := abspath_prefix cfg.cwd d hcwd
  obtain ⟨a1, t1, e1, ha1⟩ := filepath_head m1 (extension cfg.lang) h1
  obtain ⟨a2, t2, e2, ha2⟩ := filepath_head m2 (extension cfg.lang) h2
  have o1 : outputFilepath cfg m1 = .ok (normpath ((p' ++ ['/']) ++ moduleToFilepath m1 ('.' :: extension cfg.lang))) := by
    unfold outputFilepath
    rw [hd, fetch_fallback_only]
    simp only
    rw [e1, hp2 a1 t1 ha1]
  have o2 : outputFilepath cfg m2 = .ok (normpath ((p' ++ ['/']) ++ moduleToFilepath m2 ('.' :: extension cfg.lang))) := by
    unfold outputFilepath
    rw [hd, fetch_fallback_only]
    simp only
    rw [e2, hp2 a2 t2 ha2]
  rw [o1, o2] at h
  injection h with h
  have g1 := fileComps_good m1 _ h1 hext
  have g2 := fileComps_good m2 _ h2 hext
  rw [normpath_prefix p' _ _ hp1 (splitOn_filepath m1 _ h1.1 hext) g1,
    normpath_prefix p' _ _ hp1 (splitOn_filepath m2 _ h2.1 hext) g2] at h
  have hn : initialSlashes ((p' ++ ['/']) ++ moduleToFilepath m1 ('.' :: extension cfg.lang))
      = initialSlashes ((p' ++ ['/']) ++ moduleToFilepath m2 ('.' :: extension cfg.lang)) := by
    rw [e1, e2]; exact initialSlashes_prefix _ a1 a2 t1 t2 hp1 ha1 ha2
  rw [hn] at h
  have hj := List.append_cancel_left h
  have hnoslash : ∀ (m : Str), CleanMod m → ∀ x ∈ normComps
      (initialSlashes ((p' ++ ['/']) ++ moduleToFilepath m2 ('.' :: extension cfg.lang)) != 0) (splitOn '/' p') ++ fileComps m (extension cfg.lang),
      '/' ∉ x := by
    intro m hm x hx
    rcases List.mem_append.1 hx with hx | hx
    · exact splitOn_piece_no_delim '/' p' x (normComps_subset _ _ x hx)
    · exact (fileComps_good m _ hm hext x hx).2.1
  have hs := congrArg (splitOn '/') hj
  rw [StrCodec.splitOn_join '/' _ (by simp [fileComps, appLast_ne_nil _ _ (StrCodec.splitOn_ne_nil '.' m1)]) (hnoslash m1 h1),
    StrCodec.splitOn_join '/' _ (by simp [fileComps, appLast_ne_nil _ _ (StrCodec.splitOn_ne_nil '.' m2)]) (hnoslash m2 h2)] at hs
  have hc := appLast_inj _ _ _ (List.append_cancel_left hs)
  have := congrArg (join ['.']) hc
  rwa [join_splitOn, join_splitOn] at this

/-- the path hypothesis of the history theorems holds for every fallback-only configuration and every duplicate-free list of
    clean module paths -/
theorem noOverlap_fallback_only (cfg : Cfg) (d : Str) (hd : cfg.dirs = [d])
    (hcwd : Str.startsWith cfg.cwd ['/'] = true) (hext : '/' ∉ extension cfg.lang)
    (mods : List Str) (hnd : mods.Nodup) (hclean : ∀ m ∈ mods, CleanMod m) : NoOverlap cfg mods := by
  apply (noOverlapFrom_iff cfg mods).2
  refine ⟨fun m _ => outputFilepath_fallback_ok cfg d hd m, ?_⟩
  induction mods with
  | nil => exact List.Pairwise.nil
  | cons m ms ih =>
    rw [List.nodup_cons] at hnd
    rw [List.pairwise_cons]
    refine ⟨fun m' hm' heq => ?_, ih hnd.2 (fun x hx => hclean x (by simp [hx]))⟩
    have := outputFilepath_fallback_inj cfg d hd hcwd hext m m' (hclean m (by simp)) (hclean m' (by simp [hm'])) heq
    exact hnd.1 (this ▸ hm')

/-! ### absolute paths stay absolute -/

theorem startsWith_slash_iff (p : Str) : startsWith p ['/'] = true ↔ ∃ t, p = '/' :: t := by
  cases p with
  | nil => simp [startsWith]
  | cons c cs => simp [startsWith]

theorem normpath_absolute (p : Str) (h : startsWith p ['/'] = true) : startsWith (normpath p) ['/'] = true := by
  obtain ⟨t, rfl⟩ := (startsWith_slash_iff _).mp h
  unfold normpath
  simp only [List.cons_ne_nil, ↓reduceIte]
  have hn : ∃ k, initialSlashes ('/' :: t) = k + 1 := by
    unfold initialSlashes
    simp only [h, ↓reduceIte]
    split
    · exact ⟨1, rfl⟩
    · exact ⟨0, rfl⟩
  obtain ⟨k, hk⟩ := hn
  simp only [hk, List.replicate_succ, List.cons_append, List.cons_ne_nil, ↓reduceIte]
  simp [startsWith]


end Tranp.Runner
