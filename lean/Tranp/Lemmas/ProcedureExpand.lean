/-
  Link between the procedure model (C09) and the tree-addressing model (C10): the `under` list `Node.procedural` falls back
  to (node.py:252, `_under_expand()` = `Nodes.expand(full_path)`, query.py:152-195) is `expandPaths` of the node's path,
  resolved to nodes. `expandPaths` is characterised on the tree by `expandPaths_mkCache` (C10 `expand_spec`); here:
  when it is empty.
-/
import Tranp.Lemmas.AstPath.Expand
import Tranp.Model.Procedure

namespace Tranp.Procedure
open Tranp Tranp.AstPath

mutual
/-- an entry below `via` that contributes nothing to `Nodes.expand(via)` with `d` more levels allowed: an unresolvable
    tree entry whose children (if still within reach) contribute nothing either -/
def quietB (canRes : Str → Bool) : Nat → Entry → Bool
  | d, .tree t cs => !canRes t && (match d with
    | 0 => true
    | d' + 1 => quietListB canRes d' cs)
  | _, .token _ _ => false
  | _, .empty => false
def quietListB (canRes : Str → Bool) : Nat → List Entry → Bool
  | _, [] => true
  | d, c :: cs => quietB canRes d c && quietListB canRes d cs
end

/-- the entry a node sits on offers nothing to `_under_expand()`: it has no children, or within three levels there are
    only unresolvable tree entries (no token, no `__empty__`, no entry with a registered node class) -/
def underQuiet (canRes : Str → Bool) : Entry → Bool
  | .tree _ cs => quietListB canRes 2 cs
  | _ => true

mutual
theorem expandAbs_nil_iff (canRes : Str → Bool) (d : Nat) (e : Entry) (p : Path) :
    expandAbs canRes d e p = [] ↔ quietB canRes d e = true := by
  match e with
  | .tree t cs =>
    cases hc : canRes t with
    | true => simp [expandAbs, quietB, hc]
    | false =>
      cases d with
      | zero => simp [expandAbs, quietB, hc]
      | succ d' =>
        simp only [expandAbs, quietB, hc, Bool.false_eq_true, if_false, Bool.not_false, Bool.true_and]
        exact expandAbsList_nil_iff canRes d' cs cs 0 p
  | .token _ _ => simp [expandAbs, quietB]
  | .empty => simp [expandAbs, quietB]
theorem expandAbsList_nil_iff (canRes : Str → Bool) (d : Nat) (all cs : List Entry) (i : Nat) (p : Path) :
    expandAbsList canRes d all cs i p = [] ↔ quietListB canRes d cs = true := by
  match cs with
  | [] => simp [expandAbsList, quietListB]
  | c :: rest =>
    simp only [expandAbsList, quietListB, List.append_eq_nil_iff, Bool.and_eq_true]
    rw [expandAbs_nil_iff canRes d c, expandAbsList_nil_iff canRes d all rest]
end

theorem expandOf_nil_iff (canRes : Str → Bool) (x : Entry) (q : Path) :
    expandOf canRes 3 x q = [] ↔ underQuiet canRes x = true := by
  cases x with
  | tree t cs => simp only [expandOf, underQuiet]; exact expandAbsList_nil_iff canRes 2 cs cs 0 q
  | token t v => simp [expandOf, underQuiet]
  | empty => simp [expandOf, underQuiet]

end Tranp.Procedure
