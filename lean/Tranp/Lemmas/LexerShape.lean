/-
  Helper lemmas for the shape theorems of Props/C13.lean (`shape_parse_symbol`, `shape_handle_white_space`,
  `shape_handle_symbol`): the table-driven interpreters of Model/LexerShape.lean against the hand model of Model/Lexer.lean.
-/
import Tranp.Model.LexerShape

namespace Tranp.Lexer

/-- a window whose two guards `continue` is one `combined` round of the hand model, then the remaining windows -/
theorem scan_cons_next (d : TokenDef) (src : Str) (b w : Nat) (ws : List SymWindow) :
    scanWindows d src b (⟨w, .next, .next⟩ :: ws)
      = (do match ← combined d src b w with
            | some r => pure (some r)
            | none => scanWindows d src b ws) := by
  simp only [scanWindows, combined]
  by_cases h : b + w - 1 ≥ src.length
  · simp only [h, ↓reduceIte]; rfl
  · simp only [h, ↓reduceIte]
    cases indexOf? (slice src b (b + w)) d.combinedSymbols with
    | none => rfl
    | some off =>
      simp only []
      cases typeOf d (T.beginCombine + off) <;> rfl

/-- a fit guard that leaves the loop (`break`) skips every later window: when the window does not fit, the scan is over -/
theorem scan_stop_misfit (d : TokenDef) (src : Str) (b w : Nat) (nf : LoopExit) (ws : List SymWindow)
    (h : b + w - 1 ≥ src.length) : scanWindows d src b (⟨w, .stop, nf⟩ :: ws) = .ok none := by
  simp only [scanWindows, h, ↓reduceIte]

end Tranp.Lexer
