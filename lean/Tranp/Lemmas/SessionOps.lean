/-
  Property C04: `Interactive.rebuild_module` and `Py2Cpp.transpile` as read from the sources (Generated/SessionOps.lean,
  translate/gen_session_ops.py) run as programs over the model state; Props/C04 proves that they ARE the hand-written
  `resubmit` / `transpile` of Model/Session.lean.
-/
import Tranp.Model.Session
import Tranp.Generated.SessionOps

namespace Tranp.Session
open Tranp.Generated.SessionOps

section
variable {Src Tree NV V Text : Type} (L : Lang Src Tree NV V Text) (E : Env Src)

/-- one statement of `Interactive.rebuild_module(src)` -/
def runR (f : Nat) (src : Src) (s : St L) : RStmt → Except Err Unit × St L
  | .setSource => (.ok (), { s with mainSrc := src })
  | .unloadMain => (.ok (), unload L E s E.main)
  | .loadMain => loadAll L E f [E.main] s

/-- statements one after the other; the first exception ends the list -/
def runRs (f : Nat) (src : Src) : List RStmt → St L → Except Err Unit × St L
  | [], s => (.ok (), s)
  | st :: rest, s =>
    match runR L E f src s st with
    | (.error e, s') => (.error e, s')
    | (.ok _, s') => runRs f src rest s'

/-- one statement of `Py2Cpp.transpile(node)` for the entrypoint `ep` of module `m`; `res` = the local `result`.
    `exec` = `Procedure.exec`: the renderer runs over the node functions and the symbol table; when it raises, what it had put
    into the top dependency frame stays there and `Procedure` keeps its own frame (no try/finally in either) -/
def runT (m : ModPath) (ep : Ep Tree NV) (s : St L) (res : Option Text) : TStmt → Except Err (Option Text) × St L
  | .push => (.ok res, { s with deps := [] :: s.deps })
  | .exec =>
    let r := L.render m (Ep.nf L ep) (alookup s.db)
    let s2 : St L := { s with eps := aset s.eps m (Ep.touch L ep) }
    match r.1 with
    | .ok text => (.ok (some text), s2)
    | .error e => (.error e, { s2 with deps := r.2.1 :: s2.deps.tail, proc := r.2.2 :: s2.proc })
  | .pop => (.ok res, { s with deps := s.deps.tail })

def runTs (m : ModPath) (ep : Ep Tree NV) : List TStmt → St L → Option Text → Except Err (Option Text) × St L
  | [], s, res => (.ok res, s)
  | st :: rest, s, res =>
    match runT L m ep s res st with
    | (.error e, s') => (.error e, s')
    | (.ok res', s') => runTs m ep rest s' res'

/-- `transpiler.transpile(<loaded module>.entrypoint)` after a load that ended as `r`: the entrypoint of the loaded module,
    the generated body of `Py2Cpp.transpile`, `return result` -/
def transpileBody (m : ModPath) (r : Except Err Unit × St L) : Except Err Text × St L :=
  match r with
  | (.error e, s1) => (.error e, s1)
  | (.ok _, s1) =>
    match alookup s1.eps m with
    | none => (.error .other, s1)
    | some ep =>
      match runTs L m ep py2cppTranspile s1 none with
      | (.error e, s2) => (.error e, s2)
      | (.ok (some text), s2) => (.ok text, s2)
      | (.ok none, s2) => (.error .other, s2)

/-- `transpiler.transpile(modules.load(m).entrypoint)` (Runner.by_entrypoint, the `transpile` operation of a session) -/
def transpileG (f : Nat) (s : St L) (m : ModPath) : Except Err Text × St L :=
  transpileBody L m (loadAll L E f [m] s)

/-- `transpiler.transpile(self.rebuild_module(src).entrypoint)` (Interactive.run) -/
def resubmitG (f : Nat) (s : St L) (src : Src) : Except Err Text × St L :=
  transpileBody L E.main (runRs L E f src rebuildModule s)

theorem transpileG_eq (f : Nat) (s : St L) (m : ModPath) : transpileG L E f s m = transpile L E f s m := by
  unfold transpileG transpileBody transpile
  generalize loadAll L E f [m] s = r
  obtain ⟨r, s1⟩ := r
  cases r with
  | error e => rfl
  | ok u =>
    simp only []
    cases h : alookup s1.eps m with
    | none => rfl
    | some ep =>
      simp only [py2cppTranspile, runTs, runT]
      cases hr : (L.render m (Ep.nf L ep) (alookup s1.db)).1 with
      | ok text => rfl
      | error e => rfl

theorem resubmitG_eq (f : Nat) (s : St L) (src : Src) : resubmitG L E f s src = resubmit L E f s src := by
  have h : resubmitG L E f s src = transpileG L E f (unload L E { s with mainSrc := src } E.main) E.main := by
    simp only [resubmitG, transpileG, rebuildModule, runRs, runR]
    generalize loadAll L E f [E.main] (unload L E { s with mainSrc := src } E.main) = r
    obtain ⟨r, s1⟩ := r
    cases r <;> rfl
  rw [h, transpileG_eq]
  rfl

end
end Tranp.Session
