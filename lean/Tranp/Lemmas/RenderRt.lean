/-
  `render_rules`' escape fix-ups and Python's reading of the rendered literal (C12.render_value_rt).
-/
import Tranp.Model.RulesAst

namespace Tranp.RulesAst
open Tranp Tranp.Engine

/-- the two fix-ups of `App.render_rules` (gram_check.py:115-117) on one piece of text:
    `'\\\\'.join(t.split('\\'))` then `"\\'".join(t.split("\\\\'"))` -/
def fixups (s : Str) : Str := replaceStr ['\\', '\\', '\''] ['\\', '\''] (replaceStr ['\\'] ['\\', '\\'] s)

/-- Python's evaluation of the body of a `'…'` string literal, for the two escapes the renderer emits: `\\` is a backslash,
    `\'` a quote; everything else is taken literally (trusted transcription of the Python lexer for these inputs) -/
def pyUnescape : Str → Str
  | [] => []
  | [c] => [c]
  | c :: d :: r =>
    if c = '\\' ∧ d = '\\' then '\\' :: pyUnescape r
    else if c = '\\' ∧ d = '\'' then '\'' :: pyUnescape r
    else c :: pyUnescape (d :: r)

/-- every occurrence of `d` replaced by `new` -/
def dbl (d : Char) (new : Str) (s : Str) : Str := s.flatMap fun c => if c = d then new else [c]

theorem go_ne (sep s cur : Str) (fuel : Nat) : splitStr.go sep s cur fuel ≠ [] := by
  induction fuel generalizing s cur with
  | zero => cases s <;> simp [splitStr.go]
  | succ n ih =>
    cases s with
    | nil => simp [splitStr.go]
    | cons c cs =>
      simp only [splitStr.go]
      split
      · simp
      · exact ih _ _

theorem joinStr_cons (new x : Str) (l : List Str) (h : l ≠ []) : joinStr new (x :: l) = x ++ new ++ joinStr new l := by
  cases l with
  | nil => exact absurd rfl h
  | cons y ys => simp [joinStr]

theorem go_single (d : Char) (new s cur : Str) (fuel : Nat) (hf : s.length < fuel) :
    joinStr new (splitStr.go [d] s cur fuel) = cur.reverse ++ dbl d new s := by
  induction s generalizing cur fuel with
  | nil => cases fuel <;> simp [splitStr.go, joinStr, dbl]
  | cons c cs ih =>
    cases fuel with
    | zero => simp at hf
    | succ n =>
      simp only [List.length_cons] at hf
      simp only [splitStr.go]
      by_cases hc : c = d
      · subst hc
        have hs : Str.startsWith (c :: cs) [c] = true := by simp [Str.startsWith]
        simp only [ne_eq, List.cons_ne_self, not_false_eq_true, hs, and_self, ↓reduceIte, List.length_cons, List.length_nil,
          Nat.zero_add, List.drop_succ_cons, List.drop_zero]
        rw [joinStr_cons _ _ _ (go_ne _ _ _ _), ih [] n (by omega)]
        simp [dbl, List.append_assoc]
      · have hs : Str.startsWith (c :: cs) [d] = false := by simp [Str.startsWith, hc]
        simp only [hs, Bool.false_eq_true, and_false, ↓reduceIte]
        rw [ih (c :: cur) n (by omega)]
        simp [dbl, hc, List.append_assoc]

theorem replace_single (d : Char) (new s : Str) : replaceStr [d] new s = dbl d new s := by
  unfold replaceStr splitStr
  rw [go_single d new s [] (s.length + 1) (by omega)]
  simp

theorem startsWith_mem {s : Str} {a b q : Char} (h : Str.startsWith s [a, b, q] = true) : q ∈ s := by
  match s with
  | [] => simp [Str.startsWith] at h
  | [_] => simp [Str.startsWith] at h
  | [_, _] => simp [Str.startsWith] at h
  | x :: y :: z :: r =>
    simp only [Str.startsWith, Bool.and_eq_true, decide_eq_true_eq] at h
    simp [h.2.2.1]

theorem go_nosplit (a b q : Char) (s cur : Str) (fuel : Nat) (hf : s.length < fuel) (hq : q ∉ s) :
    splitStr.go [a, b, q] s cur fuel = [cur.reverse ++ s] := by
  induction s generalizing cur fuel with
  | nil => cases fuel <;> simp [splitStr.go]
  | cons c cs ih =>
    cases fuel with
    | zero => simp at hf
    | succ n =>
      simp only [List.length_cons] at hf
      have hs : Str.startsWith (c :: cs) [a, b, q] = false := by
        cases h : Str.startsWith (c :: cs) [a, b, q] with
        | false => rfl
        | true => exact absurd (startsWith_mem h) hq
      simp only [splitStr.go, hs, Bool.false_eq_true, and_false, ↓reduceIte]
      rw [ih (c :: cur) n (by omega) (fun h => hq (List.mem_cons_of_mem _ h))]
      simp

theorem replace_absent (a b q : Char) (new s : Str) (hq : q ∉ s) : replaceStr [a, b, q] new s = s := by
  unfold replaceStr splitStr
  rw [go_nosplit a b q s [] (s.length + 1) (by omega) hq]
  simp [joinStr]

theorem quote_not_in_dbl {v : Str} (h : '\'' ∉ v) : '\'' ∉ dbl '\\' ['\\', '\\'] v := by
  intro hm
  simp only [dbl, List.mem_flatMap] at hm
  obtain ⟨c, hc, hx⟩ := hm
  split at hx
  · simp at hx
  · simp only [List.mem_singleton] at hx
    exact h (hx ▸ hc)

theorem unescape_dbl (v : Str) (h : '\'' ∉ v) : pyUnescape (dbl '\\' ['\\', '\\'] v) = v := by
  induction v with
  | nil => simp [dbl, pyUnescape]
  | cons c cs ih =>
    have hcs : '\'' ∉ cs := fun hm => h (List.mem_cons_of_mem _ hm)
    have hc : c ≠ '\'' := fun e => h (e ▸ List.mem_cons_self)
    have ih' := ih hcs
    by_cases hb : c = '\\'
    · subst hb
      have : dbl '\\' ['\\', '\\'] ('\\' :: cs) = '\\' :: '\\' :: dbl '\\' ['\\', '\\'] cs := by simp [dbl]
      rw [this]
      simp [pyUnescape, ih']
    · have : dbl '\\' ['\\', '\\'] (c :: cs) = c :: dbl '\\' ['\\', '\\'] cs := by simp [dbl, hb]
      rw [this]
      cases hd : dbl '\\' ['\\', '\\'] cs with
      | nil =>
        rw [hd] at ih'
        simp [pyUnescape] at ih' ⊢
        exact ih'
      | cons x xs =>
        rw [hd] at ih'
        simp only [pyUnescape, hb, false_and, ↓reduceIte]
        rw [ih']

/-- **Value round trip of `render_rules`.** For a token value without a single quote (LF / CR never reach this point: they are
    line structure), the text the renderer puts between the quotes of the Python literal evaluates back to the value. -/
theorem render_value_rt (v : Str) (h : '\'' ∉ v) : pyUnescape (fixups v) = v := by
  unfold fixups
  rw [replace_single, replace_absent _ _ _ _ _ (quote_not_in_dbl h)]
  exact unescape_dbl v h

end Tranp.RulesAst
