/-
  Lemmas about the JSON printer and the bracket scanner: while a printed value is scanned the depth never drops below its
  starting depth, and a printed container closes only at its last character.
-/
import Tranp.Model.JsonText

namespace Tranp.JsonText
open Tranp

/-- every state reached after at least one character of `t` satisfies `P` -/
def allSt (P : Sc → Prop) : Sc → Str → Prop
  | _, [] => True
  | s, c :: t => P (scStep s c) ∧ allSt P (scStep s c) t

theorem scan_append (s : Sc) (a b : Str) : scan s (a ++ b) = scan (scan s a) b := by
  simp [scan, List.foldl_append]

theorem scan_cons (s : Sc) (c : Char) (t : Str) : scan s (c :: t) = scan (scStep s c) t := rfl

theorem allSt_append {P : Sc → Prop} (s : Sc) (a b : Str) :
    allSt P s (a ++ b) ↔ allSt P s a ∧ allSt P (scan s a) b := by
  induction a generalizing s with
  | nil => simp [allSt, scan]
  | cons c a ih => simp [allSt, scan_cons, ih, and_assoc]

theorem allSt_mono {P Q : Sc → Prop} (h : ∀ x, P x → Q x) (s : Sc) (t : Str) : allSt P s t → allSt Q s t := by
  induction t generalizing s with
  | nil => simp [allSt]
  | cons c t ih => intro ⟨h1, h2⟩; exact ⟨h _ h1, ih _ h2⟩

theorem allSt_take {P : Sc → Prop} (s : Sc) (t : Str) (h : allSt P s t) (k : Nat) (hk : 0 < k) (hk' : k ≤ t.length) :
    P (scan s (t.take k)) := by
  induction t generalizing s k with
  | nil => simp at hk'; omega
  | cons c t ih =>
    obtain ⟨h1, h2⟩ := h
    cases k with
    | zero => omega
    | succ k =>
      simp only [List.take_succ_cons, scan_cons]
      by_cases hk0 : k = 0
      · subst hk0; simpa [scan] using h1
      · exact ih _ h2 k (by omega) (by simpa using hk')

/-- scanning `t` from depth `d` outside a string returns there and never goes below `d` -/
def Good (d : Nat) (t : Str) : Prop := scan ⟨d, .out⟩ t = ⟨d, .out⟩ ∧ allSt (fun x => d ≤ x.depth) ⟨d, .out⟩ t

theorem good_nil (d : Nat) : Good d [] := by simp [Good, scan, allSt]

theorem good_append {d : Nat} {a b : Str} (ha : Good d a) (hb : Good d b) : Good d (a ++ b) := by
  refine ⟨by rw [scan_append, ha.1, hb.1], ?_⟩
  rw [allSt_append, ha.1]; exact ⟨ha.2, hb.2⟩

/-- a character that is neither a quote nor a bracket -/
def neutral (c : Char) : Prop := c ≠ '"' ∧ c ≠ '{' ∧ c ≠ '[' ∧ c ≠ '}' ∧ c ≠ ']'

theorem good_neutral {d : Nat} {c : Char} (h : neutral c) : Good d [c] := by
  obtain ⟨h1, h2, h3, h4, h5⟩ := h
  simp [Good, scan, allSt, scStep, h1, h2, h3, h4, h5]

theorem good_neutrals {d : Nat} {t : Str} (h : ∀ c ∈ t, neutral c) : Good d t := by
  induction t with
  | nil => exact good_nil d
  | cons c t ih =>
    have : c :: t = [c] ++ t := rfl
    rw [this]
    exact good_append (good_neutral (h c (by simp))) (ih (fun c hc => h c (by simp [hc])))

theorem neutral_of_numChar {c : Char} (h : numChar c = true) : neutral c := by
  unfold neutral
  refine ⟨?_, ?_, ?_, ?_, ?_⟩ <;> (intro hc; subst hc; revert h; decide)

/-- inside a string literal: the escaped characters keep the scanner inside the literal at the same depth -/
theorem scan_esc (d : Nat) (s : Str) :
    scan ⟨d, .str⟩ (s.flatMap escChar) = ⟨d, .str⟩ ∧ allSt (fun x => d ≤ x.depth) ⟨d, .str⟩ (s.flatMap escChar) := by
  induction s with
  | nil => simp [scan, allSt]
  | cons c s ih =>
    simp only [List.flatMap_cons]
    rw [scan_append, allSt_append]
    have hc : scan ⟨d, .str⟩ (escChar c) = ⟨d, .str⟩ ∧ allSt (fun x => d ≤ x.depth) ⟨d, .str⟩ (escChar c) := by
      unfold escChar
      split
      · simp [scan, allSt, scStep]
      · split
        · simp [scan, allSt, scStep]
        · split
          · simp [scan, allSt, scStep]
          · split
            · simp [scan, allSt, scStep]
            · split
              · simp [scan, allSt, scStep]
              · rename_i h1 h2 _ _ _
                simp [scan, allSt, scStep, h1, h2]
    rw [hc.1]
    exact ⟨ih.1, hc.2, ih.2⟩

theorem good_printStr (d : Nat) (s : Str) : Good d (printStr s) := by
  unfold printStr Good
  have h := scan_esc d s
  constructor
  · rw [scan_cons]
    have : scStep ⟨d, .out⟩ '"' = ⟨d, .str⟩ := by simp [scStep]
    rw [this, scan_append, h.1]; simp [scan, scStep]
  · simp only [allSt]
    have : scStep ⟨d, .out⟩ '"' = ⟨d, .str⟩ := by simp [scStep]
    rw [this, allSt_append, h.1]
    refine ⟨by simp, h.2, ?_⟩
    simp [allSt, scStep]

/-- a bracket pair around a body that is `Good` one level deeper; the states before the closing bracket are all deeper -/
theorem good_wrap {d : Nat} {o c : Char} {body : Str} (ho : o = '{' ∨ o = '[') (hc : c = '}' ∨ c = ']') (hb : Good (d + 1) body) :
    Good d (o :: (body ++ [c])) ∧ allSt (fun x => d + 1 ≤ x.depth) ⟨d, .out⟩ (o :: body) ∧ scan ⟨d, .out⟩ (o :: body) = ⟨d + 1, .out⟩ := by
  have hopen : scStep ⟨d, .out⟩ o = ⟨d + 1, .out⟩ := by rcases ho with rfl | rfl <;> simp [scStep]
  have hclose : scStep ⟨d + 1, .out⟩ c = ⟨d, .out⟩ := by rcases hc with rfl | rfl <;> simp [scStep]
  refine ⟨⟨?_, ?_⟩, ?_, ?_⟩
  · rw [scan_cons, hopen, scan_append, hb.1]; simp [scan, hclose]
  · simp only [allSt]; rw [hopen, allSt_append, hb.1]
    refine ⟨by simp, allSt_mono (fun x hx => by omega) _ _ hb.2, ?_⟩
    simp [allSt, hclose]
  · simp only [allSt]; rw [hopen]; exact ⟨by simp, hb.2⟩
  · rw [scan_cons, hopen, hb.1]

theorem good_comma (d : Nat) : Good d [','] := good_neutral (by unfold neutral; decide)
theorem good_colon (d : Nat) : Good d [':'] := good_neutral (by unfold neutral; decide)

theorem cons_eq_append (c : Char) (t : Str) : c :: t = [c] ++ t := rfl

mutual
  theorem good_print : (v : JVal) → (d : Nat) → Good d (print v)
    | .null, d => by simp only [print]; exact good_neutrals (by unfold neutral; decide)
    | .bool true, d => by simp only [print]; exact good_neutrals (by unfold neutral; decide)
    | .bool false, d => by simp only [print]; exact good_neutrals (by unfold neutral; decide)
    | .num t, d => by
      simp only [print]
      exact good_neutrals (fun c hc => neutral_of_numChar (List.mem_filter.mp hc).2)
    | .str s, d => by simp only [print]; exact good_printStr d s
    | .arr [], d => by
      simp only [print]
      exact (good_wrap (body := []) (Or.inr rfl) (Or.inr rfl) (good_nil _)).1
    | .arr (x :: xs), d => by
      simp only [print]
      have hb : Good (d + 1) (print x ++ printTail xs) := good_append (good_print x _) (good_printTail xs _)
      have := (good_wrap (o := '[') (c := ']') (Or.inr rfl) (Or.inr rfl) hb).1
      simpa [List.append_assoc] using this
    | .obj [], d => by
      simp only [print]
      exact (good_wrap (body := []) (Or.inl rfl) (Or.inl rfl) (good_nil _)).1
    | .obj ((k, v) :: kvs), d => by
      simp only [print]
      have hb : Good (d + 1) (printStr k ++ ([':'] ++ (print v ++ printKvTail kvs))) :=
        good_append (good_printStr _ k) (good_append (good_colon _) (good_append (good_print v _) (good_printKvTail kvs _)))
      have := (good_wrap (o := '{') (c := '}') (Or.inl rfl) (Or.inl rfl) hb).1
      simpa [List.append_assoc] using this
  theorem good_printTail : (xs : List JVal) → (d : Nat) → Good d (printTail xs)
    | [], d => by simp only [printTail]; exact good_nil d
    | x :: xs, d => by
      simp only [printTail]
      rw [cons_eq_append]
      exact good_append (good_comma d) (good_append (good_print x d) (good_printTail xs d))
  theorem good_printKvTail : (kvs : List (Str × JVal)) → (d : Nat) → Good d (printKvTail kvs)
    | [], d => by simp only [printKvTail]; exact good_nil d
    | (k, v) :: kvs, d => by
      simp only [printKvTail]
      rw [cons_eq_append]
      refine good_append (good_comma d) (good_append (good_printStr d k) ?_)
      rw [cons_eq_append]
      exact good_append (good_colon d) (good_append (good_print v d) (good_printKvTail kvs d))
end

/-- a printed container is `open :: body ++ [close]` with a body that is `Good` at depth 1 -/
theorem container_shape (v : JVal) (hv : v.isContainer = true) :
    ∃ o body c, print v = o :: (body ++ [c]) ∧ (o = '{' ∨ o = '[') ∧ (c = '}' ∨ c = ']') ∧ Good 1 body := by
  match v, hv with
  | .arr [], _ => exact ⟨'[', [], ']', by simp [print], Or.inr rfl, Or.inr rfl, good_nil 1⟩
  | .arr (x :: xs), _ =>
    exact ⟨'[', print x ++ printTail xs, ']', by simp [print], Or.inr rfl, Or.inr rfl,
      good_append (good_print x 1) (good_printTail xs 1)⟩
  | .obj [], _ => exact ⟨'{', [], '}', by simp [print], Or.inl rfl, Or.inl rfl, good_nil 1⟩
  | .obj ((k, v) :: kvs), _ =>
    refine ⟨'{', printStr k ++ ([':'] ++ (print v ++ printKvTail kvs)), '}', by simp [print], Or.inl rfl, Or.inl rfl, ?_⟩
    exact good_append (good_printStr _ k) (good_append (good_colon _) (good_append (good_print v _) (good_printKvTail kvs _)))

/-- no proper prefix of a printed container is balanced -/
theorem prefix_unbalanced (v : JVal) (hv : v.isContainer = true) (k : Nat) (hk : k < (print v).length) :
    ¬ Balanced ((print v).take k) := by
  obtain ⟨o, body, c, hp, ho, hc, hb⟩ := container_shape v hv
  intro ⟨hne, hbal⟩
  rw [hp] at hk hne hbal
  have hk0 : 0 < k := by
    cases k with
    | zero => simp at hne
    | succ k => omega
  have hlen : k ≤ (o :: body).length := by simp at hk ⊢; omega
  have htake : (o :: (body ++ [c])).take k = (o :: body).take k := by
    have : o :: (body ++ [c]) = (o :: body) ++ [c] := rfl
    rw [this, List.take_append_of_le_length hlen]
  rw [htake] at hbal
  have := allSt_take _ _ (good_wrap (d := 0) ho hc hb).2.1 k hk0 hlen
  rw [hbal] at this
  simp at this

/-- printed text contains no raw line break (`json.dumps` escapes it) -/
theorem escChar_no_newline (c : Char) : '\n' ∉ escChar c := by
  unfold escChar
  split
  · decide
  · split
    · decide
    · split
      · decide
      · split
        · decide
        · split
          · decide
          · rename_i h _ _
            simp; exact fun h' => h h'.symm

end Tranp.JsonText
