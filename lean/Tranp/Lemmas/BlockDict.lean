/-
  Lemmas for property C18, part 10: `parse` / `parse_pair` with a delimiter set on dict-like texts
  `name{k: v, k2: inner{…}, …}` — the entry tree `_parse` builds and the (key, value) pairs `parse_pair` reads from it.
-/
import Tranp.Lemmas.BlockParse
import Tranp.Lemmas.BlockTotal

namespace Tranp.Block
open Tranp Tranp.Generated.BlockPairs

/-! ### dict-like structures -/

/-- an item of a dict-like text: the separator text in front of it (`lead`: nothing for the first item, else one delimiter
    character and blanks), then either a blank-free token or a (possibly unnamed) nested block -/
inductive Item where
  | elem (lead : Str) (t : Frag)
  | block (lead : Str) (name : Frag) (items : List Item)

def blanks : Str := [' ', '\n', '\t']

/-- no top-level character of the token is a delimiter or a blank (groups and strings may hold anything) -/
def tightTop (D : Str) : Frag → Bool
  | .nil => true
  | .atom c r => !has D c && !has blanks c && tightTop D r
  | .str _ _ r => tightTop D r
  | .group _ _ r => tightTop D r

/-- a token: a fragment without a top-level group of the parsed kind, delimiter or blank -/
def TokOK (k : BK) (D : Str) (t : Frag) : Prop := Frag.Simple t ∧ hitK k t = none ∧ tightTop D t = true

/-- delimiters are plain characters (no bracket, no quote) and no blanks -/
def DelimOK (D : Str) : Prop := ∀ d, has D d = true → has Frag.special d = false ∧ has blanks d = false

def LeadOK (D : Str) (first : Bool) (lead : Str) : Prop :=
  if first then lead = [] else ∃ d n, has D d = true ∧ lead = d :: List.replicate n ' '

mutual
def Item.render (k : BK) : Item → Str
  | .elem lead t => lead ++ t.render
  | .block lead name items => lead ++ (name.render ++ k.open :: (Item.renderList k items ++ [k.close]))
def Item.renderList (k : BK) : List Item → Str
  | [] => []
  | it :: rest => Item.render k it ++ Item.renderList k rest
end

mutual
def Item.WF (k : BK) (D : Str) (first : Bool) : Item → Prop
  | .elem lead t => LeadOK D first lead ∧ TokOK k D t ∧ t ≠ .nil
  | .block lead name items => LeadOK D first lead ∧ TokOK k D name ∧ Item.WFList k D true items
def Item.WFList (k : BK) (D : Str) : Bool → List Item → Prop
  | _, [] => True
  | first, it :: rest => Item.WF k D first it ∧ Item.WFList k D false rest
end

def Item.lead : Item → Str
  | .elem lead _ => lead
  | .block lead _ _ => lead

/-- the text of the item without its lead: what `parse_pair` returns for it -/
def Item.text (k : BK) : Item → Str
  | .elem _ t => t.render
  | .block _ name items => name.render ++ k.open :: (Item.renderList k items ++ [k.close])

theorem Item.render_eq (k : BK) (it : Item) : it.render k = it.lead ++ it.text k := by
  cases it <;> simp [Item.render, Item.lead, Item.text]

/-! ### the scan of `_analyze_entry` with delimiters -/

def endTok (k : BK) (D : Str) : Str := [k.open, k.close] ++ D

theorem has_endTok (k : BK) (D : Str) (c : Char) (h1 : c ≠ k.open) (h2 : c ≠ k.close) : has (endTok k D) c = has D c := by
  simp [endTok, has, h1, h2]

/-- the scan runs through a token without stopping and without moving the entry begin -/
theorem anaLoop_tok (k : BK) (D : Str) (t : Frag) : ∀ (rest : Str) (idx eb fuel : Nat), Frag.Simple t →
    hitK k t = none → tightTop D t = true → t.render.length + rest.length < fuel →
    ∃ fuel', rest.length < fuel' ∧
      anaLoop k.open (endTok k D) (otherPairs [k.open, k.close]) fuel (t.render ++ rest) idx eb
        = anaLoop k.open (endTok k D) (otherPairs [k.open, k.close]) fuel' rest (idx + t.render.length) eb := by
  have T := otherTable k
  induction t with
  | nil =>
    intro rest idx eb fuel _ _ _ hfu
    exact ⟨fuel, by simpa [Frag.render] using hfu, by simp [Frag.render]⟩
  | atom c r ih =>
    intro rest idx eb fuel hf hh ht hfu
    rw [simple_atom] at hf
    obtain ⟨n, rfl⟩ : ∃ n, fuel = n + 1 := ⟨fuel - 1, by omega⟩
    simp only [Frag.render, List.length_cons] at hfu
    simp only [tightTop, Bool.and_eq_true, Bool.not_eq_true'] at ht
    have hc := plain_ne_bk c k hf.1
    have hE : has (endTok k D) c = false := by rw [has_endTok k D c hc.1 hc.2]; exact ht.1.1
    have hb : has [' ', '\n', '\t'] c = false := ht.1.2
    have hstep : anaLoop k.open (endTok k D) (otherPairs [k.open, k.close]) (n + 1) ((Frag.atom c r).render ++ rest) idx eb
        = anaLoop k.open (endTok k D) (otherPairs [k.open, k.close]) n (r.render ++ rest) (idx + 1) eb := by
      simp [Frag.render, anaLoop, T.plain c hf.1, hc.1, hE, hb]
    obtain ⟨fuel', hl, he⟩ := ih rest (idx + 1) eb n hf.2 (by simpa [hitK] using hh) ht.2 (by omega)
    exact ⟨fuel', hl, by rw [hstep, he]; simp only [Frag.render, List.length_cons]; congr 1; omega⟩
  | str q b r ih =>
    intro rest idx eb fuel hf hh ht hfu
    rw [simple_str] at hf
    obtain ⟨n, rfl⟩ : ∃ n, fuel = n + 1 := ⟨fuel - 1, by omega⟩
    simp only [Frag.render, List.length_cons, List.length_append] at hfu
    have hq : classify (otherPairs [k.open, k.close]) q.ch ≠ .none := by rw [T.quote q]; simp
    have hskip := gskipLen_str T q b (r.render ++ rest) hf.1
    have hdrop : (q.ch :: (b ++ q.ch :: (r.render ++ rest))).drop (b.length + 2) = r.render ++ rest := by
      have e : q.ch :: (b ++ q.ch :: (r.render ++ rest)) = (q.ch :: (b ++ [q.ch])) ++ (r.render ++ rest) := by simp
      have l : b.length + 2 = (q.ch :: (b ++ [q.ch])).length := by simp
      rw [e, l, List.drop_left]
    have hstep : anaLoop k.open (endTok k D) (otherPairs [k.open, k.close]) (n + 1) ((Frag.str q b r).render ++ rest) idx eb
        = anaLoop k.open (endTok k D) (otherPairs [k.open, k.close]) n (r.render ++ rest) (idx + (b.length + 2)) eb := by
      simp only [Frag.render, List.cons_append, List.append_assoc, anaLoop, hq, ne_eq, not_false_eq_true, if_true, hskip, hdrop]
    obtain ⟨fuel', hl, he⟩ := ih rest (idx + (b.length + 2)) eb n hf.2 (by simpa [hitK] using hh) (by simpa [tightTop] using ht) (by omega)
    exact ⟨fuel', hl, by rw [hstep, he]; simp only [Frag.render, List.length_cons, List.length_append]; congr 1; omega⟩
  | group k' i r _ ih =>
    intro rest idx eb fuel hf hh ht hfu
    rw [simple_group] at hf
    obtain ⟨n, rfl⟩ : ∃ n, fuel = n + 1 := ⟨fuel - 1, by omega⟩
    simp only [Frag.render, List.length_cons, List.length_append] at hfu
    have hk : k' ≠ k := by
      intro e; subst e; simp [hitK] at hh
    simp only [hitK, if_neg hk] at hh
    have ho : classify (otherPairs [k.open, k.close]) k'.open ≠ .none := by rw [T.vopen k' hk]; simp
    have hskip := gskipLen_group T k' hk i (r.render ++ rest) hf.1
    have hdrop : (k'.open :: (i.render ++ k'.close :: (r.render ++ rest))).drop (i.render.length + 2) = r.render ++ rest := by
      have e : k'.open :: (i.render ++ k'.close :: (r.render ++ rest)) = (k'.open :: (i.render ++ [k'.close])) ++ (r.render ++ rest) := by simp
      have l : i.render.length + 2 = (k'.open :: (i.render ++ [k'.close])).length := by simp
      rw [e, l, List.drop_left]
    have hstep : anaLoop k.open (endTok k D) (otherPairs [k.open, k.close]) (n + 1) ((Frag.group k' i r).render ++ rest) idx eb
        = anaLoop k.open (endTok k D) (otherPairs [k.open, k.close]) n (r.render ++ rest) (idx + (i.render.length + 2)) eb := by
      simp only [Frag.render, List.cons_append, List.append_assoc, anaLoop, ho, ne_eq, not_false_eq_true, if_true, hskip, hdrop]
    obtain ⟨fuel', hl, he⟩ := ih rest (idx + (i.render.length + 2)) eb n hf.2 hh (by simpa [tightTop] using ht) (by omega)
    exact ⟨fuel', hl, by rw [hstep, he]; simp only [Frag.render, List.length_cons, List.length_append]; congr 1; omega⟩

/-- the scan stops at the opening bracket of the parsed kind: a block -/
theorem anaLoop_open (k : BK) (D : Str) (rest : Str) (idx eb n : Nat) :
    anaLoop k.open (endTok k D) (otherPairs [k.open, k.close]) (n + 1) (k.open :: rest) idx eb = .ok (.block eb idx) := by
  have T := otherTable k
  simp [anaLoop, T.hopen]

/-- … and at the closing bracket or a delimiter: an element -/
theorem anaLoop_end (k : BK) (D : Str) (hD : DelimOK D) (x : Char) (hx : x = k.close ∨ has D x = true) (rest : Str) (idx eb n : Nat) :
    anaLoop k.open (endTok k D) (otherPairs [k.open, k.close]) (n + 1) (x :: rest) idx eb = .ok (.element eb idx) := by
  have T := otherTable k
  rcases hx with hx | hx
  · subst hx
    simp [anaLoop, T.hclose, (open_ne_close k).symm, endTok, has]
  · have hp := (hD x hx).1
    have hc := plain_ne_bk x k hp
    have hE : has (endTok k D) x = true := by rw [has_endTok k D x hc.1 hc.2]; exact hx
    simp [anaLoop, T.plain x hp, hc.1, hE]

/-- blanks move the entry begin behind them -/
theorem anaLoop_blanks (k : BK) (D : Str) (hD : DelimOK D) (rest : Str) : ∀ (n idx eb fuel : Nat), n + rest.length < fuel →
    ∃ fuel', rest.length < fuel' ∧
      anaLoop k.open (endTok k D) (otherPairs [k.open, k.close]) fuel (List.replicate n ' ' ++ rest) idx eb
        = anaLoop k.open (endTok k D) (otherPairs [k.open, k.close]) fuel' rest (idx + n) (if n = 0 then eb else idx + n) := by
  have T := otherTable k
  have hp : has Frag.special ' ' = false := by decide
  have hc := plain_ne_bk ' ' k hp
  have hnD : has D ' ' = false := by
    cases h : has D ' ' with
    | false => rfl
    | true => have := (hD ' ' h).2; revert this; decide
  have hE : has (endTok k D) ' ' = false := by rw [has_endTok k D ' ' hc.1 hc.2]; exact hnD
  intro n
  induction n with
  | zero => intro idx eb fuel hf; exact ⟨fuel, by simpa using hf, by simp⟩
  | succ n ih =>
    intro idx eb fuel hf
    obtain ⟨m, rfl⟩ : ∃ m, fuel = m + 1 := ⟨fuel - 1, by omega⟩
    obtain ⟨fuel', hl, he⟩ := ih (idx + 1) (idx + 1) m (by omega)
    refine ⟨fuel', hl, ?_⟩
    have hstep : anaLoop k.open (endTok k D) (otherPairs [k.open, k.close]) (m + 1) (List.replicate (n + 1) ' ' ++ rest) idx eb
        = anaLoop k.open (endTok k D) (otherPairs [k.open, k.close]) m (List.replicate n ' ' ++ rest) (idx + 1) (idx + 1) := by
      have hbl : has [' ', '\n', '\t'] ' ' = true := by decide
      simp [List.replicate_succ, anaLoop, T.plain ' ' hp, hc.1, hE, hbl]
    rw [hstep, he]
    have e1 : idx + 1 + n = idx + (n + 1) := by omega
    rw [e1]
    congr 1
    split <;> simp <;> omega

/-! ### `_analyze_entry` at the start of an item -/

theorem analyzeEntry_unfold (o cl : Char) (D pre : Str) (c : Char) (cs : Str) :
    analyzeEntry (pre ++ c :: cs) [o, cl] D pre.length =
      if c = o then .ok (.block pre.length pre.length)
      else if c = cl then .ok (.fin pre.length)
      else anaLoop o ([o, cl] ++ D) (otherPairs [o, cl]) ((pre ++ c :: cs).length + 1)
        ((pre ++ c :: cs).drop (if has D c then pre.length + 1 else pre.length))
        (if has D c then pre.length + 1 else pre.length) (if has D c then pre.length + 1 else pre.length) := by
  simp only [analyzeEntry, charAt_mid, bind, Except.bind, pure, Except.pure]
  have h0 : charAt [o, cl] 0 = .ok o := rfl
  have h1 : charAt [o, cl] 1 = .ok cl := rfl
  simp only [h0, h1]

/-- the first character of a non-empty token is no bracket of the parsed kind and no delimiter -/
theorem tok_first (k : BK) (D : Str) (hD : DelimOK D) (t : Frag) (ht : TokOK k D t) (c : Char) (cs : Str)
    (h : t.render = c :: cs) : c ≠ k.open ∧ c ≠ k.close ∧ has D c = false := by
  have special_notD : ∀ x, has Frag.special x = true → has D x = false := by
    intro x hx
    cases hd : has D x with
    | false => rfl
    | true => rw [(hD x hd).1] at hx; cases hx
  obtain ⟨hs, hh, htt⟩ := ht
  cases t with
  | nil => simp [Frag.render] at h
  | atom c' r =>
    rw [simple_atom] at hs
    simp only [Frag.render, List.cons.injEq] at h
    simp only [tightTop, Bool.and_eq_true, Bool.not_eq_true'] at htt
    rw [← h.1]
    exact ⟨(plain_ne_bk c' k hs.1).1, (plain_ne_bk c' k hs.1).2, htt.1.1⟩
  | str q b r =>
    simp only [Frag.render, List.cons.injEq] at h
    rw [← h.1]
    exact ⟨(quote_ne_bk q k).1, (quote_ne_bk q k).2, special_notD _ (by cases q <;> decide)⟩
  | group k' i r =>
    simp only [Frag.render, List.cons.injEq] at h
    have hk : k' ≠ k := by
      intro e; subst e; simp [hitK] at hh
    rw [← h.1]
    refine ⟨fun e => hk (open_inj k k' e), (close_ne_open k k').symm, special_notD _ (by cases k' <;> decide)⟩

/-- `_analyze_entry` at the start of an item (its lead, its token, then `x` = the opening bracket of its block, the next
    delimiter or the closing bracket): a block or an element that begins behind the lead and ends in front of `x` -/
theorem analyze_item (k : BK) (D : Str) (hD : DelimOK D) (pre lead : Str) (t : Frag) (x : Char) (rest : Str) (first : Bool)
    (hl : LeadOK D first lead) (ht : TokOK k D t)
    (hx : x = k.open ∨ ((x = k.close ∨ has D x = true) ∧ t ≠ .nil)) :
    analyzeEntry (pre ++ (lead ++ (t.render ++ x :: rest))) [k.open, k.close] D pre.length
      = .ok (if x = k.open then .block (pre.length + lead.length) (pre.length + lead.length + t.render.length)
          else .element (pre.length + lead.length) (pre.length + lead.length + t.render.length)) := by
  obtain ⟨hs, hh, htt⟩ := ht
  -- the last step: the scan stands on `x`
  have hlast : ∀ (idx eb fuel' : Nat), (x :: rest).length < fuel' →
      anaLoop k.open (endTok k D) (otherPairs [k.open, k.close]) fuel' (x :: rest) idx eb
        = .ok (if x = k.open then .block eb idx else .element eb idx) := by
    intro idx eb fuel' hf
    obtain ⟨n, rfl⟩ : ∃ n, fuel' = n + 1 := ⟨fuel' - 1, by simp only [List.length_cons] at hf; omega⟩
    by_cases hxo : x = k.open
    · subst hxo; rw [if_pos rfl]; exact anaLoop_open k D rest idx eb n
    · rw [if_neg hxo]
      rcases hx with hx | hx
      · exact absurd hx hxo
      · exact anaLoop_end k D hD x hx.1 rest idx eb n
  unfold LeadOK at hl
  cases first with
  | true =>
    simp only [if_true] at hl
    subst hl
    simp only [List.nil_append, List.length_nil, Nat.add_zero]
    cases hr : t.render with
    | nil =>
      have htn : t = .nil := (render_eq_nil t).mp hr
      have hxo : x = k.open := by
        rcases hx with hx | hx
        · exact hx
        · exact absurd htn hx.2
      subst hxo
      simp only [List.nil_append, List.length_nil, Nat.add_zero, if_true]
      rw [analyzeEntry_unfold, if_pos rfl]
    | cons c cs =>
      obtain ⟨h1, h2, h3⟩ := tok_first k D hD t ⟨hs, hh, htt⟩ c cs hr
      simp only [List.cons_append]
      rw [analyzeEntry_unfold, if_neg h1, if_neg h2]
      simp only [h3, Bool.false_eq_true, if_false]
      have hd : (pre ++ c :: (cs ++ x :: rest)).drop pre.length = t.render ++ x :: rest := by
        rw [List.drop_left, hr]; rfl
      rw [hd]
      obtain ⟨fuel', hfl, he⟩ := anaLoop_tok k D t (x :: rest) pre.length pre.length ((pre ++ c :: (cs ++ x :: rest)).length + 1)
        hs hh htt (by rw [hr]; simp only [List.length_append, List.length_cons]; omega)
      have he' : anaLoop k.open ([k.open, k.close] ++ D) (otherPairs [k.open, k.close]) ((pre ++ c :: (cs ++ x :: rest)).length + 1)
          (t.render ++ x :: rest) pre.length pre.length = _ := he
      rw [he', hlast _ _ _ hfl, hr]
  | false =>
    simp only [Bool.false_eq_true, if_false] at hl
    obtain ⟨d, n, hd, hle⟩ := hl
    subst hle
    have hp := (hD d hd).1
    have hc := plain_ne_bk d k hp
    simp only [List.cons_append]
    rw [analyzeEntry_unfold, if_neg hc.1, if_neg hc.2]
    simp only [hd, if_true]
    have hdrop : (pre ++ d :: (List.replicate n ' ' ++ (t.render ++ x :: rest))).drop (pre.length + 1)
        = List.replicate n ' ' ++ (t.render ++ x :: rest) := by
      have e : pre ++ d :: (List.replicate n ' ' ++ (t.render ++ x :: rest)) = (pre ++ [d]) ++ (List.replicate n ' ' ++ (t.render ++ x :: rest)) := by simp
      have l : pre.length + 1 = (pre ++ [d]).length := by simp
      rw [e, l, List.drop_left]
    rw [hdrop]
    obtain ⟨f1, hf1, he1⟩ := anaLoop_blanks k D hD (t.render ++ x :: rest) n (pre.length + 1) (pre.length + 1)
      ((pre ++ d :: (List.replicate n ' ' ++ (t.render ++ x :: rest))).length + 1)
      (by simp only [List.length_append, List.length_cons, List.length_replicate]; omega)
    have he1' : anaLoop k.open ([k.open, k.close] ++ D) (otherPairs [k.open, k.close]) ((pre ++ d :: (List.replicate n ' ' ++ (t.render ++ x :: rest))).length + 1)
        (List.replicate n ' ' ++ (t.render ++ x :: rest)) (pre.length + 1) (pre.length + 1) = _ := he1
    rw [he1']
    have heb : (if n = 0 then pre.length + 1 else pre.length + 1 + n) = pre.length + 1 + n := by split <;> omega
    rw [heb]
    obtain ⟨f2, hf2, he2⟩ := anaLoop_tok k D t (x :: rest) (pre.length + 1 + n) (pre.length + 1 + n) f1 hs hh htt
      (by simp only [List.length_append] at hf1; omega)
    rw [he2, hlast _ _ _ hf2]
    simp only [List.length_cons, List.length_replicate]
    have e1 : pre.length + 1 + n = pre.length + (n + 1) := by omega
    rw [e1]

/-! ### the entry tree of a dict-like text -/

mutual
def Item.size : Item → Nat
  | .elem _ _ => 1
  | .block _ _ items => 1 + Item.sizeList items
def Item.sizeList : List Item → Nat
  | [] => 0
  | it :: rest => Item.size it + Item.sizeList rest
end

mutual
/-- the entry `_parse` builds for the item whose lead starts at position `p` -/
def Item.entry (k : BK) (depth p : Nat) : Item → Entry
  | .elem lead t => Entry.mk (p + lead.length) (p + lead.length + t.render.length) depth .Element []
  | .block lead name items =>
    Entry.mk (p + lead.length) (p + lead.length + name.render.length + 1 + (Item.renderList k items).length + 1) depth .Block
      (Item.entries k (depth + 1) (p + lead.length + name.render.length + 1) items)
def Item.entries (k : BK) (depth p : Nat) : List Item → List Entry
  | [] => []
  | it :: rest => Item.entry k depth p it :: Item.entries k depth (p + (Item.render k it).length) rest
end

/-- the character that follows an item's token inside its list: the lead of the next item or the closing bracket -/
theorem next_char (k : BK) (D : Str) (rest : List Item) (after : Str) (hw : Item.WFList k D false rest) :
    ∃ x tl, Item.renderList k rest ++ k.close :: after = x :: tl ∧ (x = k.close ∨ has D x = true) := by
  cases rest with
  | nil => exact ⟨k.close, after, by simp [Item.renderList], Or.inl rfl⟩
  | cons it rest' =>
    have hl : LeadOK D false it.lead := by
      cases it with
      | elem lead t => exact hw.1.1
      | block lead name items => exact hw.1.1
    simp only [LeadOK, Bool.false_eq_true, if_false] at hl
    obtain ⟨d, n, hd, hle⟩ := hl
    refine ⟨d, List.replicate n ' ' ++ (it.text k ++ (Item.renderList k rest' ++ k.close :: after)), ?_, Or.inr hd⟩
    simp [Item.renderList, Item.render_eq, hle]

/-- the first character of a first item (no lead) is not the closing bracket -/
theorem first_item_ne_close (k : BK) (D : Str) (hD : DelimOK D) (it : Item) (hw : Item.WF k D true it) (z : Str) :
    ∃ c cs, it.render k ++ z = c :: cs ∧ c ≠ k.close := by
  cases it with
  | elem lead t =>
    obtain ⟨hl, ht, hne⟩ := hw
    simp only [LeadOK, if_true] at hl
    subst hl
    cases hr : t.render with
    | nil => exact absurd ((render_eq_nil t).mp hr) hne
    | cons c cs =>
      exact ⟨c, cs ++ z, by simp [Item.render, hr], (tok_first k D hD t ht c cs hr).2.1⟩
  | block lead name items =>
    obtain ⟨hl, ht, _⟩ := hw
    simp only [LeadOK, if_true] at hl
    subst hl
    cases hr : name.render with
    | nil => exact ⟨k.open, Item.renderList k items ++ k.close :: z, by simp [Item.render, hr], open_ne_close k⟩
    | cons c cs =>
      exact ⟨c, cs ++ k.open :: (Item.renderList k items ++ k.close :: z), by simp [Item.render, hr],
        (tok_first k D hD name ht c cs hr).2.1⟩

/-- `_parse` started on the first of a list of items that ends at the closing bracket of the enclosing block: it builds
    exactly the entries of the items and stops on that bracket -/
theorem parseLoop_items (k : BK) (D : Str) (hD : DelimOK D) : ∀ (n : Nat) (items : List Item) (first : Bool) (pre after : Str)
    (depth : Nat) (acc : List Entry) (fuel : Nat), Item.sizeList items ≤ n → Item.WFList k D first items →
    2 * (Item.renderList k items).length + 2 ≤ fuel →
    parseLoop (pre ++ (Item.renderList k items ++ k.close :: after)) [k.open, k.close] D fuel pre.length depth acc
      = .ok (pre.length + (Item.renderList k items).length, acc ++ Item.entries k depth pre.length items) := by
  intro n
  induction n with
  | zero =>
    intro items first pre after depth acc fuel hn hw hfu
    cases items with
    | cons it rest => cases it <;> simp [Item.sizeList, Item.size] at hn <;> omega
    | nil =>
      obtain ⟨m, rfl⟩ : ∃ m, fuel = m + 1 := ⟨fuel - 1, by omega⟩
      simp only [Item.renderList, List.nil_append, List.length_nil, Nat.add_zero, Item.entries, List.append_nil]
      rw [parseLoop, if_pos (by simp)]
      simp [analyzeEntry_unfold, (open_ne_close k).symm, bind, Except.bind]
  | succ n ih =>
    intro items first pre after depth acc fuel hn hw hfu
    obtain ⟨m, rfl⟩ : ∃ m, fuel = m + 1 := ⟨fuel - 1, by omega⟩
    cases items with
    | nil =>
      simp only [Item.renderList, List.nil_append, List.length_nil, Nat.add_zero, Item.entries, List.append_nil]
      rw [parseLoop, if_pos (by simp)]
      simp [analyzeEntry_unfold, (open_ne_close k).symm, bind, Except.bind]
    | cons it rest =>
      obtain ⟨hwi, hwr⟩ := hw
      obtain ⟨x, tl, hx, hxe⟩ := next_char k D rest after hwr
      have hlt : pre.length < (pre ++ (Item.renderList k (it :: rest) ++ k.close :: after)).length := by
        simp only [List.length_append, List.length_cons]; omega
      cases it with
      | elem lead t =>
        obtain ⟨hl, ht, hne⟩ := hwi
        have hxo : x ≠ k.open := by
          rcases hxe with h | h
          · rw [h]; exact (open_ne_close k).symm
          · exact (plain_ne_bk x k (hD x h).1).1
        have e0 : pre ++ (Item.renderList k (Item.elem lead t :: rest) ++ k.close :: after)
            = pre ++ (lead ++ (t.render ++ x :: tl)) := by
          simp only [Item.renderList, Item.render, List.append_assoc, hx]
        have ha := analyze_item k D hD pre lead t x tl first hl ht (Or.inr ⟨hxe, hne⟩)
        rw [if_neg hxo] at ha
        have e1 : pre ++ (Item.renderList k (Item.elem lead t :: rest) ++ k.close :: after)
            = (pre ++ lead ++ t.render) ++ (Item.renderList k rest ++ k.close :: after) := by
          simp only [Item.renderList, Item.render, List.append_assoc]
        have l1 : pre.length + lead.length + t.render.length = (pre ++ lead ++ t.render).length := by
          simp only [List.length_append]
        have htl : 1 ≤ t.render.length := by
          cases hr : t.render with
          | nil => exact absurd ((render_eq_nil t).mp hr) hne
          | cons c cs => simp
        have hrec := ih rest false (pre ++ lead ++ t.render) after depth
          (acc ++ [Entry.mk (pre.length + lead.length) (pre.length + lead.length + t.render.length) depth .Element []]) m
          (by simp only [Item.sizeList, Item.size] at hn; omega) hwr
          (by simp only [Item.renderList, Item.render, List.length_append] at hfu; omega)
        rw [← e1, ← l1] at hrec
        rw [← e0] at ha
        rw [parseLoop, if_pos hlt]
        simp only [ha, bind, Except.bind]
        rw [hrec]
        simp only [Item.renderList, Item.render, Item.entries, Item.entry, List.length_append, List.append_assoc,
          List.singleton_append, Nat.add_assoc]
      | block lead name sub =>
        obtain ⟨hl, ht, hws⟩ := hwi
        -- positions
        have e0 : pre ++ (Item.renderList k (Item.block lead name sub :: rest) ++ k.close :: after)
            = pre ++ (lead ++ (name.render ++ k.open :: (Item.renderList k sub ++ k.close :: (Item.renderList k rest ++ k.close :: after)))) := by
          simp only [Item.renderList, Item.render, List.append_assoc, List.cons_append, List.nil_append]
        have ha := analyze_item k D hD pre lead name k.open
          (Item.renderList k sub ++ k.close :: (Item.renderList k rest ++ k.close :: after)) first hl ht (Or.inl rfl)
        rw [if_pos rfl] at ha
        -- the inside of the block
        have e1 : pre ++ (Item.renderList k (Item.block lead name sub :: rest) ++ k.close :: after)
            = (pre ++ lead ++ name.render ++ [k.open]) ++ (Item.renderList k sub ++ k.close :: (Item.renderList k rest ++ k.close :: after)) := by
          simp only [Item.renderList, Item.render, List.append_assoc, List.cons_append, List.nil_append]
        have l1 : pre.length + lead.length + name.render.length + 1 = (pre ++ lead ++ name.render ++ [k.open]).length := by
          simp only [List.length_append, List.length_cons, List.length_nil]
        have hsz : Item.sizeList sub ≤ n ∧ Item.sizeList rest ≤ n := by
          simp only [Item.sizeList, Item.size] at hn; omega
        have hlen : (Item.renderList k (Item.block lead name sub :: rest)).length
            = lead.length + name.render.length + 1 + (Item.renderList k sub).length + 1 + (Item.renderList k rest).length := by
          simp only [Item.renderList, Item.render, List.length_append, List.length_cons, List.length_nil]; omega
        rw [hlen] at hfu
        -- `_parse_block`
        have hblock : blockLoop (pre ++ (Item.renderList k (Item.block lead name sub :: rest) ++ k.close :: after)) [k.open, k.close] D m
            (pre.length + lead.length + name.render.length + 1) depth []
            = .ok (pre.length + lead.length + name.render.length + 1 + (Item.renderList k sub).length + 1,
                Item.entries k (depth + 1) (pre.length + lead.length + name.render.length + 1) sub) := by
          obtain ⟨m1, rfl⟩ : ∃ m1, m = m1 + 1 := ⟨m - 1, by omega⟩
          have hlt2 : pre.length + lead.length + name.render.length + 1
              < (pre ++ (Item.renderList k (Item.block lead name sub :: rest) ++ k.close :: after)).length := by
            rw [e1]; simp only [List.length_append, List.length_cons, List.length_nil]; omega
          have hb1 : charAt [k.open, k.close] 1 = .ok k.close := rfl
          rw [blockLoop, if_pos hlt2]
          cases sub with
          | nil =>
            rw [e1, l1]
            simp only [Item.renderList, List.nil_append, charAt_mid, hb1, bind, Except.bind, if_true, List.length_nil,
              Nat.add_zero, Item.entries]
          | cons s0 srest =>
            obtain ⟨c, cs, hc, hcne⟩ := first_item_ne_close k D hD s0 hws.1
              (Item.renderList k srest ++ k.close :: (Item.renderList k rest ++ k.close :: after))
            have hsub := ih (s0 :: srest) true (pre ++ lead ++ name.render ++ [k.open])
              (Item.renderList k rest ++ k.close :: after) (depth + 1) [] m1 hsz.1 hws (by omega)
            rw [← e1, ← l1] at hsub
            have hch : charAt (pre ++ (Item.renderList k (Item.block lead name (s0 :: srest) :: rest) ++ k.close :: after))
                (pre.length + lead.length + name.render.length + 1) = .ok c := by
              rw [e1, l1]
              have : Item.renderList k (s0 :: srest) ++ k.close :: (Item.renderList k rest ++ k.close :: after) = c :: cs := by
                simp only [Item.renderList, List.append_assoc]; exact hc
              rw [this, charAt_mid]
            simp only [hch, hb1, bind, Except.bind, if_neg hcne, hsub, List.nil_append]
            -- back in `_parse_block`: the closing bracket
            obtain ⟨m2, rfl⟩ : ∃ m2, m1 = m2 + 1 := ⟨m1 - 1, by omega⟩
            have e2 : pre ++ (Item.renderList k (Item.block lead name (s0 :: srest) :: rest) ++ k.close :: after)
                = (pre ++ lead ++ name.render ++ [k.open] ++ Item.renderList k (s0 :: srest)) ++ k.close :: (Item.renderList k rest ++ k.close :: after) := by
              simp only [Item.renderList, Item.render, List.append_assoc, List.cons_append, List.nil_append]
            have l2 : pre.length + lead.length + name.render.length + 1 + (Item.renderList k (s0 :: srest)).length
                = (pre ++ lead ++ name.render ++ [k.open] ++ Item.renderList k (s0 :: srest)).length := by
              simp only [List.length_append, List.length_cons, List.length_nil]
            have hlt3 : pre.length + lead.length + name.render.length + 1 + (Item.renderList k (s0 :: srest)).length
                < (pre ++ (Item.renderList k (Item.block lead name (s0 :: srest) :: rest) ++ k.close :: after)).length := by
              rw [e2]; simp only [List.length_append, List.length_cons, List.length_nil]; omega
            rw [blockLoop, if_pos hlt3]
            rw [e2, l2]
            simp only [charAt_mid, hb1, bind, Except.bind, if_true]
        -- on with the rest
        have e3 : pre ++ (Item.renderList k (Item.block lead name sub :: rest) ++ k.close :: after)
            = (pre ++ lead ++ name.render ++ k.open :: (Item.renderList k sub ++ [k.close])) ++ (Item.renderList k rest ++ k.close :: after) := by
          simp only [Item.renderList, Item.render, List.append_assoc, List.cons_append, List.nil_append]
        have l3 : pre.length + lead.length + name.render.length + 1 + (Item.renderList k sub).length + 1
            = (pre ++ lead ++ name.render ++ k.open :: (Item.renderList k sub ++ [k.close])).length := by
          simp only [List.length_append, List.length_cons, List.length_nil]; omega
        have hrec := ih rest false (pre ++ lead ++ name.render ++ k.open :: (Item.renderList k sub ++ [k.close])) after depth
          (acc ++ [Entry.mk (pre.length + lead.length) (pre.length + lead.length + name.render.length + 1 + (Item.renderList k sub).length + 1)
            depth .Block (Item.entries k (depth + 1) (pre.length + lead.length + name.render.length + 1) sub)]) m hsz.2 hwr (by omega)
        rw [← e3, ← l3] at hrec
        rw [← e0] at ha
        rw [parseLoop, if_pos hlt]
        simp only [ha, bind, Except.bind, hblock, hrec]
        simp only [Item.renderList, Item.render, Item.entries, Item.entry, List.length_append, List.length_cons,
          List.length_nil, List.append_assoc, List.singleton_append, Nat.add_assoc, Nat.zero_add]
        have h1 : pre.length + (lead.length + (name.render.length + (1 + ((Item.renderList k sub).length + (1 + (Item.renderList k rest).length)))))
            = pre.length + (lead.length + (name.render.length + ((Item.renderList k sub).length + (1 + (1 + (Item.renderList k rest).length))))) := by omega
        have h2 : pre.length + (lead.length + (name.render.length + (1 + ((Item.renderList k sub).length + 1))))
            = pre.length + (lead.length + (name.render.length + ((Item.renderList k sub).length + (1 + 1)))) := by omega
        rw [h1, h2]

/-- `_parse_block` behind the opening bracket of a block: the entries of its items, one level deeper, and the position behind
    its closing bracket -/
theorem blockLoop_items (k : BK) (D : Str) (hD : DelimOK D) (sub : List Item) (pre after : Str) (depth fuel : Nat)
    (hw : Item.WFList k D true sub) (hfu : 2 * (Item.renderList k sub).length + 4 ≤ fuel) :
    blockLoop (pre ++ (Item.renderList k sub ++ k.close :: after)) [k.open, k.close] D fuel pre.length depth []
      = .ok (pre.length + (Item.renderList k sub).length + 1, Item.entries k (depth + 1) pre.length sub) := by
  obtain ⟨m1, rfl⟩ : ∃ m1, fuel = m1 + 1 := ⟨fuel - 1, by omega⟩
  have hb1 : charAt [k.open, k.close] 1 = .ok k.close := rfl
  rw [blockLoop, if_pos (by simp only [List.length_append, List.length_cons]; omega)]
  cases sub with
  | nil =>
    simp only [Item.renderList, List.nil_append, charAt_mid, hb1, bind, Except.bind, if_true, List.length_nil,
      Nat.add_zero, Item.entries]
  | cons s0 srest =>
    obtain ⟨c, cs, hc, hcne⟩ := first_item_ne_close k D hD s0 hw.1 (Item.renderList k srest ++ k.close :: after)
    have hsub := parseLoop_items k D hD (Item.sizeList (s0 :: srest)) (s0 :: srest) true pre after (depth + 1) [] m1
      (Nat.le_refl _) hw (by omega)
    have hch : charAt (pre ++ (Item.renderList k (s0 :: srest) ++ k.close :: after)) pre.length = .ok c := by
      have : Item.renderList k (s0 :: srest) ++ k.close :: after = c :: cs := by
        simp only [Item.renderList, List.append_assoc]; exact hc
      rw [this, charAt_mid]
    simp only [hch, hb1, bind, Except.bind, if_neg hcne, hsub, List.nil_append]
    obtain ⟨m2, rfl⟩ : ∃ m2, m1 = m2 + 1 := ⟨m1 - 1, by omega⟩
    have e2 : pre ++ (Item.renderList k (s0 :: srest) ++ k.close :: after)
        = (pre ++ Item.renderList k (s0 :: srest)) ++ k.close :: after := by simp
    have l2 : pre.length + (Item.renderList k (s0 :: srest)).length = (pre ++ Item.renderList k (s0 :: srest)).length := by simp
    rw [blockLoop, if_pos (by simp only [List.length_append, List.length_cons]; omega)]
    rw [e2, l2]
    simp only [charAt_mid, hb1, bind, Except.bind, if_true]

/-- `parse(name{items})` is the block entry of the whole text -/
theorem parse_dict (k : BK) (D : Str) (hD : DelimOK D) (name : Frag) (items : List Item) (hn : TokOK k D name)
    (hw : Item.WFList k D true items) :
    parse (name.render ++ k.open :: (Item.renderList k items ++ [k.close])) [k.open, k.close] D
      = .ok (Item.entry k 0 0 (Item.block [] name items)) := by
  have ha := analyze_item k D hD [] [] name k.open (Item.renderList k items ++ [k.close]) true (by simp [LeadOK]) hn (Or.inl rfl)
  rw [if_pos rfl] at ha
  simp only [List.nil_append, List.length_nil, Nat.zero_add] at ha
  have e1 : name.render ++ k.open :: (Item.renderList k items ++ [k.close])
      = (name.render ++ [k.open]) ++ (Item.renderList k items ++ k.close :: []) := by simp
  have l1 : name.render.length + 1 = (name.render ++ [k.open]).length := by simp
  have hlenT : (name.render ++ k.open :: (Item.renderList k items ++ [k.close])).length
      = name.render.length + 1 + (Item.renderList k items).length + 1 := by
    simp only [List.length_append, List.length_cons, List.length_nil]; omega
  have hbl := blockLoop_items k D hD items (name.render ++ [k.open]) [] 0
    (4 * (name.render ++ k.open :: (Item.renderList k items ++ [k.close])).length + 15) hw (by rw [hlenT]; omega)
  rw [← e1, ← l1] at hbl
  unfold parse parseFuel
  rw [parseLoop, if_pos (by rw [hlenT]; omega)]
  simp only [ha, bind, Except.bind, hbl]
  rw [parseLoop, if_neg (by rw [hlenT]; omega)]
  simp only [List.nil_append, Item.entry, List.length_nil, Nat.zero_add, Nat.add_zero]

/-! ### `parse_pair`: sorting by depth, pairing, slicing -/

theorem insert_skip (e : Entry) : ∀ (A B : List Entry), (∀ x ∈ A, x.depth < e.depth) →
    insertByDepth e (A ++ B) = A ++ insertByDepth e B := by
  intro A
  induction A with
  | nil => intro B _; rfl
  | cons a A ih =>
    intro B h
    have ha : ¬ e.depth ≤ a.depth := by have := h a (by simp); omega
    simp only [List.cons_append, insertByDepth, if_neg ha]
    rw [ih B (fun x hx => h x (by simp [hx]))]

theorem insert_head (e : Entry) (B : List Entry) (h : ∀ x ∈ B, e.depth ≤ x.depth) : insertByDepth e B = e :: B := by
  cases B with
  | nil => rfl
  | cons b B => simp [insertByDepth, h b (by simp)]

/-- inserting entries of depth 2 (from the right) into depth-1 entries followed by depth-2 entries: they stay in order
    behind the depth-1 entries -/
theorem foldr_insert_level2 (L1 L2 : List Entry) (h1 : ∀ x ∈ L1, x.depth = 1) (h2 : ∀ x ∈ L2, x.depth = 2) :
    ∀ (ys : List Entry), (∀ y ∈ ys, y.depth = 2) → ys.foldr insertByDepth (L1 ++ L2) = L1 ++ (ys ++ L2) := by
  intro ys
  induction ys with
  | nil => intro _; rfl
  | cons y ys ih =>
    intro h
    have hy : y.depth = 2 := h y (by simp)
    simp only [List.foldr_cons, ih (fun z hz => h z (by simp [hz]))]
    rw [insert_skip y L1 _ (fun x hx => by rw [h1 x hx, hy]; omega)]
    rw [insert_head y _ (fun x hx => by
      rcases List.mem_append.mp hx with hx | hx
      · rw [hy, h x (by simp [hx])]; omega
      · rw [hy, h2 x hx]; omega)]
    simp

theorem sort_unders : ∀ (L : List Entry), (∀ x ∈ L, x.depth = 1 ∧ ∀ y ∈ x.entries, y.depth = 2) →
    sortByDepth (L.flatMap fun x => x :: x.entries) = L ++ L.flatMap (·.entries) := by
  intro L
  induction L with
  | nil => intro _; rfl
  | cons x L ih =>
    intro h
    have hx := h x (by simp)
    have ihL := ih (fun z hz => h z (by simp [hz]))
    have h1 : ∀ z ∈ L, z.depth = 1 := fun z hz => (h z (by simp [hz])).1
    have h2 : ∀ z ∈ L.flatMap (·.entries), z.depth = 2 := by
      intro z hz
      obtain ⟨w, hw, hzw⟩ := List.mem_flatMap.mp hz
      exact (h w (by simp [hw])).2 z hzw
    simp only [sortByDepth] at ihL ⊢
    simp only [List.flatMap_cons, List.cons_append, List.foldr_cons, List.foldr_append, ihL]
    rw [foldr_insert_level2 L _ h1 h2 x.entries hx.2]
    rw [insert_head x _ (fun z hz => by
      rw [hx.1]
      rcases List.mem_append.mp hz with hz | hz
      · rw [h1 z hz]; omega
      · rcases List.mem_append.mp hz with hz | hz
        · rw [hx.2 z hz]; omega
        · rw [h2 z hz]; omega)]

/-- pairing on (depth, text) tags: what `parse_pair` computes once the entries are sorted -/
def pairTagged : List (Nat × Str) → List (Str × Str)
  | a :: b :: rest => if a.1 = b.1 then (a.2, b.2) :: pairTagged rest else pairTagged rest
  | _ => []

theorem pairUp_map (T : Str) : (L : List Entry) →
    (pairUp L).map (fun kv => (slice T kv.1.begin kv.1.end_, slice T kv.2.begin kv.2.end_))
      = pairTagged (L.map fun e => (e.depth, slice T e.begin e.end_))
  | [] => rfl
  | [_] => rfl
  | a :: b :: rest => by
    simp only [pairUp, List.map_cons, pairTagged]
    split
    · simp [pairUp_map T rest]
    · exact pairUp_map T rest

def Item.subItems : Item → List Item
  | .elem _ _ => []
  | .block _ _ sub => sub

theorem entry_fields (k : BK) (d p : Nat) (it : Item) :
    (Item.entry k d p it).depth = d ∧ (Item.entry k d p it).begin = p + it.lead.length ∧
      (Item.entry k d p it).end_ = p + it.lead.length + (it.text k).length ∧
      (Item.entry k d p it).entries = Item.entries k (d + 1) (p + it.lead.length + (it.text k).length - (Item.renderList k it.subItems).length - 1) it.subItems := by
  cases it with
  | elem lead t => simp [Item.entry, Entry.depth, Entry.begin, Entry.end_, Entry.entries, Item.lead, Item.text, Item.subItems, Item.entries]
  | block lead name sub =>
    simp only [Item.entry, Entry.depth, Entry.begin, Entry.end_, Entry.entries, Item.lead, Item.text, Item.subItems,
      List.length_append, List.length_cons, List.length_nil, true_and]
    refine ⟨by omega, ?_⟩
    congr 1 <;> omega

theorem entries_depth (k : BK) (d : Nat) : ∀ (items : List Item) (p : Nat), ∀ y ∈ Item.entries k d p items, y.depth = d := by
  intro items
  induction items with
  | nil => intro p y hy; simp [Item.entries] at hy
  | cons it rest ih =>
    intro p y hy
    simp only [Item.entries, List.mem_cons] at hy
    rcases hy with hy | hy
    · rw [hy]; exact (entry_fields k d p it).1
    · exact ih _ y hy

theorem slice_mid' (pre mid z : Str) : slice (pre ++ (mid ++ z)) pre.length (pre.length + mid.length) = mid := by
  simp [slice, List.take_append, List.take_add]

/-- the (depth, text) tags of the entries of a list of items -/
theorem entries_tagged (k : BK) (d : Nat) (T : Str) : ∀ (items : List Item) (pre z : Str),
    T = pre ++ (Item.renderList k items ++ z) →
    (Item.entries k d pre.length items).map (fun e => (e.depth, slice T e.begin e.end_)) = items.map fun it => (d, it.text k) := by
  intro items
  induction items with
  | nil => intro _ _ _; rfl
  | cons it rest ih =>
    intro pre z hT
    obtain ⟨f1, f2, f3, _⟩ := entry_fields k d pre.length it
    have hT1 : T = (pre ++ it.lead) ++ (it.text k ++ (Item.renderList k rest ++ z)) := by
      rw [hT]; simp [Item.renderList, Item.render_eq]
    have hT2 : T = (pre ++ it.render k) ++ (Item.renderList k rest ++ z) := by
      rw [hT]; simp [Item.renderList]
    have hsl : slice T (pre.length + it.lead.length) (pre.length + it.lead.length + (it.text k).length) = it.text k := by
      have := slice_mid' (pre ++ it.lead) (it.text k) (Item.renderList k rest ++ z)
      rw [← hT1] at this
      simpa using this
    have hrest := ih (pre ++ it.render k) z hT2
    simp only [List.length_append] at hrest
    simp only [Item.entries, List.map_cons, f1, f2, f3, hsl, hrest]

theorem sub_tagged (k : BK) (T : Str) : ∀ (items : List Item) (pre z : Str),
    T = pre ++ (Item.renderList k items ++ z) →
    ((Item.entries k 1 pre.length items).flatMap (·.entries)).map (fun e => (e.depth, slice T e.begin e.end_))
      = items.flatMap fun it => it.subItems.map fun s => (2, s.text k) := by
  intro items
  induction items with
  | nil => intro _ _ _; rfl
  | cons it rest ih =>
    intro pre z hT
    have hT2 : T = (pre ++ it.render k) ++ (Item.renderList k rest ++ z) := by
      rw [hT]; simp [Item.renderList]
    have hrest := ih (pre ++ it.render k) z hT2
    simp only [List.length_append] at hrest
    simp only [Item.entries, List.flatMap_cons, List.map_append, hrest]
    congr 1
    cases it with
    | elem lead t => simp [Item.entry, Entry.entries, Item.subItems]
    | block lead name sub =>
      have hT3 : T = (pre ++ lead ++ name.render ++ [k.open]) ++ (Item.renderList k sub ++ (k.close :: (Item.renderList k rest ++ z))) := by
        rw [hT]; simp [Item.renderList, Item.render]
      have := entries_tagged k 2 T sub (pre ++ lead ++ name.render ++ [k.open]) _ hT3
      simp only [List.length_append, List.length_cons, List.length_nil] at this
      simp only [Item.entry, Entry.entries, Item.subItems]
      exact this

/-- (depth, text) of the items, then of the items of their nested blocks -/
def tagged (k : BK) (items : List Item) : List (Nat × Str) :=
  (items.map fun it => (1, it.text k)) ++ items.flatMap fun it => it.subItems.map fun s => (2, s.text k)

/-- `parse_pair(name{items}, brackets, delimiters)` = consecutive pairs of the item texts, then of the item texts of the
    nested blocks (`unders` is two levels deep; a pair needs equal depth) -/
theorem parsePair_dict (k : BK) (D : Str) (hD : DelimOK D) (name : Frag) (items : List Item) (hn : TokOK k D name)
    (hw : Item.WFList k D true items) :
    parsePair (name.render ++ k.open :: (Item.renderList k items ++ [k.close])) [k.open, k.close] D
      = .ok (pairTagged (tagged k items)) := by
  have hT : name.render ++ k.open :: (Item.renderList k items ++ [k.close])
      = (name.render ++ [k.open]) ++ (Item.renderList k items ++ [k.close]) := by simp
  have hlev : ∀ x ∈ Item.entries k 1 (name.render ++ [k.open]).length items, x.depth = 1 ∧ ∀ y ∈ x.entries, y.depth = 2 := by
    have key : ∀ (its : List Item) (p : Nat), ∀ x ∈ Item.entries k 1 p its, x.depth = 1 ∧ ∀ y ∈ x.entries, y.depth = 2 := by
      intro its
      induction its with
      | nil => intro p x hx; simp [Item.entries] at hx
      | cons it rest ih =>
        intro p x hx
        simp only [Item.entries, List.mem_cons] at hx
        rcases hx with hx | hx
        · obtain ⟨f1, _, _, f4⟩ := entry_fields k 1 p it
          rw [hx]
          exact ⟨f1, fun y hy => by rw [f4] at hy; exact entries_depth k 2 _ _ y hy⟩
        · exact ih _ x hx
    exact key items _
  have hp0 : name.render.length + 1 = (name.render ++ [k.open]).length := by simp
  have hroot : (Item.entry k 0 0 (Item.block [] name items)).entries = Item.entries k 1 (name.render ++ [k.open]).length items := by
    rw [← hp0]; simp [Item.entry, Entry.entries]
  unfold parsePair
  rw [parse_dict k D hD name items hn hw]
  simp only [bind, Except.bind, Entry.unders, hroot]
  rw [sort_unders _ hlev, pairUp_map, List.map_append]
  rw [entries_tagged k 1 _ items (name.render ++ [k.open]) [k.close] hT]
  rw [sub_tagged k _ items (name.render ++ [k.open]) [k.close] hT]
  rfl

/-- consecutive pairs of a list of texts -/
def pairsOf : List Str → List (Str × Str)
  | a :: b :: rest => (a, b) :: pairsOf rest
  | _ => []

theorem pairTagged_append_even (d : Nat) (B : List (Nat × Str)) : (xs : List Str) → xs.length % 2 = 0 →
    pairTagged (xs.map (fun x => (d, x)) ++ B) = pairsOf xs ++ pairTagged B
  | [], _ => rfl
  | [_], h => by simp at h
  | a :: b :: rest, h => by
    have hr : rest.length % 2 = 0 := by simp only [List.length_cons] at h; omega
    simp only [List.map_cons, List.cons_append, pairTagged, if_true, pairsOf]
    rw [pairTagged_append_even d B rest hr]

theorem pairTagged_same (d : Nat) : (xs : List Str) → pairTagged (xs.map fun x => (d, x)) = pairsOf xs
  | [] => rfl
  | [_] => rfl
  | a :: b :: rest => by
    simp only [List.map_cons, pairTagged, if_true, pairsOf]
    rw [pairTagged_same d rest]

/-- with an even number of items: the (key, value) texts of the dict, then those of the nested dicts -/
theorem parsePair_dict_even (k : BK) (D : Str) (hD : DelimOK D) (name : Frag) (items : List Item) (hn : TokOK k D name)
    (hw : Item.WFList k D true items) (he : items.length % 2 = 0) :
    parsePair (name.render ++ k.open :: (Item.renderList k items ++ [k.close])) [k.open, k.close] D
      = .ok (pairsOf (items.map (Item.text k)) ++ pairsOf (items.flatMap fun it => it.subItems.map (Item.text k))) := by
  rw [parsePair_dict k D hD name items hn hw, tagged]
  have e1 : (items.map fun it => (1, it.text k)) = (items.map (Item.text k)).map fun x => (1, x) := by
    rw [List.map_map]; rfl
  have e2 : (items.flatMap fun it => it.subItems.map fun s => (2, s.text k))
      = (items.flatMap fun it => it.subItems.map (Item.text k)).map fun x => (2, x) := by
    rw [List.map_flatMap]; simp only [List.map_map]; rfl
  rw [e1, e2, pairTagged_append_even 1 _ _ (by simpa using he), pairTagged_same]

end Tranp.Block
